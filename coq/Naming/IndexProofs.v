(** [NamespaceIndex] / [ServiceIndex] (service_index.rs): the nested index lists every inserted
    service key exactly once, drops empty groups / namespaces, and its size counters equal the
    number of listed services. *)
From Coq Require Import ZifyBool ZifyNat ZifyN Permutation.
From RN Require Import Base.Res Base.AMap Base.AMapProofs Naming.Service Naming.Filter Naming.Actor.
Local Open Scope N_scope.
Ltac Zify.zify_post_hook ::= Z.div_mod_to_equations.

Lemma NoDup_app_intro : forall {A} (l l' : list A),
  NoDup l -> NoDup l' -> (forall x, In x l -> ~ In x l') -> NoDup (l ++ l').
Proof.
  induction l as [|a l IH]; cbn; intros l' H1 H2 Hd; auto.
  inversion H1; subst. constructor.
  - rewrite in_app_iff. intros [H|H]; [tauto | eapply Hd; eauto].
  - apply IH; auto.
Qed.

Lemma NoDup_map_inj : forall {A B} (f : A -> B) l, (forall x y, f x = f y -> x = y) -> NoDup l -> NoDup (map f l).
Proof.
  induction l as [|a l IH]; cbn; intros Hi Hn; [constructor|]. inversion Hn; subst. constructor; auto.
  intros H. apply in_map_iff in H. destruct H as [x [E Hx]]. apply Hi in E. subst. tauto.
Qed.

Definition groups_ok (groups : list (N * list N)) : Prop :=
  NoDup (akeys groups) /\ forall g l, gget g groups = Some l -> NoDup l /\ l <> [].

Definition si_mem (si : sindex) (g s : N) : Prop := exists l, gget g (si_groups si) = Some l /\ In s l.

Definition struct_ok (ni : nsindex) : Prop :=
  NoDup (akeys (ni_ns ni)) /\
  forall n si, nget n (ni_ns ni) = Some si -> groups_ok (si_groups si) /\ si_groups si <> [].

Definition ni_mem (ni : nsindex) (k : skey) : Prop :=
  let '(n, g, s) := k in exists si, nget n (ni_ns ni) = Some si /\ si_mem si g s.

Definition index_ok (ni : nsindex) : Prop :=
  struct_ok ni /\
  (forall n si, nget n (ni_ns ni) = Some si -> si_size si = N.of_nat (length (si_keys n si))) /\
  ni_size ni = N.of_nat (length (ni_keys ni)).

Lemma index_ok_init : index_ok (mkNI [] 0).
Proof.
  split; [split; [constructor | intros n si H; discriminate]|]. split; [intros n si H; discriminate | reflexivity].
Qed.

(** membership *)
Lemma in_si_keys : forall n si k, In k (si_keys n si) <->
  exists g l s, k = (n, g, s) /\ In (g, l) (si_groups si) /\ In s l.
Proof.
  intros n si k. unfold si_keys. rewrite in_flat_map. split.
  - intros [[g l] [Hin H]]. cbn in H. apply in_map_iff in H. destruct H as [s [E Hs]]. exists g, l, s. auto.
  - intros (g & l & s & E & Hin & Hs). exists (g, l). split; auto. cbn. apply in_map_iff. exists s. auto.
Qed.

Lemma si_keys_mem : forall n si n' g s, groups_ok (si_groups si) ->
  (In (n', g, s) (si_keys n si) <-> n' = n /\ si_mem si g s).
Proof.
  intros n si n' g s [Hn _]. rewrite in_si_keys. unfold si_mem. split.
  - intros (g' & l & s' & E & Hg & Hl). inversion E; subst. split; auto. exists l. split; auto.
    apply (In_aget_nodup N.eq_dec); auto.
  - intros [-> [l [E Hl]]]. exists g, l, s. split; auto. split; auto. apply aget_In in E; auto.
Qed.

Lemma in_ni_keys : forall ni k, In k (ni_keys ni) <-> exists n si, In (n, si) (ni_ns ni) /\ In k (si_keys n si).
Proof.
  intros. unfold ni_keys. rewrite in_flat_map. split.
  - intros [[n si] [H1 H2]]. eauto.
  - intros (n & si & H1 & H2). exists (n, si). auto.
Qed.

Lemma ni_keys_mem : forall ni k, struct_ok ni -> (In k (ni_keys ni) <-> ni_mem ni k).
Proof.
  intros ni [[n g] s] [Hn Hs]. rewrite in_ni_keys. unfold ni_mem. split.
  - intros (n' & si & Hin & Hk). apply (In_aget_nodup N.eq_dec) in Hin; auto.
    apply si_keys_mem in Hk; [|apply (Hs _ _ Hin)]. destruct Hk as [-> Hm]. eauto.
  - intros (si & E & Hm). exists n, si. split; [apply aget_In in E; auto|].
    apply si_keys_mem; [apply (Hs _ _ E)|]. auto.
Qed.

(** no duplicates *)
Lemma si_keys_nodup : forall n si, groups_ok (si_groups si) -> NoDup (si_keys n si).
Proof.
  intros n si [Hn Hg]. unfold si_keys. revert Hn Hg. induction (si_groups si) as [|[g l] gs IH]; cbn; intros Hn Hg.
  - constructor.
  - inversion Hn; subst. apply NoDup_app_intro.
    + apply NoDup_map_inj; [intros x y E; inversion E; auto|].
      apply (Hg g l). unfold gget. cbn. destruct (N.eq_dec g g); congruence.
    + apply IH; auto. intros g' l' E. apply (Hg g' l'). unfold gget in *. cbn.
      destruct (N.eq_dec g' g); auto. subst. exfalso. apply H1. apply (aget_Some_in N.eq_dec). eauto.
    + intros x Hx Hy. apply in_map_iff in Hx. destruct Hx as [s [E _]]. subst.
      apply in_flat_map in Hy. destruct Hy as [[g' l'] [Hin Hm]]. cbn in Hm.
      apply in_map_iff in Hm. destruct Hm as [s' [E _]]. inversion E; subst.
      apply H1. unfold akeys. apply in_map_iff. exists (g, l'). auto.
Qed.

Lemma struct_ok_nodup : forall ni, struct_ok ni -> NoDup (ni_keys ni).
Proof.
  intros ni (Hn & Hs). unfold ni_keys. revert Hn Hs.
  induction (ni_ns ni) as [|[n si] ns IH]; cbn; intros Hn Hs; [constructor|].
  inversion Hn; subst. apply NoDup_app_intro.
  - apply si_keys_nodup. apply (Hs n si). unfold nget. cbn. destruct (N.eq_dec n n); congruence.
  - apply IH; auto. intros n' si' E. apply (Hs n' si'). unfold nget in *. cbn.
    destruct (N.eq_dec n' n); auto. subst. exfalso. apply H1. apply (aget_Some_in N.eq_dec). eauto.
  - intros x Hx Hy. apply in_si_keys in Hx. destruct Hx as (g & l & s & E & _). subst.
    apply in_flat_map in Hy. destruct Hy as [[n' si'] [Hin Hm]]. cbn in Hm.
    apply in_si_keys in Hm. destruct Hm as (g' & l' & s' & E & _). inversion E; subst.
    apply H1. unfold akeys. apply in_map_iff. exists (n', si'). auto.
Qed.

(** sizes follow from membership *)
Lemma length_add : forall {A} (l l' : list A) k,
  NoDup l -> NoDup l' -> ~ In k l -> (forall x, In x l' <-> x = k \/ In x l) -> length l' = S (length l).
Proof.
  intros A l l' k H1 H2 Hk Hm. change (S (length l)) with (length (k :: l)). apply Permutation_length.
  apply NoDup_Permutation; auto. { constructor; auto. } intros x. rewrite Hm. cbn. split; intros [H|H]; auto.
Qed.

Lemma length_same : forall {A} (l l' : list A),
  NoDup l -> NoDup l' -> (forall x, In x l' <-> In x l) -> length l' = length l.
Proof. intros. apply Permutation_length. apply NoDup_Permutation; auto. Qed.

Lemma nmem_In : forall s l, nmem s l = true <-> In s l.
Proof. intros. apply (smem_In N.eq_dec). Qed.

(** ServiceIndex::insert_service *)
Lemma si_insert_spec : forall si g s, groups_ok (si_groups si) ->
  let r := si_insert si g s in
  groups_ok (si_groups (fst r)) /\ si_groups (fst r) <> [] /\
  (forall g' s', si_mem (fst r) g' s' <-> ((g' = g /\ s' = s) \/ si_mem si g' s')) /\
  (snd r = negb (match gget g (si_groups si) with Some l => nmem s l | None => false end)) /\
  si_size (fst r) = (if snd r then si_size si + 1 else si_size si).
Proof.
  intros si g s [Hn Hg]. unfold si_insert. destruct (gget g (si_groups si)) as [set|] eqn:E.
  - destruct (nmem s set) eqn:M; cbn [fst snd negb].
    + split; [split; auto|]. split; [intros X; rewrite X in E; discriminate|]. split; [|auto].
      intros g' s'. split; [auto|]. intros [[-> ->]|H]; auto. exists set. split; auto. apply nmem_In; auto.
    + cbn [si_groups si_size]. split; [|split; [|split; [|auto]]].
      * split; [apply nodup_aset; auto|]. intros g' l. unfold gset, gget. rewrite aget_aset.
        destruct (N.eq_dec g' g).
        -- intros X; inversion X; subst. split; [|destruct set; discriminate].
           apply NoDup_app_snoc; [apply (Hg g set E)|]. apply (smem_false N.eq_dec); auto.
        -- apply Hg.
      * unfold gset. intros X. pose proof (aget_aset_eq N.eq_dec g (set ++ [s]) (si_groups si)) as Y.
        rewrite X in Y. discriminate.
      * intros g' s'. unfold si_mem; cbn [si_groups]. unfold gset, gget. rewrite aget_aset.
        destruct (N.eq_dec g' g).
        -- subst. split.
           ++ intros [l [X Hl]]. inversion X; subst. apply in_app_iff in Hl. destruct Hl as [Hl|[Hl|[]]]; [right; eauto | left; auto].
           ++ intros [[_ ->]|[l [X Hl]]]; eexists; split; eauto; apply in_app_iff; cbn; auto.
              unfold gget in E. rewrite E in X. inversion X; subst. auto.
        -- split; [intros H; right; auto | intros [[-> _]|H]; [congruence | auto]].
  - cbn [fst snd negb si_groups si_size]. split; [|split; [|split; [|auto]]].
    + split; [apply nodup_aset; auto|]. intros g' l. unfold gset, gget. rewrite aget_aset.
      destruct (N.eq_dec g' g).
      * intros X; inversion X; subst. split; [repeat constructor; auto | discriminate].
      * apply Hg.
    + unfold gset. intros X. pose proof (aget_aset_eq N.eq_dec g [s] (si_groups si)) as Y.
      rewrite X in Y. discriminate.
    + intros g' s'. unfold si_mem; cbn [si_groups]. unfold gset, gget. rewrite aget_aset.
      destruct (N.eq_dec g' g).
      * subst. split.
        -- intros [l [X Hl]]. inversion X; subst. destruct Hl as [Hl|[]]. left; auto.
        -- intros [[_ ->]|[l [X Hl]]]; [eexists; split; eauto; cbn; auto|]. unfold gget in E. congruence.
      * split; [intros H; right; auto | intros [[-> _]|H]; [congruence | auto]].
Qed.

(** ServiceIndex::remove_service *)
Lemma si_remove_spec : forall si g s, groups_ok (si_groups si) ->
  let r := si_remove si g s in
  let si' := fst (fst r) in
  groups_ok (si_groups si') /\
  (forall g' s', si_mem si' g' s' <-> (si_mem si g' s' /\ ~ (g' = g /\ s' = s))) /\
  (snd (fst r) = true <-> si_mem si g s) /\
  snd r = N.of_nat (length (si_groups si')) /\
  si_size si' = (if snd (fst r) then si_size si - 1 else si_size si).
Proof.
  intros si g s [Hn Hg]. unfold si_remove. destruct (gget g (si_groups si)) as [set|] eqn:E.
  - destruct (nmem s set) eqn:M; cbn [fst snd].
    + cbn [si_groups si_size]. pose proof (Hg g set E) as [Hns Hne].
      assert (Hdel : forall x, In x (nsdel s set) <-> x <> s /\ In x set) by (intros; apply (in_sdel N.eq_dec)).
      split; [|split; [|split; [|split; auto]]].
      * destruct (nsdel s set) as [|x xs] eqn:D.
        -- split; [apply nodup_adel; auto|]. intros g' l. unfold gdel, gget. rewrite aget_adel.
           destruct (N.eq_dec g' g); [discriminate | apply Hg].
        -- split; [apply nodup_aset; auto|]. intros g' l. unfold gset, gget. rewrite aget_aset.
           destruct (N.eq_dec g' g); [|apply Hg]. intros X; inversion X; subst. split; [|discriminate].
           rewrite <- D. apply nodup_sdel; auto.
      * intros g' s'. unfold si_mem. cbn [si_groups].
        assert (X : forall l', (match nsdel s set with [] => gdel g (si_groups si) | _ => gset g (nsdel s set) (si_groups si) end) = l' ->
                    forall gg, gget gg l' = if N.eq_dec gg g then (match nsdel s set with [] => None | _ => Some (nsdel s set) end) else gget gg (si_groups si)).
        { intros l' <- gg. destruct (nsdel s set); unfold gdel, gset, gget; [apply aget_adel | apply aget_aset]. }
        rewrite (X _ eq_refl). destruct (N.eq_dec g' g).
        -- subst. split.
           ++ intros [l [Y Hl]]. destruct (nsdel s set) eqn:D; [discriminate|]. inversion Y; subst.
              apply Hdel in Hl. split; [exists set; tauto | intros [_ ->]; tauto].
           ++ intros [[l [Y Hl]] Hneq]. rewrite E in Y. inversion Y; subst.
              assert (In s' (nsdel s l)) by (apply Hdel; split; auto; intros ->; tauto).
              destruct (nsdel s l); [destruct H|]. eexists; split; eauto.
        -- split; [intros H; split; auto; intros [-> _]; congruence | tauto].
      * split; auto. intros _. exists set. split; auto. apply nmem_In; auto.
    + split; [split; auto|]. split; [|split; [|auto]].
      * intros g' s'. split; [|tauto]. intros H; split; auto. intros [-> ->].
        destruct H as [l [X Hl]]. rewrite E in X. inversion X; subst.
        apply nmem_In in Hl. congruence.
      * split; [discriminate|]. intros [l [X Hl]]. rewrite E in X. inversion X; subst.
        apply nmem_In in Hl. congruence.
  - cbn [fst snd]. split; [split; auto|]. split; [|split; [|auto]].
    + intros g' s'. split; [|tauto]. intros H; split; auto. intros [-> ->].
      destruct H as [l [X Hl]]. congruence.
    + split; [discriminate|]. intros [l [X Hl]]. congruence.
Qed.

Lemma si_insert_false : forall si g s, snd (si_insert si g s) = false -> fst (si_insert si g s) = si.
Proof.
  intros si g s. unfold si_insert. destruct (gget g (si_groups si)); [destruct (nmem s l)|]; cbn; auto; discriminate.
Qed.

Lemma si_remove_false : forall si g s, snd (fst (si_remove si g s)) = false -> fst (fst (si_remove si g s)) = si.
Proof.
  intros si g s. unfold si_remove. destruct (gget g (si_groups si)); [destruct (nmem s l)|]; cbn; auto; discriminate.
Qed.

Lemma si_insert_size : forall n si g s, groups_ok (si_groups si) ->
  si_size si = N.of_nat (length (si_keys n si)) ->
  si_size (fst (si_insert si g s)) = N.of_nat (length (si_keys n (fst (si_insert si g s)))).
Proof.
  intros n si g s Hg Hsz. pose proof (si_insert_spec si g s Hg) as (Hg' & _ & Hm & Hb & Hs). cbn zeta in *.
  destruct (snd (si_insert si g s)) eqn:B.
  - rewrite Hs. rewrite (length_add (si_keys n si) (si_keys n (fst (si_insert si g s))) (n, g, s)).
    + lia.
    + apply si_keys_nodup; auto.
    + apply si_keys_nodup; auto.
    + intros H. apply si_keys_mem in H; auto. destruct H as [_ [l [E Hl]]]. rewrite E in Hb.
      apply nmem_In in Hl. rewrite Hl in Hb. discriminate.
    + intros [[n' g'] s']. rewrite !si_keys_mem; auto. rewrite Hm. split.
      * intros [-> [[-> ->]|H]]; auto.
      * intros [E|[-> H]]; [inversion E; subst; auto | auto].
  - rewrite (si_insert_false _ _ _ B). auto.
Qed.

Lemma si_remove_size : forall n si g s, groups_ok (si_groups si) ->
  si_size si = N.of_nat (length (si_keys n si)) ->
  si_size (fst (fst (si_remove si g s))) = N.of_nat (length (si_keys n (fst (fst (si_remove si g s))))).
Proof.
  intros n si g s Hg Hsz. pose proof (si_remove_spec si g s Hg) as (Hg' & Hm & Hb & _ & Hs). cbn zeta in *.
  destruct (snd (fst (si_remove si g s))) eqn:B.
  - rewrite Hs. assert (Hin : si_mem si g s) by (apply Hb; auto).
    pose proof (length_add (si_keys n (fst (fst (si_remove si g s)))) (si_keys n si) (n, g, s)) as L.
    rewrite L in Hsz.
    + lia.
    + apply si_keys_nodup; auto.
    + apply si_keys_nodup; auto.
    + intros H. apply si_keys_mem in H; auto. destruct H as [_ H]. apply Hm in H. tauto.
    + intros [[n' g'] s']. rewrite !si_keys_mem; auto. rewrite Hm. split.
      * intros [-> H]. destruct (N.eq_dec g' g); [destruct (N.eq_dec s' s)|]; subst; auto; right; split; auto; split; auto; intros [? ?]; congruence.
      * intros [E|[-> [H _]]]; [inversion E; subst; auto | auto].
  - rewrite (si_remove_false _ _ _ B). auto.
Qed.

(** replacing / deleting one namespace entry *)
Lemma ni_set_struct : forall ni n si' sz, struct_ok ni -> groups_ok (si_groups si') -> si_groups si' <> [] ->
  struct_ok (mkNI (nset n si' (ni_ns ni)) sz).
Proof.
  intros ni n si' sz [Hn Hs] Hg Hne. split; cbn [ni_ns]; [apply nodup_aset; auto|].
  intros n' si. unfold nset, nget. rewrite aget_aset. destruct (N.eq_dec n' n); [intros X; inversion X; subst; auto | apply Hs].
Qed.

Lemma ni_set_mem : forall ni n si' sz n' g' s',
  ni_mem (mkNI (nset n si' (ni_ns ni)) sz) (n', g', s') <-> if N.eq_dec n' n then si_mem si' g' s' else ni_mem ni (n', g', s').
Proof.
  intros. unfold ni_mem; cbn [ni_ns]. unfold nset, nget. rewrite aget_aset. destruct (N.eq_dec n' n).
  - split; [intros [si [X H]]; inversion X; subst; auto | intros H; eauto].
  - tauto.
Qed.

Lemma ni_del_struct : forall ni n sz, struct_ok ni -> struct_ok (mkNI (ndel n (ni_ns ni)) sz).
Proof.
  intros ni n sz [Hn Hs]. split; cbn [ni_ns]; [apply nodup_adel; auto|].
  intros n' si. unfold ndel, nget. rewrite aget_adel. destruct (N.eq_dec n' n); [discriminate | apply Hs].
Qed.

Lemma ni_del_mem : forall ni n sz n' g' s',
  ni_mem (mkNI (ndel n (ni_ns ni)) sz) (n', g', s') <-> n' <> n /\ ni_mem ni (n', g', s').
Proof.
  intros. unfold ni_mem; cbn [ni_ns]. unfold ndel, nget. rewrite aget_adel. destruct (N.eq_dec n' n).
  - split; [intros [si [X _]]; discriminate | tauto].
  - tauto.
Qed.

Lemma skey_cases : forall (k k' : skey), k' = k \/ k' <> k.
Proof. intros. destruct (skey_eqd k' k); auto. Qed.

(** NamespaceIndex::insert_service *)
Theorem ni_insert_spec : forall ni k, index_ok ni ->
  index_ok (ni_insert ni k) /\ forall k', ni_mem (ni_insert ni k) k' <-> (k' = k \/ ni_mem ni k').
Proof.
  intros ni [[n g] s] (Hst & Hsz & Hn).
  set (si_old := match nget n (ni_ns ni) with Some si => si | None => mkSI [] 0 end).
  assert (Hgo : groups_ok (si_groups si_old)).
  { subst si_old. destruct (nget n (ni_ns ni)) eqn:E; [apply (proj2 Hst _ _ E)|].
    split; cbn; [constructor | intros g' l X; discriminate]. }
  assert (Hso : si_size si_old = N.of_nat (length (si_keys n si_old))).
  { subst si_old. destruct (nget n (ni_ns ni)) eqn:E; [apply Hsz; auto | reflexivity]. }
  assert (Hrel : forall g' s', si_mem si_old g' s' <-> ni_mem ni (n, g', s')).
  { intros g' s'. subst si_old. unfold ni_mem. destruct (nget n (ni_ns ni)) eqn:E.
    - split; [eauto | intros [si [X H]]; inversion X; subst; auto].
    - split; [intros [l [X _]]; discriminate | intros [si [X _]]; discriminate]. }
  assert (Heq : ni_insert ni (n, g, s) =
                mkNI (nset n (fst (si_insert si_old g s)) (ni_ns ni))
                     (if snd (si_insert si_old g s) then ni_size ni + 1 else ni_size ni)).
  { unfold ni_insert. subst si_old. destruct (nget n (ni_ns ni)); destruct (si_insert _ g s); reflexivity. }
  rewrite Heq. clear Heq.
  pose proof (si_insert_spec si_old g s Hgo) as (Hg' & Hne & Hm & Hb & Hs). cbn zeta in *.
  assert (Hmem : forall k', ni_mem (mkNI (nset n (fst (si_insert si_old g s)) (ni_ns ni))
                                    (if snd (si_insert si_old g s) then ni_size ni + 1 else ni_size ni)) k'
                            <-> k' = (n, g, s) \/ ni_mem ni k').
  { intros [[n' g'] s']. rewrite ni_set_mem. destruct (N.eq_dec n' n).
    - subst. rewrite Hm, Hrel. split; [intros [[-> ->]|H]; auto | intros [E|H]; [inversion E; auto | auto]].
    - split; [auto | intros [E|H]; [inversion E; congruence | auto]]. }
  assert (Hst' : struct_ok (mkNI (nset n (fst (si_insert si_old g s)) (ni_ns ni))
                                 (if snd (si_insert si_old g s) then ni_size ni + 1 else ni_size ni)))
    by (apply ni_set_struct; auto).
  split; [|exact Hmem]. split; [exact Hst'|]. split.
  - intros n' si. cbn [ni_ns]. unfold nset, nget. rewrite aget_aset. destruct (N.eq_dec n' n).
    + intros X; inversion X; subst. apply si_insert_size; auto.
    + apply Hsz.
  - cbn [ni_size]. destruct (snd (si_insert si_old g s)) eqn:B.
    + rewrite (length_add (ni_keys ni) (ni_keys (mkNI (nset n (fst (si_insert si_old g s)) (ni_ns ni)) (ni_size ni + 1))) (n, g, s)).
      * lia.
      * apply struct_ok_nodup; auto.
      * apply struct_ok_nodup; auto.
      * intros H. apply ni_keys_mem in H; auto. apply Hrel in H. destruct H as [l [E Hl]].
        rewrite E in Hb. apply nmem_In in Hl. rewrite Hl in Hb. discriminate.
      * intros k'. rewrite !ni_keys_mem; auto; try apply Hmem.
    + rewrite (si_insert_false _ _ _ B) in *.
      rewrite (length_same (ni_keys ni) (ni_keys (mkNI (nset n si_old (ni_ns ni)) (ni_size ni)))); auto.
      * apply struct_ok_nodup; auto.
      * apply struct_ok_nodup; auto.
      * intros k'. rewrite !ni_keys_mem; auto. rewrite Hmem. split; [intros [->|H]; auto | auto].
        apply Hrel. destruct (gget g (si_groups si_old)) as [l|] eqn:E; [|discriminate].
        exists l. split; auto. apply nmem_In. destruct (nmem s l); auto; discriminate.
Qed.

(** NamespaceIndex::remove_service *)
Theorem ni_remove_spec : forall ni k, index_ok ni ->
  index_ok (ni_remove ni k) /\ forall k', ni_mem (ni_remove ni k) k' <-> (k' <> k /\ ni_mem ni k').
Proof.
  intros ni [[n g] s] (Hst & Hsz & Hn). unfold ni_remove.
  destruct (nget n (ni_ns ni)) as [si|] eqn:E.
  - pose proof (proj2 Hst _ _ E) as [Hgo Hneo].
    pose proof (si_remove_spec si g s Hgo) as (Hg' & Hm & Hb & Hl & Hs). cbn zeta in *.
    pose proof (si_remove_size n si g s Hgo (Hsz _ _ E)) as Hsz'.
    destruct (si_remove si g s) as [[si' b] glen] eqn:R. cbn [fst snd] in *.
    assert (Hrel : forall g' s', si_mem si g' s' <-> ni_mem ni (n, g', s')).
    { intros g' s'. unfold ni_mem. split; [eauto | intros [si0 [X H]]; rewrite E in X; inversion X; subst; auto]. }
    set (sz := if b then ni_size ni - 1 else ni_size ni).
    assert (Hcommon : forall ni', struct_ok ni' ->
              (forall k', ni_mem ni' k' <-> (k' <> (n, g, s) /\ ni_mem ni k')) ->
              ni_size ni' = sz ->
              ni_size ni' = N.of_nat (length (ni_keys ni'))).
    { intros ni' Hst' Hmem' Hsize. rewrite Hsize. subst sz. destruct b.
      - assert (Hin : ni_mem ni (n, g, s)) by (apply Hrel; apply Hb; auto).
        pose proof (length_add (ni_keys ni') (ni_keys ni) (n, g, s)) as L. rewrite L in Hn.
        + lia.
        + apply struct_ok_nodup; auto.
        + apply struct_ok_nodup; auto.
        + intros H. apply ni_keys_mem in H; auto. apply Hmem' in H. tauto.
        + intros k'. rewrite !ni_keys_mem; auto. rewrite Hmem'. destruct (skey_cases (n, g, s) k'); [subst; tauto | tauto].
      - rewrite (length_same (ni_keys ni) (ni_keys ni')); auto.
        + apply struct_ok_nodup; auto.
        + apply struct_ok_nodup; auto.
        + intros k'. rewrite !ni_keys_mem; auto. rewrite Hmem'. split; [tauto|]. intros H; split; auto.
          intros ->. apply Hrel in H. apply Hb in H. discriminate. }
    destruct (glen =? 0) eqn:G.
    + (* the namespace entry disappears: its last group is gone *)
      assert (Hempty : forall g' s', ~ si_mem si' g' s').
      { intros g' s' [l [X _]]. apply N.eqb_eq in G. rewrite Hl in G.
        destruct (si_groups si'); [discriminate | cbn in G; lia]. }
      assert (Hmem' : forall k', ni_mem (mkNI (ndel n (ni_ns ni)) sz) k' <-> k' <> (n, g, s) /\ ni_mem ni k').
      { intros [[n' g'] s']. rewrite ni_del_mem. split.
        - intros [Hne H]. split; auto. intros X; inversion X; congruence.
        - intros [Hne H]. split; auto. intros ->. apply Hrel in H.
          destruct (N.eq_dec g' g) as [eg|eg]; [destruct (N.eq_dec s' s) as [es|es]|].
          + apply Hne. congruence.
          + apply (Hempty g' s'); apply Hm; split; auto; intros [? ?]; congruence.
          + apply (Hempty g' s'); apply Hm; split; auto; intros [? ?]; congruence. }
      split; [|exact Hmem']. split; [apply ni_del_struct; auto|]. split.
      * intros n' si0. cbn [ni_ns]. unfold ndel, nget. rewrite aget_adel.
        destruct (N.eq_dec n' n); [discriminate | apply Hsz].
      * apply Hcommon; auto. apply ni_del_struct; auto.
    + assert (Hne' : si_groups si' <> []).
      { intros X. rewrite X in Hl. cbn in Hl. subst glen. discriminate. }
      assert (Hmem' : forall k', ni_mem (mkNI (nset n si' (ni_ns ni)) sz) k' <-> k' <> (n, g, s) /\ ni_mem ni k').
      { intros [[n' g'] s']. rewrite ni_set_mem. destruct (N.eq_dec n' n).
        - subst. rewrite Hm, Hrel. split.
          + intros [H Hne]. split; auto. intros X; inversion X; subst; tauto.
          + intros [Hne H]. split; auto. intros [-> ->]. tauto.
        - split; [intros H; split; auto; intros X; inversion X; congruence | tauto]. }
      split; [|exact Hmem']. split; [apply ni_set_struct; auto|]. split.
      * intros n' si0. cbn [ni_ns]. unfold nset, nget. rewrite aget_aset.
        destruct (N.eq_dec n' n); [intros X; inversion X; subst; auto | apply Hsz].
      * apply Hcommon; auto. apply ni_set_struct; auto.
  - split; [split; auto|]. intros [[n' g'] s']. split; [|tauto]. intros H; split; auto.
    intros X; inversion X; subst. destruct H as [si [X' _]]. congruence.
Qed.

(** the two facts the registry invariant uses *)
Lemma index_ok_nodup : forall ni, index_ok ni -> NoDup (ni_keys ni).
Proof. intros ni [H _]. apply struct_ok_nodup; auto. Qed.

Lemma index_keys_mem : forall ni k, index_ok ni -> (In k (ni_keys ni) <-> ni_mem ni k).
Proof. intros ni k [H _]. apply ni_keys_mem; auto. Qed.
