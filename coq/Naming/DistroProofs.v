(** Proofs about the distro ownership model (C14): for every cluster view with at least one
    live node and every hash value there is exactly one live node that considers itself the
    owner, and every live node routes the key to precisely that node. *)
From RN Require Import Naming.Distro.
From Coq Require Import ZArith ZifyBool ZifyNat ZifyN.
Ltac Zify.zify_post_hook ::= Z.div_mod_to_equations.
Local Open Scope N_scope.

(** * [position] versus [nth_error] *)

Lemma position_nth : forall n l i, position n l = Some i -> nth_error l i = Some n.
Proof.
  induction l as [|a l IH]; cbn [position]; intros i H; [discriminate|].
  destruct (a =? n) eqn:E.
  - inversion H; subst. apply N.eqb_eq in E. subst. reflexivity.
  - destruct (position n l) as [j|] eqn:P; cbn [option_map] in H; inversion H; subst.
    cbn [nth_error]. apply IH. reflexivity.
Qed.

Lemma position_lt : forall n l i, position n l = Some i -> (i < length l)%nat.
Proof.
  intros n l i H. apply position_nth in H. apply nth_error_Some. congruence.
Qed.

Lemma position_In : forall n l, In n l -> exists i, position n l = Some i.
Proof.
  induction l as [|a l IH]; cbn [position In]; intros H; [contradiction|].
  destruct (a =? n) eqn:E; [eexists; reflexivity|].
  destruct H as [H|H]; [subst; rewrite N.eqb_refl in E; discriminate|].
  destruct (IH H) as [i Hi]. rewrite Hi. eexists; reflexivity.
Qed.

Lemma nth_position : forall l i n, NoDup l -> nth_error l i = Some n -> position n l = Some i.
Proof.
  induction l as [|a l IH]; intros [|i] n ND H; cbn [nth_error position] in *; try discriminate.
  - inversion H; subst. rewrite N.eqb_refl. reflexivity.
  - inversion ND as [|? ? Hnotin ND']; subst.
    destruct (a =? n) eqn:E.
    + apply N.eqb_eq in E; subst. exfalso. apply Hnotin. eapply nth_error_In; eassumption.
    + rewrite (IH i n ND' H). reflexivity.
Qed.

(** * views *)

Lemma NoDup_map_filter : forall (A B : Type) (f : A -> B) (p : A -> bool) (l : list A),
  NoDup (map f l) -> NoDup (map f (filter p l)).
Proof.
  induction l as [|a l IH]; cbn [map filter]; intros ND; [constructor|].
  inversion ND as [|? ? Hnotin ND']; subst.
  destruct (p a); cbn [map]; [|auto].
  constructor; [|auto].
  intro Hin. apply Hnotin. apply in_map_iff in Hin. destruct Hin as [x [Hx Hin]].
  apply filter_In in Hin. apply in_map_iff. exists x. tauto.
Qed.

Lemma NoDup_live_ids : forall v, NoDup (ids v) -> NoDup (live_ids v).
Proof. intros v. apply NoDup_map_filter. Qed.

Lemma NoDup_ids_status : forall (v : view) a b b',
  NoDup (ids v) -> In (a, b) v -> In (a, b') v -> b = b'.
Proof.
  unfold ids. induction v as [|[x y] v IH]; cbn [map In fst]; intros a b b' ND H1 H2; [contradiction|].
  inversion ND as [|? ? Hnotin ND']; subst.
  destruct H1 as [H1|H1]; destruct H2 as [H2|H2].
  - congruence.
  - inversion H1; subst. exfalso. apply Hnotin. apply in_map_iff. exists (a, b'). auto.
  - inversion H2; subst. exfalso. apply Hnotin. apply in_map_iff. exists (a, b). auto.
  - eapply IH; eassumption.
Qed.

Lemma live_In : forall v n, live v n <-> In (n, true) v.
Proof.
  unfold live, live_ids. intros v n. rewrite in_map_iff. split.
  - intros [[a b] [Hf Hin]]. apply filter_In in Hin. cbn [fst snd] in *. destruct Hin as [Hin Hb].
    subst. exact Hin.
  - intros H. exists (n, true). split; [reflexivity|]. apply filter_In. auto.
Qed.

Lemma liveb_live : forall v n, liveb v n = true <-> live v n.
Proof.
  unfold liveb, live. intros v n. rewrite existsb_exists. split.
  - intros [x [Hin E]]. apply N.eqb_eq in E. subst. exact Hin.
  - intros H. exists n. split; [exact H|apply N.eqb_refl].
Qed.

(** a live node's own notion of validity ([is_local || Valid]) coincides with the status *)
Lemma filter_valid_for_live : forall v n,
  NoDup (ids v) -> live v n -> filter (valid_for n) v = filter snd v.
Proof.
  intros v n ND L. apply filter_ext_in. intros [a b] Hin. unfold valid_for. cbn [fst snd].
  destruct (a =? n) eqn:E; [|reflexivity].
  apply N.eqb_eq in E. subst. apply live_In in L.
  rewrite (NoDup_ids_status v n b true ND Hin L). reflexivity.
Qed.

Lemma live_nonempty : forall v n, live v n -> v <> [].
Proof. intros v n L E. subst. exact L. Qed.

Lemma range_of_live : forall v n,
  NoDup (ids v) -> live v n ->
  exists i, position n (live_ids v) = Some i /\
            range_of v n = (N.of_nat i, N.of_nat (length (live_ids v))).
Proof.
  intros v n ND L. destruct (position_In n (live_ids v) L) as [i Hi]. exists i. split; [exact Hi|].
  unfold range_of. destruct v as [|p v]; [contradiction (live_nonempty _ _ L); reflexivity|].
  rewrite (filter_valid_for_live _ _ ND L). fold (live_ids (p :: v)). rewrite Hi. reflexivity.
Qed.

Lemma route_live : forall v m h,
  v <> [] -> live_ids v <> [] ->
  exists n, nth_error (live_ids v) (N.to_nat (h mod N.of_nat (length (live_ids v)))) = Some n /\
            route v m h = RTo (h mod N.of_nat (length (live_ids v))) n (n =? m).
Proof.
  intros v m h Hv Hl. unfold route, all_nodes. destruct v as [|p v]; [contradiction|].
  set (L := live_ids (p :: v)) in *.
  assert (Hlen : (0 < length L)%nat) by (destruct L; [contradiction|cbn; lia]).
  destruct (nth_error L (N.to_nat (h mod N.of_nat (length L)))) as [n|] eqn:E.
  - exists n. split; [reflexivity|]. destruct L; [contradiction|reflexivity].
  - exfalso. apply nth_error_None in E. lia.
Qed.

(** the unreachable [unwrap] of [route_addr] never fires *)
Lemma route_no_panic : forall v m h, route v m h <> RPanic.
Proof.
  intros v m h. unfold route.
  destruct (live_ids (all_nodes v m)) as [|a L] eqn:EL; [discriminate|].
  destruct (nth_error (a :: L) (N.to_nat (h mod N.of_nat (length (a :: L))))) eqn:E; [discriminate|].
  exfalso. apply nth_error_None in E. cbn [length] in E. lia.
Qed.

(** * the owner *)

(** the designated owner: the node at position [h mod live] among the live nodes *)
Definition owner (v : view) (h : N) : option N :=
  nth_error (live_ids v) (N.to_nat (h mod N.of_nat (length (live_ids v)))).

Lemma owner_some : forall v h, live_ids v <> [] -> exists n, owner v h = Some n /\ live v n.
Proof.
  intros v h Hl. unfold owner.
  assert (Hlen : (0 < length (live_ids v))%nat) by (destruct (live_ids v); [contradiction|cbn; lia]).
  destruct (nth_error (live_ids v) (N.to_nat (h mod N.of_nat (length (live_ids v))))) as [n|] eqn:E.
  - exists n. split; [reflexivity|]. eapply nth_error_In; eassumption.
  - exfalso. apply nth_error_None in E. lia.
Qed.

Lemma owns_iff_owner : forall v h n,
  NoDup (ids v) -> live v n -> (owns v n h = true <-> owner v h = Some n).
Proof.
  intros v h n ND L. unfold owns, owner.
  destruct (range_of_live v n ND L) as [i [Hi Hr]]. rewrite Hr. unfold is_range. cbn [fst snd].
  pose proof (position_nth _ _ _ Hi) as Hnth. pose proof (position_lt _ _ _ Hi) as Hlt.
  pose proof (NoDup_live_ids v ND) as NDL.
  set (len := length (live_ids v)) in *.
  destruct (N.of_nat len <? 2) eqn:E2.
  - (* at most one valid node: it owns everything, and it is the node at index 0 *)
    assert (len = 1%nat) by lia. assert (i = 0%nat) by lia. subst i.
    replace (N.to_nat (h mod N.of_nat len)) with 0%nat by lia. cbn [orb]. tauto.
  - cbn [orb]. split.
    + intros E. replace (N.to_nat (h mod N.of_nat len)) with i by lia. exact Hnth.
    + intros E. pose proof (nth_position _ _ _ NDL E) as P. rewrite Hi in P. inversion P. lia.
Qed.

Lemma route_target_owner : forall v m h,
  live_ids v <> [] -> route_target v m h = owner v h.
Proof.
  intros v m h Hl. assert (Hv : v <> []) by (intro; subst; apply Hl; reflexivity).
  destruct (route_live v m h Hv Hl) as [n [Hn Hr]]. unfold route_target, owner. rewrite Hr, Hn. reflexivity.
Qed.

Lemma exists_live_nonempty : forall v, (exists n, live v n) -> live_ids v <> [].
Proof. intros v [n L] E. unfold live in L. rewrite E in L. exact L. Qed.

(** exactly one live node considers itself the owner of a hash value *)
Theorem exactly_one_owner : forall v h,
  NoDup (ids v) -> (exists n, live v n) ->
  exists! n, live v n /\ owns v n h = true.
Proof.
  intros v h ND Hex. apply exists_live_nonempty in Hex.
  destruct (owner_some v h Hex) as [n [Ho L]]. exists n. split.
  - split; [exact L|]. apply owns_iff_owner; assumption.
  - intros n' [L' O']. apply owns_iff_owner in O'; try assumption. congruence.
Qed.

(** every live node routes a key to a node that considers itself the owner, and only to it *)
Theorem route_hits_owner : forall v h m n,
  NoDup (ids v) -> live v m ->
  (route_target v m h = Some n <-> live v n /\ owns v n h = true).
Proof.
  intros v h m n ND Lm.
  assert (Hl : live_ids v <> []) by (apply exists_live_nonempty; eauto).
  rewrite (route_target_owner v m h Hl). split.
  - intros Ho. assert (L : live v n) by (unfold owner in Ho; eapply nth_error_In; eassumption).
    split; [exact L|]. apply owns_iff_owner; assumption.
  - intros [L O]. apply owns_iff_owner in O; assumption.
Qed.

(** the statement of C14 *)
Theorem one_owner_and_route_agrees : forall v h,
  NoDup (ids v) -> (exists n, live v n) ->
  exists n,
    (live v n /\ owns v n h = true) /\
    (forall n', live v n' -> owns v n' h = true -> n' = n) /\
    (forall m, live v m -> route_target v m h = Some n).
Proof.
  intros v h ND Hex. destruct (exactly_one_owner v h ND Hex) as [n [[L O] U]].
  exists n. split; [tauto|]. split.
  - intros n' L' O'. symmetry. apply U. tauto.
  - intros m Lm. apply route_hits_owner; tauto.
Qed.

(** computational form used by the oracle of the check: the list of self-declared owners
    among the live nodes is a singleton *)
Lemma filter_singleton : forall (f : N -> bool) (l : list N) n,
  NoDup l -> In n l -> f n = true -> (forall x, In x l -> f x = true -> x = n) -> filter f l = [n].
Proof.
  induction l as [|a l IH]; intros n ND Hin Hf U; [contradiction|].
  inversion ND as [|? ? Hnotin ND']; subst. cbn [filter].
  destruct Hin as [Hin|Hin].
  - subst a. rewrite Hf. f_equal.
    assert (Hnone : forall x, In x l -> f x = false).
    { intros x Hx. destruct (f x) eqn:E; [|reflexivity]. exfalso.
      assert (x = n) by (apply U; [right; exact Hx|exact E]). subst. contradiction. }
    clear -Hnone. induction l as [|b l IH]; [reflexivity|]. cbn [filter].
    rewrite (Hnone b (or_introl eq_refl)). apply IH. intros x Hx. apply Hnone. right. exact Hx.
  - destruct (f a) eqn:E.
    + exfalso. assert (a = n) by (apply U; [left; reflexivity|exact E]). subst. contradiction.
    + apply IH; auto. intros x Hx. apply U. right. exact Hx.
Qed.

Theorem owners_singleton : forall v h,
  NoDup (ids v) -> (exists n, live v n) ->
  exists n, owners v h = [n] /\ forall m, live v m -> route_target v m h = Some n.
Proof.
  intros v h ND Hex. destruct (one_owner_and_route_agrees v h ND Hex) as [n [[L O] [U R]]].
  exists n. split; [|exact R]. unfold owners.
  apply filter_singleton; auto using NoDup_live_ids.
Qed.

(** before the first UpdateNodes (empty map) the node answers itself and owns every key *)
Theorem empty_view_self_owner : forall local h,
  owns [] local h = true /\ route [] local h = RTo 0 local true.
Proof.
  intros local h. split; [reflexivity|].
  unfold route, all_nodes, live_ids. cbn [filter snd map fst length].
  replace (h mod N.of_nat 1) with 0 by lia. cbn [N.to_nat nth_error]. rewrite N.eqb_refl. reflexivity.
Qed.

(** * sorted views (BTreeMap order) are duplicate-free *)

Lemma ascending_lt_all : forall l x, ascending (x :: l) = true -> Forall (fun y => x < y) l.
Proof.
  induction l as [|y l IH]; intros x H; [constructor|].
  cbn [ascending] in H. apply andb_prop in H. destruct H as [Hxy Hasc].
  constructor; [lia|].
  specialize (IH y Hasc). eapply Forall_impl; [|exact IH]. cbn beta. intros z Hz. lia.
Qed.

Lemma ascending_tail : forall l x, ascending (x :: l) = true -> ascending l = true.
Proof.
  intros [|y l] x H; [reflexivity|]. cbn [ascending] in H. apply andb_prop in H. tauto.
Qed.

Lemma ascending_NoDup : forall l, ascending l = true -> NoDup l.
Proof.
  induction l as [|x l IH]; intros H; [constructor|].
  constructor.
  - intro Hin. pose proof (ascending_lt_all l x H) as F. rewrite Forall_forall in F.
    specialize (F x Hin). lia.
  - apply IH. eapply ascending_tail; eassumption.
Qed.

(** the form of the statement over sorted views, as in DESIGN.md *)
Theorem one_owner_and_route_agrees_sorted : forall v h,
  ascending (ids v) = true -> (exists n, live v n) ->
  exists! n, live v n /\ owns v n h = true /\ (forall m, live v m -> route_target v m h = Some n).
Proof.
  intros v h Hs Hex. pose proof (ascending_NoDup _ Hs) as ND.
  destruct (one_owner_and_route_agrees v h ND Hex) as [n [[L O] [U R]]].
  exists n. split; [tauto|]. intros n' [L' [O' _]]. symmetry. apply U; assumption.
Qed.

(** liveness of a node does not depend on who looks: all live nodes of a view compute the
    ranges from the same list, so the owner is the same whichever live node computes it *)
Theorem all_live_nodes_agree : forall v h m1 m2,
  NoDup (ids v) -> live v m1 -> live v m2 -> route_target v m1 h = route_target v m2 h.
Proof.
  intros v h m1 m2 ND L1 L2.
  assert (Hl : live_ids v <> []) by (apply exists_live_nonempty; eauto).
  rewrite !route_target_owner by assumption. reflexivity.
Qed.

(** no service key is left without an owner because some node is down: taking a node out of
    the live set leaves exactly one owner among the remaining ones *)
Definition mark_down (d : N) (v : view) : view :=
  map (fun p => if fst p =? d then (fst p, false) else p) v.

Lemma ids_mark_down : forall d v, ids (mark_down d v) = ids v.
Proof.
  unfold ids, mark_down. intros d v. rewrite map_map. apply map_ext.
  intros [a b]. cbn [fst]. destruct (a =? d); reflexivity.
Qed.

Lemma live_mark_down : forall d v n, n <> d -> live v n -> live (mark_down d v) n.
Proof.
  intros d v n Hne L. apply live_In. apply live_In in L. unfold mark_down. apply in_map_iff.
  exists (n, true). cbn [fst]. apply N.eqb_neq in Hne. rewrite Hne. auto.
Qed.

Theorem node_down_still_one_owner : forall v d h,
  NoDup (ids v) -> (exists n, n <> d /\ live v n) ->
  exists! n, live (mark_down d v) n /\ owns (mark_down d v) n h = true.
Proof.
  intros v d h ND [n [Hne L]]. apply exactly_one_owner.
  - rewrite ids_mark_down. exact ND.
  - exists n. apply live_mark_down; assumption.
Qed.

(** * non-vacuity: concrete views *)

Example view_1down : view := [(1, false); (2, true); (3, true)].

Example view_1down_hyps : NoDup (ids view_1down) /\ ascending (ids view_1down) = true /\ live view_1down 2.
Proof.
  split; [|split; [reflexivity|apply liveb_live; reflexivity]].
  apply ascending_NoDup. reflexivity.
Qed.

Example view_1down_ranges :
  range_of view_1down 2 = (0, 2) /\ range_of view_1down 3 = (1, 2) /\
  owners view_1down 10 = [2] /\ owners view_1down 11 = [3] /\
  route view_1down 3 10 = RTo 0 2 false /\ route view_1down 3 11 = RTo 1 3 true.
Proof. vm_compute. repeat split. Qed.

Example view_5_two_down : view := [(1, true); (2, false); (3, true); (4, false); (5, true)].

Example view_5_two_down_owner :
  NoDup (ids view_5_two_down) /\ live view_5_two_down 5 /\
  map (fun h => owners view_5_two_down h) [0; 1; 2; 3; 4; 5] = [[1]; [3]; [5]; [1]; [3]; [5]] /\
  map (fun h => route_target view_5_two_down 1 h) [0; 1; 2] = [Some 1; Some 3; Some 5].
Proof.
  split; [apply ascending_NoDup; reflexivity|]. split; [apply liveb_live; reflexivity|].
  vm_compute. split; reflexivity.
Qed.
