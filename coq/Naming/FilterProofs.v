(** C12 (query part): what the instance queries return, exactly. *)
From Coq Require Import ZifyBool ZifyNat ZifyN QArith.
From RN Require Import Base.Res Base.AMap Base.AMapProofs Naming.Service Naming.ServiceProofs
  Naming.Filter Naming.Actor Naming.IndexProofs Naming.ActorProofs.
Local Open Scope N_scope.
Ltac Zify.zify_post_hook ::= Z.div_mod_to_equations.

Definition mark (i : inst) : inst := if negb (i_healthy i) then set_healthy i true else i.

(** the instances a query may return: registered (still stored) and enabled *)
Definition live (s : service) : list inst := filter i_enabled (avals (s_insts s)).

Lemma svc_all_enabled : forall s, svc_all_instances s false true = live s.
Proof.
  intros. unfold svc_all_instances, live. apply filter_ext. intros x. cbn. rewrite orb_false_r, orb_true_r, andb_true_r. reflexivity.
Qed.

Lemma live_spec : forall a k s i, Inv a -> sget k (a_svcs a) = Some s ->
  (In i (live s) <-> exists ik, stored a k ik = Some i /\ i_enabled i = true).
Proof.
  intros a k s i H E. unfold live, stored. rewrite E. rewrite filter_In.
  destruct (proj2 (proj1 H) k s E) as (Hn & _). rewrite (in_avals_aget ikey_eqd); auto.
  split; [intros [[ik X] Y]; eauto | intros [ik [X Y]]; eauto].
Qed.

Lemma live_nodup : forall s, svc_inv s -> NoDup (map i_key (live s)).
Proof. intros s (Hn & Hk & _). unfold live. apply NoDup_map_filter. apply avals_keys_nodup; auto. Qed.

Lemma mark_key : forall l, map i_key (mark_all_healthy l) = map i_key l.
Proof. intros. unfold mark_all_healthy. rewrite map_map. apply map_ext. intros i. destruct (negb (i_healthy i)); reflexivity. Qed.

(** the protection test over exact rationals: healthy/total <= num/den, false on an empty list *)
Theorem protect_reached_rational : forall l num den, den <> 0 ->
  (protect_reached l (num, den) = true <->
   l <> [] /\
   (Z.of_N (healthy_count l) # N.succ_pos (N.pred (N.of_nat (length l))) <= Z.of_N num # N.succ_pos (N.pred den))%Q).
Proof.
  intros l num den Hd. unfold protect_reached. cbn [fst snd].
  destruct (N.of_nat (length l) =? 0) eqn:E.
  - apply N.eqb_eq in E. split; [discriminate|]. intros [H _]. destruct l; [tauto | cbn in E; lia].
  - apply N.eqb_neq in E. rewrite N.leb_le. unfold Qle. cbn [Qnum Qden].
    assert (P1 : Z.pos (N.succ_pos (N.pred (N.of_nat (length l)))) = Z.of_N (N.of_nat (length l))).
    { rewrite <- (N.succ_pred (N.of_nat (length l))) at 2; auto. rewrite <- N.succ_pos_spec. reflexivity. }
    assert (P2 : Z.pos (N.succ_pos (N.pred den)) = Z.of_N den).
    { rewrite <- (N.succ_pred den) at 2; auto. rewrite <- N.succ_pos_spec. reflexivity. }
    rewrite P1, P2. split.
    + intros H. split; [intros ->; cbn in E; lia | nia].
    + intros [_ H]. nia.
Qed.

(** QueryList / QueryListString *)
Theorem query_exact : forall a k s b,
  Inv a -> sget k (a_svcs a) = Some s ->
  let reached := protect_reached (live s) (s_thr s) in
  (forall i', In i' (get_instance_list a k b) <->
              exists i, In i (live s) /\
                        (if reached then i' = mark i else i' = i /\ (b = true -> i_healthy i = true))) /\
  NoDup (map i_key (get_instance_list a k b)).
Proof.
  intros a k s b H E reached. unfold get_instance_list. rewrite E. rewrite svc_all_enabled.
  unfold default_instance_filter. fold reached.
  pose proof (live_nodup s (proj2 (proj1 H) k s E)) as Hn.
  destruct reached.
  - split; [|rewrite mark_key; auto]. intros i'. unfold mark_all_healthy. rewrite in_map_iff.
    split; [intros [i [X Y]]; exists i; split; auto | intros [i [X Y]]; exists i; split; auto].
  - destruct b.
    + split; [|apply NoDup_map_filter; auto]. intros i'. rewrite filter_In.
      split; [intros [X Y]; exists i'; auto | intros [i [X [-> Y]]]; auto].
    + split; auto. intros i'. split; [intros X; exists i'; split; auto; split; auto; discriminate | intros [i [X [-> _]]]; auto].
Qed.

Theorem query_absent_service : forall a k b, sget k (a_svcs a) = None -> get_instance_list a k b = [].
Proof. intros. unfold get_instance_list. rewrite H. reflexivity. Qed.

(** QueryServiceInfo: same hosts, plus the flag *)
Theorem service_info_exact : forall a k s b,
  sget k (a_svcs a) = Some s ->
  get_service_info a k b = (get_instance_list a k b, protect_reached (live s) (s_thr s)).
Proof.
  intros. unfold get_service_info, get_instance_list. rewrite H. rewrite svc_all_enabled.
  unfold default_service_filter, default_instance_filter. destruct (protect_reached _ _); reflexivity.
Qed.

(** nothing deregistered or foreign is returned: every host is a stored instance of that service
    (possibly shown healthy under protection) *)
Corollary query_only_registered : forall a k s b i',
  Inv a -> sget k (a_svcs a) = Some s -> In i' (get_instance_list a k b) ->
  exists ik i, stored a k ik = Some i /\ i_enabled i = true /\ (i' = i \/ i' = set_healthy i true).
Proof.
  intros a k s b i' H E Hin. destruct (query_exact a k s b H E) as [Q _]. cbn zeta in Q.
  apply Q in Hin. destruct Hin as [i [Hl Hc]]. apply (live_spec a k s i H E) in Hl. destruct Hl as [ik [X Y]].
  exists ik, i. split; auto. split; auto. destruct (protect_reached _ _).
  - subst. unfold mark. destruct (negb (i_healthy i)); auto.
  - destruct Hc; auto.
Qed.

(** no registered enabled address is missing when healthy-only is off *)
Corollary query_all_enabled_present : forall a k s ik i,
  Inv a -> sget k (a_svcs a) = Some s -> stored a k ik = Some i -> i_enabled i = true ->
  exists i', In i' (get_instance_list a k false) /\ i_key i' = i_key i.
Proof.
  intros a k s ik i H E St En. destruct (query_exact a k s false H E) as [Q _]. cbn zeta in Q.
  assert (Hl : In i (live s)) by (apply (live_spec a k s i H E); eauto).
  destruct (protect_reached (live s) (s_thr s)) eqn:R.
  - exists (mark i). split; [apply Q; exists i; auto|]. unfold mark. destruct (negb _); reflexivity.
  - exists i. split; auto. apply Q. exists i. split; auto. split; auto. discriminate.
Qed.
