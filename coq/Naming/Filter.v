(** Model of [src/naming/filter.rs] ([InstanceFilterUtils]).  The test
    [(healthy_count as f32) / (total as f32) <= threshold] is modelled over exact rationals:
    threshold = num/den (den > 0), so the test is [healthy * den <= num * total] for total > 0 and
    false for total = 0 (0/0 is NaN in the code).  Binary32 rounding is NOT modelled; the harness
    only uses thresholds in {0, 1/4, 1/2, 3/4, 1} and fewer than 2^20 instances, where the two agree. *)
From RN Require Import Base.Res Base.AMap Naming.Service.
Local Open Scope N_scope.

Definition healthy_count (l : list inst) : N := N.of_nat (length (filter i_healthy l)).

Definition protect_reached (l : list inst) (thr : N * N) : bool :=
  let total := N.of_nat (length l) in
  if total =? 0 then false else healthy_count l * snd thr <=? fst thr * total.

Definition mark_all_healthy (l : list inst) : list inst :=
  map (fun i => if negb (i_healthy i) then set_healthy i true else i) l.

(** [default_instance_filter] with [metadata = Some _] *)
Definition default_instance_filter (l : list inst) (thr : N * N) (filter_healthy : bool) : list inst :=
  if protect_reached l thr then mark_all_healthy l
  else if filter_healthy then filter i_healthy l else l.

(** [default_service_filter]: hosts and [reach_protection_threshold]; [thr = None] when the
    service does not exist *)
Definition default_service_filter (l : list inst) (thr : option (N * N)) (filter_healthy : bool)
  : list inst * bool :=
  match thr with
  | Some t =>
      if protect_reached l t then (mark_all_healthy l, true)
      else ((if filter_healthy then filter i_healthy l else l), false)
  | None => ((if filter_healthy then filter i_healthy l else l), false)
  end.
