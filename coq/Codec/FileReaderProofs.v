(** FileMessageReader: positions and contents of the k-th record; end detection. *)
From RN Require Import Base.Res Codec.Varint Codec.BufReader Codec.VarintBits Codec.VarintProofs
  Codec.BufReaderProofs.
From Coq Require Import ZifyBool ZifyNat ZifyN.
Local Open Scope nat_scope.

Lemma skipn_app_exact {A} (pre l : list A) : skipn (length pre) (pre ++ l) = l.
Proof. rewrite skipn_app, skipn_all, Nat.sub_diag. reflexivity. Qed.

Lemma write_varint_length_le L : (L < 2 ^ 64)%N -> 1 <= length (write_varint L) <= 10.
Proof.
  intros HL. destruct (varint_canonical L HL) as (cs & last & Heq & _ & _ & Hlen).
  rewrite Heq, app_length. cbn [length]. lia.
Qed.

Lemma repeat0_all_bytes n : all_bytes (repeat 0%N n).
Proof. apply Forall_forall. intros x Hx. apply repeat_spec in Hx. subst. unfold is_byte. lia. Qed.

Lemma read_len_frame pre b tail :
  rec_ok b -> all_bytes tail ->
  let file := pre ++ frame b ++ tail in
  let r := mkFmr file (length pre) (length pre) in
  fmr_read_len r = Ok (N.of_nat (length (frame b)), r).
Proof.
  intros Hb Ht file r. destruct Hb as (Hne & Hab & HL).
  set (L := N.of_nat (length b)) in *.
  pose proof (write_varint_length_le L HL) as Hw.
  unfold fmr_read_len, file_read, r, file. cbn [fbytes fpos fstart].
  rewrite skipn_app_exact. unfold frame. fold L. rewrite <- app_assoc.
  rewrite firstn_app.
  rewrite (firstn_all2 (n:=10) (write_varint L)) by lia.
  set (q := firstn (10 - length (write_varint L)) (b ++ tail)).
  destruct (length (write_varint L ++ q) =? 0) eqn:E0; [rewrite app_length in E0; lia|].
  rewrite <- app_assoc.
  rewrite varint_roundtrip_list; [|exact HL|].
  - assert (HL1 : (1 <= L)%N) by (destruct b; [congruence|cbn [length] in L; lia]).
    destruct (L =? 0)%N eqn:EL; [lia|].
    rewrite <- (varint_sizeof L HL). f_equal. f_equal.
    rewrite app_length. unfold L. lia.
  - apply all_bytes_app; [|apply repeat0_all_bytes].
    unfold q. apply all_bytes_firstn, all_bytes_app; assumption.
Qed.

Lemma read_next_position_frame pre b tail :
  rec_ok b -> all_bytes tail ->
  let file := pre ++ frame b ++ tail in
  fmr_read_next_position (mkFmr file (length pre) (length pre))
  = Ok ((N.of_nat (length pre), N.of_nat (length (frame b))),
        mkFmr file (length pre + length (frame b)) (length pre + length (frame b))).
Proof.
  intros Hb Ht file. subst file. unfold fmr_read_next_position.
  rewrite (read_len_frame pre b tail Hb Ht). cbn [res_bind fstart fbytes].
  rewrite Nnat.Nat2N.id. reflexivity.
Qed.

Lemma read_next_frame pre b tail :
  rec_ok b -> all_bytes tail ->
  let file := pre ++ frame b ++ tail in
  fmr_read_next (mkFmr file (length pre) (length pre))
  = Ok (frame b, mkFmr file (length pre + length (frame b)) (length pre + length (frame b))).
Proof.
  intros Hb Ht file. subst file. unfold fmr_read_next.
  rewrite (read_len_frame pre b tail Hb Ht). cbn [res_bind fstart fbytes fpos].
  rewrite Nnat.Nat2N.id. unfold file_read. rewrite skipn_app_exact.
  rewrite firstn_app, firstn_all, Nat.sub_diag. cbn [firstn]. rewrite app_nil_r.
  destruct (N.of_nat (length (frame b)) <? N.of_nat (length (frame b)))%N eqn:E; [lia|].
  reflexivity.
Qed.

(** the k-th record of a stream is found at the sum of the preceding frame lengths *)
Theorem file_reader_positions : forall k recs pad pre b,
  Forall rec_ok recs -> all_bytes pad -> nth_error recs k = Some b ->
  let file := pre ++ stream recs pad in
  let off := length pre + length (concat (map frame (firstn k recs))) in
  fmr_read_index_position k (mkFmr file (length pre) (length pre))
  = Ok ((N.of_nat off, N.of_nat (length (frame b))),
        mkFmr file (off + length (frame b)) (off + length (frame b))).
Proof.
  induction k as [|k IH]; intros recs pad pre b Hrs Hp Hk file off.
  - destruct recs as [|b0 rs]; [discriminate|]. cbn [nth_error] in Hk. inversion Hk; subst b0.
    inversion Hrs as [|? ? Hb Hrs']; subst.
    unfold off, file, stream. cbn [firstn map concat length fmr_read_index_position].
    rewrite Nat.add_0_r. rewrite <- app_assoc.
    apply read_next_position_frame; [exact Hb|].
    apply (stream_all_bytes' rs pad Hrs' Hp).
  - destruct recs as [|b0 rs]; [discriminate|]. cbn [nth_error] in Hk.
    inversion Hrs as [|? ? Hb0 Hrs']; subst.
    cbn [fmr_read_index_position].
    assert (Hfile : file = pre ++ frame b0 ++ stream rs pad).
    { unfold file, stream. cbn [map concat]. rewrite <- app_assoc. reflexivity. }
    rewrite Hfile.
    rewrite (read_next_position_frame pre b0 (stream rs pad) Hb0 (stream_all_bytes' rs pad Hrs' Hp)).
    cbn [res_bind].
    specialize (IH rs pad (pre ++ frame b0) b Hrs' Hp Hk). cbv zeta in IH.
    rewrite app_length in IH. rewrite <- app_assoc in IH. rewrite IH.
    unfold off. cbn [firstn map concat]. rewrite !app_length.
    rewrite !Nat.add_assoc. reflexivity.
Qed.

(** reading the record itself returns the whole frame (prefix included) *)
Theorem file_reader_read_next : forall pre b tail,
  rec_ok b -> all_bytes tail ->
  fmr_read_next (mkFmr (pre ++ frame b ++ tail) (length pre) (length pre))
  = Ok (frame b, mkFmr (pre ++ frame b ++ tail) (length pre + length (frame b)) (length pre + length (frame b))).
Proof. exact read_next_frame. Qed.

(** reading stops at the first zero length, and at end of file *)
Theorem file_reader_end : forall pre pad,
  pad_ok pad ->
  fmr_read_len (mkFmr (pre ++ pad) (length pre) (length pre)) = Err.
Proof.
  intros pre pad (Hp & [->|(t & ->)]).
  - unfold fmr_read_len, file_read. cbn [fbytes fpos]. rewrite app_nil_r, skipn_all. reflexivity.
  - unfold fmr_read_len, file_read. cbn [fbytes fpos]. rewrite skipn_app_exact.
    cbn [firstn length]. cbn [Nat.eqb app].
    unfold read_varint. cbn [getb nth_error res_bind].
    change (msb_clear 0) with true. cbn iota. reflexivity.
Qed.
