(** Round trip of the protobuf wire layer: [parse (enc_fields fs) = Ok fs], packed varints,
    byte-ness and lengths of encodings.  Reuses the arithmetic twin [enc] of the varint writer
    and [write_varint_fuel_enc] from Codec/VarintBits.v. *)
From RN Require Import Base.Res Codec.Varint Codec.VarintBits Codec.VarintProofs Codec.PbWire.
From Coq Require Import ZifyBool ZifyNat ZifyN.
Local Open Scope N_scope.
Ltac Zify.zify_post_hook ::= Z.div_mod_to_equations.

Lemma rdv_cons n b bs :
  rdv (S n) (b :: bs) =
  if b <? 128 then Ok (b, bs)
  else match rdv n bs with
       | Ok (r, rest) => Ok (b - 128 + 128 * r, rest)
       | Err => Err
       | Panic => Panic
       end.
Proof. reflexivity. Qed.

Lemma rdv_enc f v rest :
  v < 128 ^ N.of_nat (S f) -> rdv (S f) (enc f v ++ rest) = Ok (v, rest).
Proof.
  revert v. induction f as [|f IH]; intros v Hv.
  - change (128 ^ N.of_nat 1) with 128 in Hv. cbn [enc app]. rewrite rdv_cons.
    rewrite (N.mod_small v 256) by lia.
    destruct (v <? 128) eqn:E; [reflexivity|lia].
  - cbn [enc]. destruct (127 <? v) eqn:E.
    + assert (Hq : v / 128 < 128 ^ N.of_nat (S f)).
      { apply N.div_lt_upper_bound; [lia|].
        rewrite <- N.pow_succ_r'. rewrite <- Nnat.Nat2N.inj_succ. exact Hv. }
      specialize (IH _ Hq).
      change ((v mod 128 + 128 :: enc f (v / 128)) ++ rest)
        with (v mod 128 + 128 :: (enc f (v / 128) ++ rest)).
      rewrite rdv_cons.
      destruct (v mod 128 + 128 <? 128) eqn:E2; [lia|].
      rewrite IH. f_equal. f_equal. lia.
    + cbn [app]. rewrite rdv_cons. rewrite (N.mod_small v 256) by lia.
      destruct (v <? 128) eqn:E2; [reflexivity|lia].
Qed.

Lemma rdv_write_varint v rest :
  v < 2 ^ 64 -> rdv 10 (write_varint v ++ rest) = Ok (v, rest).
Proof.
  intros Hv. unfold write_varint. rewrite write_varint_fuel_enc.
  change 10%nat with (S 9). apply rdv_enc. pose proof pow128_10. lia.
Qed.

Lemma write_varint_nonempty v : exists b t, write_varint v = b :: t.
Proof.
  unfold write_varint. cbn [write_varint_fuel].
  destruct (127 <? v); eexists; eexists; reflexivity.
Qed.

Lemma write_varint_app_nonnil v rest : write_varint v ++ rest <> [].
Proof. destruct (write_varint_nonempty v) as (b & t & ->). discriminate. Qed.

Lemma write_varint_length_pos v : (1 <= length (write_varint v))%nat.
Proof. destruct (write_varint_nonempty v) as (b & t & ->). cbn [length]. lia. Qed.

(** the first byte of a varint is zero only for the value zero *)
Lemma write_varint_hd_nonzero v : 0 < v -> v < 2 ^ 64 -> exists b t, write_varint v = b :: t /\ b <> 0.
Proof.
  intros Hpos Hv. unfold write_varint. cbn [write_varint_fuel].
  destruct (127 <? v) eqn:E.
  - eexists; eexists; split; [reflexivity|]. rewrite cont_byte. lia.
  - eexists; eexists; split; [reflexivity|]. rewrite N.mod_small by lia. lia.
Qed.

Lemma take_n_app a b : take_n (N.of_nat (length a)) (a ++ b) = Ok (a, b).
Proof.
  unfold take_n. rewrite app_length.
  destruct (N.of_nat (length a + length b) <? N.of_nat (length a)) eqn:E; [lia|].
  rewrite Nnat.Nat2N.id. f_equal. f_equal.
  - rewrite firstn_app, firstn_all, Nat.sub_diag. cbn [firstn]. apply app_nil_r.
  - rewrite skipn_app, skipn_all, Nat.sub_diag. reflexivity.
Qed.

Lemma take_n_all a : take_n (N.of_nat (length a)) a = Ok (a, []).
Proof. rewrite <- (app_nil_r a) at 2. apply take_n_app. Qed.

Lemma parse_fields_S f bs : bs <> [] -> parse_fields (S f) bs = parse_step (parse_fields f) bs.
Proof. destruct bs; [congruence|reflexivity]. Qed.

Lemma enc_fields_cons f fs : enc_fields (f :: fs) = enc_field f ++ enc_fields fs.
Proof. reflexivity. Qed.

Lemma enc_fields_app a b : enc_fields (a ++ b) = enc_fields a ++ enc_fields b.
Proof. unfold enc_fields. rewrite map_app, concat_app. reflexivity. Qed.

Lemma parse_fields_enc fs :
  Forall wf_field fs -> forall fuel, (length fs <= fuel)%nat ->
  parse_fields fuel (enc_fields fs) = Ok fs.
Proof.
  induction 1 as [|f fs Hf Hfs IH]; intros fuel Hfuel.
  - destruct fuel; reflexivity.
  - destruct fuel as [|fuel]; [cbn [length] in Hfuel; lia|].
    cbn [length] in Hfuel. rewrite enc_fields_cons.
    destruct f as [n [v|body]]; destruct Hf as [Hn Hw]; cbn [fst snd wf_wval] in Hn, Hw.
    + cbn [enc_field]. rewrite <- app_assoc.
      rewrite parse_fields_S by apply write_varint_app_nonnil.
      unfold parse_step.
      change (2 ^ 29) with 536870912 in Hn.
      rewrite rdv_write_varint by (change (2 ^ 64) with 18446744073709551616; lia).
      cbn [res_bind].
      assert (H1 : n * 8 / 8 = n) by lia. assert (H2 : (n * 8) mod 8 = 0) by lia.
      rewrite H1, H2. change (0 =? 0) with true. cbv iota.
      rewrite rdv_write_varint by exact Hw. cbn [res_bind].
      rewrite IH by lia. reflexivity.
    + cbn [enc_field]. rewrite <- !app_assoc.
      rewrite parse_fields_S by apply write_varint_app_nonnil.
      unfold parse_step.
      change (2 ^ 29) with 536870912 in Hn.
      rewrite rdv_write_varint by (change (2 ^ 64) with 18446744073709551616; lia).
      cbn [res_bind].
      assert (H1 : (n * 8 + 2) / 8 = n) by lia. assert (H2 : (n * 8 + 2) mod 8 = 2) by lia.
      rewrite H1, H2. change (2 =? 0) with false. change (2 =? 2) with true. cbv iota.
      destruct Hw as [Hlen Hb].
      rewrite rdv_write_varint by exact Hlen. cbn [res_bind].
      rewrite take_n_app. cbn [res_bind].
      rewrite IH by lia. reflexivity.
Qed.

Lemma enc_field_length_pos f : (1 <= length (enc_field f))%nat.
Proof.
  destruct f as [n [v|b]]; cbn [enc_field]; rewrite app_length;
    pose proof (write_varint_length_pos (n * 8)); pose proof (write_varint_length_pos (n * 8 + 2)); lia.
Qed.

Lemma enc_fields_length_ge fs : (length fs <= length (enc_fields fs))%nat.
Proof.
  induction fs as [|f fs IH]; [cbn; lia|].
  rewrite enc_fields_cons, app_length. pose proof (enc_field_length_pos f). cbn [length]. lia.
Qed.

Theorem parse_enc_fields fs : Forall wf_field fs -> parse (enc_fields fs) = Ok fs.
Proof. intros H. unfold parse. apply parse_fields_enc; [exact H|apply enc_fields_length_ge]. Qed.

(** packed varints *)
Lemma unpack_fuel_S f bs : bs <> [] -> unpack_fuel (S f) bs = unpack_step (unpack_fuel f) bs.
Proof. destruct bs; [congruence|reflexivity]. Qed.

Lemma unpack_fuel_enc vs :
  Forall (fun v => v < 2 ^ 64) vs -> forall fuel, (length vs <= fuel)%nat ->
  unpack_fuel fuel (enc_packed vs) = Ok vs.
Proof.
  induction 1 as [|v vs Hv Hvs IH]; intros fuel Hfuel.
  - destruct fuel; reflexivity.
  - destruct fuel as [|fuel]; [cbn [length] in Hfuel; lia|]. cbn [length] in Hfuel.
    unfold enc_packed. cbn [map concat]. fold (enc_packed vs).
    rewrite unpack_fuel_S by apply write_varint_app_nonnil.
    unfold unpack_step. rewrite rdv_write_varint by exact Hv. cbn [res_bind].
    rewrite IH by lia. reflexivity.
Qed.

Lemma enc_packed_length_ge vs : (length vs <= length (enc_packed vs))%nat.
Proof.
  induction vs as [|v vs IH]; [cbn; lia|].
  unfold enc_packed. cbn [map concat]. fold (enc_packed vs). rewrite app_length.
  pose proof (write_varint_length_pos v). cbn [length]. lia.
Qed.

Theorem unpack_enc_packed vs : Forall (fun v => v < 2 ^ 64) vs -> unpack (enc_packed vs) = Ok vs.
Proof. intros H. unfold unpack. apply unpack_fuel_enc; [exact H|apply enc_packed_length_ge]. Qed.

Lemma enc_packed_nonempty v vs : enc_packed (v :: vs) <> [].
Proof. unfold enc_packed. cbn [map concat]. apply write_varint_app_nonnil. Qed.

(** encodings are byte strings *)
Lemma enc_packed_all_bytes vs : all_bytes (enc_packed vs).
Proof.
  induction vs as [|v vs IH]; [constructor|].
  unfold enc_packed. cbn [map concat]. apply Forall_app. split; [apply write_varint_all_bytes|exact IH].
Qed.

Lemma enc_field_all_bytes f : wf_field f -> all_bytes (enc_field f).
Proof.
  destruct f as [n [v|b]]; intros [Hn Hw]; cbn [enc_field snd wf_wval] in *.
  - apply Forall_app. split; apply write_varint_all_bytes.
  - apply Forall_app. split; [apply write_varint_all_bytes|].
    apply Forall_app. split; [apply write_varint_all_bytes|apply Hw].
Qed.

Lemma enc_fields_all_bytes fs : Forall wf_field fs -> all_bytes (enc_fields fs).
Proof.
  induction 1 as [|f fs Hf Hfs IH]; [constructor|].
  rewrite enc_fields_cons. apply Forall_app. split; [apply enc_field_all_bytes, Hf|exact IH].
Qed.
