(** Executable glue for the correspondence check of C20: a small script language run
    against the model, and compact (length, checksum) digests so that large records need
    not be printed.  No proofs depend on this file. *)
From RN Require Import Base.Res Codec.Varint Codec.BufReader.
Local Open Scope N_scope.

(** deterministic pseudo-random bytes (same LCG in runner/checks/c20.py) *)
Fixpoint gen_bytes (n : nat) (x : N) : list N :=
  match n with
  | O => []
  | S n' => let x' := (x * 1103515245 + 12345) mod 2147483648 in
            ((x' / 65536) mod 256) :: gen_bytes n' x'
  end.

Definition msum (m : list N) : N := fold_left (fun a b => (a * 31 + b) mod 4294967296) m 7.
Definition digest (m : list N) : N * N := (N.of_nat (length m), msum m).

Definition slice (off len : nat) (s : list N) : list N := firstn len (skipn off s).

Inductive bop := OpA (c : list N) | OpN | OpD | OpE.
Inductive bout :=
| OA | ONone | OMsg (d : N * N) | ODrain (ds : list (N * N)) | OEmpty (b : bool) | OPanic | OLoop.

Fixpoint run_ops (r : mbr) (ops : list bop) : list bout :=
  match ops with
  | [] => []
  | OpA c :: ops' =>
      match mbr_append r c with
      | Ok r' => OA :: run_ops r' ops'
      | _ => [OPanic]
      end
  | OpN :: ops' =>
      match mbr_next r with
      | (None, r') => ONone :: run_ops r' ops'
      | (Some m, r') => OMsg (digest m) :: run_ops r' ops'
      end
  | OpD :: ops' =>
      match drain_all r with
      | Ok (ms, r') => ODrain (map digest ms) :: run_ops r' ops'
      | _ => [OLoop]
      end
  | OpE :: ops' => OEmpty (mbr_is_empty r) :: run_ops r ops'
  end.

(** one chunk = append, drain, is_empty *)
Fixpoint chunk_ops (s : list N) (off : nat) (lens : list nat) : list bop :=
  match lens with
  | [] => []
  | l :: ls => OpA (slice off l s) :: OpD :: OpE :: chunk_ops s (off + l) ls
  end.

Definition run_chunks (s : list N) (lens : list nat) : list bout :=
  run_ops mbr_new (chunk_ops s 0 lens).

Definition run_with_data (b : list N) (start : nat) (ops : list bop) : list bout :=
  match mbr_with_data b start with
  | Ok r => run_ops r ops
  | _ => [OPanic]
  end.

(** stream = concatenated frames of generated bodies (len, seed) followed by padding *)
Definition mk_stream (recs : list (nat * N)) (pad : list N) : list N :=
  concat (map (fun '(n, x) => frame (gen_bytes n x)) recs) ++ pad.

(** scan_end over a chunking; [fixed]=true uses the repaired end test *)
Definition run_scan (fixed : bool) (s : list N) (lens : list nat) (count : N) : res (N * N) :=
  let fix cut (off : nat) (ls : list nat) : list (list N) :=
    match ls with [] => [] | l :: ls' => slice off l s :: cut (off + l)%nat ls' end in
  scan_by_count (if fixed then mbr_at_end_marker else mbr_is_empty) (cut 0%nat lens) mbr_new 0 count 0.

Definition run_feed (s : list N) (lens : list nat) : res (list (N * N)) :=
  let fix cut (off : nat) (ls : list nat) : list (list N) :=
    match ls with [] => [] | l :: ls' => slice off l s :: cut (off + l)%nat ls' end in
  res_map (map digest) (feed_drain (cut 0%nat lens) mbr_new).

(** FileMessageReader scripts *)
Inductive fop := FNext | FPos | FIdx (k : nat).
Inductive fout := FMsg (d : N * N) | FP (p l : N) | FErr | FPanic.

Fixpoint run_fops (r : fmr) (ops : list fop) : list fout :=
  match ops with
  | [] => []
  | FNext :: ops' =>
      match fmr_read_next r with
      | Ok (m, r') => FMsg (digest m) :: run_fops r' ops'
      | Err => [FErr]   (* state after an error is never used by callers; scripts stop *)
      | Panic => [FPanic]
      end
  | FPos :: ops' =>
      match fmr_read_next_position r with
      | Ok ((p, l), r') => FP p l :: run_fops r' ops'
      | Err => [FErr]   (* state after an error is never used by callers; scripts stop *)
      | Panic => [FPanic]
      end
  | FIdx k :: ops' =>
      match fmr_read_index_position k r with
      | Ok ((p, l), r') => FP p l :: run_fops r' ops'
      | Err => [FErr]   (* the position after a partial failure is not compared *)
      | Panic => [FPanic]
      end
  end.

Definition run_file (data : list N) (start : nat) (ops : list fop) : list fout :=
  run_fops (mkFmr data start start) ops.
