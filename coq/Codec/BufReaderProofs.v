(** Chunking invariance of MessageBufReader: whatever the partition of the byte stream
    into chunks, the EOF-terminated consumers return exactly the written frames. *)
From RN Require Import Base.Res Codec.Varint Codec.BufReader Codec.VarintBits Codec.VarintProofs.
From Coq Require Import ZifyBool ZifyNat ZifyN.
Local Open Scope nat_scope.

Definition wf (r : mbr) : Prop := st r <= en r /\ en r <= length (buf r) /\ 1 <= length (buf r).

Lemma wf_new : wf mbr_new.
Proof. unfold wf, mbr_new. cbn [st en buf]. rewrite repeat_length. lia. Qed.

Lemma view_new : mbr_view mbr_new = [].
Proof. reflexivity. Qed.

(** * append *)
Lemma move_to_start_length b s : length (move_to_start b s) = length b.
Proof.
  unfold move_to_start. destruct (s =? 0) eqn:E0; [reflexivity|].
  destruct (length b <? s) eqn:E1; [reflexivity|].
  rewrite app_length, !skipn_length. lia.
Qed.

Lemma move_to_start_firstn b s n :
  s <= length b -> n <= length b - s -> firstn n (move_to_start b s) = firstn n (skipn s b).
Proof.
  intros Hs Hn. unfold move_to_start. destruct (s =? 0) eqn:E0.
  - assert (s = 0) by lia. subst. reflexivity.
  - destruct (length b <? s) eqn:E1; [lia|].
    rewrite firstn_app. rewrite skipn_length.
    replace (n - (length b - s)) with 0 by lia. cbn [firstn]. apply app_nil_r.
Qed.

Lemma expand_spec fuel b e n :
  e <= length b -> 1 <= length b -> n <= length b - e + fuel ->
  exists z, expand fuel b e n = Some (b ++ repeat 0%N z) /\ n <= length b + z - e.
Proof.
  revert b. induction fuel as [|f IH]; intros b He Hb Hn; cbn [expand].
  - destruct (n <=? length b - e) eqn:E; [|lia].
    exists 0. cbn [repeat]. rewrite app_nil_r. split; [reflexivity|lia].
  - destruct (n <=? length b - e) eqn:E.
    + exists 0. cbn [repeat]. rewrite app_nil_r. split; [reflexivity|lia].
    + destruct (IH (b ++ repeat 0%N (length b))) as (z & Hz & Hle).
      * rewrite app_length, repeat_length. lia.
      * rewrite app_length, repeat_length. lia.
      * rewrite app_length, repeat_length. lia.
      * exists (length b + z). rewrite Hz. rewrite <- app_assoc, <- repeat_app.
        split; [reflexivity|]. rewrite app_length, repeat_length in Hle. lia.
Qed.

Lemma append_spec r nb :
  wf r ->
  exists r', mbr_append r nb = Ok r' /\ wf r' /\ mbr_view r' = mbr_view r ++ nb /\
             next_len r' = next_len r.
Proof.
  intros (H1 & H2 & H3). unfold mbr_append.
  destruct (en r <? st r) eqn:E; [lia|].
  set (b1 := move_to_start (buf r) (st r)).
  set (e := en r - st r).
  assert (Hb1 : length b1 = length (buf r)) by apply move_to_start_length.
  destruct (expand_spec (S (length nb)) b1 e (length nb)) as (z & Hz & Hle); try lia.
  rewrite Hz. eexists. split; [reflexivity|].
  assert (Hf : firstn e (b1 ++ repeat 0%N z) = mbr_view r).
  { rewrite firstn_app. replace (e - length b1) with 0 by lia. cbn [firstn]. rewrite app_nil_r.
    unfold b1, mbr_view. apply move_to_start_firstn; lia. }
  assert (Hlen : length (firstn e (b1 ++ repeat 0%N z)) = e).
  { apply firstn_length_le. rewrite app_length, repeat_length. lia. }
  split; [|split].
  - unfold wf. cbn [st en buf]. rewrite !app_length, Hlen, skipn_length, app_length, repeat_length. lia.
  - unfold mbr_view at 1. cbn [st en buf]. rewrite Nat.sub_0_r. cbn [skipn].
    rewrite Hf. rewrite app_assoc. rewrite firstn_app.
    rewrite app_length. assert (length (mbr_view r) = e) by (rewrite <- Hf; exact Hlen).
    replace (e + length nb - (length (mbr_view r) + length nb)) with 0 by lia.
    cbn [firstn]. rewrite app_nil_r. apply firstn_all2. rewrite app_length. lia.
  - reflexivity.
Qed.

(** * next_message_vec depends only on the pending bytes (the view) *)
Definition next_pure (v : list N) (nl0 : N) : option (list N) * N :=
  match v with
  | [] => (None, nl0)
  | b :: _ =>
      if (b =? 0)%N then (None, nl0)
      else match varint_end v with
           | None => (None, nl0)
           | Some w =>
               let nl := match read_varint v 0 with
                         | Ok s => (N.of_nat w + s)%N
                         | _ => nl0
                         end in
               if (nl <=? N.of_nat (length v))%N
               then (Some (firstn (N.to_nat nl) v), 0%N)
               else (None, nl)
           end
  end.

Lemma nth_skipn_hd {A} (l : list A) n d x v : skipn n l = x :: v -> nth n l d = x /\ n < length l.
Proof.
  revert l. induction n as [|n IH]; intros l H.
  - cbn [skipn] in H. subst. cbn. split; [reflexivity|lia].
  - destruct l as [|a l]; [discriminate|]. cbn [skipn] in H. destruct (IH _ H) as [E L].
    cbn [nth length]. split; [exact E|lia].
Qed.

Lemma firstn_cons_inv {A} n (l : list A) x v : firstn n l = x :: v -> exists l', l = x :: l' /\ 1 <= n.
Proof.
  destruct n; [discriminate|]. destruct l as [|a l]; [discriminate|].
  cbn [firstn]. intros H. inversion H. subst. eexists. split; [reflexivity|lia].
Qed.

Lemma is_empty_view r b v :
  wf r -> mbr_view r = b :: v -> mbr_is_empty r = (b =? 0)%N.
Proof.
  intros (H1 & H2 & H3) Hv. unfold mbr_view in Hv.
  destruct (firstn_cons_inv _ _ _ _ Hv) as (l' & Hl & Hn).
  destruct (nth_skipn_hd _ _ 0%N _ _ Hl) as [Hnth Hlt].
  unfold mbr_is_empty. destruct (length (buf r) <=? st r) eqn:E; [lia|].
  rewrite Hnth. reflexivity.
Qed.

Definition set_next (r : mbr) (o : option (list N) * N) : option (list N) * mbr :=
  match o with
  | (Some m, nl) => (Some m, mkMbr (buf r) (st r + length m) (en r) nl)
  | (None, nl) => (None, mkMbr (buf r) (st r) (en r) nl)
  end.

Lemma next_by_view r : wf r -> mbr_next r = set_next r (next_pure (mbr_view r) (next_len r)).
Proof.
  intros Hwf. unfold mbr_next, next_pure.
  destruct (mbr_view r) as [|b v] eqn:Hv.
  - destruct r as [bf s e nl]. cbn [set_next buf st en next_len] in *.
    destruct (mbr_is_empty _); [reflexivity|]. cbn [varint_end]. reflexivity.
  - rewrite (is_empty_view r b v Hwf Hv).
    destruct (b =? 0)%N eqn:Eb.
    + destruct r; reflexivity.
    + destruct (varint_end (b :: v)) as [w|] eqn:Ew.
      * set (nl := match read_varint (b :: v) 0 with Ok s => (N.of_nat w + s)%N | _ => next_len r end).
        destruct (nl <=? N.of_nat (length (b :: v)))%N eqn:El.
        -- cbn [set_next]. rewrite firstn_length_le by lia. reflexivity.
        -- reflexivity.
      * destruct r; reflexivity.
Qed.

(** * frames *)
Definition rec_ok (body : list N) : Prop :=
  body <> [] /\ all_bytes body /\ (N.of_nat (length body) < 2 ^ 64)%N.

Lemma msb_clear_cont b : (128 <= b < 256)%N -> msb_clear b = false.
Proof. intros H. rewrite msb_clear_ltb by lia. lia. Qed.

Lemma msb_clear_last b : (b < 128)%N -> msb_clear b = true.
Proof. intros H. rewrite msb_clear_ltb by lia. lia. Qed.

Lemma varint_end_cont cs : cont_bytes cs -> varint_end cs = None.
Proof.
  induction 1 as [|b cs Hb _ IH]; [reflexivity|]. cbn [varint_end].
  rewrite msb_clear_cont by exact Hb. rewrite IH. reflexivity.
Qed.

Lemma varint_end_app cs last q :
  cont_bytes cs -> (last < 128)%N -> varint_end (cs ++ last :: q) = Some (S (length cs)).
Proof.
  intros Hcs Hl. induction Hcs as [|b cs Hb _ IH]; cbn [app varint_end length].
  - rewrite msb_clear_last by exact Hl. reflexivity.
  - rewrite msb_clear_cont by exact Hb. rewrite IH. reflexivity.
Qed.

Lemma Forall_firstn' {A} (P : A -> Prop) n l : Forall P l -> Forall P (firstn n l).
Proof.
  revert l. induction n as [|n IH]; intros l H; [constructor|].
  destruct l as [|a l]; [constructor|]. cbn [firstn]. inversion H; subst.
  constructor; [assumption|apply IH; assumption].
Qed.

Lemma cont_bytes_firstn n cs : cont_bytes cs -> cont_bytes (firstn n cs).
Proof. apply Forall_firstn'. Qed.

Lemma all_bytes_app a b : all_bytes a -> all_bytes b -> all_bytes (a ++ b).
Proof. intros. apply Forall_app. split; assumption. Qed.

Lemma all_bytes_firstn n l : all_bytes l -> all_bytes (firstn n l).
Proof. apply Forall_firstn'. Qed.

Lemma prefix_firstn {A} (p suf X : list A) : p ++ suf = X -> p = firstn (length p) X.
Proof.
  intros <-. rewrite firstn_app, firstn_all, Nat.sub_diag. cbn [firstn]. symmetry. apply app_nil_r.
Qed.

(** the head byte of a frame of a non-empty record is never zero *)
Lemma write_varint_head_nonzero L :
  (1 <= L < 2 ^ 64)%N -> exists b t, write_varint L = b :: t /\ b <> 0%N.
Proof.
  intros HL. destruct (varint_canonical L) as (cs & last & Heq & Hcs & Hl & _); [lia|].
  destruct cs as [|c cs].
  - cbn [app] in Heq. exists last, []. split; [exact Heq|].
    pose proof (varint_roundtrip_list L [] ltac:(lia) ltac:(constructor)) as Hr.
    rewrite app_nil_r, Heq in Hr. unfold read_varint in Hr. cbn [getb nth_error res_bind] in Hr.
    rewrite msb_clear_last in Hr by exact Hl. inversion Hr. lia.
  - exists c, (cs ++ [last]). split; [exact Heq|]. inversion Hcs; subst. lia.
Qed.

Lemma next_pure_nz v nl0 b t :
  v = b :: t -> b <> 0%N ->
  next_pure v nl0 =
    match varint_end v with
    | None => (None, nl0)
    | Some w =>
        let nl := match read_varint v 0 with
                  | Ok s => (N.of_nat w + s)%N
                  | _ => nl0
                  end in
        if (nl <=? N.of_nat (length v))%N
        then (Some (firstn (N.to_nat nl) v), 0%N)
        else (None, nl)
    end.
Proof. intros -> Hb. unfold next_pure. destruct (b =? 0)%N eqn:E; [lia|reflexivity]. Qed.

(** behaviour of one [next] step on a pending region that is a prefix of
    [frame body ++ tail] *)
Lemma next_pure_frame body tail v suf nl0 :
  rec_ok body -> all_bytes tail -> v ++ suf = frame body ++ tail ->
  if length (frame body) <=? length v
  then next_pure v nl0 = (Some (frame body), 0%N)
  else exists nl, next_pure v nl0 = (None, nl).
Proof.
  intros (Hne & Hab & HL) Htail Hpre.
  set (L := N.of_nat (length body)) in *.
  assert (HL1 : (1 <= L)%N) by (destruct body; [congruence|cbn [length] in L; lia]).
  destruct (varint_canonical L HL) as (cs & last & Hwv & Hcs & Hlast & _).
  destruct (write_varint_head_nonzero L ltac:(lia)) as (b0 & t0 & Hhd & Hb0).
  pose proof (prefix_firstn _ _ _ Hpre) as Hv.
  unfold frame in *. fold L in Hv, Hpre |- *.
  set (n := length v) in *.
  destruct (length (write_varint L ++ body) <=? n) eqn:Efull.
  - (* complete frame *)
    assert (Hsplit : v = (write_varint L ++ body) ++ firstn (n - length (write_varint L ++ body)) tail).
    { rewrite Hv. rewrite firstn_app. f_equal. apply firstn_all2. lia. }
    erewrite next_pure_nz; [|rewrite Hsplit, Hhd; cbn [app]; reflexivity|exact Hb0]. cbv zeta.
    assert (Hend : varint_end v = Some (S (length cs))).
    { rewrite Hsplit, Hwv, <- !app_assoc. cbn [app]. apply varint_end_app; assumption. }
    rewrite Hend.
    assert (Hrd : read_varint v 0 = Ok L).
    { rewrite Hsplit, <- app_assoc. apply varint_roundtrip_list; [exact HL|].
      apply all_bytes_app; [exact Hab|apply all_bytes_firstn, Htail]. }
    rewrite Hrd.
    assert (Hlenwv : length (write_varint L) = S (length cs)).
    { rewrite Hwv, app_length. cbn [length]. lia. }
    assert (Hnl : (N.of_nat (S (length cs)) + L)%N = N.of_nat (length (write_varint L ++ body))).
    { rewrite app_length, Hlenwv. unfold L. lia. }
    rewrite Hnl. fold n.
    destruct (N.of_nat (length (write_varint L ++ body)) <=? N.of_nat n)%N eqn:E2; [|lia].
    rewrite Nnat.Nat2N.id. f_equal. f_equal. rewrite Hsplit at 1.
    rewrite firstn_app, firstn_all, Nat.sub_diag. cbn [firstn]. apply app_nil_r.
  - (* incomplete frame *)
    assert (Hn : n < length (write_varint L) + length body) by (rewrite app_length in Efull; lia).
    destruct (Nat.le_gt_cases n (length cs)) as [Hin|Hout].
    + (* inside the continuation bytes *)
      assert (Hvc : v = firstn n cs).
      { rewrite Hv, Hwv, <- !app_assoc. rewrite firstn_app.
        replace (n - length cs) with 0 by lia. cbn [firstn]. apply app_nil_r. }
      unfold next_pure. destruct v as [|b v']; [eexists; reflexivity|].
      destruct (b =? 0)%N; [eexists; reflexivity|].
      rewrite Hvc. rewrite varint_end_cont by (apply cont_bytes_firstn, Hcs). eexists; reflexivity.
    + assert (Hlenwv : length (write_varint L) = S (length cs)).
      { rewrite Hwv, app_length. cbn [length]. lia. }
      assert (Hsplit : v = write_varint L ++ firstn (n - S (length cs)) (body ++ tail)).
      { rewrite Hv, <- app_assoc. rewrite firstn_app. rewrite Hlenwv. f_equal.
        apply firstn_all2. lia. }
      set (q := firstn (n - S (length cs)) (body ++ tail)) in *.
      assert (Hq : length q = n - S (length cs)).
      { unfold q. apply firstn_length_le. rewrite app_length. lia. }
      erewrite next_pure_nz; [|rewrite Hsplit, Hhd; cbn [app]; reflexivity|exact Hb0]. cbv zeta.
      assert (Hend : varint_end v = Some (S (length cs))).
      { rewrite Hsplit, Hwv, <- !app_assoc. cbn [app]. apply varint_end_app; assumption. }
      rewrite Hend.
      assert (Hrd : read_varint v 0 = Ok L).
      { rewrite Hsplit. apply varint_roundtrip_list; [exact HL|].
        unfold q. apply all_bytes_firstn, all_bytes_app; assumption. }
      rewrite Hrd. fold n.
      destruct (N.of_nat (S (length cs)) + L <=? N.of_nat n)%N eqn:E2; [unfold L in E2; lia|].
      eexists; reflexivity.
Qed.

(** * streams: frames followed by nothing or by a zero length and arbitrary bytes *)
Definition pad_ok (pad : list N) : Prop :=
  all_bytes pad /\ (pad = [] \/ exists t, pad = 0%N :: t).

Definition stream (recs : list (list N)) (pad : list N) : list N :=
  concat (map frame recs) ++ pad.

Lemma frame_all_bytes body : rec_ok body -> all_bytes (frame body).
Proof. intros (_ & H & _). apply all_bytes_app; [apply write_varint_all_bytes|exact H]. Qed.

Lemma stream_all_bytes' recs pad : Forall rec_ok recs -> all_bytes pad -> all_bytes (stream recs pad).
Proof.
  intros Hr Hp. unfold stream. apply all_bytes_app; [|exact Hp].
  induction Hr as [|b rs Hb _ IH]; [constructor|]. cbn [map concat].
  apply all_bytes_app; [apply frame_all_bytes, Hb|exact IH].
Qed.

Lemma stream_all_bytes recs pad : Forall rec_ok recs -> pad_ok pad -> all_bytes (stream recs pad).
Proof. intros Hr (Hp & _). apply stream_all_bytes'; assumption. Qed.

Lemma frame_length_pos body : 1 <= length (frame body).
Proof.
  unfold frame. rewrite app_length. unfold write_varint. rewrite write_varint_fuel_enc.
  destruct (enc 9 (N.of_nat (length body))) eqn:E; [|cbn [length]; lia].
  exfalso. cbn [enc] in E. destruct (127 <? N.of_nat (length body))%N; discriminate.
Qed.

Lemma next_pure_end v suf pad nl0 :
  pad_ok pad -> v ++ suf = pad -> next_pure v nl0 = (None, nl0).
Proof.
  intros (_ & [->|(t & ->)]) H.
  - apply app_eq_nil in H. destruct H as [-> _]. reflexivity.
  - destruct v as [|b v]; [reflexivity|]. cbn [app] in H. inversion H. subst. reflexivity.
Qed.

Lemma view_length r : wf r -> length (mbr_view r) = en r - st r.
Proof.
  intros (H1 & H2 & H3). unfold mbr_view. rewrite firstn_length_le; [reflexivity|].
  rewrite skipn_length. lia.
Qed.

Lemma skipn_skipn' {A} (a b : nat) (l : list A) : skipn a (skipn b l) = skipn (b + a) l.
Proof.
  revert l. induction b as [|b IH]; intros l; [reflexivity|].
  destruct l as [|x l]; [destruct a; reflexivity|]. cbn [skipn plus]. apply IH.
Qed.

Lemma view_advance r k :
  wf r -> k <= en r - st r ->
  mbr_view (mkMbr (buf r) (st r + k) (en r) 0%N) = skipn k (mbr_view r).
Proof.
  intros Hwf Hk. unfold mbr_view. cbn [buf st en].
  rewrite skipn_firstn_comm. rewrite skipn_skipn'.
  replace (en r - (st r + k)) with (en r - st r - k) by lia. reflexivity.
Qed.

Definition drained (r : mbr) (recs : list (list N)) : Prop :=
  match recs with
  | [] => True
  | b :: _ => length (mbr_view r) < length (frame b)
  end.

Lemma next_frame r body tail suf :
  wf r -> rec_ok body -> all_bytes tail -> mbr_view r ++ suf = frame body ++ tail ->
  if length (frame body) <=? length (mbr_view r)
  then exists r', mbr_next r = (Some (frame body), r') /\ wf r' /\
                  mbr_view r' = skipn (length (frame body)) (mbr_view r)
  else exists r', mbr_next r = (None, r') /\ wf r' /\ mbr_view r' = mbr_view r.
Proof.
  intros Hwf Hb Ht Hpre. rewrite (next_by_view r Hwf).
  pose proof (next_pure_frame body tail (mbr_view r) suf (next_len r) Hb Ht Hpre) as Hn.
  pose proof (view_length r Hwf) as Hlen.
  destruct Hwf as (H1 & H2 & H3).
  destruct (length (frame body) <=? length (mbr_view r)) eqn:E.
  - rewrite Hn. cbn [set_next]. eexists. split; [reflexivity|]. split.
    + unfold wf. cbn [st en buf]. lia.
    + apply view_advance; [unfold wf; lia|lia].
  - destruct Hn as (nl & ->). cbn [set_next]. eexists. split; [reflexivity|]. split.
    + unfold wf. cbn [st en buf]. lia.
    + reflexivity.
Qed.

Lemma next_end r pad suf :
  wf r -> pad_ok pad -> mbr_view r ++ suf = pad ->
  exists r', mbr_next r = (None, r') /\ wf r' /\ mbr_view r' = mbr_view r.
Proof.
  intros Hwf Hp Hpre. rewrite (next_by_view r Hwf).
  rewrite (next_pure_end _ _ _ (next_len r) Hp Hpre). cbn [set_next].
  eexists. split; [reflexivity|]. destruct Hwf as (H1 & H2 & H3). split; [|reflexivity].
  unfold wf. cbn [st en buf]. lia.
Qed.

Lemma drain_stream recs : forall fuel r acc pad suf,
  wf r -> Forall rec_ok recs -> pad_ok pad ->
  mbr_view r ++ suf = stream recs pad -> length (mbr_view r) < fuel ->
  exists k r', drain fuel r acc = Ok (rev acc ++ map frame (firstn k recs), r') /\ wf r' /\
               mbr_view r' ++ suf = stream (skipn k recs) pad /\ drained r' (skipn k recs).
Proof.
  induction recs as [|b rs IH]; intros fuel r acc pad suf Hwf Hrs Hp Hpre Hfuel.
  - destruct fuel as [|f]; [lia|]. cbn [drain].
    destruct (next_end r pad suf Hwf Hp Hpre) as (r' & Hn & Hwf' & Hv').
    rewrite Hn. exists 0, r'. cbn [firstn skipn map]. rewrite app_nil_r.
    split; [reflexivity|]. split; [exact Hwf'|]. split; [rewrite Hv'; exact Hpre|exact I].
  - destruct fuel as [|f]; [lia|]. cbn [drain].
    inversion Hrs as [|? ? Hb Hrs']; subst.
    assert (Htail : all_bytes (stream rs pad)) by (apply stream_all_bytes; assumption).
    assert (Hpre' : mbr_view r ++ suf = frame b ++ stream rs pad).
    { rewrite Hpre. unfold stream. cbn [map concat]. rewrite app_assoc. reflexivity. }
    pose proof (next_frame r b (stream rs pad) suf Hwf Hb Htail Hpre') as Hn.
    destruct (length (frame b) <=? length (mbr_view r)) eqn:E.
    + destruct Hn as (r1 & Hn & Hwf1 & Hv1). rewrite Hn.
      assert (Hsplit : mbr_view r = frame b ++ mbr_view r1).
      { rewrite Hv1. rewrite <- (firstn_skipn (length (frame b)) (mbr_view r)) at 1. f_equal.
        pose proof (prefix_firstn _ _ _ Hpre') as Hf.
        rewrite Hf. rewrite firstn_firstn. rewrite Nat.min_l by lia.
        rewrite firstn_app, firstn_all, Nat.sub_diag. cbn [firstn]. apply app_nil_r. }
      assert (Hpre1 : mbr_view r1 ++ suf = stream rs pad).
      { rewrite Hsplit, <- app_assoc in Hpre'. apply app_inv_head in Hpre'. exact Hpre'. }
      assert (Hfuel1 : length (mbr_view r1) < f).
      { rewrite Hsplit, app_length in Hfuel. pose proof (frame_length_pos b). lia. }
      destruct (IH f r1 (frame b :: acc) pad suf Hwf1 Hrs' Hp Hpre1 Hfuel1) as (k & r' & Hd & Hwf' & Hv' & Hdr).
      exists (S k), r'. rewrite Hd. cbn [rev firstn skipn map]. rewrite <- app_assoc. cbn [app].
      split; [reflexivity|]. split; [exact Hwf'|]. split; [exact Hv'|exact Hdr].
    + destruct Hn as (r1 & Hn & Hwf1 & Hv1). rewrite Hn.
      exists 0, r1. cbn [firstn skipn map]. rewrite app_nil_r.
      split; [reflexivity|]. split; [exact Hwf1|]. split; [rewrite Hv1; exact Hpre|].
      cbn [drained]. rewrite Hv1. lia.
Qed.

Theorem feed_drain_stream : forall chunks r recs pad,
  wf r -> Forall rec_ok recs -> pad_ok pad -> drained r recs ->
  mbr_view r ++ concat chunks = stream recs pad ->
  feed_drain chunks r = Ok (map frame recs).
Proof.
  induction chunks as [|c cs IH]; intros r recs pad Hwf Hrs Hp Hdr Hpre.
  - cbn [concat] in Hpre. rewrite app_nil_r in Hpre. cbn [feed_drain].
    destruct recs as [|b rs]; [reflexivity|]. exfalso. cbn [drained] in Hdr.
    rewrite Hpre in Hdr. unfold stream in Hdr. cbn [map concat] in Hdr.
    rewrite !app_length in Hdr. lia.
  - cbn [feed_drain concat] in *.
    destruct (append_spec r c Hwf) as (r1 & Ha & Hwf1 & Hv1 & _). rewrite Ha. cbn [res_bind].
    unfold drain_all.
    assert (Hpre1 : mbr_view r1 ++ concat cs = stream recs pad).
    { rewrite Hv1, <- app_assoc. exact Hpre. }
    assert (Hfuel : length (mbr_view r1) < S (S (en r1 - st r1))).
    { rewrite (view_length r1 Hwf1). lia. }
    destruct (drain_stream recs _ r1 [] pad (concat cs) Hwf1 Hrs Hp Hpre1 Hfuel)
      as (k & r2 & Hd & Hwf2 & Hv2 & Hdr2).
    rewrite Hd. cbn [res_bind rev app].
    assert (Hrs2 : Forall rec_ok (skipn k recs)).
    { rewrite <- (firstn_skipn k recs) in Hrs. apply Forall_app in Hrs. apply Hrs. }
    rewrite (IH r2 (skipn k recs) pad Hwf2 Hrs2 Hp Hdr2 Hv2). cbn [res_map].
    rewrite <- map_app, firstn_skipn. reflexivity.
Qed.

(** Main theorem: every partition of the byte stream into chunks yields exactly the
    written frames, in order; bytes after the first zero length are never returned. *)
Theorem chunking_invariance : forall recs pad chunks,
  Forall rec_ok recs -> pad_ok pad -> concat chunks = stream recs pad ->
  feed_drain chunks mbr_new = Ok (map frame recs).
Proof.
  intros recs pad chunks Hrs Hp Hc.
  apply (feed_drain_stream chunks mbr_new recs pad wf_new Hrs Hp).
  - destruct recs as [|b rs]; [exact I|]. cbn [drained]. rewrite view_new.
    pose proof (frame_length_pos b). cbn [length]. lia.
  - rewrite view_new. exact Hc.
Qed.

Corollary chunking_independent : forall recs pad chunks1 chunks2,
  Forall rec_ok recs -> pad_ok pad ->
  concat chunks1 = stream recs pad -> concat chunks2 = stream recs pad ->
  feed_drain chunks1 mbr_new = feed_drain chunks2 mbr_new.
Proof.
  intros. rewrite (chunking_invariance recs pad chunks1), (chunking_invariance recs pad chunks2) by assumption.
  reflexivity.
Qed.

(** non-vacuity: a concrete stream with a record larger than the 1024-byte buffer, a
    record ending exactly on the 1024-byte boundary, an end marker and garbage after it *)
Example chunking_example :
  let recs := [repeat 7%N 1022; repeat 9%N 3; repeat 1%N 2000] in
  let pad := [0%N; 5%N; 200%N] in
  Forall rec_ok recs /\ pad_ok pad /\
  feed_drain [firstn 1024 (stream recs pad); skipn 1024 (stream recs pad)] mbr_new
    = Ok (map frame recs).
Proof.
  cbv zeta. split; [|split].
  - repeat constructor; try discriminate;
      try (apply Forall_forall; intros x Hx; apply repeat_spec in Hx; subst; unfold is_byte; lia);
      rewrite repeat_length; vm_compute; reflexivity.
  - split; [|right; eexists; reflexivity]. repeat constructor; unfold is_byte; lia.
  - vm_compute. reflexivity.
Qed.
