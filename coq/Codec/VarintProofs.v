(** Round trip, size agreement and canonical form of the varint codec. *)
From RN Require Import Base.Res Codec.Varint Codec.VarintBits.
From Coq Require Import ZifyBool ZifyNat ZifyN.
Local Open Scope N_scope.
Ltac Zify.zify_post_hook ::= Z.div_mod_to_equations.

(** * write side: bytes, length, round trip *)
Lemma enc_all_bytes f v : all_bytes (enc f v).
Proof.
  revert v. induction f as [|f IH]; intros v; cbn [enc].
  - constructor; [|constructor]. unfold is_byte. apply N.mod_lt. lia.
  - destruct (127 <? v).
    + constructor; [|apply IH]. unfold is_byte.
      assert (v mod 128 < 128) by (apply N.mod_lt; lia). lia.
    + constructor; [|constructor]. unfold is_byte. apply N.mod_lt. lia.
Qed.

Lemma write_varint_all_bytes v : all_bytes (write_varint v).
Proof. unfold write_varint. rewrite write_varint_fuel_enc. apply enc_all_bytes. Qed.

Lemma pow128_10 : 2 ^ 64 < 128 ^ N.of_nat 10.
Proof. vm_compute. reflexivity. Qed.

Theorem varint_roundtrip_list v rest :
  v < 2 ^ 64 -> all_bytes rest -> read_varint (write_varint v ++ rest) 0 = Ok v.
Proof.
  intros Hv Hrest. rewrite read_varint_loop_list.
  - unfold write_varint. rewrite write_varint_fuel_enc.
    change 10%nat with (S 9). rewrite dec_enc by (pose proof pow128_10; lia).
    cbn [res_map]. f_equal. unfold trunc64. apply N.mod_small. exact Hv.
  - apply Forall_app. split; [apply write_varint_all_bytes|exact Hrest].
Qed.

Theorem varint_roundtrip v pre rest :
  v < 2 ^ 64 -> all_bytes pre -> all_bytes rest ->
  read_varint (pre ++ write_varint v ++ rest) (length pre) = Ok v.
Proof.
  intros Hv Hpre Hrest. rewrite read_varint_skipn.
  rewrite skipn_app, skipn_all, Nat.sub_diag. cbn [app skipn].
  apply varint_roundtrip_list; assumption.
Qed.

(** size function agrees with the writer on the whole 64-bit domain *)
Lemma enc_length_S f v : 127 < v -> length (enc (S f) v) = S (length (enc f (v / 128))).
Proof. intros H. cbn [enc]. destruct (127 <? v) eqn:E; [reflexivity|lia]. Qed.

Lemma enc_length_small f v : v <= 127 -> length (enc f v) = 1%nat.
Proof. intros H. destruct f; cbn [enc]; [reflexivity|]. destruct (127 <? v) eqn:E; [lia|reflexivity]. Qed.

Theorem varint_sizeof v : v < 2 ^ 64 -> length (write_varint v) = sizeof_varint v.
Proof.
  intros Hv. unfold write_varint. rewrite write_varint_fuel_enc. unfold sizeof_varint.
  change (2 ^ 64) with 18446744073709551616 in Hv.
  destruct (v <=? 127) eqn:E1; [apply enc_length_small; lia|].
  rewrite enc_length_S by lia.
  destruct (v <=? 16383) eqn:E2; [rewrite enc_length_small by lia; reflexivity|].
  rewrite enc_length_S by lia.
  destruct (v <=? 2097151) eqn:E3; [rewrite enc_length_small by lia; reflexivity|].
  rewrite enc_length_S by lia.
  destruct (v <=? 268435455) eqn:E4; [rewrite enc_length_small by lia; reflexivity|].
  rewrite enc_length_S by lia.
  destruct (v <=? 34359738367) eqn:E5; [rewrite enc_length_small by lia; reflexivity|].
  rewrite enc_length_S by lia.
  destruct (v <=? 4398046511103) eqn:E6; [rewrite enc_length_small by lia; reflexivity|].
  rewrite enc_length_S by lia.
  destruct (v <=? 562949953421311) eqn:E7; [rewrite enc_length_small by lia; reflexivity|].
  rewrite enc_length_S by lia.
  destruct (v <=? 72057594037927935) eqn:E8; [rewrite enc_length_small by lia; reflexivity|].
  rewrite enc_length_S by lia.
  destruct (v <=? 9223372036854775807) eqn:E9; [rewrite enc_length_small by lia; reflexivity|].
  rewrite enc_length_S by lia.
  rewrite enc_length_small by lia. reflexivity.
Qed.

(** canonical form: every byte but the last has the MSB set, the last has it clear;
    hence the encoding is prefix-free and a reader can find its end in any chunking *)
Definition cont_bytes (l : list N) : Prop := Forall (fun b => 128 <= b < 256) l.

Lemma enc_shape f v :
  v < 128 ^ N.of_nat (S f) ->
  exists cs last, enc f v = cs ++ [last] /\ cont_bytes cs /\ last < 128 /\ (length cs <= f)%nat.
Proof.
  revert v. induction f as [|f IH]; intros v Hv.
  - change (128 ^ N.of_nat 1) with 128 in Hv. exists [], v. cbn [enc app].
    rewrite N.mod_small by lia.
    split; [reflexivity|split; [constructor|split; [lia|cbn [length]; lia]]].
  - cbn [enc]. destruct (127 <? v) eqn:E.
    + assert (Hq : v / 128 < 128 ^ N.of_nat (S f)).
      { apply N.div_lt_upper_bound; [lia|].
        rewrite <- N.pow_succ_r'. rewrite <- Nnat.Nat2N.inj_succ. exact Hv. }
      destruct (IH _ Hq) as (cs & last & Heq & Hcs & Hl & Hlen).
      exists (v mod 128 + 128 :: cs), last. rewrite Heq.
      split; [reflexivity|]. split; [|split; [exact Hl|cbn [length]; lia]].
      constructor; [|exact Hcs]. assert (v mod 128 < 128) by (apply N.mod_lt; lia). lia.
    + exists [], v. cbn [app]. rewrite N.mod_small by lia.
      split; [reflexivity|split; [constructor|split; [lia|cbn [length]; lia]]].
Qed.

Theorem varint_canonical v :
  v < 2 ^ 64 ->
  exists cs last, write_varint v = cs ++ [last] /\ cont_bytes cs /\ last < 128 /\ (length cs <= 9)%nat.
Proof.
  intros Hv. unfold write_varint. rewrite write_varint_fuel_enc.
  apply enc_shape. pose proof pow128_10. lia.
Qed.
