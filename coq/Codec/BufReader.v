(** Model of MessageBufReader and FileMessageReader (src/common/protobuf_utils.rs),
    including the reused buffer with stale bytes, and of the consumer loops that
    exist in the code base. Model only: no proofs in this file. *)
From RN Require Export Base.Res Codec.Varint.
Local Open Scope nat_scope.

Record mbr : Type := mkMbr { buf : list N; st : nat; en : nat; next_len : N }.

Definition mbr_new : mbr := mkMbr (repeat 0%N 1024) 0 0 0%N.

(** new_with_data(buf, start): end = len, next_len = end - start (usize underflow = panic) *)
Definition mbr_with_data (b : list N) (start : nat) : res mbr :=
  if length b <? start then Panic
  else Ok (mkMbr b start (length b) (N.of_nat (length b - start))).

(** is_empty: reads buf[start] even when start = end (stale byte) *)
Definition mbr_is_empty (r : mbr) : bool :=
  if length (buf r) <=? st r then true else N.eqb (nth (st r) (buf r) 0%N) 0%N.

(** move_data_to_start: in-place forward copy; the last [s] cells keep their old bytes *)
Definition move_to_start (b : list N) (s : nat) : list N :=
  if s =? 0 then b
  else if length b <? s then b
  else skipn s b ++ skipn (length b - s) b.

(** while buf.len() - end < n { buf.append(vec![0; buf.len()]) } ; fuel: see [expand_enough] *)
Fixpoint expand (fuel : nat) (b : list N) (e n : nat) : option (list N) :=
  if n <=? length b - e then Some b
  else match fuel with
       | O => None
       | S f => expand f (b ++ repeat 0%N (length b)) e n
       end.

Definition mbr_append (r : mbr) (nb : list N) : res mbr :=
  if en r <? st r then Panic
  else
    let b1 := move_to_start (buf r) (st r) in
    let e := en r - st r in
    match expand (S (length nb)) b1 e (length nb) with
    | None => Panic (* the real loop would not terminate (empty buffer) *)
    | Some b2 =>
        Ok (mkMbr (firstn e b2 ++ nb ++ skipn (e + length nb) b2) 0 (e + length nb) (next_len r))
    end.

(** index just after the first byte whose MSB is clear *)
Fixpoint varint_end (l : list N) : option nat :=
  match l with
  | [] => None
  | b :: l' => if msb_clear b then Some 1 else option_map S (varint_end l')
  end.

Definition mbr_view (r : mbr) : list N := firstn (en r - st r) (skipn (st r) (buf r)).

(** next_message_vec: returns the whole frame (length prefix included) *)
Definition mbr_next (r : mbr) : option (list N) * mbr :=
  if mbr_is_empty r then (None, r)
  else
    let view := mbr_view r in
    match varint_end view with
    | None => (None, r)
    | Some w =>
        let nl := match read_varint view 0 with
                  | Ok s => (N.of_nat w + s)%N
                  | _ => next_len r
                  end in
        if (nl <=? N.of_nat (length view))%N
        then (Some (firstn (N.to_nat nl) view),
              mkMbr (buf r) (st r + N.to_nat nl) (en r) 0%N)
        else (None, mkMbr (buf r) (st r) (en r) nl)
    end.

(** while let Some(v) = next_message_vec() { collect }.  Fuel = pending bytes + 1: every
    returned frame of a well-formed stream consumes at least one byte.  Running out of fuel
    models the non-terminating case (a zero-length "frame" on a corrupt stream). *)
Fixpoint drain (fuel : nat) (r : mbr) (acc : list (list N)) : res (list (list N) * mbr) :=
  match fuel with
  | O => Err
  | S f =>
      match mbr_next r with
      | (None, r') => Ok (rev acc, r')
      | (Some m, r') => drain f r' (m :: acc)
      end
  end.

Definition drain_all (r : mbr) : res (list (list N) * mbr) :=
  drain (S (S (en r - st r))) r [].

(** EOF-terminated consumers (SnapshotReader::read_record, read_records without a count,
    load_file_map, load_records): append chunk, drain, next chunk, ... until read_len = 0 *)
Fixpoint feed_drain (chunks : list (list N)) (r : mbr) : res (list (list N)) :=
  match chunks with
  | [] => Ok []
  | c :: cs =>
      res_bind (mbr_append r c) (fun r1 =>
      res_bind (drain_all r1) (fun '(ms, r2) =>
      res_map (fun rest => ms ++ rest) (feed_drain cs r2)))
  end.

(** take at most [k] messages (k = 0 means: no limit, the source compares c == count after
    incrementing, so count 0 never matches) *)
Fixpoint drain_count (fuel : nat) (r : mbr) (c count : N) (cursor : N)
  : res (bool * N * N * mbr) :=
  match fuel with
  | O => Err
  | S f =>
      match mbr_next r with
      | (None, r') => Ok (false, c, cursor, r')
      | (Some m, r') =>
          let c' := (c + 1)%N in
          let cursor' := (cursor + N.of_nat (length m))%N in
          if (c' =? count)%N then Ok (true, c', cursor', r')
          else drain_count f r' c' count cursor'
      end
  end.

(** move_to_index_by_count over the chunk sequence returned by successive file reads.
    [end_test] is the test applied after a drained chunk: the unchanged source used
    [is_empty] (which also fires when the buffer is merely drained); the repaired source
    uses [at_end_marker]. Returns (data_cursor, records counted). *)
Definition mbr_at_end_marker (r : mbr) : bool :=
  if st r <? en r then N.eqb (nth (st r) (buf r) 0%N) 0%N else false.

Fixpoint scan_by_count (end_test : mbr -> bool) (chunks : list (list N)) (r : mbr)
         (c count cursor : N) : res (N * N) :=
  match chunks with
  | [] => Ok (cursor, c)     (* read_len == 0 *)
  | ch :: cs =>
      res_bind (mbr_append r ch) (fun r1 =>
      res_bind (drain_count (S (S (en r1 - st r1))) r1 c count cursor) (fun '(hit, c', cur', r2) =>
      if hit then Ok (cur', c')
      else if end_test r2 then Ok (cur', c')
      else scan_by_count end_test cs r2 c' count cur'))
  end.

(** * FileMessageReader over (file bytes, OS file position, logical start) *)
Record fmr : Type := mkFmr { fbytes : list N; fpos : nat; fstart : nat }.

Definition file_read (f : list N) (pos n : nat) : list N := firstn n (skipn pos f).

(** read_len: reads up to 10 bytes at the CURRENT file position into a zeroed buffer *)
Definition fmr_read_len (r : fmr) : res (N * fmr) :=
  let got := file_read (fbytes r) (fpos r) 10 in
  if length got =? 0 then Err
  else
    let lenbuf := got ++ repeat 0%N (10 - length got) in
    match read_varint lenbuf 0 with
    | Ok len =>
        if (len =? 0)%N then Err
        else Ok ((len + N.of_nat (sizeof_varint len))%N, mkFmr (fbytes r) (fstart r) (fstart r))
    | Err => Err
    | Panic => Panic
    end.

Definition fmr_read_next (r : fmr) : res (list N * fmr) :=
  res_bind (fmr_read_len r) (fun '(len, r1) =>
    let data := file_read (fbytes r1) (fpos r1) (N.to_nat len) in
    if (N.of_nat (length data) <? len)%N then Err
    else Ok (data, mkFmr (fbytes r1) (fpos r1 + length data) (fstart r1 + length data))).

Definition fmr_read_next_position (r : fmr) : res ((N * N) * fmr) :=
  res_bind (fmr_read_len r) (fun '(len, r1) =>
    let s' := fstart r1 + N.to_nat len in
    Ok ((N.of_nat (fstart r1), len), mkFmr (fbytes r1) s' s')).

Fixpoint fmr_read_index_position (k : nat) (r : fmr) : res ((N * N) * fmr) :=
  match k with
  | O => fmr_read_next_position r
  | S k' => res_bind (fmr_read_next_position r) (fun '(_, r1) => fmr_read_index_position k' r1)
  end.
