(** Protobuf wire layer as used by quick-protobuf's [Writer] / [BytesReader] for the generated
    messages of src/raft/filestore/log.rs: a message body is a sequence of fields
    [tag varint ++ value], tag = field_number * 8 + wire_type; only wire types 0 (varint) and
    2 (length-delimited) are ever written by these messages.

    [parse] turns a body into its field list (what the [while !r.is_eof() { match r.next_tag ..]
    loops of [from_reader] iterate over); the per-message decoders of RaftLog/IndexFile.v are
    folds over that list.  Wire types 1/5 (fixed64/fixed32, which [read_unknown] would skip)
    never occur in files written by these writers and are reported as [Err] (out of the model). *)
From RN Require Export Base.Res Codec.Varint.
Local Open Scope N_scope.

(** BytesReader::read_varint: LEB128, at most [n] bytes, returns the value and the rest.
    End of buffer inside a varint is an error (UnexpectedEndOfBuffer), not a panic. *)
Fixpoint rdv (n : nat) (bs : list N) : res (N * list N) :=
  match n with
  | O => Err
  | S n' =>
      match bs with
      | [] => Err
      | b :: bs' =>
          if b <? 128 then Ok (b, bs')
          else match rdv n' bs' with
               | Ok (r, rest) => Ok (b - 128 + 128 * r, rest)
               | Err => Err
               | Panic => Panic
               end
      end
  end.

Inductive wval : Type :=
| WVar (v : N)            (* wire type 0 *)
| WLen (bs : list N).     (* wire type 2 *)

Definition wfield : Type := (N * wval)%type.   (* field number, value *)

(** Writer::write_with_tag(tag, |w| w.write_uint64 / write_bytes / write_message ...) *)
Definition enc_field (f : wfield) : list N :=
  match f with
  | (n, WVar v) => write_varint (n * 8) ++ write_varint v
  | (n, WLen bs) => write_varint (n * 8 + 2) ++ write_varint (N.of_nat (length bs)) ++ bs
  end.

Definition enc_fields (fs : list wfield) : list N := concat (map enc_field fs).

(** read exactly [k] bytes (read_len_varint + sub-slice): error when the buffer is shorter *)
Definition take_n (k : N) (bs : list N) : res (list N * list N) :=
  if N.of_nat (length bs) <? k then Err
  else Ok (firstn (N.to_nat k) bs, skipn (N.to_nat k) bs).

(** one iteration of the [from_reader] loop: next_tag, then the value by wire type *)
Definition parse_step (rec : list N -> res (list wfield)) (bs : list N) : res (list wfield) :=
  res_bind (rdv 10 bs) (fun '(tag, r1) =>
  let n := tag / 8 in
  let wt := tag mod 8 in
  if wt =? 0 then
    res_bind (rdv 10 r1) (fun '(v, r2) =>
    res_bind (rec r2) (fun fs => Ok ((n, WVar v) :: fs)))
  else if wt =? 2 then
    res_bind (rdv 10 r1) (fun '(l, r2) =>
    res_bind (take_n l r2) (fun '(body, r3) =>
    res_bind (rec r3) (fun fs => Ok ((n, WLen body) :: fs))))
  else Err).

Fixpoint parse_fields (fuel : nat) (bs : list N) : res (list wfield) :=
  match fuel with
  | O => match bs with [] => Ok [] | _ :: _ => Err end
  | S f =>
      match bs with
      | [] => Ok []
      | _ :: _ => parse_step (parse_fields f) bs
      end
  end.

(** every field consumes at least one byte, so [length bs] iterations suffice *)
Definition parse (bs : list N) : res (list wfield) := parse_fields (length bs) bs.

(** packed repeated uint64 (write_packed_with_tag / read_packed) *)
Definition enc_packed (vs : list N) : list N := concat (map write_varint vs).

Definition unpack_step (rec : list N -> res (list N)) (bs : list N) : res (list N) :=
  res_bind (rdv 10 bs) (fun '(v, r) => res_bind (rec r) (fun vs => Ok (v :: vs))).

Fixpoint unpack_fuel (fuel : nat) (bs : list N) : res (list N) :=
  match fuel with
  | O => match bs with [] => Ok [] | _ :: _ => Err end
  | S f =>
      match bs with
      | [] => Ok []
      | _ :: _ => unpack_step (unpack_fuel f) bs
      end
  end.

Definition unpack (bs : list N) : res (list N) := unpack_fuel (length bs) bs.

(** values a writer can be given: u64 values, u32 tags, lengths that fit *)
Definition wf_wval (w : wval) : Prop :=
  match w with
  | WVar v => v < 2 ^ 64
  | WLen bs => N.of_nat (length bs) < 2 ^ 64 /\ all_bytes bs
  end.

Definition wf_field (f : wfield) : Prop := fst f < 2 ^ 29 /\ wf_wval (snd f).
