(** C20/C02: the end-of-log scan ([move_to_index_by_count]) over every chunking. *)
From RN Require Import Base.Res Codec.Varint Codec.BufReader Codec.VarintBits Codec.VarintProofs.
From Coq Require Import ZifyBool ZifyNat ZifyN.
Local Open Scope N_scope.
Ltac Zify.zify_post_hook ::= Z.div_mod_to_equations.

Definition body_ok (b : list N) : Prop := b <> [] /\ all_bytes b /\ N.of_nat (length b) < 2 ^ 64.
Definition frames (bodies : list (list N)) : list N := concat (map frame bodies).
Definition blen {A} (l : list A) : N := N.of_nat (length l).

(** [scan_by_count] with an explicit flag: true = returned from inside the loop (count reached
    or end marker seen), false = the chunks were exhausted (read_len = 0). *)
Fixpoint scan_chunks (end_test : mbr -> bool) (chunks : list (list N)) (r : mbr)
         (c count cursor : N) : res (bool * (N * N)) :=
  match chunks with
  | [] => Ok (false, (cursor, c))
  | ch :: cs =>
      res_bind (mbr_append r ch) (fun r1 =>
      res_bind (drain_count (S (S (en r1 - st r1))) r1 c count cursor) (fun '(hit, c', cur', r2) =>
      if hit then Ok (true, (cur', c'))
      else if end_test r2 then Ok (true, (cur', c'))
      else scan_chunks end_test cs r2 c' count cur'))
  end.

Lemma scan_by_count_chunks : forall et chunks r c count cur,
  scan_by_count et chunks r c count cur = res_map snd (scan_chunks et chunks r c count cur).
Proof.
  intros et chunks. induction chunks as [|ch cs IH]; intros r c count cur;
    cbn [scan_by_count scan_chunks]; [reflexivity|].
  destruct (mbr_append r ch) as [r1| |]; cbn [res_bind res_map]; try reflexivity.
  destruct (drain_count (S (S (en r1 - st r1))) r1 c count cur) as [[[[hit c'] cur'] r2]| |];
    cbn [res_bind res_map]; try reflexivity.
  destruct hit; [reflexivity|].
  destruct (et r2); [reflexivity|]. apply IH.
Qed.

(** * frames *)
Lemma frame_length : forall b,
  length (frame b) = (length (write_varint (N.of_nat (length b))) + length b)%nat.
Proof. intros b. unfold frame. apply app_length. Qed.

Lemma frames_cons b bs : frames (b :: bs) = frame b ++ frames bs.
Proof. reflexivity. Qed.

Lemma frames_nil : frames [] = [].
Proof. reflexivity. Qed.

Lemma frames_app : forall a b, frames (a ++ b) = frames a ++ frames b.
Proof. intros a b. unfold frames. rewrite map_app, concat_app. reflexivity. Qed.

Lemma write_varint_unfold v :
  write_varint v =
  if 127 <? v then N.lor (N.land (v mod 256) 127) 128 :: write_varint_fuel 8 (N.shiftr v 7)
  else [v mod 256].
Proof. reflexivity. Qed.

Lemma frame_nonzero_head : forall b rest,
  body_ok b -> exists x l, frame b ++ rest = x :: l /\ x <> 0.
Proof.
  intros b rest (Hne & _ & Hlen). unfold frame. rewrite write_varint_unfold.
  assert (Hpos : 0 < N.of_nat (length b)).
  { destruct b as [|y b]; [congruence|]. cbn [length]. lia. }
  destruct (127 <? N.of_nat (length b)) eqn:E.
  - rewrite cont_byte. cbn [app]. eexists. eexists. split; [reflexivity|]. lia.
  - cbn [app]. eexists. eexists. split; [reflexivity|]. lia.
Qed.

Lemma frame_all_bytes : forall b, body_ok b -> all_bytes (frame b).
Proof.
  intros b (_ & Hb & _). unfold frame. apply Forall_app. split; [apply write_varint_all_bytes|exact Hb].
Qed.

Lemma frames_all_bytes : forall bs, Forall body_ok bs -> all_bytes (frames bs).
Proof.
  intros bs H. induction H as [|b bs Hb Hbs IH]; [constructor|].
  rewrite frames_cons. apply Forall_app. split; [apply frame_all_bytes, Hb|exact IH].
Qed.

Lemma write_varint_nonempty v : (0 < length (write_varint v))%nat.
Proof. rewrite write_varint_unfold. destruct (127 <? v); cbn [length]; lia. Qed.

Lemma frame_length_pos b : (0 < length (frame b))%nat.
Proof. rewrite frame_length. pose proof (write_varint_nonempty (N.of_nat (length b))). lia. Qed.

Lemma frames_length_ge bs : (length bs <= length (frames bs))%nat.
Proof.
  induction bs as [|b bs IH]; [cbn [length]; lia|].
  rewrite frames_cons, app_length. pose proof (frame_length_pos b). cbn [length]. lia.
Qed.

(** * the end of a canonical varint *)
Lemma cont_msb b : 128 <= b < 256 -> msb_clear b = false.
Proof. intros H. rewrite msb_clear_ltb by lia. lia. Qed.

Lemma last_msb b : b < 128 -> msb_clear b = true.
Proof. intros H. rewrite msb_clear_ltb by lia. lia. Qed.

Lemma varint_end_cont cs : cont_bytes cs -> varint_end cs = None.
Proof.
  intros H. induction H as [|b cs Hb Hcs IH]; [reflexivity|].
  cbn [varint_end]. rewrite (cont_msb b Hb), IH. reflexivity.
Qed.

Lemma varint_end_last cs last rest :
  cont_bytes cs -> last < 128 -> varint_end (cs ++ last :: rest) = Some (S (length cs)).
Proof.
  intros H Hl. induction H as [|b cs Hb Hcs IH]; cbn [app varint_end length].
  - rewrite (last_msb last Hl). reflexivity.
  - rewrite (cont_msb b Hb), IH. reflexivity.
Qed.

Lemma varint_end_write v rest :
  v < 2 ^ 64 -> varint_end (write_varint v ++ rest) = Some (length (write_varint v)).
Proof.
  intros Hv. destruct (varint_canonical v Hv) as (cs & last & Hw & Hcs & Hl & _).
  rewrite Hw, <- app_assoc. cbn [app]. rewrite varint_end_last by assumption.
  rewrite app_length. cbn [length]. f_equal. lia.
Qed.

(** * list helpers *)
Lemma nth_hd_skipn {A} n (l : list A) d : nth n l d = hd d (skipn n l).
Proof.
  revert l. induction n as [|n IH]; intros l; destruct l as [|a l]; cbn [nth skipn hd]; try reflexivity.
  apply IH.
Qed.

Lemma skipn_add {A} k s (l : list A) : skipn k (skipn s l) = skipn (s + k) l.
Proof.
  revert l. induction s as [|s IH]; intros l; [reflexivity|].
  destruct l as [|a l]; cbn [skipn plus]; [apply skipn_nil|apply IH].
Qed.

(** * the reader seen through its window of pending bytes *)
Definition mbr_inv (r : mbr) : Prop :=
  (st r <= en r)%nat /\ (en r <= length (buf r))%nat /\ (0 < length (buf r))%nat.

Lemma mbr_new_inv : mbr_inv mbr_new /\ mbr_view mbr_new = [].
Proof.
  split; [|reflexivity]. unfold mbr_inv, mbr_new. cbn [st en buf].
  rewrite repeat_length. lia.
Qed.

Lemma mbr_view_length r : mbr_inv r -> length (mbr_view r) = (en r - st r)%nat.
Proof.
  intros (H1 & H2 & H3). unfold mbr_view. rewrite firstn_length, skipn_length. lia.
Qed.

Lemma mbr_view_cells : forall r r', buf r' = buf r -> st r' = st r -> en r' = en r ->
  mbr_view r' = mbr_view r /\ (mbr_inv r -> mbr_inv r') /\
  mbr_at_end_marker r' = mbr_at_end_marker r.
Proof.
  intros r r' Hb Hs He. unfold mbr_view, mbr_inv, mbr_at_end_marker. rewrite Hb, Hs, He.
  split; [reflexivity|]. split; [tauto|reflexivity].
Qed.

Lemma mbr_view_head r x l :
  mbr_inv r -> mbr_view r = x :: l -> (st r < en r)%nat /\ nth (st r) (buf r) 0 = x.
Proof.
  intros Hinv Hv. pose proof (mbr_view_length r Hinv) as Hlen. rewrite Hv in Hlen.
  cbn [length] in Hlen. split; [lia|].
  rewrite nth_hd_skipn. unfold mbr_view in Hv.
  destruct (en r - st r)%nat as [|k]; [discriminate|].
  destruct (skipn (st r) (buf r)) as [|y s]; cbn [firstn] in Hv; [discriminate|].
  injection Hv as Hx _. cbn [hd]. exact Hx.
Qed.

Lemma mbr_at_end_marker_view : forall r, mbr_inv r ->
  mbr_at_end_marker r = match mbr_view r with 0 :: _ => true | _ => false end.
Proof.
  intros r Hinv. unfold mbr_at_end_marker. destruct (mbr_view r) as [|x l] eqn:Hv.
  - pose proof (mbr_view_length r Hinv) as Hlen. rewrite Hv in Hlen. cbn [length] in Hlen.
    destruct (st r <? en r)%nat eqn:E; [lia|reflexivity].
  - destruct (mbr_view_head r x l Hinv Hv) as [Hlt Hn]. rewrite Hn.
    destruct (st r <? en r)%nat eqn:E; [|lia].
    destruct x; reflexivity.
Qed.

Lemma mbr_is_empty_view r x l :
  mbr_inv r -> mbr_view r = x :: l -> mbr_is_empty r = (x =? 0).
Proof.
  intros Hinv Hv. destruct (mbr_view_head r x l Hinv Hv) as [Hlt Hn].
  destruct Hinv as (H1 & H2 & H3). unfold mbr_is_empty. rewrite Hn.
  destruct (length (buf r) <=? st r)%nat eqn:E; [lia|reflexivity].
Qed.

Lemma mbr_view_advance r k z :
  mbr_view (mkMbr (buf r) (st r + k) (en r) z) = skipn k (mbr_view r).
Proof.
  unfold mbr_view. cbn [buf st en]. rewrite skipn_firstn_comm, skipn_add.
  f_equal. lia.
Qed.

(** ** append *)
Lemma move_to_start_length b s : length (move_to_start b s) = length b.
Proof.
  unfold move_to_start. destruct (s =? 0)%nat eqn:E0; [reflexivity|].
  destruct (length b <? s)%nat eqn:E1; [reflexivity|].
  rewrite app_length, !skipn_length. lia.
Qed.

Lemma move_to_start_firstn b s e :
  (s <= length b)%nat -> (e <= length b - s)%nat ->
  firstn e (move_to_start b s) = firstn e (skipn s b).
Proof.
  intros Hs He. unfold move_to_start. destruct (s =? 0)%nat eqn:E0.
  - apply Nat.eqb_eq in E0. subst s. reflexivity.
  - destruct (length b <? s)%nat eqn:E1; [lia|].
    rewrite firstn_app, skipn_length.
    replace (e - (length b - s))%nat with 0%nat by lia.
    rewrite firstn_O, app_nil_r. reflexivity.
Qed.

Lemma expand_ok : forall fuel b e n,
  (0 < length b)%nat -> (n <= fuel + (length b - e))%nat -> (e <= length b)%nat ->
  exists z, expand fuel b e n = Some (b ++ z) /\ (n <= length (b ++ z) - e)%nat.
Proof.
  induction fuel as [|f IH]; intros b e n Hb Hn He; cbn [expand];
    destruct (n <=? length b - e)%nat eqn:E.
  - exists []. rewrite app_nil_r. split; [reflexivity|lia].
  - lia.
  - exists []. rewrite app_nil_r. split; [reflexivity|lia].
  - destruct (IH (b ++ repeat 0 (length b)) e n) as (z & Hz & Hlen).
    + rewrite app_length. lia.
    + rewrite app_length, repeat_length. lia.
    + rewrite app_length. lia.
    + exists (repeat 0 (length b) ++ z). rewrite app_assoc. split; [exact Hz|exact Hlen].
Qed.

Lemma mbr_append_view : forall r ch, mbr_inv r ->
  exists r1, mbr_append r ch = Ok r1 /\ mbr_inv r1 /\ mbr_view r1 = mbr_view r ++ ch.
Proof.
  intros r ch (H1 & H2 & H3). unfold mbr_append.
  destruct (en r <? st r)%nat eqn:E; [lia|].
  pose proof (move_to_start_length (buf r) (st r)) as Hml.
  destruct (expand_ok (S (length ch)) (move_to_start (buf r) (st r)) (en r - st r) (length ch))
    as (z & Hz & Hlen); try lia.
  rewrite Hz.
  assert (Hfe : firstn (en r - st r) (move_to_start (buf r) (st r) ++ z) = mbr_view r).
  { rewrite firstn_app. replace (en r - st r - length (move_to_start (buf r) (st r)))%nat with 0%nat by lia.
    rewrite firstn_O, app_nil_r. unfold mbr_view. apply move_to_start_firstn; lia. }
  assert (Hvl : length (mbr_view r) = (en r - st r)%nat) by (apply mbr_view_length; unfold mbr_inv; lia).
  rewrite app_length in Hlen.
  eexists. split; [reflexivity|]. rewrite Hfe. split.
  - unfold mbr_inv. cbn [st en buf]. rewrite !app_length, skipn_length, app_length. lia.
  - unfold mbr_view at 1. cbn [st en buf skipn]. rewrite Nat.sub_0_r.
    rewrite app_assoc, firstn_app.
    replace (en r - st r + length ch - length (mbr_view r ++ ch))%nat with 0%nat
      by (rewrite app_length; lia).
    rewrite firstn_O, app_nil_r. apply firstn_all2. rewrite app_length. lia.
Qed.

(** ** next_message_vec as a function of the window *)
Lemma mbr_next_nil : forall r, mbr_inv r -> mbr_view r = [] ->
  exists r', mbr_next r = (None, r') /\ buf r' = buf r /\ st r' = st r /\ en r' = en r.
Proof.
  intros r Hinv Hv. exists r. split; [|auto]. unfold mbr_next.
  destruct (mbr_is_empty r); [reflexivity|]. cbv zeta. rewrite Hv. reflexivity.
Qed.

Lemma mbr_next_zero : forall r l, mbr_inv r -> mbr_view r = 0 :: l -> mbr_next r = (None, r).
Proof.
  intros r l Hinv Hv. unfold mbr_next. rewrite (mbr_is_empty_view r 0 l Hinv Hv). reflexivity.
Qed.

Lemma mbr_next_frame : forall r b rest,
  mbr_inv r -> body_ok b -> all_bytes rest -> mbr_view r = frame b ++ rest ->
  exists r', mbr_next r = (Some (frame b), r') /\ mbr_inv r' /\ mbr_view r' = rest.
Proof.
  intros r b rest Hinv Hb Hrest Hv.
  destruct (frame_nonzero_head b rest Hb) as (x & l & Hxl & Hx).
  assert (Hemp : mbr_is_empty r = false).
  { rewrite (mbr_is_empty_view r x l Hinv) by congruence. lia. }
  destruct Hb as (Hne & Hab & Hlen).
  set (n := N.of_nat (length b)) in *. set (w := length (write_varint n)).
  assert (Hfl : length (frame b) = (w + length b)%nat) by apply frame_length.
  assert (Hve : varint_end (mbr_view r) = Some w).
  { rewrite Hv. unfold frame. rewrite <- app_assoc. apply varint_end_write. exact Hlen. }
  assert (Hrd : read_varint (mbr_view r) 0 = Ok n).
  { rewrite Hv. unfold frame. rewrite <- app_assoc. apply varint_roundtrip_list; [exact Hlen|].
    apply Forall_app. split; assumption. }
  assert (Hvl : length (mbr_view r) = (w + length b + length rest)%nat).
  { rewrite Hv, app_length, Hfl. reflexivity. }
  pose proof (mbr_view_length r Hinv) as Hvl2.
  unfold mbr_next. rewrite Hemp. cbv zeta. rewrite Hve, Hrd.
  destruct (N.of_nat w + n <=? N.of_nat (length (mbr_view r))) eqn:E; [|lia].
  replace (N.to_nat (N.of_nat w + n)) with (length (frame b)) by lia.
  eexists. split; [f_equal|split].
  - f_equal. rewrite Hv, firstn_app, Nat.sub_diag, firstn_all, firstn_O, app_nil_r. reflexivity.
  - destruct Hinv as (H1 & H2 & H3). unfold mbr_inv. cbn [st en buf]. lia.
  - rewrite mbr_view_advance, Hv, skipn_app, skipn_all, Nat.sub_diag. reflexivity.
Qed.

Lemma mbr_next_partial : forall r b v x,
  mbr_inv r -> body_ok b -> mbr_view r = v -> v <> [] -> x <> [] -> v ++ x = frame b ->
  exists r', mbr_next r = (None, r') /\ buf r' = buf r /\ st r' = st r /\ en r' = en r.
Proof.
  intros r b v x Hinv Hb Hv Hvne Hxne Hsplit.
  destruct (frame_nonzero_head b [] Hb) as (y & l & Hyl & Hy).
  rewrite app_nil_r in Hyl.
  destruct v as [|y' v']; [congruence|].
  assert (y' = y) by (rewrite Hyl in Hsplit; cbn [app] in Hsplit; congruence). subst y'.
  assert (Hemp : mbr_is_empty r = false).
  { rewrite (mbr_is_empty_view r y v' Hinv Hv). lia. }
  destruct Hb as (Hne & Hab & Hlen).
  set (n := N.of_nat (length b)) in *.
  destruct (varint_canonical n Hlen) as (cs & last & Hw & Hcs & Hl & _).
  assert (Hcase : (exists l0, y :: v' = write_varint n ++ l0 /\ b = l0 ++ x) \/
                  (exists l1, cs = (y :: v') ++ l1)).
  { unfold frame in Hsplit. fold n in Hsplit.
    apply app_eq_app in Hsplit. destruct Hsplit as [l0 [[H1 H2]|[H1 H2]]].
    - left. exists l0. split; assumption.
    - destruct l0 as [|a l0 _] using rev_ind.
      + left. exists []. rewrite app_nil_r in H1. cbn [app] in H2 |- *. rewrite app_nil_r. split; congruence.
      + right. exists l0. rewrite Hw, app_assoc in H1. apply app_inj_tail in H1. tauto. }
  unfold mbr_next. rewrite Hemp. cbv zeta. rewrite Hv.
  destruct Hcase as [(l0 & H1 & H2)|(l1 & H1)].
  - rewrite H1. rewrite varint_end_write by exact Hlen.
    rewrite varint_roundtrip_list; [|exact Hlen|].
    + assert (Hbl : length b = (length l0 + length x)%nat) by (rewrite H2; apply app_length).
      assert (0 < length x)%nat by (destruct x; [congruence|cbn [length]; lia]).
      rewrite app_length.
      destruct (N.of_nat (length (write_varint n)) + n <=? N.of_nat (length (write_varint n) + length l0)) eqn:E;
        [lia|].
      eexists. split; [reflexivity|]. cbn [buf st en]. auto.
    + rewrite H2 in Hab. apply Forall_app in Hab. tauto.
  - rewrite varint_end_cont.
    + exists r. auto.
    + rewrite H1 in Hcs. apply Forall_app in Hcs. tauto.
Qed.

(** a window that holds no whole record: empty, at the end marker, or a proper prefix of a record *)
Definition stuck_view (v : list N) : Prop :=
  v = [] \/ (exists l, v = 0 :: l) \/ (exists b x, body_ok b /\ x <> [] /\ v ++ x = frame b).

Lemma mbr_next_stuck r :
  mbr_inv r -> stuck_view (mbr_view r) ->
  exists r', mbr_next r = (None, r') /\ buf r' = buf r /\ st r' = st r /\ en r' = en r.
Proof.
  intros Hinv [Hv|[(l & Hv)|(b & x & Hb & Hx & Hv)]].
  - apply mbr_next_nil; assumption.
  - exists r. split; [eapply mbr_next_zero; eassumption|auto].
  - destruct (mbr_view r) as [|y v'] eqn:Hvv.
    + apply mbr_next_nil; assumption.
    + apply (mbr_next_partial r b (y :: v') x); try assumption. discriminate.
Qed.

(** * drain_count over a window = whole records ++ stuck residue *)
Lemma blen_nil {A} : blen (@nil A) = 0.
Proof. reflexivity. Qed.

Lemma blen_cons {A} (a : A) l : blen (a :: l) = 1 + blen l.
Proof. unfold blen. cbn [length]. lia. Qed.

Lemma blen_app {A} (a b : list A) : blen (a ++ b) = blen a + blen b.
Proof. unfold blen. rewrite app_length. lia. Qed.

Lemma drain_count_nohit : forall bs r fuel c count cur resid,
  mbr_inv r -> Forall body_ok bs -> all_bytes resid -> stuck_view resid ->
  mbr_view r = frames bs ++ resid -> (length bs < fuel)%nat ->
  (count <= c \/ c + blen bs < count) ->
  exists r', drain_count fuel r c count cur = Ok (false, c + blen bs, cur + blen (frames bs), r')
             /\ mbr_inv r' /\ mbr_view r' = resid.
Proof.
  induction bs as [|b bs IH]; intros r fuel c count cur resid Hinv Hbs Hres Hst Hv Hf Hc;
    (destruct fuel as [|f]; [cbn [length] in Hf; lia|]); cbn [drain_count].
  - rewrite frames_nil in *. cbn [app] in Hv. rewrite blen_nil, !N.add_0_r.
    destruct (mbr_next_stuck r Hinv) as (r' & Hn & Hb & Hs & He); [rewrite Hv; exact Hst|].
    rewrite Hn. exists r'. split; [reflexivity|].
    destruct (mbr_view_cells r r' Hb Hs He) as (H1 & H2 & _). split; [auto|congruence].
  - apply Forall_cons_iff in Hbs. destruct Hbs as [Hb Hbs].
    rewrite frames_cons, <- app_assoc in Hv.
    destruct (mbr_next_frame r b (frames bs ++ resid) Hinv Hb) as (r1 & Hn & Hinv1 & Hv1);
      [apply Forall_app; split; [apply frames_all_bytes; exact Hbs|exact Hres]|exact Hv|].
    rewrite Hn. rewrite blen_cons in Hc.
    destruct (c + 1 =? count) eqn:E; [lia|].
    cbn [length] in Hf.
    destruct (IH r1 f (c + 1) count (cur + N.of_nat (length (frame b))) resid)
      as (r' & Hd & Hinv' & Hv'); try assumption; try lia.
    exists r'. split; [|split; assumption]. rewrite Hd.
    rewrite frames_cons, blen_app, blen_cons. unfold blen at 3.
    replace (c + 1 + blen bs) with (c + (1 + blen bs)) by lia.
    replace (cur + N.of_nat (length (frame b)) + blen (frames bs))
      with (cur + (N.of_nat (length (frame b)) + blen (frames bs))) by lia.
    reflexivity.
Qed.

Lemma drain_count_hit : forall bs r fuel c count cur rest,
  mbr_inv r -> Forall body_ok bs -> all_bytes rest -> bs <> [] ->
  mbr_view r = frames bs ++ rest -> (length bs < fuel)%nat ->
  count = c + blen bs ->
  exists r', drain_count fuel r c count cur = Ok (true, count, cur + blen (frames bs), r').
Proof.
  induction bs as [|b bs IH]; intros r fuel c count cur rest Hinv Hbs Hrest Hne Hv Hf Hc;
    [congruence|].
  destruct fuel as [|f]; [cbn [length] in Hf; lia|]. cbn [drain_count].
  apply Forall_cons_iff in Hbs. destruct Hbs as [Hb Hbs].
  rewrite frames_cons, <- app_assoc in Hv.
  destruct (mbr_next_frame r b (frames bs ++ rest) Hinv Hb) as (r1 & Hn & Hinv1 & Hv1);
    [apply Forall_app; split; [apply frames_all_bytes; exact Hbs|exact Hrest]|exact Hv|].
  rewrite Hn. rewrite blen_cons in Hc. cbn [length] in Hf.
  rewrite frames_cons, blen_app. unfold blen at 1.
  destruct (c + 1 =? count) eqn:E.
  - assert (bs = []) by (destruct bs; [reflexivity|rewrite blen_cons in Hc; lia]). subst bs.
    exists r1. rewrite frames_nil, blen_nil, N.add_0_r.
    replace (c + 1) with count by lia. reflexivity.
  - assert (bs <> []) by (intros ->; rewrite blen_nil in Hc; lia).
    destruct (IH r1 f (c + 1) count (cur + N.of_nat (length (frame b))) rest)
      as (r' & Hd); try assumption; try lia.
    exists r'. rewrite Hd.
    replace (cur + N.of_nat (length (frame b)) + blen (frames bs))
      with (cur + (N.of_nat (length (frame b)) + blen (frames bs))) by lia.
    reflexivity.
Qed.

(** * a prefix of a record stream = whole records ++ residue *)
Lemma prefix_frames : forall bs p q z,
  p ++ q = frames bs ++ z ->
  exists bs1 bs2 resid, bs = bs1 ++ bs2 /\ p = frames bs1 ++ resid /\
    ((bs2 = [] /\ z = resid ++ q) \/
     (exists b bs3 y, bs2 = b :: bs3 /\ y <> [] /\ resid ++ y = frame b)).
Proof.
  induction bs as [|b bs IH]; intros p q z H.
  - exists [], [], p. rewrite frames_nil in *. cbn [app] in *. auto.
  - rewrite frames_cons, <- app_assoc in H. apply app_eq_app in H.
    assert (Hcase : (exists l, p = frame b ++ l /\ frames bs ++ z = l ++ q) \/
                    (exists y, y <> [] /\ p ++ y = frame b)).
    { destruct H as [l [[H1 H2]|[H1 H2]]].
      - left. exists l. auto.
      - destruct l as [|a l].
        + left. exists []. rewrite app_nil_r in *. cbn [app] in *. auto.
        + right. exists (a :: l). split; [discriminate|auto]. }
    destruct Hcase as [(l & H1 & H2)|(y & Hy & H1)].
    + symmetry in H2. destruct (IH l q z H2) as (bs1 & bs2 & resid & E1 & E2 & E3).
      exists (b :: bs1), bs2, resid. rewrite frames_cons, <- app_assoc, <- E2.
      split; [cbn [app]; congruence|]. split; [exact H1|exact E3].
    + exists [], (b :: bs), p. split; [reflexivity|]. split; [reflexivity|].
      right. exists b, bs, y. auto.
Qed.

Lemma prefix_frames_split : forall bs z p q, Forall body_ok bs -> p ++ q = frames bs ++ z ->
  exists j resid, (j <= length bs)%nat /\ p = frames (firstn j bs) ++ resid /\
    (((j < length bs)%nat /\ exists x, x <> [] /\ resid ++ x = frame (nth j bs []))
     \/ (j = length bs /\ exists q', resid ++ q' = z)).
Proof.
  intros bs z p q _ H.
  destruct (prefix_frames bs p q z H) as (bs1 & bs2 & resid & E1 & E2 & E3).
  exists (length bs1), resid. subst bs. rewrite app_length.
  rewrite firstn_app, Nat.sub_diag, firstn_all, firstn_O, app_nil_r.
  split; [lia|]. split; [exact E2|].
  destruct E3 as [[-> E3]|(b & bs3 & y & -> & Hy & E3)].
  - right. cbn [length]. split; [lia|]. exists q. auto.
  - left. cbn [length]. split; [lia|]. exists y. rewrite nth_middle. auto.
Qed.

(** * induction over the chunks *)
(** the window before a read holds no whole record of [todo] *)
Definition stuckP (todo : list (list N)) (v : list N) : Prop :=
  v = [] \/ exists b todo' x, todo = b :: todo' /\ x <> [] /\ v ++ x = frame b.

Lemma frame_prefix_head b y0 v x : body_ok b -> (y0 :: v) ++ x = frame b -> y0 <> 0.
Proof.
  intros Hb H. destruct (frame_nonzero_head b [] Hb) as (y & l & Hyl & Hy).
  rewrite app_nil_r in Hyl. rewrite Hyl in H. cbn [app] in H. congruence.
Qed.

Lemma stuckP_short todo v :
  stuckP todo v -> todo <> [] -> (length v < length (frame (hd [] todo)))%nat.
Proof.
  intros [->|(b & todo' & x & -> & Hx & Hv)] Hne.
  - cbn [length]. apply frame_length_pos.
  - cbn [hd]. rewrite <- Hv, app_length. destruct x; [congruence|cbn [length]; lia].
Qed.

Lemma scan_end_gen : forall chunks r c count cur todo tail fut,
  mbr_inv r -> Forall body_ok todo -> all_bytes tail ->
  Forall (fun ch => ch <> []) chunks ->
  stuckP todo (mbr_view r) ->
  mbr_view r ++ concat chunks ++ fut = frames todo ++ 0 :: tail ->
  (length (frames todo) < length (mbr_view r) + length (concat chunks))%nat ->
  c + blen todo < count ->
  scan_chunks mbr_at_end_marker chunks r c count cur
    = Ok (true, (cur + blen (frames todo), c + blen todo)).
Proof.
  induction chunks as [|ch cs IH];
    intros r c count cur todo tail fut Hinv Htodo Htail Hne Hst Heq Hlen Hc.
  - exfalso. cbn [concat length] in Hlen. destruct todo as [|b todo'].
    + destruct Hst as [Hv|(b & todo' & x & Habs & _)]; [|discriminate].
      rewrite Hv in Hlen. cbn [length] in Hlen. lia.
    + pose proof (stuckP_short _ _ Hst) as Hs. cbn [hd] in Hs.
      rewrite frames_cons, app_length in Hlen. assert (b :: todo' <> []) by discriminate. intuition lia.
  - cbn [scan_chunks]. apply Forall_cons_iff in Hne. destruct Hne as [Hch Hcs].
    destruct (mbr_append_view r ch Hinv) as (r1 & Ha & Hinv1 & Hv1). rewrite Ha. cbn [res_bind].
    cbn [concat] in Heq, Hlen. rewrite app_length in Hlen.
    assert (Heq1 : mbr_view r1 ++ (concat cs ++ fut) = frames todo ++ 0 :: tail).
    { rewrite Hv1, <- !app_assoc. rewrite <- !app_assoc in Heq. exact Heq. }
    assert (Hall : all_bytes (frames todo ++ 0 :: tail)).
    { apply Forall_app. split; [apply frames_all_bytes; exact Htodo|].
      constructor; [unfold is_byte; lia|exact Htail]. }
    destruct (prefix_frames todo (mbr_view r1) (concat cs ++ fut) (0 :: tail) Heq1)
      as (bs1 & bs2 & resid & E1 & E2 & E3).
    subst todo. apply Forall_app in Htodo. destruct Htodo as [Hbs1 Hbs2].
    assert (Hrb : all_bytes resid).
    { rewrite <- Heq1, E2 in Hall. apply Forall_app in Hall. destruct Hall as [Hall _].
      apply Forall_app in Hall. tauto. }
    assert (Hstuck : stuck_view resid).
    { destruct E3 as [[-> E3]|(b & bs3 & y & -> & Hy & E3)].
      - destruct resid as [|y0 resid']; [left; reflexivity|]. right; left.
        cbn [app] in E3. injection E3 as <- _. eexists; reflexivity.
      - right; right. exists b, y. apply Forall_cons_iff in Hbs2. tauto. }
    pose proof (mbr_view_length r1 Hinv1) as Hl1.
    assert (Hvl : (length (mbr_view r) + length ch = length (frames bs1) + length resid)%nat).
    { rewrite <- !app_length, <- Hv1, E2. reflexivity. }
    rewrite frames_app, app_length in Hlen. rewrite blen_app in Hc.
    destruct (drain_count_nohit bs1 r1 (S (S (en r1 - st r1))) c count cur resid)
      as (r2 & Hd & Hinv2 & Hv2); try assumption.
    { pose proof (frames_length_ge bs1). rewrite <- Hl1, E2, app_length. lia. }
    { right. lia. }
    rewrite Hd. cbn [res_bind].
    rewrite (mbr_at_end_marker_view r2 Hinv2), Hv2.
    assert (Heq2 : resid ++ concat cs ++ fut = frames bs2 ++ 0 :: tail).
    { rewrite E2, frames_app, <- !app_assoc in Heq1. apply app_inv_head in Heq1. exact Heq1. }
    rewrite frames_app, !blen_app, !N.add_assoc.
    destruct resid as [|y0 resid'].
    + apply (IH r2 _ _ _ bs2 tail fut); try assumption.
      * rewrite Hv2. left. reflexivity.
      * rewrite Hv2. exact Heq2.
      * rewrite Hv2. cbn [length] in *. lia.
      * lia.
    + destruct E3 as [[-> E3]|(b & bs3 & y & -> & Hy & E3)].
      * cbn [app] in E3. injection E3 as <- _.
        rewrite frames_nil, !blen_nil, !N.add_0_r. reflexivity.
      * assert (Hy0 : y0 <> 0).
        { apply Forall_cons_iff in Hbs2. eapply frame_prefix_head; [apply Hbs2|exact E3]. }
        destruct y0 as [|py]; [congruence|].
        apply (IH r2 _ _ _ (b :: bs3) tail fut); try assumption.
        -- rewrite Hv2. right. exists b, bs3, y. auto.
        -- rewrite Hv2. exact Heq2.
        -- rewrite Hv2. lia.
        -- lia.
Qed.

Lemma scan_count_gen : forall chunks r c count cur todo tail fut,
  mbr_inv r -> Forall body_ok todo -> all_bytes tail ->
  Forall (fun ch => ch <> []) chunks ->
  stuckP todo (mbr_view r) ->
  mbr_view r ++ concat chunks ++ fut = frames todo ++ tail ->
  c < count <= c + blen todo ->
  (length (frames (firstn (N.to_nat (count - c)) todo))
     <= length (mbr_view r) + length (concat chunks))%nat ->
  scan_chunks mbr_at_end_marker chunks r c count cur
    = Ok (true, (cur + blen (frames (firstn (N.to_nat (count - c)) todo)), count)).
Proof.
  induction chunks as [|ch cs IH];
    intros r c count cur todo tail fut Hinv Htodo Htail Hne Hst Heq Hc Hlen.
  - exfalso. cbn [concat length] in Hlen.
    destruct (N.to_nat (count - c)) as [|k'] eqn:Ek; [lia|].
    destruct todo as [|b todo']; [rewrite blen_nil in Hc; lia|].
    pose proof (stuckP_short _ _ Hst) as Hs. cbn [hd] in Hs.
    cbn [firstn] in Hlen. rewrite frames_cons, app_length in Hlen.
    assert (b :: todo' <> []) by discriminate. intuition lia.
  - cbn [scan_chunks]. apply Forall_cons_iff in Hne. destruct Hne as [Hch Hcs].
    destruct (mbr_append_view r ch Hinv) as (r1 & Ha & Hinv1 & Hv1). rewrite Ha. cbn [res_bind].
    cbn [concat] in Heq, Hlen. rewrite app_length in Hlen.
    assert (Heq1 : mbr_view r1 ++ (concat cs ++ fut) = frames todo ++ tail).
    { rewrite Hv1, <- !app_assoc. rewrite <- !app_assoc in Heq. exact Heq. }
    assert (Hall : all_bytes (frames todo ++ tail)).
    { apply Forall_app. split; [apply frames_all_bytes; exact Htodo|exact Htail]. }
    destruct (prefix_frames todo (mbr_view r1) (concat cs ++ fut) tail Heq1)
      as (bs1 & bs2 & resid & E1 & E2 & E3).
    subst todo. apply Forall_app in Htodo. destruct Htodo as [Hbs1 Hbs2].
    assert (Hv1b : all_bytes (mbr_view r1)).
    { rewrite <- Heq1 in Hall. apply Forall_app in Hall. tauto. }
    pose proof (mbr_view_length r1 Hinv1) as Hl1.
    assert (Hvl : (length (mbr_view r) + length ch = length (frames bs1) + length resid)%nat).
    { rewrite <- !app_length, <- Hv1, E2. reflexivity. }
    rewrite blen_app in Hc.
    pose proof (frames_length_ge bs1) as Hge.
    assert (Hl2 : length (mbr_view r1) = (length (frames bs1) + length resid)%nat)
      by (rewrite E2; apply app_length).
    set (k := N.to_nat (count - c)) in *.
    rewrite firstn_app in Hlen |- *.
    destruct (le_lt_dec k (length bs1)) as [Hk|Hk].
    + (* the count is reached inside this chunk *)
      replace (k - length bs1)%nat with 0%nat in * by lia.
      rewrite firstn_O, app_nil_r in *.
      assert (Hfl : length (firstn k bs1) = k) by (apply firstn_length_le; exact Hk).
      rewrite <- (firstn_skipn k bs1), frames_app, <- app_assoc in E2.
      rewrite <- (firstn_skipn k bs1) in Hbs1. apply Forall_app in Hbs1.
      destruct (drain_count_hit (firstn k bs1) r1 (S (S (en r1 - st r1))) c count cur
                  (frames (skipn k bs1) ++ resid)) as (r2 & Hd); try tauto.
      * rewrite E2 in Hv1b. apply Forall_app in Hv1b. tauto.
      * intros Hnil. rewrite Hnil in Hfl. cbn [length] in Hfl. lia.
      * rewrite Hfl. lia.
      * unfold blen. rewrite Hfl. lia.
      * rewrite Hd. cbn [res_bind]. reflexivity.
    + (* not yet *)
      rewrite (firstn_all2 bs1) in Hlen |- * by lia.
      destruct E3 as [[-> E3]|(b & bs3 & y & -> & Hy & E3)];
        [rewrite blen_nil in Hc; unfold blen in Hc; lia|].
      assert (Hb : body_ok b) by (apply Forall_cons_iff in Hbs2; tauto).
      assert (Hrb : all_bytes resid).
      { rewrite E2 in Hv1b. apply Forall_app in Hv1b. tauto. }
      assert (Hstuck : stuck_view resid) by (right; right; exists b, y; auto).
      destruct (drain_count_nohit bs1 r1 (S (S (en r1 - st r1))) c count cur resid)
        as (r2 & Hd & Hinv2 & Hv2); try assumption.
      { rewrite <- Hl1, E2, app_length. lia. }
      { right. unfold blen. lia. }
      rewrite Hd. cbn [res_bind].
      rewrite (mbr_at_end_marker_view r2 Hinv2), Hv2.
      assert (Heq2 : resid ++ concat cs ++ fut = frames (b :: bs3) ++ tail).
      { rewrite E2, frames_app, <- !app_assoc in Heq1. apply app_inv_head in Heq1. exact Heq1. }
      rewrite frames_app, app_length in Hlen.
      rewrite frames_app, blen_app, N.add_assoc.
      assert (Hk2 : (k - length bs1)%nat = N.to_nat (count - (c + blen bs1))) by (unfold blen; lia).
      rewrite Hk2 in Hlen |- *.
      assert (Hmark : match resid with 0 :: _ => true | _ => false end = false).
      { destruct resid as [|y0 resid']; [reflexivity|].
        assert (Hy0 : y0 <> 0) by (eapply frame_prefix_head; [exact Hb|exact E3]).
        destruct y0; [congruence|reflexivity]. }
      rewrite Hmark.
      apply (IH r2 _ _ _ (b :: bs3) tail fut); try assumption.
      * rewrite Hv2. destruct resid as [|y0 resid']; [left; reflexivity|].
        right. exists b, bs3, y. auto.
      * rewrite Hv2. exact Heq2.
      * unfold blen in *. lia.
      * rewrite Hv2. lia.
Qed.

(** * the scan from a fresh reader *)

(** the scan runs to the first zero length: every whole record is counted, whatever the chunking,
    provided the chunks read so far include the zero byte that follows the last record *)
Theorem scan_chunks_to_end : forall bodies tail chunks fut count cur0,
  Forall body_ok bodies -> all_bytes tail ->
  Forall (fun ch => ch <> []) chunks ->
  concat chunks ++ fut = frames bodies ++ 0 :: tail ->
  (length (frames bodies) < length (concat chunks))%nat ->
  blen bodies < count ->
  scan_chunks mbr_at_end_marker chunks mbr_new 0 count cur0
    = Ok (true, (cur0 + blen (frames bodies), blen bodies)).
Proof.
  intros bodies tail chunks fut count cur0 Hb Ht Hne Heq Hlen Hc.
  destruct mbr_new_inv as [Hi Hv].
  pose proof (scan_end_gen chunks mbr_new 0 count cur0 bodies tail fut Hi Hb Ht Hne) as H.
  rewrite N.add_0_l in H. apply H.
  - left. exact Hv.
  - exact Heq.
  - exact Hlen.
  - exact Hc.
Qed.

(** the scan stops after exactly [count] records when that many are present (whatever follows) *)
Theorem scan_chunks_to_count : forall bodies tail chunks fut count cur0,
  Forall body_ok bodies -> all_bytes tail ->
  Forall (fun ch => ch <> []) chunks ->
  concat chunks ++ fut = frames bodies ++ tail ->
  0 < count <= blen bodies ->
  (length (frames (firstn (N.to_nat count) bodies)) <= length (concat chunks))%nat ->
  scan_chunks mbr_at_end_marker chunks mbr_new 0 count cur0
    = Ok (true, (cur0 + blen (frames (firstn (N.to_nat count) bodies)), count)).
Proof.
  intros bodies tail chunks fut count cur0 Hb Ht Hne Heq Hc Hlen.
  destruct mbr_new_inv as [Hi Hv].
  pose proof (scan_count_gen chunks mbr_new 0 count cur0 bodies tail fut Hi Hb Ht Hne) as H.
  rewrite N.sub_0_r, N.add_0_l in H. apply H.
  - left. exact Hv.
  - exact Heq.
  - exact Hc.
  - exact Hlen.
Qed.

(** C20-level statements about the model function of BufReader.v *)
Theorem scan_stops_at_first_zero : forall bodies tail chunks count cur0,
  Forall body_ok bodies -> all_bytes tail ->
  Forall (fun ch => ch <> []) chunks ->
  concat chunks = frames bodies ++ 0 :: tail ->
  blen bodies < count ->
  scan_by_count mbr_at_end_marker chunks mbr_new 0 count cur0
    = Ok (cur0 + blen (frames bodies), blen bodies).
Proof.
  intros bodies tail chunks count cur0 Hb Ht Hne Heq Hc.
  rewrite scan_by_count_chunks.
  rewrite (scan_chunks_to_end bodies tail chunks [] count cur0); try assumption.
  - reflexivity.
  - rewrite app_nil_r. exact Heq.
  - rewrite Heq, app_length. cbn [length]. lia.
Qed.

Lemma frames_firstn_length k bs : (length (frames (firstn k bs)) <= length (frames bs))%nat.
Proof.
  rewrite <- (firstn_skipn k bs) at 2. rewrite frames_app, app_length. lia.
Qed.

Theorem scan_stops_at_count : forall bodies tail chunks count cur0,
  Forall body_ok bodies -> all_bytes tail ->
  Forall (fun ch => ch <> []) chunks ->
  concat chunks = frames bodies ++ tail ->
  0 < count <= blen bodies ->
  scan_by_count mbr_at_end_marker chunks mbr_new 0 count cur0
    = Ok (cur0 + blen (frames (firstn (N.to_nat count) bodies)), count).
Proof.
  intros bodies tail chunks count cur0 Hb Ht Hne Heq Hc.
  rewrite scan_by_count_chunks.
  rewrite (scan_chunks_to_count bodies tail chunks [] count cur0); try assumption.
  - reflexivity.
  - rewrite app_nil_r. exact Heq.
  - rewrite Heq, app_length. pose proof (frames_firstn_length (N.to_nat count) bodies). lia.
Qed.

(** the hypotheses are satisfiable: the witness of the refutation below, with the repaired test *)
Lemma witness_bodies_ok : Forall body_ok [repeat 1 1022; [5; 6]].
Proof.
  constructor; [|constructor; [|constructor]].
  - split; [discriminate|]. split.
    + apply Forall_forall. intros x Hx. apply repeat_spec in Hx. subst x. unfold is_byte. lia.
    + rewrite repeat_length. vm_compute. reflexivity.
  - split; [discriminate|]. split.
    + repeat constructor.
    + vm_compute. reflexivity.
Qed.

Lemma witness_chunks_ne :
  Forall (fun ch : list N => ch <> []) [frame (repeat 1 1022); frame [5; 6] ++ [0; 0]].
Proof.
  constructor; [|constructor; [|constructor]].
  - intros H. apply (f_equal (@length N)) in H. pose proof (frame_length_pos (repeat 1 1022)).
    cbn [length] in H. lia.
  - vm_compute. discriminate.
Qed.

Example scan_stops_at_first_zero_witness :
  scan_by_count mbr_at_end_marker [frame (repeat 1 1022); frame [5; 6] ++ [0; 0]] mbr_new 0 65535 0
    = Ok (0 + blen (frames [repeat 1 1022; [5; 6]]), blen [repeat 1 1022; [5; 6]]).
Proof.
  apply (scan_stops_at_first_zero [repeat 1 1022; [5; 6]] [0]).
  - exact witness_bodies_ok.
  - repeat constructor.
  - exact witness_chunks_ne.
  - unfold frames. cbn [map concat]. rewrite !app_nil_r, <- !app_assoc. reflexivity.
  - vm_compute. reflexivity.
Qed.

Example scan_stops_at_count_witness :
  scan_by_count mbr_at_end_marker [frame (repeat 1 1022); frame [5; 6] ++ [0; 0]] mbr_new 0 1 7
    = Ok (7 + blen (frames (firstn (N.to_nat 1) [repeat 1 1022; [5; 6]])), 1).
Proof.
  apply (scan_stops_at_count [repeat 1 1022; [5; 6]] [0; 0]).
  - exact witness_bodies_ok.
  - repeat constructor.
  - exact witness_chunks_ne.
  - unfold frames. cbn [map concat]. rewrite !app_nil_r, <- !app_assoc. reflexivity.
  - vm_compute. split; [reflexivity|discriminate].
Qed.

(** the unrepaired end test ([is_empty], which also fires on a merely drained buffer) violates it:
    one record framed to exactly 1024 bytes read as one chunk, then one more record *)
Theorem scan_stops_at_first_zero_refuted : exists bodies tail chunks count,
  Forall body_ok bodies /\ all_bytes tail /\ Forall (fun ch => ch <> []) chunks /\
  concat chunks = frames bodies ++ 0 :: tail /\ blen bodies < count /\
  scan_by_count mbr_is_empty chunks mbr_new 0 count 0 <> Ok (0 + blen (frames bodies), blen bodies).
Proof.
  exists [repeat 1 1022; [5; 6]], [0], [frame (repeat 1 1022); frame [5; 6] ++ [0; 0]], 65535.
  split; [exact witness_bodies_ok|].
  split; [repeat constructor|].
  split; [exact witness_chunks_ne|].
  split; [unfold frames; cbn [map concat]; rewrite !app_nil_r, <- !app_assoc; reflexivity|].
  split; [vm_compute; reflexivity|].
  vm_compute. discriminate.
Qed.
