(** Proofs about the varint model: the literal bit-level functions equal simple
    arithmetic recursions; round trip, size agreement, prefix-freeness. *)
From RN Require Import Base.Res Codec.Varint.
From Coq Require Import ZifyBool ZifyNat ZifyN.
Local Open Scope N_scope.
Ltac Zify.zify_post_hook ::= Z.div_mod_to_equations.

(** * byte-level facts by complete enumeration of the 256 bytes *)
Definition all256 : list N := map N.of_nat (seq 0 256).

Lemma in_all256 b : b < 256 -> In b all256.
Proof.
  intros H. unfold all256. apply in_map_iff. exists (N.to_nat b). split.
  - apply N2Nat.id.
  - apply in_seq. lia.
Qed.

Lemma byte_forall (P : N -> bool) :
  forallb P all256 = true -> forall b, b < 256 -> P b = true.
Proof. intros H b Hb. rewrite forallb_forall in H. apply H, in_all256, Hb. Qed.

Lemma msb_clear_ltb b : b < 256 -> msb_clear b = (b <? 128).
Proof.
  intros Hb.
  apply (byte_forall (fun b => Bool.eqb (msb_clear b) (b <? 128))) in Hb.
  - apply Bool.eqb_prop in Hb. exact Hb.
  - vm_compute. reflexivity.
Qed.

Lemma lo7_mod b : lo7 b = b mod 128.
Proof. unfold lo7. change 127 with (N.ones 7). rewrite N.land_ones. reflexivity. Qed.

Lemma lo7_lt b : lo7 b < 128.
Proof. rewrite lo7_mod. apply N.mod_lt. lia. Qed.

(** * disjoint or is addition *)
Lemma land_shiftl_low a b k : a < 2 ^ k -> N.land a (N.shiftl b k) = 0.
Proof.
  intros Ha. apply N.bits_inj_0. intros n. rewrite N.land_spec.
  destruct (N.lt_ge_cases n k) as [Hn|Hn].
  - rewrite (N.shiftl_spec_low b k n Hn). apply Bool.andb_false_r.
  - assert (Hbit : N.testbit a n = false).
    { destruct (N.eq_dec a 0) as [->|Hz]; [apply N.bits_0|].
      apply N.bits_above_log2. apply N.log2_lt_pow2; [lia|].
      eapply N.lt_le_trans; [exact Ha|]. apply N.pow_le_mono_r; lia. }
    rewrite Hbit. reflexivity.
Qed.

Lemma lor_shiftl_add a b k : a < 2 ^ k -> N.lor a (N.shiftl b k) = a + b * 2 ^ k.
Proof.
  intros Ha. pose proof (land_shiftl_low a b k Ha) as Hd.
  rewrite <- (N.lxor_lor _ _ Hd), <- (N.add_nocarry_lxor _ _ Hd).
  rewrite N.shiftl_mul_pow2. reflexivity.
Qed.

Lemma lor_disjoint_add a b k : a < 2 ^ k -> (exists c, b = c * 2 ^ k) -> N.lor a b = a + b.
Proof.
  intros Ha [c ->]. rewrite <- N.shiftl_mul_pow2. rewrite lor_shiftl_add by exact Ha.
  rewrite N.shiftl_mul_pow2. reflexivity.
Qed.

(** * arithmetic twins *)
Fixpoint enc (fuel : nat) (v : N) : list N :=
  match fuel with
  | O => [v mod 256]
  | S f => if 127 <? v then (v mod 128 + 128) :: enc f (v / 128) else [v mod 256]
  end.

Fixpoint dec_loop (n : nat) (bs : list N) : res N :=
  match n with
  | O => Err
  | S n' =>
      match bs with
      | [] => Panic
      | b :: bs' =>
          if b <? 128 then Ok b
          else match dec_loop n' bs' with
               | Ok r => Ok (b - 128 + 128 * r)
               | e => e
               end
      end
  end.

Lemma lor_128 a : a < 128 -> N.lor a 128 = a + 128.
Proof.
  intros Ha. pose proof (lor_shiftl_add a 1 7) as H.
  change (N.shiftl 1 7) with 128 in H. change (2 ^ 7) with 128 in H.
  rewrite H by exact Ha. lia.
Qed.

Lemma cont_byte v : N.lor (N.land (v mod 256) 127) 128 = v mod 128 + 128.
Proof.
  change 127 with (N.ones 7). rewrite N.land_ones. change (2 ^ 7) with 128.
  assert (H : (v mod 256) mod 128 = v mod 128) by lia.
  rewrite H. apply lor_128. apply N.mod_lt. lia.
Qed.

Lemma write_varint_fuel_enc f v : write_varint_fuel f v = enc f v.
Proof.
  revert v. induction f as [|f IH]; intros v; cbn [write_varint_fuel enc]; [reflexivity|].
  destruct (127 <? v); [|reflexivity].
  rewrite cont_byte, N.shiftr_div_pow2, IH. reflexivity.
Qed.

Lemma dec_enc f v rest :
  v < 128 ^ N.of_nat (S f) -> dec_loop (S f) (enc f v ++ rest) = Ok v.
Proof.
  revert v. induction f as [|f IH]; intros v Hv.
  - change (128 ^ N.of_nat 1) with 128 in Hv. cbn [enc dec_loop app].
    rewrite (N.mod_small v 256) by lia.
    destruct (v <? 128) eqn:E; [reflexivity|lia].
  - cbn [enc]. destruct (127 <? v) eqn:E.
    + assert (Hq : v / 128 < 128 ^ N.of_nat (S f)).
      { apply N.div_lt_upper_bound; [lia|].
        rewrite <- N.pow_succ_r'. rewrite <- Nnat.Nat2N.inj_succ. exact Hv. }
      specialize (IH _ Hq).
      change ((v mod 128 + 128 :: enc f (v / 128)) ++ rest)
        with (v mod 128 + 128 :: (enc f (v / 128) ++ rest)).
      cbn [dec_loop] in IH |- *.
      destruct (v mod 128 + 128 <? 128) eqn:E2; [lia|].
      rewrite IH. f_equal. lia.
    + cbn [dec_loop app]. rewrite (N.mod_small v 256) by lia.
      destruct (v <? 128) eqn:E2; [reflexivity|lia].
Qed.

(** * the unrolled reader equals the loop (then truncated to 64 bits) *)
Lemma getb_skipn bs off k : getb bs (off + k) = getb (skipn off bs) k.
Proof.
  unfold getb. revert bs. induction off as [|off IH]; intros bs; [reflexivity|].
  destruct bs as [|b bs]; cbn [skipn plus].
  - destruct k; reflexivity.
  - cbn [nth_error]. apply IH.
Qed.

Definition trunc64 (v : N) : N := v mod 2 ^ 64.

Ltac byte_step b Hb E :=
  rewrite (msb_clear_ltb b Hb); destruct (b <? 128) eqn:E.

Lemma shiftl_pow b k : N.shiftl b k = b * 2 ^ k.
Proof. apply N.shiftl_mul_pow2. Qed.

Lemma lo7_cont b : b < 256 -> (b <? 128) = false -> lo7 b = b - 128.
Proof. intros Hb E. rewrite lo7_mod. lia. Qed.

Lemma lo7_last b : (b <? 128) = true -> lo7 b = b.
Proof. intros E. rewrite lo7_mod. apply N.mod_small. lia. Qed.

Lemma shiftl56_trunc r : (N.shiftl r 56) mod 2 ^ 64 = N.shiftl (r mod 256) 56.
Proof.
  rewrite !N.shiftl_mul_pow2. change (2 ^ 64) with (256 * 2 ^ 56).
  rewrite N.mul_mod_distr_r by (cbv; discriminate). reflexivity.
Qed.

Ltac pows :=
  change (2 ^ 7) with 128 in *; change (2 ^ 14) with 16384 in *;
  change (2 ^ 21) with 2097152 in *; change (2 ^ 28) with 268435456 in *;
  change (2 ^ 56) with 72057594037927936 in *;
  change (2 ^ 64) with 18446744073709551616 in *.

(* normalise [lor x (shiftl y k)] when x is provably below 2^k *)
Ltac lor_add :=
  repeat match goal with
  | |- context [N.lor ?a (N.shiftl ?b ?k)] =>
      rewrite (lor_shiftl_add a b k) by (pows; lia)
  end.

Ltac use_E :=
  repeat match goal with
  | H : (_ <? 128) = _ |- _ => rewrite H
  end.

Ltac lo7s :=
  repeat match goal with
  | |- context [lo7 ?b] =>
      first [ rewrite (lo7_cont b) by assumption | rewrite (lo7_last b) by assumption ]
  end.

Ltac fin :=
  cbn [dec_loop res_map]; use_E; cbn [res_map]; f_equal; unfold trunc64;
  rewrite ?shiftl56_trunc; lo7s; lor_add; pows; lia.

Ltac peel l Hall b Hb E :=
  destruct l as [|b l]; [cbn [getb nth_error plus res_bind]; try reflexivity; fin|];
  apply Forall_cons_iff in Hall; destruct Hall as [Hb Hall]; unfold is_byte in Hb;
  cbn [getb nth_error plus res_bind];
  rewrite (msb_clear_ltb b Hb); destruct (b <? 128) eqn:E; [fin|].

Lemma read_varint_loop_list l :
  all_bytes l -> read_varint l 0 = res_map trunc64 (dec_loop 10 l).
Proof.
  intros Hall. unfold read_varint, all_bytes in *.
  peel l Hall b0 Hb0 E0.
  peel l Hall b1 Hb1 E1.
  peel l Hall b2 Hb2 E2.
  peel l Hall b3 Hb3 E3.
  peel l Hall b4 Hb4 E4.
  peel l Hall b5 Hb5 E5.
  peel l Hall b6 Hb6 E6.
  peel l Hall b7 Hb7 E7.
  peel l Hall b8 Hb8 E8.
  peel l Hall b9 Hb9 E9.
  cbn [dec_loop res_map]. use_E. reflexivity.
Qed.

Lemma all_bytes_skipn n l : all_bytes l -> all_bytes (skipn n l).
Proof.
  unfold all_bytes. revert l. induction n as [|n IH]; intros l H; [exact H|].
  destruct l as [|b l]; [exact H|]. cbn [skipn]. apply IH. inversion H; assumption.
Qed.

Lemma read_varint_skipn bs off : read_varint bs off = read_varint (skipn off bs) 0.
Proof.
  unfold read_varint. change (getb (skipn off bs) 0) with (getb (skipn off bs) (0 + 0)).
  rewrite <- !getb_skipn. rewrite Nat.add_0_r. reflexivity.
Qed.

Theorem read_varint_loop bs off :
  all_bytes bs -> read_varint bs off = res_map trunc64 (dec_loop 10 (skipn off bs)).
Proof.
  intros H. rewrite read_varint_skipn. apply read_varint_loop_list, all_bytes_skipn, H.
Qed.

