(** Model of src/common/protobuf_utils.rs: write_varint64, read_varint64_offset,
    inner_sizeof_varint.  Transcribed literally (bit operations kept as bit operations);
    [u8 -> u32 -> u64] widening casts are lossless and are omitted; the only lossy
    operation, [(r2 as u64) << 56], is written as an explicit [mod 2^64]. *)
From RN Require Export Base.Res.
Local Open Scope N_scope.

(** while v > 0x7F { push((v as u8 & 0x7F) | 0x80); v >>= 7 }; push(v as u8) *)
Fixpoint write_varint_fuel (fuel : nat) (v : N) : list N :=
  match fuel with
  | O => [v mod 256]
  | S f =>
      if 127 <? v
      then N.lor (N.land (v mod 256) 127) 128 :: write_varint_fuel f (N.shiftr v 7)
      else [v mod 256]
  end.

(** 9 continuation bytes always suffice below 2^64: after nine shifts the value is < 2. *)
Definition write_varint (v : N) : list N := write_varint_fuel 9 v.

Definition msb_clear (b : N) : bool := N.land b 128 =? 0.
Definition lo7 (b : N) : N := N.land b 127.

Definition getb (bs : list N) (i : nat) : res N :=
  match nth_error bs i with Some b => Ok b | None => Panic end.

Notation "'letb' b ':=' e 'in' k" := (res_bind e (fun b => k))
  (at level 200, b name, e at level 100, k at level 200).

(** read_varint64_offset, unrolled exactly as the source *)
Definition read_varint (bs : list N) (off : nat) : res N :=
  (* part0 *)
  letb b := getb bs off in
  if msb_clear b then Ok b else
  let r0 := lo7 b in
  letb b := getb bs (off + 1) in
  let r0 := N.lor r0 (N.shiftl (lo7 b) 7) in
  if msb_clear b then Ok r0 else
  letb b := getb bs (off + 2) in
  let r0 := N.lor r0 (N.shiftl (lo7 b) 14) in
  if msb_clear b then Ok r0 else
  letb b := getb bs (off + 3) in
  let r0 := N.lor r0 (N.shiftl (lo7 b) 21) in
  if msb_clear b then Ok r0 else
  (* part1 *)
  letb b := getb bs (off + 4) in
  let r1 := lo7 b in
  if msb_clear b then Ok (N.lor r0 (N.shiftl r1 28)) else
  letb b := getb bs (off + 5) in
  let r1 := N.lor r1 (N.shiftl (lo7 b) 7) in
  if msb_clear b then Ok (N.lor r0 (N.shiftl r1 28)) else
  letb b := getb bs (off + 6) in
  let r1 := N.lor r1 (N.shiftl (lo7 b) 14) in
  if msb_clear b then Ok (N.lor r0 (N.shiftl r1 28)) else
  letb b := getb bs (off + 7) in
  let r1 := N.lor r1 (N.shiftl (lo7 b) 21) in
  if msb_clear b then Ok (N.lor r0 (N.shiftl r1 28)) else
  (* part2 *)
  letb b := getb bs (off + 8) in
  let r2 := lo7 b in
  if msb_clear b
  then Ok (N.lor (N.lor r0 (N.shiftl r1 28)) ((N.shiftl r2 56) mod 2^64)) else
  letb b := getb bs (off + 9) in
  let r2 := N.lor r2 (N.shiftl b 7) in
  if msb_clear b
  then Ok (N.lor (N.lor r0 (N.shiftl r1 28)) ((N.shiftl r2 56) mod 2^64)) else
  Err.

(** inner_sizeof_varint: the ten range arms *)
Definition sizeof_varint (v : N) : nat :=
  if v <=? 0x7F then 1
  else if v <=? 0x3FFF then 2
  else if v <=? 0x1FFFFF then 3
  else if v <=? 0xFFFFFFF then 4
  else if v <=? 0x7FFFFFFFF then 5
  else if v <=? 0x3FFFFFFFFFF then 6
  else if v <=? 0x1FFFFFFFFFFFF then 7
  else if v <=? 0xFFFFFFFFFFFFFF then 8
  else if v <=? 0x7FFFFFFFFFFFFFFF then 9
  else 10.

(** A length-prefixed record as written by quick-protobuf [write_message] /
    [write_varint64(len) ++ body]. *)
Definition frame (body : list N) : list N :=
  write_varint (N.of_nat (length body)) ++ body.
