(** The end-of-log scan of LogFile.v ([scan_file], [move_to_index_by_count]) over the sparse file,
    reduced to the chunking-independent theorems of Codec/ScanProofs.v. *)
From RN Require Import Base.Res Codec.Varint Codec.BufReader Codec.VarintProofs Codec.ScanProofs
  RaftLog.LogFile RaftLog.Spec RaftLog.Layout RaftLog.FileProofs RaftLog.RecordProofs.
From Coq Require Import ZifyBool ZifyNat ZifyN.
Local Open Scope N_scope.
Ltac Zify.zify_post_hook ::= Z.div_mod_to_equations.

(** * the data area as one byte list (never computed, only reasoned about) *)
Definition data_full (f : lfile) : list N :=
  f_data f ++ repeat 0 (N.to_nat (f_len f - DATA0) - length (f_data f)).
Definition tail_from (f : lfile) (pos : N) : list N := skipn (N.to_nat (pos - DATA0)) (data_full f).

Definition file_ok (f : lfile) : Prop := DATA0 + nlen (f_data f) <= f_len f.

Lemma data_full_length f : file_ok f -> length (data_full f) = N.to_nat (f_len f - DATA0).
Proof.
  unfold file_ok, data_full, nlen. intros H. rewrite app_length, repeat_length. lia.
Qed.

Lemma firstn_repeat {A} (x : A) j m : firstn j (repeat x m) = repeat x (Nat.min j m).
Proof.
  revert m. induction j as [|j IH]; intros m; [reflexivity|].
  destruct m as [|m]; [reflexivity|]. cbn [repeat firstn Nat.min]. rewrite IH. reflexivity.
Qed.

Lemma data_read_spec f pos n :
  file_ok f -> DATA0 <= pos -> data_read f pos n = firstn n (tail_from f pos).
Proof.
  intros Hok Hpos. unfold data_read, tail_from, data_full.
  set (D := f_data f). set (p := N.to_nat (pos - DATA0)).
  set (M := N.to_nat (f_len f - DATA0)).
  assert (HDM : (length D <= M)%nat) by (unfold file_ok, nlen in Hok; subst D M; lia).
  replace (N.to_nat (N.min (N.of_nat n) (f_len f - pos))) with (Nat.min n (M - p)) by (subst M p; lia).
  set (k := Nat.min n (M - p)).
  assert (Hlen : length (skipn p (D ++ repeat 0 (M - length D))) = (M - p)%nat).
  { rewrite skipn_length, app_length, repeat_length. lia. }
  assert (Hk : firstn n (skipn p (D ++ repeat 0 (M - length D))) =
               firstn k (skipn p (D ++ repeat 0 (M - length D)))).
  { subst k. destruct (Nat.le_gt_cases n (M - p)) as [Hle|Hgt].
    - rewrite Nat.min_l by lia. reflexivity.
    - rewrite Nat.min_r by lia. rewrite !firstn_all2 by lia. reflexivity. }
  rewrite Hk. clear Hk.
  rewrite skipn_app, firstn_app. f_equal.
  rewrite skipn_repeat, firstn_repeat, firstn_length, skipn_length. f_equal. subst k. lia.
Qed.

Lemma tail_from_length f pos :
  file_ok f -> DATA0 <= pos -> length (tail_from f pos) = N.to_nat (f_len f - pos).
Proof.
  intros Hok Hpos. unfold tail_from. rewrite skipn_length, data_full_length by exact Hok. lia.
Qed.

Lemma tail_from_advance f pos k :
  DATA0 <= pos -> tail_from f (pos + N.of_nat k) = skipn k (tail_from f pos).
Proof.
  intros Hpos. unfold tail_from. rewrite skipn_add. f_equal. lia.
Qed.

(** * the forward reader returns exactly the file's bytes *)
Definition rdr_view (r : rdr) : list N := rd_bytes r ++ repeat 0 (N.to_nat (rd_zeros r)).

Lemma rdr_open_view f pos :
  file_ok f -> DATA0 <= pos -> rdr_view (rdr_open f pos) = tail_from f pos.
Proof.
  intros Hok Hpos. unfold rdr_open, rdr_view, tail_from, data_full.
  set (D := f_data f). set (p := N.to_nat (pos - DATA0)). set (M := N.to_nat (f_len f - DATA0)).
  assert (HDM : (length D <= M)%nat) by (unfold file_ok, nlen in Hok; subst D M; lia).
  destruct (pos - DATA0 <? N.of_nat (length D)) eqn:E; cbn [rd_bytes rd_zeros].
  - rewrite skipn_app. replace (p - length D)%nat with 0%nat by (subst p; lia). cbn [skipn].
    f_equal. f_equal. subst M. lia.
  - rewrite skipn_app, skipn_all2 by (subst p; lia). cbn [app].
    rewrite skipn_repeat. f_equal. subst M p. lia.
Qed.

Lemma rdr_read_spec r n :
  fst (rdr_read r n) = firstn n (rdr_view r) /\ rdr_view (snd (rdr_read r n)) = skipn n (rdr_view r).
Proof.
  unfold rdr_read, rdr_view. set (B := rd_bytes r). set (Z := rd_zeros r).
  pose proof (firstn_length n B) as Hl.
  destruct (length (firstn n B) =? n)%nat eqn:E; cbn [fst snd rd_bytes rd_zeros].
  - assert (n <= length B)%nat by lia.
    rewrite firstn_app, skipn_app. replace (n - length B)%nat with 0%nat by lia.
    cbn [firstn skipn]. rewrite app_nil_r. split; reflexivity.
  - assert (Hlt : (length B < n)%nat) by lia.
    rewrite firstn_all2 by lia. rewrite firstn_app, skipn_app, (firstn_all2 B), (skipn_all2 B) by lia.
    rewrite firstn_repeat, skipn_repeat. cbn [app]. split; f_equal; f_equal; lia.
Qed.

(** * successive 1024-byte reads *)
Fixpoint file_chunks (fuel : nat) (rd : rdr) : list (list N) :=
  match fuel with
  | O => []
  | S fu =>
      match rdr_read rd 1024 with
      | ([], _) => []
      | (ch, rd') => ch :: file_chunks fu rd'
      end
  end.

Lemma firstn_skipn_len {A} n (l : list A) : firstn n l ++ skipn (length (firstn n l)) l = l.
Proof.
  rewrite firstn_length. destruct (Nat.le_gt_cases n (length l)) as [H|H].
  - rewrite Nat.min_l by exact H. apply firstn_skipn.
  - rewrite Nat.min_r by lia. rewrite firstn_all2 by lia. rewrite skipn_all. apply app_nil_r.
Qed.

Lemma scan_file_chunks : forall fuel rd r c count cur base x y,
  scan_chunks mbr_at_end_marker (file_chunks fuel rd) r c count cur = Ok (true, (x, y)) ->
  scan_file fuel rd r c count cur base = Ok (x, base + y).
Proof.
  induction fuel as [|fu IH]; intros rd r c count cur base x y H.
  - cbn [file_chunks scan_chunks] in H. discriminate.
  - cbn [file_chunks scan_file] in *.
    destruct (rdr_read rd 1024) as [[|b ch'] rd'] eqn:Ech.
    + cbn [scan_chunks] in H. discriminate.
    + cbn [scan_chunks] in H.
      destruct (mbr_append r (b :: ch')) as [r1| |] eqn:Ea; cbn [res_bind] in *; try discriminate.
      destruct (drain_count (S (S (en r1 - st r1))) r1 c count cur) as [[[[hit c'] cur'] r2]| |] eqn:Ed;
        cbn [res_bind] in *; try discriminate.
      destruct hit.
      * inversion H; subst. reflexivity.
      * destruct (mbr_at_end_marker r2).
        -- inversion H; subst. reflexivity.
        -- apply IH. exact H.
Qed.

Lemma file_chunks_cover : forall fuel rd,
  (length (rdr_view rd) <= 1024 * fuel)%nat ->
  concat (file_chunks fuel rd) = rdr_view rd /\
  Forall (fun ch => ch <> []) (file_chunks fuel rd).
Proof.
  induction fuel as [|fu IH]; intros rd Hlen.
  - cbn [file_chunks concat]. destruct (rdr_view rd); [split; [reflexivity|constructor]|cbn [length] in Hlen; lia].
  - cbn [file_chunks]. destruct (rdr_read_spec rd 1024) as [H1 H2].
    destruct (rdr_read rd 1024) as [ch rd'] eqn:Ech. cbn [fst snd] in H1, H2.
    destruct ch as [|b ch'].
    + destruct (rdr_view rd) as [|t ts] eqn:Et; [split; [reflexivity|constructor]|].
      cbn [firstn] in H1. discriminate.
    + assert (Hl : length (b :: ch') = Nat.min 1024 (length (rdr_view rd))).
      { rewrite H1. apply firstn_length. }
      destruct (IH rd') as [Hc Hne].
      * rewrite H2, skipn_length. cbn [length] in Hl. lia.
      * cbn [concat]. rewrite Hc, H2. split.
        -- rewrite H1. apply firstn_skipn.
        -- constructor; [discriminate|exact Hne].
Qed.

Lemma scan_fuel_enough f pos :
  file_ok f -> DATA0 <= pos -> (length (tail_from f pos) <= 1024 * scan_fuel f pos)%nat.
Proof.
  intros Hok Hpos. rewrite tail_from_length by assumption. unfold scan_fuel.
  assert (f_len f - pos < 1024 * ((f_len f - pos) / 1024 + 1)) by lia. lia.
Qed.

(** * the canonical file *)
Lemma fr_frames rs : fr rs = frames (map rec_body rs).
Proof. unfold fr, frames. rewrite map_map. reflexivity. Qed.

Lemma rec_bodies_ok rs :
  Forall rec_ok rs -> Forall rec_nonempty rs -> Forall body_ok (map rec_body rs).
Proof.
  intros Hok Hne. induction rs as [|r rs IH]; [constructor|].
  inversion Hok; inversion Hne; subst. constructor; [|apply IH; assumption].
  split; [apply rec_body_nonempty; assumption|]. split; [apply rec_body_all_bytes; assumption|].
  pose proof (rec_body_length_bound r H1). assert (2 ^ 63 < 2 ^ 64) by (vm_compute; reflexivity). lia.
Qed.

Lemma c_file_ok c : wfc c -> file_ok (c_file c).
Proof.
  intros W. unfold file_ok. cbn [c_file f_data f_len]. pose proof (wf_flen c W). unfold c_dcur, frl in *. lia.
Qed.

(** what a reader positioned behind the records [pre] sees: the remaining frames, then zeros *)
Lemma tail_from_conc c pre post :
  wfc c -> c_all c = pre ++ post ->
  exists z, tail_from (c_file c) (DATA0 + frl pre) = fr post ++ 0 :: repeat 0 z.
Proof.
  intros W Hall. unfold tail_from, data_full. cbn [c_file f_data f_len].
  pose proof (wf_flen c W) as Hfl. unfold c_dcur in Hfl. rewrite Hall in *. rewrite frl_app in Hfl.
  replace (N.to_nat (DATA0 + frl pre - DATA0)) with (length (fr pre)) by (unfold frl, nlen; lia).
  rewrite fr_app, <- app_assoc, skipn_app, skipn_all, Nat.sub_diag. cbn [skipn app].
  rewrite app_length.
  set (m := (N.to_nat (c_flen c - DATA0) - (length (fr pre) + length (fr post)))%nat).
  assert (Hm : (0 < m)%nat) by (subst m; unfold frl, nlen in *; lia).
  destruct m as [|m]; [lia|]. exists m. reflexivity.
Qed.

Lemma all_bytes_repeat0 z : all_bytes (repeat 0 z).
Proof. apply Forall_forall. intros x Hx. apply repeat_spec in Hx. subst. unfold is_byte. lia. Qed.

(** scan to the end of the log from the boundary behind [pre] *)
Theorem scan_file_to_end c pre post count base :
  wfc c -> c_all c = pre ++ post -> nlen post < count ->
  scan_file (scan_fuel (c_file c) (DATA0 + frl pre)) (rdr_open (c_file c) (DATA0 + frl pre)) mbr_new 0 count
            (DATA0 + frl pre) base
  = Ok (c_dcur c, base + nlen post).
Proof.
  intros W Hall Hcount.
  destruct (tail_from_conc c pre post W Hall) as [z Hz].
  pose proof (c_file_ok c W) as Hfok.
  assert (Hpos : DATA0 <= DATA0 + frl pre) by lia.
  pose proof (scan_fuel_enough _ _ Hfok Hpos) as Hfu. rewrite <- (rdr_open_view _ _ Hfok Hpos) in Hfu, Hz.
  destruct (file_chunks_cover _ _ Hfu) as [Hc Hne].
  assert (Hrs : Forall rec_ok post /\ Forall rec_nonempty post).
  { pose proof (wf_ok c W) as H1. pose proof (wf_nonempty c W) as H2. rewrite Hall in *.
    apply Forall_app in H1. apply Forall_app in H2. tauto. }
  destruct Hrs as [Hok Hne'].
  pose proof (scan_chunks_to_end (map rec_body post) (repeat 0 z) _ [] count (DATA0 + frl pre)
                (rec_bodies_ok _ Hok Hne') (all_bytes_repeat0 z) Hne) as Hs.
  rewrite app_nil_r, Hc, Hz, <- fr_frames in Hs.
  specialize (Hs eq_refl).
  assert (Hl : (length (fr post) < length (fr post ++ 0%N :: repeat 0%N z))%nat).
  { rewrite app_length. cbn [length]. lia. }
  specialize (Hs Hl).
  assert (Hb : blen (map rec_body post) < count).
  { unfold blen. rewrite map_length. exact Hcount. }
  specialize (Hs Hb).
  rewrite (scan_file_chunks _ _ _ _ _ _ base _ _ Hs). f_equal. f_equal.
  - unfold c_dcur. rewrite Hall, frl_app. unfold frl, nlen, blen. lia.
  - unfold blen, nlen. rewrite map_length. reflexivity.
Qed.

(** scan exactly [count] records forward from the boundary behind [pre] *)
Theorem scan_file_to_count c pre post count base :
  wfc c -> c_all c = pre ++ post -> 0 < count <= nlen post ->
  scan_file (scan_fuel (c_file c) (DATA0 + frl pre)) (rdr_open (c_file c) (DATA0 + frl pre)) mbr_new 0 count
            (DATA0 + frl pre) base
  = Ok (DATA0 + frl pre + frl (firstn (N.to_nat count) post), base + count).
Proof.
  intros W Hall Hcount.
  destruct (tail_from_conc c pre post W Hall) as [z Hz].
  pose proof (c_file_ok c W) as Hfok.
  assert (Hpos : DATA0 <= DATA0 + frl pre) by lia.
  pose proof (scan_fuel_enough _ _ Hfok Hpos) as Hfu. rewrite <- (rdr_open_view _ _ Hfok Hpos) in Hfu, Hz.
  destruct (file_chunks_cover _ _ Hfu) as [Hc Hne].
  assert (Hrs : Forall rec_ok post /\ Forall rec_nonempty post).
  { pose proof (wf_ok c W) as H1. pose proof (wf_nonempty c W) as H2. rewrite Hall in *.
    apply Forall_app in H1. apply Forall_app in H2. tauto. }
  destruct Hrs as [Hok Hne'].
  pose proof (scan_chunks_to_count (map rec_body post) (0 :: repeat 0 z)
                (file_chunks (scan_fuel (c_file c) (DATA0 + frl pre)) (rdr_open (c_file c) (DATA0 + frl pre)))
                [] count (DATA0 + frl pre) (rec_bodies_ok _ Hok Hne')) as Hs.
  assert (Hab : all_bytes (0 :: repeat 0 z)).
  { constructor; [unfold is_byte; lia|apply all_bytes_repeat0]. }
  specialize (Hs Hab Hne).
  rewrite app_nil_r, Hc, Hz, <- fr_frames in Hs.
  specialize (Hs eq_refl).
  assert (Hb : 0 < count <= blen (map rec_body post)).
  { unfold blen. rewrite map_length. exact Hcount. }
  specialize (Hs Hb).
  rewrite firstn_map, <- fr_frames in Hs.
  assert (Hl : (length (fr (firstn (N.to_nat count) post)) <= length (fr post ++ 0%N :: repeat 0%N z))%nat).
  { rewrite app_length. rewrite <- (firstn_skipn (N.to_nat count) post) at 2.
    rewrite fr_app, app_length. lia. }
  specialize (Hs Hl).
  rewrite (scan_file_chunks _ _ _ _ _ _ base _ _ Hs). f_equal.
Qed.
