(** The catalogue invariant is preserved by [mgr_write_batch] (WriteBatch with FailureBatch
    re-submission across rollovers); an acknowledged batch extends the visible log by exactly its
    records. *)
From RN Require Import Base.Res Codec.Varint Codec.BufReader
  RaftLog.LogFile RaftLog.Spec RaftLog.Layout RaftLog.FileProofs RaftLog.RecordProofs
  RaftLog.ReadProofs RaftLog.WriteProofs RaftLog.InitProofs RaftLog.StripProofs RaftLog.Refine
  RaftLog.LogManager RaftLog.ManagerProofs RaftLog.ManagerInv RaftLog.ManagerWriteProofs.
From Coq Require Import ZifyBool ZifyNat ZifyN.
Local Open Scope N_scope.
Ltac Zify.zify_post_hook ::= Z.div_mod_to_equations.

Lemma file_write_batch_eq : forall xs s mk n, file_write_batch s xs mk n = write_batch s xs mk n.
Proof.
  induction xs as [|x xs IH]; intros s mk n; [reflexivity|].
  cbn [file_write_batch write_batch]. destruct (write s x) as [s' m]. destruct m; try reflexivity; apply IH.
Qed.

Definition dflt : lrec := mkRec 0 0 [].

(** one WriteBatch round on a well-formed file *)
Lemma batch_round c ys n0 :
  wfc c -> Forall rec_ok ys -> Forall rec_nonempty ys ->
  exists c' mk n, file_write_batch (conc c) ys WSuccess n0 = (conc c', mk, (n0 + n)%nat) /\ wfc c' /\
    c_split c' = c_split c /\ c_first c' = c_first c /\ (n <= length ys)%nat /\
    indexed (c_end c) (firstn n ys) /\ c_all c' = c_all c ++ firstn n ys /\
    match mk with
    | WSuccess | WSuccessToEnd => n = length ys
    | WIndexEqualError => (n < length ys)%nat /\ r_index (nth n ys dflt) <> c_end c + N.of_nat n
    | WFailure => (n < length ys)%nat /\ (is_full (conc c) = false -> (1 <= n)%nat)
    end.
Proof.
  intros W Hok Hne. rewrite file_write_batch_eq.
  destruct (write_batch_step ys c WSuccess n0 W Hok Hne)
    as (c' & mk & n & Hb & W' & Hsp & Hf & Hn & Hix & Hall & Hnil & Hcons).
  rewrite abs_end in Hix, Hcons. fold (c_end c) in Hix, Hcons.
  exists c', mk, n. split; [exact Hb|]. split; [exact W'|]. split; [exact Hsp|]. split; [exact Hf|].
  split; [exact Hn|]. split; [exact Hix|]. split; [exact Hall|].
  destruct ys as [|y ys'].
  - rewrite (Hnil eq_refl). cbn [length] in *. lia.
  - specialize (Hcons ltac:(discriminate)). destruct mk; try exact Hcons.
    split; [exact Hcons|]. intros Hnf.
    (* a file that is not full accepts or rejects (by index) the first record: no Failure at n = 0 *)
    destruct n as [|n]; [|lia]. exfalso.
    inversion Hok as [|? ? Hy Hok']; subst. inversion Hne as [|? ? Hyn Hne']; subst.
    cbn [write_batch] in Hb. destruct (write_step c y W Hy Hyn) as (c1 & m1 & Hw & W1 & _ & _ & Hm1).
    rewrite Hw in Hb. destruct m1.
    + destruct (write_batch_step ys' c1 WSuccess (S n0) W1 Hok' Hne') as (c2 & m2 & n2 & Hb2 & _).
      rewrite Hb2 in Hb. inversion Hb. lia.
    + destruct (write_batch_step ys' c1 WSuccessToEnd (S n0) W1 Hok' Hne') as (c2 & m2 & n2 & Hb2 & _).
      rewrite Hb2 in Hb. inversion Hb. lia.
    + destruct Hm1 as [_ Hfull]. congruence.
    + inversion Hb.
Qed.

Lemma vis_app_all c c' l :
  c_first c' = c_first c -> c_split c' = c_split c -> c_all c' = c_all c ++ l ->
  c_first c <= c_split c -> c_split c <= c_end c -> vis c' = vis c ++ l.
Proof.
  intros Hf Hs Ha H1 H2. unfold vis. rewrite Hf, Hs, Ha, skipn_app.
  replace (N.to_nat (c_split c - c_first c) - length (c_all c))%nat with 0%nat by (unfold c_end, nlen in H2; lia).
  reflexivity.
Qed.

Definition batch_post (fs fs' : list mfile) (e : N) (ys : list lrec) (r : wres) : Prop :=
  match r with
  | WOk => indexed e ys /\ files_vis fs' = files_vis fs ++ ys /\ files_first fs' = files_first fs
  | WErrIndex => exists n, (n < length ys)%nat /\ indexed e (firstn n ys) /\
                   r_index (nth n ys dflt) <> e + N.of_nat n /\
                   files_vis fs' = files_vis fs ++ firstn n ys /\ files_first fs' = files_first fs
  | WErr => False
  end.

Lemma skipn_skipn' {A} a b (l : list A) : skipn a (skipn b l) = skipn (b + a) l.
Proof. revert l. induction b as [|b IH]; intros l; [reflexivity|]. destruct l; [destruct a; reflexivity|]. cbn [skipn plus]. apply IH. Qed.

Lemma nth_skipn' {A} n k (l : list A) d : nth n (skipn k l) d = nth (k + n) l d.
Proof. revert l. induction k as [|k IH]; intros l; [reflexivity|]. destruct l; [destruct n; reflexivity|]. cbn [skipn plus nth]. apply IH. Qed.

Lemma in_firstn' {A} (x : A) n l : In x (firstn n l) -> In x l.
Proof. intros H. rewrite <- (firstn_skipn n l). apply in_or_app. left. exact H. Qed.

Lemma indexed_nth : forall l e k, indexed e l -> (k < length l)%nat -> r_index (nth k l dflt) = e + N.of_nat k.
Proof.
  induction l as [|x l IH]; intros e k Hi Hk; [cbn [length] in Hk; lia|].
  cbn [indexed] in Hi. destruct Hi as [Hx Hl]. destruct k as [|k]; cbn [nth]; [lia|].
  rewrite (IH (e + 1) k Hl) by (cbn [length] in Hk; lia). lia.
Qed.

Lemma batch_gen : forall fuel m (fs : list mfile) g c xs i,
  mgr_rep m (fs ++ [(g, c)]) ->
  Forall rec_ok xs -> Forall rec_nonempty xs -> Forall (fun x => r_index x + 1 < U64MAX) xs ->
  xs <> [] -> (i <= length xs)%nat ->
  (length xs - i + (if is_full (conc c) then 1 else 0) < fuel)%nat ->
  exists m' fs' r, mgr_write_batch fuel m xs i = (m', r) /\ mgr_rep m' fs' /\
    m_limit m' = m_limit m /\ m_pre_ptr m' = m_pre_ptr m /\
    batch_post (fs ++ [(g, c)]) fs' (c_end c) (skipn i xs) r /\ floor_pres (fs ++ [(g, c)]) fs'.
Proof.
  induction fuel as [|fuel IH]; intros m fs g c xs i R Hok Hne Hbnd Hnn Hi Hfuel; [lia|].
  assert (Hid0 : fs = [] -> g_id g <> 0) by (intros ->; apply (rep_single_id m g c R)).
  pose proof (rp_limit m _ R) as Hlim.
  pose proof (rp_files m _ R) as Hfiles. apply Forall_app in Hfiles. destruct Hfiles as [Hfs Hlast].
  inversion Hlast as [|? ? Hgc _]; subst. destruct Hgc as (W & Hfirst & Hsp & Hle & Hmax & _).
  destruct xs as [|x0 xs0]; [congruence|]. set (xs := x0 :: xs0) in *.
  cbn [mgr_write_batch]. fold xs. rewrite (rp_cur m _ R), last_id_snoc.
  unfold cur_actor. rewrite (rp_cur m _ R), last_id_snoc. unfold f_id. cbn [fst].
  assert (Hact : lookup (g_id g) (m_actors m) = Some (conc c)).
  { apply (rep_actor m _ (g, c) R). apply in_or_app. right. left. reflexivity. }
  rewrite Hact.
  set (ys := skipn i xs).
  assert (Hoky : Forall rec_ok ys) by (apply Forall_skipn'; exact Hok).
  assert (Hney : Forall rec_nonempty ys) by (apply Forall_skipn'; exact Hne).
  assert (Hbndy : Forall (fun x => r_index x + 1 < U64MAX) ys) by (apply Forall_skipn'; exact Hbnd).
  destruct (batch_round c ys i W Hoky Hney)
    as (c' & mk & n & Hb & W' & Hsp' & Hf' & Hn & Hix & Hall & Hmk).
  rewrite Hb.
  assert (Hlen : length ys = (length xs - i)%nat) by apply skipn_length.
  assert (Hend' : c_end c' = c_end c + N.of_nat n).
  { unfold c_end. rewrite Hf', Hall, nlen_app. unfold nlen. rewrite firstn_length. lia. }
  assert (Hvis' : vis c' = vis c ++ firstn n ys).
  { apply vis_app_all; try assumption. apply (wf_split c W). }
  assert (Hendmax : c_end c' < U64MAX).
  { destruct n as [|n']; [lia|].
    assert (Hk : (n' < length (firstn (S n') ys))%nat) by (rewrite firstn_length; lia).
    pose proof (indexed_nth _ _ n' Hix Hk) as Hnth.
    assert (Hin : In (nth n' (firstn (S n') ys) dflt) ys).
    { eapply (in_firstn' _ (S n')). apply nth_In. exact Hk. }
    rewrite Forall_forall in Hbndy. specialize (Hbndy _ Hin). lia. }
  assert (Hrep' : mgr_rep (set_actor m (g_id g) (conc c')) (fs ++ [(g, c')])).
  { apply (rep_set_last m fs g c c' R W' Hf' Hsp'); [lia|exact Hendmax]. }
  assert (Hvfs : files_vis (fs ++ [(g, c')]) = files_vis (fs ++ [(g, c)]) ++ firstn n ys).
  { rewrite !files_vis_app, !files_vis_one. cbn [snd]. rewrite Hvis', app_assoc. reflexivity. }
  assert (Hflo1 : floor_pres (fs ++ [(g, c)]) (fs ++ [(g, c')])).
  { intros fl Hfl. eapply floor_ok_last_same; [exact Hfl|reflexivity|exact Hf'|exact Hsp'|exact Hid0]. }
  assert (Hflo2 : forall lim id term, floor_pres (fs ++ [(g, c)])
                    ((fs ++ [close_f (g, c') (c_end c')]) ++ [new_file lim id term (c_end c')])).
  { intros lim id term fl Hfl. apply floor_ok_snoc_fresh. unfold close_f. cbn [fst snd].
    eapply floor_ok_last_same; [exact Hfl|reflexivity|exact Hf'|exact Hsp'|exact Hid0]. }
  destruct mk.
  - (* Success *)
    assert (Hnall : firstn n ys = ys) by (apply firstn_all2; lia).
    eexists. exists (fs ++ [(g, c')]), WOk. split; [reflexivity|]. split; [exact Hrep'|].
    split; [reflexivity|]. split; [reflexivity|]. split; [|exact Hflo1]. cbn [batch_post]. rewrite Hnall in *.
    split; [exact Hix|]. split; [exact Hvfs|]. apply files_first_snoc. exact Hsp'.
  - (* SuccessToEnd: the batch ended exactly on the record that fills the file *)
    assert (Hnall : firstn n ys = ys) by (apply firstn_all2; lia).
    destruct (switch_rep_snoc _ fs g c' (l_lterm (conc c')) Hrep') as (m3 & Hsw & R3 & Hl3 & Hp3).
    change (end_index (conc c')) with (c_end c'). rewrite Hsw.
    assert (Hlasteq : (i + n =? length xs)%nat = true) by (apply Nat.eqb_eq; lia).
    rewrite Hlasteq.
    eexists. eexists. exists WOk. split; [reflexivity|]. split; [exact R3|].
    split; [exact Hl3|]. split; [exact Hp3|]. split; [|apply Hflo2]. cbn [batch_post]. rewrite Hnall in *.
    split; [exact Hix|]. split.
    + rewrite files_vis_app, files_vis_one. unfold new_file. cbn [snd]. rewrite vis_fresh, app_nil_r.
      transitivity (files_vis (fs ++ [(g, c')])); [|exact Hvfs].
      rewrite !files_vis_app, !files_vis_one. reflexivity.
    + rewrite files_first_app_ne. unfold close_f. cbn [fst snd].
      destruct fs; cbn [app files_first snd]; congruence.
  - (* Failure: the file is full; the rest of the batch goes to a new file *)
    destruct Hmk as [Hnlt Hprog].
    destruct (switch_rep_snoc _ fs g c' (l_lterm (conc c')) Hrep') as (m3 & Hsw & R3 & Hl3 & Hp3).
    change (end_index (conc c')) with (c_end c'). rewrite Hsw.
    cbn [set_actor m_limit] in R3.
    assert (Hl42 : HDR_LEN + 10 < m_limit m) by lia.
    assert (Hfuel' : (length xs - (i + n) +
                      (if is_full (conc (c_fresh (m_limit m) (c_end c') (l_lterm (conc c')) (c_end c'))) then 1 else 0) < fuel)%nat).
    { rewrite (fresh_not_full (m_limit m) _ _ _ Hl42).
      destruct (is_full (conc c)) eqn:Ef; [lia|]. specialize (Hprog eq_refl). lia. }
    destruct (IH m3 (fs ++ [close_f (g, c') (c_end c')]) _ _ xs (i + n)%nat R3 Hok Hne Hbnd Hnn ltac:(lia) Hfuel')
      as (m' & fs' & r & Hwb & R' & Hl' & Hp' & Hpost & Hflo).
    rewrite Hwb. exists m', fs', r. split; [reflexivity|]. split; [exact R'|].
    split; [cbn [set_actor m_limit] in *; congruence|]. split; [cbn [set_actor m_pre_ptr] in *; congruence|].
    split; [|intros fl Hfl; apply Hflo; apply (Hflo2 (m_limit m) (g_id g + 1) (l_lterm (conc c')) fl Hfl)].
    rewrite c_end_fresh in Hpost.
    assert (Hsk : skipn (i + n) xs = skipn n ys) by (subst ys; rewrite skipn_skipn'; reflexivity).
    rewrite Hsk in Hpost.
    assert (Hv0 : files_vis ((fs ++ [close_f (g, c') (c_end c')]) ++
                             [(new_range (g_id g + 1) (l_lterm (conc c')) (c_end c'),
                               c_fresh (m_limit m) (c_end c') (l_lterm (conc c')) (c_end c'))])
                  = files_vis (fs ++ [(g, c)]) ++ firstn n ys).
    { rewrite files_vis_app, files_vis_one. cbn [snd]. rewrite vis_fresh, app_nil_r.
      transitivity (files_vis (fs ++ [(g, c')])); [|exact Hvfs].
      rewrite !files_vis_app, !files_vis_one. reflexivity. }
    assert (Hf0 : files_first ((fs ++ [close_f (g, c') (c_end c')]) ++
                               [(new_range (g_id g + 1) (l_lterm (conc c')) (c_end c'),
                                 c_fresh (m_limit m) (c_end c') (l_lterm (conc c')) (c_end c'))])
                  = files_first (fs ++ [(g, c)])).
    { rewrite files_first_app_ne. unfold close_f. cbn [fst snd].
      destruct fs; cbn [app files_first snd]; congruence. }
    assert (Hnl : nlen (firstn n ys) = N.of_nat n) by (unfold nlen; rewrite firstn_length; lia).
    destruct r; cbn [batch_post] in *.
    + destruct Hpost as (A & B & C). split; [|split].
      * rewrite <- (firstn_skipn n ys). apply indexed_app. split; [exact Hix|].
        rewrite Hnl, <- Hend'. exact A.
      * rewrite B. transitivity ((files_vis (fs ++ [(g, c)]) ++ firstn n ys) ++ skipn n ys).
        -- f_equal. exact Hv0.
        -- rewrite <- app_assoc, firstn_skipn. reflexivity.
      * rewrite C. exact Hf0.
    + destruct Hpost as (n2 & Hn2 & A & Bn & B & C).
      rewrite skipn_length in Hn2.
      exists (n + n2)%nat. split; [lia|]. split; [|split; [|split]].
      * assert (Hfn : firstn (n + n2) ys = firstn n ys ++ firstn n2 (skipn n ys)).
        { rewrite <- (firstn_skipn n ys) at 1. rewrite firstn_app, firstn_length.
          replace (Nat.min n (length ys)) with n by lia.
          rewrite firstn_firstn. replace (Nat.min (n + n2) n) with n by lia.
          replace (n + n2 - n)%nat with n2 by lia. reflexivity. }
        rewrite Hfn. apply indexed_app. split; [exact Hix|]. rewrite Hnl, <- Hend'. exact A.
      * rewrite nth_skipn' in Bn. rewrite Hend' in Bn.
        replace (c_end c + N.of_nat (n + n2)) with (c_end c + N.of_nat n + N.of_nat n2) by lia. exact Bn.
      * rewrite B. transitivity ((files_vis (fs ++ [(g, c)]) ++ firstn n ys) ++ firstn n2 (skipn n ys)).
        -- f_equal. exact Hv0.
        -- rewrite <- app_assoc. f_equal.
           rewrite <- (firstn_skipn n ys) at 3. rewrite firstn_app, firstn_length.
           replace (Nat.min n (length ys)) with n by lia.
           rewrite firstn_firstn. replace (Nat.min (n + n2) n) with n by lia.
           replace (n + n2 - n)%nat with n2 by lia. reflexivity.
      * rewrite C. exact Hf0.
    + contradiction.
  - (* IndexEqualError *)
    destruct Hmk as [Hnlt Hneq].
    eexists. exists (fs ++ [(g, c')]), WErrIndex. split; [reflexivity|]. split; [exact Hrep'|].
    split; [reflexivity|]. split; [reflexivity|]. split; [|exact Hflo1]. cbn [batch_post].
    exists n. split; [exact Hnlt|]. split; [exact Hix|]. split; [exact Hneq|]. split; [exact Hvfs|].
    apply files_first_snoc. exact Hsp'.
Qed.

(** * mgr_write_batch *)
Theorem mgr_write_batch_rep m (fs : list mfile) xs :
  mgr_rep m fs -> Forall rec_ok xs -> Forall rec_nonempty xs -> Forall (fun x => r_index x + 1 < U64MAX) xs ->
  exists m' fs' r, mgr_write_batch (S (S (length xs))) m xs 0 = (m', r) /\ mgr_rep m' fs' /\
    m_limit m' = m_limit m /\ m_pre_ptr m' = m_pre_ptr m /\
    match xs with
    | [] => r = WOk /\ fs' = fs
    | x0 :: _ =>
        match files_end fs with
        | Some e => batch_post fs fs' e xs r
        | None => (* empty manager: a log file is started at the first record's index *)
            match r with
            | WOk => indexed (r_index x0) xs /\ files_vis fs' = xs /\ files_first fs' = Some (r_index x0)
            | WErrIndex => exists n, (n < length xs)%nat /\ indexed (r_index x0) (firstn n xs) /\
                             r_index (nth n xs dflt) <> r_index x0 + N.of_nat n /\
                             files_vis fs' = firstn n xs /\ files_first fs' = Some (r_index x0)
            | WErr => False
            end
        end
    end /\ floor_pres fs fs'.
Proof.
  intros R Hok Hne Hbnd. pose proof (rp_limit m _ R) as Hlim.
  assert (Hl42 : HDR_LEN + 10 < m_limit m) by lia.
  destruct xs as [|x0 xs0].
  - exists m, fs, WOk. cbn [mgr_write_batch]. split; [reflexivity|]. split; [exact R|].
    split; [reflexivity|]. split; [reflexivity|]. split; [split; reflexivity|]. intros fl Hfl; exact Hfl.
  - set (xs := x0 :: xs0) in *.
    destruct (list_snoc_cases fs) as [->|(fs0 & [g c] & ->)].
    + (* empty manager *)
      inversion Hbnd as [|? ? Hb0 _]; subst.
      destruct (switch_rep_nil m (r_index x0) (r_term x0) R ltac:(lia)) as (m1 & Hsw & R1 & Hl1 & Hp1).
      remember (S (length xs)) as fu eqn:Efu.
      assert (Hfu : (length xs - 0 +
                     (if is_full (conc (c_fresh (m_limit m) (r_index x0) (r_term x0) (r_index x0))) then 1 else 0)
                     < S fu)%nat).
      { rewrite (fresh_not_full (m_limit m) _ _ _ Hl42). lia. }
      destruct (batch_gen (S fu) m1 [] _ _ xs 0%nat R1 Hok Hne Hbnd ltac:(discriminate) ltac:(lia) Hfu)
        as (m' & fs' & r & Hwb & R' & Hl' & Hp' & Hpost & Hflo).
      assert (Heq : mgr_write_batch (S fu) m xs 0 = mgr_write_batch (S fu) m1 xs 0).
      { subst xs. cbn [mgr_write_batch]. rewrite (rp_cur m _ R). cbn [last_id last_opt rev]. rewrite Hsw.
        rewrite (rp_cur m1 _ R1). cbn [app last_id last_opt rev new_file f_id fst]. reflexivity. }
      exists m', fs', r. rewrite Heq. split; [exact Hwb|]. split; [exact R'|].
      split; [congruence|]. split; [congruence|].
      split; [|intros fl _; apply Hflo; split; [constructor; [unfold new_file, c_fresh; cbn [snd c_first c_split]; lia|constructor]|
                                              unfold new_file, f_id; cbn [fst new_range g_id]; intros E; discriminate]].
      unfold files_end. cbn [last_opt rev]. rewrite c_end_fresh in Hpost. cbn [skipn app] in Hpost.
      assert (Hv0 : files_vis [new_file (m_limit m) 1 (r_term x0) (r_index x0)] = []).
      { rewrite files_vis_one. cbn [snd new_file]. apply vis_fresh. }
      assert (Hf0 : files_first [new_file (m_limit m) 1 (r_term x0) (r_index x0)] = Some (r_index x0)).
      { cbn [files_first new_file snd c_fresh c_split]. f_equal. lia. }
      unfold new_file in Hv0, Hf0.
      destruct r; cbn [batch_post] in Hpost.
      * destruct Hpost as (A & B & C). split; [exact A|]. split.
        -- rewrite B. cbn [app]. transitivity ([] ++ xs); [f_equal; exact Hv0|reflexivity].
        -- rewrite C. exact Hf0.
      * destruct Hpost as (n & Hn & A & Bn & B & C). exists n. split; [exact Hn|]. split; [exact A|].
        split; [exact Bn|]. split.
        -- rewrite B. cbn [app]. transitivity ([] ++ firstn n xs); [f_equal; exact Hv0|reflexivity].
        -- rewrite C. exact Hf0.
      * contradiction.
    + rewrite files_end_snoc. cbn [snd].
      assert (Hfu : (length xs - 0 + (if is_full (conc c) then 1 else 0) < S (S (length xs)))%nat).
      { destruct (is_full (conc c)); lia. }
      destruct (batch_gen (S (S (length xs))) m fs0 g c xs 0%nat R Hok Hne Hbnd ltac:(discriminate) ltac:(lia) Hfu)
        as (m' & fs' & r & Hwb & R' & Hl' & Hp' & Hpost & Hflo).
      exists m', fs', r. cbn [skipn] in Hpost. repeat (split; [assumption|]). exact Hflo.
Qed.
