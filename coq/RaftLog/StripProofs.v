(** [strip_log_to] on a well-formed state removes exactly the suffix from index k on: the index
    entries behind k are popped and zeroed, the cursor is found by scanning forward from the last
    kept index entry, the removed bytes are dropped from the file. *)
From RN Require Import Base.Res Codec.Varint Codec.BufReader Codec.VarintProofs Codec.ScanProofs
  RaftLog.LogFile RaftLog.Spec RaftLog.Layout RaftLog.FileProofs RaftLog.RecordProofs
  RaftLog.ScanFileProofs RaftLog.ReadProofs RaftLog.InitProofs RaftLog.WriteProofs.
From Coq Require Import ZifyBool ZifyNat ZifyN.
Local Open Scope N_scope.
Ltac Zify.zify_post_hook ::= Z.div_mod_to_equations.

(** the index entry behind the blocks X *)
Definition entry_of (first : N) (X : list (list lrec)) : N * N :=
  (first + 128 * nlen X, DATA0 + frl (concat X)).

Lemma ixs_of_last first X : exists pre, ixs_of first X = pre ++ [entry_of first X].
Proof.
  destruct X as [|b X] using rev_ind.
  - exists []. unfold ixs_of, entry_of. cbn [ixs_from concat app]. rewrite frl_nil.
    unfold nlen. cbn [length]. f_equal. f_equal; lia.
  - exists (ixs_of first X). rewrite ixs_of_snoc. unfold entry_of.
    rewrite concat_app, frl_app, nlen_app. cbn [concat]. rewrite app_nil_r.
    unfold nlen. cbn [length]. f_equal. f_equal. f_equal; lia.
Qed.

Lemma rev_ixs_of first X : exists tl, rev (ixs_of first X) = entry_of first X :: tl.
Proof.
  destruct (ixs_of_last first X) as [pre H]. rewrite H, rev_app_distr. cbn [rev app]. eauto.
Qed.

Lemma rev_ixs_of_snoc first X b :
  rev (ixs_of first (X ++ [b])) = entry_of first (X ++ [b]) :: rev (ixs_of first X).
Proof.
  rewrite ixs_of_snoc, rev_app_distr. cbn [rev app]. f_equal. unfold entry_of.
  rewrite concat_app, frl_app, nlen_app. cbn [concat]. rewrite app_nil_r.
  unfold nlen. cbn [length]. f_equal; lia.
Qed.

Lemma entry_snoc first X b :
  entry_of first (X ++ [b]) = (first + 128 * nlen X + 128, DATA0 + frl (concat X) + frl b).
Proof.
  unfold entry_of. rewrite concat_app, frl_app, nlen_app. cbn [concat]. rewrite app_nil_r.
  unfold nlen. cbn [length]. f_equal; lia.
Qed.

(** one iteration of get_file_index_by_log_index *)
Lemma gfi_step_pop item lastix rest k fl pops :
  fst item <> fst lastix -> k < fst item ->
  gfi_loop (item :: rest) k lastix fl pops
  = gfi_loop rest k item (fl + N.of_nat (sizeof_varint (snd lastix - snd item))) (pops + 1).
Proof.
  intros H1 H2. cbn [gfi_loop]. destruct (fst item =? fst lastix) eqn:E; [lia|]. cbn [negb].
  destruct (fst item <=? k) eqn:E2; [lia|]. reflexivity.
Qed.

Lemma gfi_step_stop item lastix rest k fl pops :
  fst item <> fst lastix -> fst item <= k ->
  gfi_loop (item :: rest) k lastix fl pops
  = Ok (item, fl + N.of_nat (sizeof_varint (snd lastix - snd item)), pops + 1).
Proof.
  intros H1 H2. cbn [gfi_loop]. destruct (fst item =? fst lastix) eqn:E; [lia|]. cbn [negb].
  destruct (fst item <=? k) eqn:E2; [reflexivity|lia].
Qed.

Lemma gfi_step_first item rest k fl pops :
  gfi_loop (item :: rest) k item fl pops
  = if fst item <=? k then Ok (item, fl, pops) else gfi_loop rest k item fl pops.
Proof. cbn [gfi_loop]. rewrite N.eqb_refl. cbn [negb]. reflexivity. Qed.

(** walking back over the blocks Bs ++ [b] that lie behind the cut *)
Lemma gfi_gen first k : forall Bs A b fl pops,
  first + 128 * nlen A <= k < first + 128 * (nlen A + 1) ->
  Forall block_ok (Bs ++ [b]) ->
  gfi_loop (rev (ixs_of first (A ++ Bs))) k (entry_of first ((A ++ Bs) ++ [b])) fl pops
  = Ok (entry_of first A, fl + nlen (ienc (Bs ++ [b])), pops + nlen Bs + 1).
Proof.
  induction Bs as [|b' Bs IH] using rev_ind; intros A b fl pops Hk Hbok.
  - rewrite app_nil_r. destruct (rev_ixs_of first A) as [tl Htl]. rewrite Htl.
    inversion Hbok as [|? ? [Hb64 _] _]; subst.
    rewrite gfi_step_stop.
    + rewrite entry_snoc. unfold entry_of. cbn [snd].
      replace (DATA0 + frl (concat A) + frl b - (DATA0 + frl (concat A))) with (frl b) by lia.
      rewrite <- (varint_sizeof _ Hb64). cbn [app]. rewrite ienc_one. unfold nlen. cbn [length].
      f_equal. f_equal. lia.
    + rewrite entry_snoc. unfold entry_of. cbn [fst]. lia.
    + unfold entry_of. cbn [fst]. lia.
  - apply Forall_app in Hbok. destruct Hbok as [Hbok Hb]. inversion Hb as [|? ? [Hb64 _] _]; subst.
    rewrite app_assoc, rev_ixs_of_snoc.
    rewrite gfi_step_pop.
    + rewrite (entry_snoc first ((A ++ Bs) ++ [b'])). unfold entry_of at 2. cbn [snd].
      replace (DATA0 + frl (concat ((A ++ Bs) ++ [b'])) + frl b - (DATA0 + frl (concat ((A ++ Bs) ++ [b']))))
        with (frl b) by lia.
      rewrite <- (varint_sizeof _ Hb64).
      rewrite IH; [|exact Hk|exact Hbok].
      f_equal. f_equal; [f_equal|].
      * rewrite !ienc_app, !ienc_one, !nlen_app. unfold nlen. lia.
      * rewrite nlen_app. unfold nlen. cbn [length]. lia.
    + rewrite (entry_snoc first ((A ++ Bs) ++ [b'])). unfold entry_of. cbn [fst]. unfold nlen in *. lia.
    + unfold entry_of. cbn [fst]. rewrite !nlen_app. unfold nlen in *. cbn [length]. lia.
Qed.

Theorem gfi_conc c A Bs k :
  wfc c -> c_blocks c = A ++ Bs ->
  c_first c + 128 * nlen A <= k < c_first c + 128 * (nlen A + 1) ->
  get_file_index_by_log_index (conc c) k
  = Ok (entry_of (c_first c) A, nlen (ienc Bs), nlen Bs).
Proof.
  intros W Hb Hk. unfold get_file_index_by_log_index. cbn [conc l_indexs]. unfold last_ix.
  rewrite last_ixs_of. pose proof (blocks_ok c W) as Hbok. rewrite Hb in *.
  fold (entry_of (c_first c) (A ++ Bs)).
  destruct Bs as [|b Bs] using rev_ind.
  - rewrite app_nil_r. destruct (rev_ixs_of (c_first c) A) as [tl Htl]. rewrite Htl.
    rewrite gfi_step_first. unfold entry_of at 1. cbn [fst].
    destruct (c_first c + 128 * nlen A <=? k) eqn:E; [|lia].
    unfold nlen. cbn [ienc map concat length]. reflexivity.
  - clear IHBs. rewrite app_assoc, rev_ixs_of_snoc.
    rewrite gfi_step_first. unfold entry_of at 1. cbn [fst].
    destruct (c_first c + 128 * nlen ((A ++ Bs) ++ [b]) <=? k) eqn:E.
    { rewrite !nlen_app in E. unfold nlen in *. cbn [length] in E. lia. }
    rewrite gfi_gen; [|exact Hk|].
    + rewrite nlen_app, !N.add_0_l. unfold nlen at 3. cbn [length]. reflexivity.
    + apply Forall_app in Hbok. tauto.
Qed.

(** * the truncated state *)
Definition c_truncate (c : cst) (k : N) : cst :=
  let k' := N.to_nat (k - c_first c) in
  let j0 := (k' / 128)%nat in
  let m := (k' mod 128)%nat in
  let A := firstn j0 (c_blocks c) in
  let Bs := skipn j0 (c_blocks c) in
  let part' := firstn m (concat Bs ++ c_part c) in
  mkCst (c_first c) A part' (length (ienc Bs) + c_z c) (c_flen c) (c_hterm c) (c_da c) (c_lterm c)
        (c_seek c) (DATA0 + frl (concat A ++ part')) (c_split c).

Lemma idx_fits_app da off a b : idx_fits da off (a ++ b) -> idx_fits da off a.
Proof.
  revert off. induction a as [|x a IH]; intros off H; [exact I|].
  cbn [app idx_fits] in *. destruct H as [H1 H2]. split; [exact H1|apply IH; exact H2].
Qed.

Lemma indexed_firstn i n l : indexed i l -> indexed i (firstn n l).
Proof.
  intros H. rewrite <- (firstn_skipn n l) in H. apply indexed_app in H. tauto.
Qed.

Section Strip.
  Variable c : cst.
  Variable k : N.
  Hypothesis W : wfc c.
  Hypothesis Hk : c_first c <= k < c_first c + nlen (c_all c).

  Let k' := N.to_nat (k - c_first c).
  Let j0 := (k' / 128)%nat.
  Let m := (k' mod 128)%nat.
  Let A := firstn j0 (c_blocks c).
  Let Bs := skipn j0 (c_blocks c).
  Let post := concat Bs ++ c_part c.
  Let part' := firstn m post.

  Lemma strip_blocks : c_blocks c = A ++ Bs.
  Proof. subst A Bs. symmetry. apply firstn_skipn. Qed.

  Lemma strip_all : c_all c = concat A ++ post.
  Proof.
    unfold c_all. rewrite strip_blocks at 1. subst post. rewrite concat_app, app_assoc. reflexivity.
  Qed.

  Lemma strip_j0 : (j0 <= length (c_blocks c))%nat.
  Proof.
    pose proof (concat_blocks_length _ (wf_blocks c W)) as Hcb. pose proof (wf_part c W) as Hp.
    unfold c_all in Hk. rewrite nlen_app, Hcb in Hk. unfold nlen in Hk.
    assert (k' / 128 < S (length (c_blocks c)))%nat; [|subst j0; lia].
    apply Nat.div_lt_upper_bound; [lia|]. subst k'. lia.
  Qed.

  Lemma strip_A_len : length A = j0.
  Proof. subst A. apply firstn_length_le. apply strip_j0. Qed.

  Lemma strip_concatA_len : length (concat A) = (128 * j0)%nat.
  Proof. subst A. apply concat_firstn_length; [apply (wf_blocks c W)|apply strip_j0]. Qed.

  Lemma strip_k' : k' = (128 * j0 + m)%nat.
  Proof. subst j0 m. apply Nat.div_mod. lia. Qed.

  Lemma strip_m : (m < 128)%nat /\ (m < length post)%nat.
  Proof.
    split; [subst m; apply Nat.mod_upper_bound; lia|].
    pose proof strip_all as Ha. pose proof strip_concatA_len as Hl. pose proof strip_k' as Hk'.
    assert (length (c_all c) = (128 * j0 + length post)%nat) by (rewrite Ha, app_length; lia).
    unfold nlen in Hk. subst k'. lia.
  Qed.

  Lemma strip_kept : c_all (c_truncate c k) = firstn k' (c_all c).
  Proof.
    unfold c_truncate, c_all at 1. cbn [c_blocks c_part]. fold k' j0 m A Bs. fold post. fold part'.
    rewrite strip_all, firstn_app, strip_concatA_len, firstn_all2 by (rewrite strip_concatA_len; pose proof strip_k'; lia).
    f_equal. subst part'. f_equal. pose proof strip_k'. lia.
  Qed.

  (** after an effective cut the index area is not full: either an index entry was popped (it had
      been written while the file was not full) or the cut lies in the last, partial block (and a
      full file has no partial block) *)
  Lemma strip_index_not_full : HDR_LEN + nlen (ienc A) + 10 < c_da c.
  Proof.
    pose proof strip_blocks as Hb. pose proof strip_m as [Hm1 Hm2].
    destruct (N.ltb_spec (HDR_LEN + nlen (ienc A) + 10) (c_da c)) as [Hlt|Hfull]; [exact Hlt|exfalso].
    destruct Bs as [|b Bs'] eqn:EBs.
    - rewrite app_nil_r in Hb. rewrite <- Hb in Hfull.
      pose proof (wf_full c W Hfull) as Hp. subst post. rewrite Hp in Hm2. cbn [concat app length] in Hm2. lia.
    - pose proof (wf_fits c W) as Hf. rewrite Hb in Hf.
      clear - Hf Hfull. revert Hf Hfull. unfold ienc. generalize HDR_LEN as off.
      induction A as [|a A' IH]; intros off Hf Hfull.
      + cbn [app idx_fits map concat] in *. unfold nlen in Hfull. cbn [length] in Hfull. lia.
      + cbn [app idx_fits map concat] in *. destruct Hf as [_ Hf]. apply (IH _ Hf).
        rewrite nlen_app in Hfull. unfold nlen in *. lia.
  Qed.

  Lemma strip_wfc : wfc (c_truncate c k).
  Proof.
    pose proof strip_kept as Hkept. pose proof strip_m as [Hm1 Hm2].
    constructor.
    - unfold c_truncate. cbn [c_blocks]. apply Forall_firstn'. apply (wf_blocks c W).
    - unfold c_truncate. cbn [c_part]. rewrite firstn_length. fold k' j0 m. lia.
    - rewrite Hkept. unfold c_truncate. cbn [c_first]. apply indexed_firstn, (wf_indexed c W).
    - rewrite Hkept. apply Forall_firstn', (wf_ok c W).
    - rewrite Hkept. apply Forall_firstn', (wf_nonempty c W).
    - unfold c_dcur. rewrite Hkept. unfold c_truncate. cbn [c_flen].
      pose proof (wf_flen c W) as Hf. unfold c_dcur in Hf.
      rewrite <- (firstn_skipn k' (c_all c)) in Hf at 1. rewrite frl_app in Hf. lia.
    - unfold c_dcur. rewrite Hkept.
      pose proof (wf_small c W) as Hf. unfold c_dcur in Hf.
      rewrite <- (firstn_skipn k' (c_all c)) in Hf at 1. rewrite frl_app in Hf. lia.
    - unfold c_truncate. cbn [c_da]. apply (wf_da c W).
    - unfold c_truncate. cbn [c_da c_blocks]. fold k' j0 A.
      pose proof (wf_fits c W) as Hf. rewrite strip_blocks in Hf. apply idx_fits_app in Hf. exact Hf.
    - unfold c_truncate. cbn [c_blocks c_z]. fold k' j0 A Bs.
      pose proof (wf_idx_len c W) as Hl. rewrite strip_blocks, ienc_app, app_length in Hl. lia.
    - intros _. unfold c_dcur, c_all, c_truncate. cbn [c_blocks c_part c_dpos]. reflexivity.
    - unfold c_truncate. cbn [c_first c_split]. apply (wf_split c W).
    - unfold c_truncate. cbn [c_da c_blocks c_part]. fold k' j0 m A Bs. fold post. intros Hfull.
      exfalso. pose proof strip_index_not_full. lia.
  Qed.

  Lemma pop_ixs : pop_n (N.to_nat (nlen Bs)) (ixs_of (c_first c) (c_blocks c)) = ixs_of (c_first c) A.
  Proof.
    unfold pop_n. rewrite ixs_of_length. rewrite strip_blocks.
    unfold ixs_of. rewrite ixs_from_app, app_comm_cons.
    rewrite app_length. unfold nlen. rewrite Nat2N.id.
    rewrite firstn_app.
    assert (Hl : forall li fi bs, length (ixs_from li fi bs) = length bs).
    { intros li fi bs. revert li fi. induction bs as [|b bs IH]; intros li fi; [reflexivity|].
      cbn [ixs_from length]. rewrite IH. reflexivity. }
    cbn [length]. rewrite Hl.
    replace (S (length A + length Bs) - length Bs)%nat with (S (length A)) by lia.
    rewrite firstn_all2 by (cbn [length]; rewrite Hl; lia).
    replace (S (length A) - S (length A))%nat with 0%nat by lia. cbn [firstn]. apply app_nil_r.
  Qed.

  Theorem strip_conc : strip_log_to (conc c) k = Ok (conc (c_truncate c k)).
  Proof.
    pose proof strip_blocks as Hb. pose proof strip_all as Hall. pose proof strip_A_len as HAl.
    pose proof strip_concatA_len as HcA. pose proof strip_k' as Hk'. pose proof strip_m as [Hm1 Hm2].
    pose proof (concat_blocks_length _ (wf_blocks c W)) as Hcb.
    unfold strip_log_to. unfold end_index. cbn [conc l_start l_cnt].
    destruct (c_first c + nlen (c_all c) <=? k) eqn:E; [lia|].
    assert (HkA : c_first c + 128 * nlen A <= k < c_first c + 128 * (nlen A + 1)).
    { unfold nlen. rewrite HAl. subst k'. lia. }
    rewrite (gfi_conc c A Bs k W Hb HkA). cbn [res_bind].
    (* index area *)
    assert (Hidx :
      (if 0 <? nlen Bs
       then (idx_write (l_file (conc c)) (l_icur (conc c) - nlen (ienc Bs)) (repeat 0 (N.to_nat (nlen (ienc Bs)))),
             pop_n (N.to_nat (nlen Bs)) (l_indexs (conc c)), l_icur (conc c) - nlen (ienc Bs))
       else (l_file (conc c), l_indexs (conc c), l_icur (conc c)))
      = (mkFile (f_hdr (c_file c)) (ienc A ++ repeat 0 (length (ienc Bs) + c_z c)) (fr (c_all c)) (c_flen c),
         ixs_of (c_first c) A, HDR_LEN + nlen (ienc A))).
    { cbn [conc l_file l_indexs l_icur].
      destruct (0 <? nlen Bs) eqn:E0.
      - rewrite pop_ixs. f_equal; [f_equal|].
        + unfold idx_write, c_file. cbn [f_hdr f_idx f_data f_len]. f_equal.
          rewrite Hb, ienc_app, nlen_app.
          replace (N.to_nat (HDR_LEN + (nlen (ienc A) + nlen (ienc Bs)) - nlen (ienc Bs) - HDR_LEN))
            with (length (ienc A)) by (unfold nlen; lia).
          rewrite <- app_assoc. unfold nlen at 1. rewrite Nat2N.id.
          rewrite write_at_spec by (rewrite repeat_length; reflexivity).
          rewrite repeat_app'. reflexivity.
        + rewrite Hb, ienc_app, nlen_app. lia.
      - assert (Bs = []) by (destruct Bs; [reflexivity|unfold nlen in E0; cbn [length] in E0; lia]).
        rewrite H in *. rewrite app_nil_r in Hb. cbn [ienc map concat length plus]. unfold c_file. cbn [f_hdr]. rewrite Hb. reflexivity. }
    rewrite Hidx. clear Hidx.
    (* the cursor *)
    unfold entry_of. cbn [fst snd l_start l_flen l_lterm l_seek l_split].
    assert (Hcic : k - (c_first c + 128 * nlen A) = N.of_nat m).
    { unfold nlen. rewrite HAl. subst k'. lia. }
    rewrite Hcic.
    set (f1 := mkFile (f_hdr (c_file c)) (ienc A ++ repeat 0 (length (ienc Bs) + c_z c)) (fr (c_all c)) (c_flen c)).
    assert (Hmove : move_to_index_by_count f1 (c_first c + 128 * nlen A, DATA0 + frl (concat A)) (c_first c) (N.of_nat m)
                    = Ok (DATA0 + frl (concat A ++ part'), N.of_nat k')).
    { unfold move_to_index_by_count. cbn [fst snd].
      destruct (c_first c + 128 * nlen A <? c_first c) eqn:E1; [lia|].
      destruct (N.of_nat m =? 0) eqn:E2.
      - assert (m = 0)%nat by lia. subst part'. rewrite H. cbn [firstn]. rewrite app_nil_r.
        f_equal. f_equal. unfold nlen. rewrite HAl. lia.
      - change (rdr_open f1 (DATA0 + frl (concat A))) with (rdr_open (c_file c) (DATA0 + frl (concat A))).
        change (scan_fuel f1 (DATA0 + frl (concat A))) with (scan_fuel (c_file c) (DATA0 + frl (concat A))).
        rewrite (scan_file_to_count c (concat A) post (N.of_nat m)); [|exact W|exact Hall|unfold nlen; lia].
        rewrite Nat2N.id. fold part'. rewrite frl_app. f_equal. f_equal; [lia|].
        unfold nlen. rewrite HAl. lia. }
    rewrite Hmove. cbn [res_bind].
    (* the file *)
    assert (Hfile :
      file_set_len (file_set_len f1 (DATA0 + frl (concat A ++ part'))) (c_flen c)
      = c_file (c_truncate c k)).
    { assert (Hsplit : fr (c_all c) = fr (concat A ++ part') ++ fr (skipn m post)).
      { rewrite Hall. subst part'. rewrite <- fr_app, <- app_assoc, firstn_skipn. reflexivity. }
      assert (Hrem : (0 < length (fr (skipn m post)))%nat).
      { destruct (skipn m post) as [|x rest] eqn:Es.
        - pose proof (skipn_length m post) as Hsl. rewrite Es in Hsl. cbn [length] in Hsl. lia.
        - rewrite fr_cons, app_length. pose proof (frame_length_pos (rec_body x)). unfold rec_frame. lia. }
      pose proof (wf_flen c W) as Hfl. unfold c_dcur in Hfl. unfold frl in Hfl at 1. rewrite Hsplit in Hfl.
      unfold nlen in Hfl. rewrite app_length in Hfl.
      unfold f1.
      set (off := length (fr (concat A ++ part'))).
      assert (Hoff : (off < length (fr (c_all c)))%nat) by (rewrite Hsplit, app_length; subst off; lia).
      unfold file_set_len at 2. cbn [f_hdr f_idx f_data f_len].
      replace (DATA0 + frl (concat A ++ part') - DATA0) with (N.of_nat off) by (unfold frl, nlen; subst off; lia).
      destruct (N.of_nat off <? N.of_nat (length (fr (c_all c)))) eqn:E1; [|lia].
      rewrite Nat2N.id.
      assert (Hfn : firstn off (fr (c_all c)) = fr (concat A ++ part')).
      { subst off. rewrite Hsplit, firstn_app, firstn_all, Nat.sub_diag. cbn [firstn]. apply app_nil_r. }
      rewrite Hfn.
      unfold file_set_len. cbn [f_hdr f_idx f_data f_len].
      destruct (c_flen c - DATA0 <? N.of_nat (length (fr (concat A ++ part')))) eqn:E2.
      { unfold frl, nlen in *. fold off in E2. subst off. lia. }
      unfold c_file, c_truncate. fold k' j0 m A Bs. fold post. fold part'.
      cbn [c_first c_blocks c_part c_z c_flen c_hterm c_da c_all].
      unfold c_all. cbn [c_blocks c_part]. reflexivity. }
    change (l_flen (conc c)) with (c_flen c). rewrite Hfile.
    f_equal. apply lim_ext;
      cbn [conc l_file l_indexs l_start l_icur l_flen l_dcur l_cnt l_lterm l_cic l_seek l_dpos l_split].
    - reflexivity.
    - unfold c_truncate. cbn [c_first c_blocks]. reflexivity.
    - reflexivity.
    - unfold c_truncate. cbn [c_blocks]. reflexivity.
    - reflexivity.
    - unfold c_dcur, c_all, c_truncate. cbn [c_blocks c_part]. reflexivity.
    - rewrite strip_kept. unfold nlen. rewrite firstn_length. unfold nlen in Hk. subst k'. lia.
    - reflexivity.
    - unfold c_truncate. cbn [c_part]. fold k' j0 m A Bs. fold post. unfold nlen. rewrite firstn_length. lia.
    - reflexivity.
    - unfold c_truncate. cbn [c_dpos]. reflexivity.
    - reflexivity.
  Qed.
End Strip.

(** delete-from at or beyond the end changes nothing *)
Theorem strip_noop c k : c_first c + nlen (c_all c) <= k -> strip_log_to (conc c) k = Ok (conc c).
Proof.
  intros H. unfold strip_log_to, end_index. cbn [conc l_start l_cnt].
  destruct (c_first c + nlen (c_all c) <=? k) eqn:E; [reflexivity|lia].
Qed.
