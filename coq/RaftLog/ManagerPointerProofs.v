(** The catalogue invariant is preserved by split-off ([mgr_split_off]) and by the insertion of a
    snapshot-pointer log ([mgr_save_pointer], [mgr_build_pointer]). *)
From RN Require Import Base.Res Codec.Varint Codec.BufReader
  RaftLog.LogFile RaftLog.Spec RaftLog.Layout RaftLog.FileProofs RaftLog.RecordProofs
  RaftLog.ReadProofs RaftLog.WriteProofs RaftLog.InitProofs RaftLog.StripProofs RaftLog.Refine
  RaftLog.LogManager RaftLog.ManagerProofs RaftLog.ManagerInv RaftLog.ManagerWriteProofs.
From RN Require RaftLog.InstallLogProofs.
From Coq Require Import ZifyBool ZifyNat ZifyN.
Local Open Scope N_scope.
Ltac Zify.zify_post_hook ::= Z.div_mod_to_equations.

(** * small facts *)
(** [mgr_rep] does not mention [m_pre_ptr] *)
Lemma rep_set_pre m (fs : list mfile) p :
  mgr_rep m fs ->
  mgr_rep (mkMgr (m_logs m) (m_saved m) (m_actors m) (m_disk m) (m_cur m) p (m_limit m)) fs.
Proof. intros R. destruct R. constructor; cbn [m_logs m_saved m_actors m_disk m_cur m_limit]; assumption. Qed.

Lemma skipn_length_app {A} (l1 l2 : list A) : skipn (length l1) (l1 ++ l2) = l2.
Proof. induction l1 as [|x l1 IH]; [reflexivity|exact IH]. Qed.

Lemma U64MAX_val : U64MAX = 18446744073709551615.
Proof. reflexivity. Qed.

(** the end index a range records is the end of its file (closed) or u64::MAX (open) *)
Lemma g_end_closed g c : file_ok (g, c) -> g_close g = true -> g_end g = c_end c.
Proof.
  intros (_ & Hf & _ & _ & _ & Hc) Hcl. unfold g_end, c_end. rewrite Hcl, (Hc Hcl), Hf. reflexivity.
Qed.

Lemma g_end_open g : g_close g = false -> g_end g = U64MAX.
Proof. intros H. unfold g_end. rewrite H. reflexivity. Qed.

Lemma g_end_le g c : file_ok (g, c) -> g_end g <= U64MAX.
Proof.
  intros Hok. destruct (g_close g) eqn:E.
  - rewrite (g_end_closed g c Hok E). destruct Hok as (_ & _ & _ & _ & He & _). lia.
  - rewrite (g_end_open g E). lia.
Qed.

(** * SplitOff(u64::MAX) *)
Theorem mgr_split_all_rep : forall m (fs : list mfile),
  mgr_rep m fs ->
  mgr_rep (mgr_split_off m U64MAX) [] /\
  m_limit (mgr_split_off m U64MAX) = m_limit m /\ m_pre_ptr (mgr_split_off m U64MAX) = m_pre_ptr m.
Proof.
  intros m fs R.
  assert (Hall : Forall (fun g => g_end g <= U64MAX) (m_logs m)).
  { rewrite (rp_logs m fs R). apply Forall_forall. intros g Hin. apply in_map_iff in Hin.
    destruct Hin as ([g' c] & Hg & Hin). cbn [fst] in Hg. subst g'.
    pose proof (rp_files m fs R) as Hf. rewrite Forall_forall in Hf. apply (g_end_le g c). apply Hf. exact Hin. }
  unfold mgr_split_off.
  destruct (InstallLogProofs.split_loop_all (m_logs m) m 0%nat Hall)
    as (m1 & Hs & Hc1 & Hsv & Hl & Hlim & Hp & Ha1 & Hd1).
  rewrite Hs. cbn [Nat.add].
  assert (Hact : forall id, lookup id (m_actors m1) = None).
  { intros id. apply Ha1. destruct (lookup id (m_actors m)) eqn:E; [right|left; reflexivity].
    rewrite (rp_actors m fs R) in E. apply lookup_amap_some in E. destruct E as (f & Hin & Hid & _).
    rewrite (rp_logs m fs R), map_map. rewrite <- Hid. apply (in_map (fun x => g_id (fst x))). exact Hin. }
  assert (Hdsk : forall id, lookup id (m_disk m1) = None).
  { intros id. apply Hd1. left. apply (rp_disk m fs R). }
  pose proof (rp_limit m fs R) as Hlimit.
  destruct (m_logs m) as [|g rest] eqn:El.
  - cbn [length Nat.ltb Nat.leb].
    assert (Hfs : fs = []).
    { pose proof (rp_logs m fs R) as H. rewrite El in H. destruct fs; [reflexivity|discriminate]. }
    subst fs. split; [|split].
    + constructor; cbn [set_logs m_logs m_saved m_actors m_disk m_cur m_limit].
      * reflexivity.
      * rewrite Hsv, (rp_saved m [] R), El. reflexivity.
      * intros id. rewrite Hact. reflexivity.
      * exact Hdsk.
      * constructor.
      * split; exact I.
      * exact I.
      * rewrite Hc1. apply (rp_cur m [] R).
      * lia.
    + cbn [set_logs m_limit]. exact Hlim.
    + cbn [set_logs m_pre_ptr]. exact Hp.
  - replace (0 <? length (g :: rest))%nat with true by (cbn [length]; reflexivity).
    rewrite skipn_all. split; [|split].
    + constructor; cbn [save_logs set_logs set_cur m_logs m_saved m_actors m_disk m_cur m_limit].
      * reflexivity.
      * reflexivity.
      * intros id. rewrite Hact. reflexivity.
      * exact Hdsk.
      * constructor.
      * split; exact I.
      * exact I.
      * reflexivity.
      * lia.
    + cbn [save_logs set_logs set_cur m_limit]. exact Hlim.
    + cbn [save_logs set_logs set_cur m_pre_ptr]. exact Hp.
Qed.

(** * BuildSnapshotPointerLog, first call *)
Theorem mgr_build_pointer_none : forall m (fs : list mfile) ptr,
  mgr_rep m fs -> m_pre_ptr m = None ->
  mgr_rep (mgr_build_pointer m ptr) fs /\ m_pre_ptr (mgr_build_pointer m ptr) = Some ptr /\
  m_limit (mgr_build_pointer m ptr) = m_limit m.
Proof.
  intros m fs ptr R Hn. unfold mgr_build_pointer. rewrite Hn.
  split; [apply rep_set_pre; exact R|]. split; reflexivity.
Qed.

(** * save_new_snapshot_pointer on an empty manager *)
Theorem mgr_save_pointer_empty : forall m ptr,
  mgr_rep m [] -> rec_ok ptr -> rec_nonempty ptr -> r_index ptr + 1 < U64MAX ->
  exists fs', mgr_rep (mgr_save_pointer m ptr) fs' /\
    m_limit (mgr_save_pointer m ptr) = m_limit m /\ m_pre_ptr (mgr_save_pointer m ptr) = m_pre_ptr m /\
    files_vis fs' = [ptr] /\ files_first fs' = Some (r_index ptr) /\ files_end fs' = Some (r_index ptr + 1).
Proof.
  intros m ptr R Hok Hne Hidx.
  unfold mgr_save_pointer, mgr_split_off. rewrite (rp_logs m [] R).
  cbn [map split_loop Nat.ltb Nat.leb set_logs m_logs].
  set (m0 := mkMgr [] (m_saved m) (m_actors m) (m_disk m) (m_cur m) (m_pre_ptr m) (m_limit m)).
  assert (R0 : mgr_rep m0 []).
  { destruct R. constructor; subst m0; cbn [m_logs m_saved m_actors m_disk m_cur m_limit map] in *; try assumption.
    - reflexivity.
    - congruence. }
  destruct (mgr_write_rep m0 [] ptr R0 Hok Hne Hidx) as (m' & fs' & r & Hw & R' & Hl & Hp & Hpost).
  rewrite Hw. cbn [fst]. exists fs'. split; [exact R'|]. split; [exact Hl|]. split; [exact Hp|].
  change (files_end []) with (@None N) in Hpost. destruct Hpost as (_ & Hv & Hf).
  split; [exact Hv|]. split; [exact Hf|].
  pose proof (files_vis_indexed fs' (rp_files m' fs' R') (proj1 (rp_chain m' fs' R'))) as Hi.
  destruct fs' as [|f rest]; [discriminate|]. destruct Hi as [_ He].
  cbn [files_first] in Hf. inversion Hf as [Hsp].
  unfold files_end in *. destruct (@last_opt mfile (f :: rest)) as [z|] eqn:El.
  - specialize (He _ eq_refl). rewrite Hv, Hsp in He. unfold nlen in He. cbn [length] in He. f_equal. lia.
  - exfalso. destruct (list_snoc_cases (f :: rest)) as [H|(l0 & x & H)]; [discriminate|].
    rewrite H, last_opt_snoc in El. discriminate.
Qed.
