(** The catalogue invariant is preserved by split-off ([mgr_split_off]) and by the insertion of a
    snapshot-pointer log ([mgr_save_pointer], [mgr_build_pointer]). *)
From RN Require Import Base.Res Codec.Varint Codec.BufReader
  RaftLog.LogFile RaftLog.Spec RaftLog.Layout RaftLog.FileProofs RaftLog.RecordProofs
  RaftLog.ReadProofs RaftLog.WriteProofs RaftLog.InitProofs RaftLog.StripProofs RaftLog.Refine
  RaftLog.LogManager RaftLog.ManagerProofs RaftLog.ManagerInv RaftLog.ManagerWriteProofs.
From RN Require RaftLog.InstallLogProofs.
From Coq Require Import ZifyBool ZifyNat ZifyN.
Local Open Scope N_scope.
Ltac Zify.zify_post_hook ::= Z.div_mod_to_equations.

(** * small facts *)
(** [mgr_rep] does not mention [m_pre_ptr] *)
Lemma rep_set_pre m (fs : list mfile) p :
  mgr_rep m fs ->
  mgr_rep (mkMgr (m_logs m) (m_saved m) (m_actors m) (m_disk m) (m_cur m) p (m_limit m)) fs.
Proof. intros R. destruct R. constructor; cbn [m_logs m_saved m_actors m_disk m_cur m_limit]; assumption. Qed.

Lemma skipn_length_app {A} (l1 l2 : list A) : skipn (length l1) (l1 ++ l2) = l2.
Proof. induction l1 as [|x l1 IH]; [reflexivity|exact IH]. Qed.

Lemma U64MAX_val : U64MAX = 18446744073709551615.
Proof. reflexivity. Qed.

(** the end index a range records is the end of its file (closed) or u64::MAX (open) *)
Lemma g_end_closed g c : file_ok (g, c) -> g_close g = true -> g_end g = c_end c.
Proof.
  intros (_ & Hf & _ & _ & _ & Hc) Hcl. unfold g_end, c_end. rewrite Hcl, (Hc Hcl), Hf. reflexivity.
Qed.

Lemma g_end_open g : g_close g = false -> g_end g = U64MAX.
Proof. intros H. unfold g_end. rewrite H. reflexivity. Qed.

Lemma g_end_le g c : file_ok (g, c) -> g_end g <= U64MAX.
Proof.
  intros Hok. destruct (g_close g) eqn:E.
  - rewrite (g_end_closed g c Hok E). destruct Hok as (_ & _ & _ & _ & He & _). lia.
  - rewrite (g_end_open g E). lia.
Qed.

(** * SplitOff(u64::MAX) *)
Theorem mgr_split_all_rep : forall m (fs : list mfile),
  mgr_rep m fs ->
  mgr_rep (mgr_split_off m U64MAX) [] /\
  m_limit (mgr_split_off m U64MAX) = m_limit m /\ m_pre_ptr (mgr_split_off m U64MAX) = m_pre_ptr m.
Proof.
  intros m fs R.
  assert (Hall : Forall (fun g => g_end g <= U64MAX) (m_logs m)).
  { rewrite (rp_logs m fs R). apply Forall_forall. intros g Hin. apply in_map_iff in Hin.
    destruct Hin as ([g' c] & Hg & Hin). cbn [fst] in Hg. subst g'.
    pose proof (rp_files m fs R) as Hf. rewrite Forall_forall in Hf. apply (g_end_le g c). apply Hf. exact Hin. }
  unfold mgr_split_off.
  destruct (InstallLogProofs.split_loop_all (m_logs m) m 0%nat Hall)
    as (m1 & Hs & Hc1 & Hsv & Hl & Hlim & Hp & Ha1 & Hd1).
  rewrite Hs. cbn [Nat.add].
  assert (Hact : forall id, lookup id (m_actors m1) = None).
  { intros id. apply Ha1. destruct (lookup id (m_actors m)) eqn:E; [right|left; reflexivity].
    rewrite (rp_actors m fs R) in E. apply lookup_amap_some in E. destruct E as (f & Hin & Hid & _).
    rewrite (rp_logs m fs R), map_map. rewrite <- Hid. apply (in_map (fun x => g_id (fst x))). exact Hin. }
  assert (Hdsk : forall id, lookup id (m_disk m1) = None).
  { intros id. apply Hd1. left. apply (rp_disk m fs R). }
  pose proof (rp_limit m fs R) as Hlimit.
  destruct (m_logs m) as [|g rest] eqn:El.
  - cbn [length Nat.ltb Nat.leb].
    assert (Hfs : fs = []).
    { pose proof (rp_logs m fs R) as H. rewrite El in H. destruct fs; [reflexivity|discriminate]. }
    subst fs. split; [|split].
    + constructor; cbn [set_logs m_logs m_saved m_actors m_disk m_cur m_limit].
      * reflexivity.
      * rewrite Hsv, (rp_saved m [] R), El. reflexivity.
      * intros id. rewrite Hact. reflexivity.
      * exact Hdsk.
      * constructor.
      * split; exact I.
      * exact I.
      * rewrite Hc1. apply (rp_cur m [] R).
      * lia.
    + cbn [set_logs m_limit]. exact Hlim.
    + cbn [set_logs m_pre_ptr]. exact Hp.
  - replace (0 <? length (g :: rest))%nat with true by (cbn [length]; reflexivity).
    rewrite skipn_all. split; [|split].
    + constructor; cbn [save_logs set_logs set_cur m_logs m_saved m_actors m_disk m_cur m_limit].
      * reflexivity.
      * reflexivity.
      * intros id. rewrite Hact. reflexivity.
      * exact Hdsk.
      * constructor.
      * split; exact I.
      * exact I.
      * reflexivity.
      * lia.
    + cbn [save_logs set_logs set_cur m_limit]. exact Hlim.
    + cbn [save_logs set_logs set_cur m_pre_ptr]. exact Hp.
Qed.

(** * BuildSnapshotPointerLog, first call *)
Theorem mgr_build_pointer_none : forall m (fs : list mfile) ptr,
  mgr_rep m fs -> m_pre_ptr m = None ->
  mgr_rep (mgr_build_pointer m ptr) fs /\ m_pre_ptr (mgr_build_pointer m ptr) = Some ptr /\
  m_limit (mgr_build_pointer m ptr) = m_limit m.
Proof.
  intros m fs ptr R Hn. unfold mgr_build_pointer. rewrite Hn.
  split; [apply rep_set_pre; exact R|]. split; reflexivity.
Qed.

(** * save_new_snapshot_pointer on an empty manager *)
Theorem mgr_save_pointer_empty_floor : forall m ptr,
  mgr_rep m [] -> rec_ok ptr -> rec_nonempty ptr -> r_index ptr + 1 < U64MAX ->
  exists fs', mgr_rep (mgr_save_pointer m ptr) fs' /\
    m_limit (mgr_save_pointer m ptr) = m_limit m /\ m_pre_ptr (mgr_save_pointer m ptr) = m_pre_ptr m /\
    files_vis fs' = [ptr] /\ files_first fs' = Some (r_index ptr) /\ files_end fs' = Some (r_index ptr + 1) /\
    floor_ok 0 fs'.
Proof.
  intros m ptr R Hok Hne Hidx.
  unfold mgr_save_pointer, mgr_split_off. rewrite (rp_logs m [] R).
  cbn [map split_loop Nat.ltb Nat.leb set_logs m_logs].
  set (m0 := set_logs m []).
  assert (R0 : mgr_rep m0 []).
  { destruct R. constructor; subst m0; cbn [set_logs m_logs m_saved m_actors m_disk m_cur m_limit map] in *; try assumption.
    - reflexivity.
    - congruence. }
  destruct (mgr_write_rep m0 [] ptr R0 Hok Hne Hidx) as (m' & fs' & r & Hw & R' & Hl & Hp & Hpost & Hflo).
  rewrite Hw. cbn [fst]. exists fs'. split; [exact R'|]. split; [exact Hl|]. split; [exact Hp|].
  change (files_end []) with (@None N) in Hpost. destruct Hpost as (_ & Hv & Hf).
  split; [exact Hv|]. split; [exact Hf|].
  split; [|apply Hflo; split; [constructor|exact I]].
  pose proof (files_vis_indexed fs' (rp_files m' fs' R') (proj1 (rp_chain m' fs' R'))) as Hi.
  destruct fs' as [|f rest]; [discriminate|]. destruct Hi as [_ He].
  cbn [files_first] in Hf. inversion Hf as [Hsp].
  unfold files_end in *. destruct (@last_opt mfile (f :: rest)) as [z|] eqn:El.
  - specialize (He _ eq_refl). rewrite Hv, Hsp in He. unfold nlen in He. cbn [length] in He. f_equal. lia.
  - exfalso. destruct (list_snoc_cases (f :: rest)) as [H|(l0 & x & H)]; [discriminate|].
    rewrite H, last_opt_snoc in El. discriminate.
Qed.

Theorem mgr_save_pointer_empty : forall m ptr,
  mgr_rep m [] -> rec_ok ptr -> rec_nonempty ptr -> r_index ptr + 1 < U64MAX ->
  exists fs', mgr_rep (mgr_save_pointer m ptr) fs' /\
    m_limit (mgr_save_pointer m ptr) = m_limit m /\ m_pre_ptr (mgr_save_pointer m ptr) = m_pre_ptr m /\
    files_vis fs' = [ptr] /\ files_first fs' = Some (r_index ptr) /\ files_end fs' = Some (r_index ptr + 1).
Proof.
  intros m ptr R Hok Hne Hidx.
  destruct (mgr_save_pointer_empty_floor m ptr R Hok Hne Hidx) as (fs' & H1 & H2 & H3 & H4 & H5 & H6 & _).
  exists fs'. auto 10.
Qed.

(** * split-off at an index the log holds: the operational part *)
(** [mfile] is an alias: keep the type argument of [map] the one [rp_logs] uses *)
Local Notation mfst := (@map mfile lrange (@fst lrange cst)).
(** the range / the canonical state of a file whose split-off is raised to [k] *)
Definition gsp (g : lrange) (k : N) : lrange :=
  mkRange (g_id g) (g_pre g) (g_start g) (g_count g) k (g_close g).
Definition csp (c : cst) (k : N) : cst :=
  mkCst (c_first c) (c_blocks c) (c_part c) (c_z c) (c_flen c) (c_hterm c) (c_da c) (c_lterm c)
        (c_seek c) (c_dpos c) (N.max k (c_first c)).

Lemma set_split_conc c k : set_split (conc c) k = conc (csp c k).
Proof. reflexivity. Qed.

Lemma wfc_csp c k : wfc c -> wfc (csp c k).
Proof.
  intros W. destruct W. constructor;
    cbn [csp c_blocks c_part c_first c_z c_flen c_da c_seek c_dpos c_split]; try assumption. lia.
Qed.

Lemma csp_same c k : c_split c = N.max k (c_first c) -> csp c k = c.
Proof. intros H. destruct c. unfold csp. cbn in *. subst. reflexivity. Qed.

Lemma c_end_csp c k : c_end (csp c k) = c_end c.
Proof. reflexivity. Qed.

(** what the loop does to the files that are kept (none of them ends at or below [k]): the first
    one whose recorded split-off is below [k] gets it raised, the others are left alone *)
Fixpoint fsplit (L : list mfile) (k : N) : list mfile :=
  match L with
  | [] => []
  | f :: rest => if g_split (fst f) <? k then (gsp (fst f) k, csp (snd f) k) :: rest
                 else f :: fsplit rest k
  end.

Lemma fsplit_ids : forall L k, map f_id (fsplit L k) = map f_id L.
Proof.
  induction L as [|f L IH]; intros k; [reflexivity|]. cbn [fsplit].
  destruct (g_split (fst f) <? k); [reflexivity|]. cbn [map]. rewrite IH. reflexivity.
Qed.

Definition same_meta (m m' : mgr) : Prop :=
  m_logs m' = m_logs m /\ m_saved m' = m_saved m /\ m_cur m' = m_cur m /\
  m_pre_ptr m' = m_pre_ptr m /\ m_limit m' = m_limit m.

Fixpoint drops (m : mgr) (A : list mfile) : mgr :=
  match A with [] => m | f :: A' => drops (drop_file m (f_id f)) A' end.

Lemma drops_meta : forall A m, same_meta m (drops m A).
Proof.
  induction A as [|f A IH]; intros m; [repeat split|]. cbn [drops].
  destruct (IH (drop_file m (f_id f))) as (H1 & H2 & H3 & H4 & H5). repeat split; assumption.
Qed.

Lemma drops_none : forall A m id, lookup id (m_actors m) = None -> lookup id (m_actors (drops m A)) = None.
Proof.
  induction A as [|f A IH]; intros m id H; [exact H|]. cbn [drops]. apply IH.
  cbn [drop_file m_actors]. apply InstallLogProofs.lookup_remove_none. exact H.
Qed.

Lemma drops_in : forall A m id, In id (map f_id A) -> lookup id (m_actors (drops m A)) = None.
Proof.
  induction A as [|f A IH]; intros m id Hin; [contradiction|]. cbn [drops].
  destruct (N.eq_dec id (f_id f)) as [->|Hne].
  - apply drops_none. cbn [drop_file m_actors]. apply InstallLogProofs.lookup_remove_same.
  - apply IH. destruct Hin as [H|H]; [congruence|exact H].
Qed.

Lemma drops_notin : forall A m id, ~ In id (map f_id A) -> lookup id (m_actors (drops m A)) = lookup id (m_actors m).
Proof.
  induction A as [|f A IH]; intros m id Hnin; [reflexivity|]. cbn [drops].
  rewrite IH by (intros H; apply Hnin; right; exact H).
  cbn [drop_file m_actors]. apply lookup_remove_other. intros H. apply Hnin. left. congruence.
Qed.

Lemma drops_disk : forall A m, (forall id, lookup id (m_disk m) = None) ->
  forall id, lookup id (m_disk (drops m A)) = None.
Proof.
  induction A as [|f A IH]; intros m H id; [apply H|]. cbn [drops]. apply IH.
  intros id'. cbn [drop_file m_disk]. apply lookup_remove_key_none. apply H.
Qed.

(** the files that end at or below [k] are dropped *)
Lemma split_loop_drop k : forall (A : list mfile) m rest i,
  Forall (fun f => ge_end k (fst f) = true) A ->
  split_loop m (mfst A ++ rest) k i =
  let '(m1, rest', i') := split_loop (drops m A) rest k (length A + i) in (m1, mfst A ++ rest', i').
Proof.
  induction A as [|f A IH]; intros m rest i Hall.
  - cbn [map app drops length Nat.add]. destruct (split_loop m rest k i) as [[m1 r] i']. reflexivity.
  - inversion Hall as [|? ? Hf Hall']; subst. cbn [map app split_loop]. rewrite Hf.
    change (g_id (fst f)) with (f_id f). rewrite (IH _ rest (S i) Hall'). cbn [drops length].
    replace (length A + S i)%nat with (S (length A) + i)%nat by lia.
    destruct (split_loop (drops (drop_file m (f_id f)) A) rest k (S (length A) + i)) as [[m1 r] i']. reflexivity.
Qed.

Lemma lookup_amap_in_some : forall (X : list mfile) id, In id (map f_id X) -> exists s, lookup id (amap X) = Some s.
Proof.
  induction X as [|f X IH]; intros id Hin; [contradiction|]. cbn [amap map lookup].
  destruct (id =? f_id f) eqn:E; [eexists; reflexivity|]. apply IH. destruct Hin as [H|H]; [lia|exact H].
Qed.

Lemma lookup_amap_cons (f : mfile) (X : list mfile) id :
  lookup id (amap (f :: X)) = if id =? f_id f then Some (conc (snd f)) else lookup id (amap X).
Proof. reflexivity. Qed.

(** the files that are kept *)
Lemma split_loop_keep k : forall (L : list mfile) m i,
  Forall (fun f => ge_end k (fst f) = false) L ->
  NoDup (map f_id L) ->
  (forall f, In f L -> lookup (f_id f) (m_actors m) = Some (conc (snd f))) ->
  exists m', split_loop m (mfst L) k i = (m', mfst (fsplit L k), i) /\ same_meta m m' /\
    ((forall id, lookup id (m_disk m) = None) -> forall id, lookup id (m_disk m') = None) /\
    (forall id, lookup id (m_actors m') =
                match lookup id (amap (fsplit L k)) with Some s => Some s | None => lookup id (m_actors m) end).
Proof.
  induction L as [|[g c] L IH]; intros m i Hall Hnd Hact.
  - exists m. cbn [map split_loop fsplit amap lookup]. split; [reflexivity|]. split; [repeat split|]. split; auto.
  - inversion Hall as [|? ? Hg Hall']; subst. inversion Hnd as [|? ? Hnin Hnd']; subst. cbn [fst] in Hg.
    cbn [map split_loop fst fsplit snd]. rewrite Hg.
    destruct (g_split g <? k) eqn:E.
    + pose proof (Hact (g, c) (or_introl eq_refl)) as Hl. unfold f_id in Hl. cbn [fst snd] in Hl. rewrite Hl.
      eexists. split; [reflexivity|]. split; [repeat split|]. split.
      * intros Hd id. cbn [set_actor m_disk]. apply lookup_remove_key_none. apply Hd.
      * intros id. cbn [set_actor m_actors]. rewrite lookup_set_key, set_split_conc.
        rewrite lookup_amap_cons. unfold f_id at 1. cbn [fst snd gsp g_id].
        destruct (id =? g_id g) eqn:Eid; [reflexivity|].
        destruct (lookup id (amap L)) as [s|] eqn:El; [|reflexivity].
        apply lookup_amap_some in El. destruct El as (f & Hin & Hid & ->). rewrite <- Hid.
        apply Hact. right. exact Hin.
    + destruct (IH m i Hall' Hnd' (fun f Hin => Hact f (or_intror Hin))) as (m' & Heq & Hmeta & Hd & Ha).
      rewrite Heq. exists m'. split; [reflexivity|]. split; [exact Hmeta|]. split; [exact Hd|].
      intros id. rewrite Ha, lookup_amap_cons. unfold f_id at 1. cbn [fst snd].
      destruct (id =? g_id g) eqn:Eid; [|reflexivity].
      apply N.eqb_eq in Eid. subst id. rewrite lookup_amap_notin by (rewrite fsplit_ids; exact Hnin).
      apply (Hact (g, c)). left. reflexivity.
Qed.

Lemma nodup_app_disjoint {A} (l1 l2 : list A) x : NoDup (l1 ++ l2) -> In x l1 -> In x l2 -> False.
Proof.
  induction l1 as [|a l1 IH]; intros Hnd H1 H2; [contradiction|]. cbn [app] in Hnd.
  inversion Hnd as [|? ? Hnin Hnd']; subst. destruct H1 as [->|H1].
  - apply Hnin. apply in_or_app. right. exact H2.
  - exact (IH Hnd' H1 H2).
Qed.

Lemma nodup_app_r {A} (l1 l2 : list A) : NoDup (l1 ++ l2) -> NoDup l2.
Proof. induction l1 as [|a l1 IH]; intros H; [exact H|]. inversion H; subst. apply IH. assumption. Qed.

Lemma fsplit_length : forall L k, length (fsplit L k) = length L.
Proof. intros L k. rewrite <- (map_length f_id), fsplit_ids, map_length. reflexivity. Qed.

(** the manager after split-off at [k], when the files ending at or below [k] are a prefix [A] of
    the catalogue and at least one file is kept ([m_saved] is not described: it is the old
    catalogue when nothing was dropped) *)
Lemma split_off_ptr m (A L : list mfile) k :
  mgr_rep m (A ++ L) -> L <> [] ->
  Forall (fun f => ge_end k (fst f) = true) A -> Forall (fun f => ge_end k (fst f) = false) L ->
  m_logs (mgr_split_off m k) = mfst (fsplit L k) /\ m_cur (mgr_split_off m k) = m_cur m /\
  m_pre_ptr (mgr_split_off m k) = m_pre_ptr m /\ m_limit (mgr_split_off m k) = m_limit m /\
  (forall id, lookup id (m_actors (mgr_split_off m k)) = lookup id (amap (fsplit L k))) /\
  (forall id, lookup id (m_disk (mgr_split_off m k)) = None).
Proof.
  intros R Hne HA HL.
  pose proof (rep_nodup m _ R) as Hnd. rewrite map_app in Hnd.
  assert (HactL : forall f, In f L -> lookup (f_id f) (m_actors (drops m A)) = Some (conc (snd f))).
  { intros f Hin. rewrite drops_notin.
    - apply (rep_actor m _ f R). apply in_or_app. right. exact Hin.
    - intros Hin'. apply (nodup_app_disjoint _ _ (f_id f) Hnd Hin'). apply in_map. exact Hin. }
  destruct (split_loop_keep k L (drops m A) (length A + 0)%nat HL (nodup_app_r _ _ Hnd) HactL)
    as (m' & Heq & Hmeta & Hd & Ha).
  assert (Hact' : forall id, lookup id (m_actors m') = lookup id (amap (fsplit L k))).
  { intros id. rewrite Ha. destruct (lookup id (amap (fsplit L k))) eqn:E; [reflexivity|].
    destruct (in_dec N.eq_dec id (map f_id A)) as [Hin|Hnin]; [apply drops_in; exact Hin|].
    rewrite drops_notin by exact Hnin. rewrite (rp_actors m _ R). apply lookup_amap_notin.
    rewrite map_app. intros Hin. apply in_app_or in Hin. destruct Hin as [Hin|Hin]; [contradiction|].
    rewrite <- (fsplit_ids L k) in Hin. apply lookup_amap_in_some in Hin. destruct Hin as (s & Hs). congruence. }
  assert (Hdisk' : forall id, lookup id (m_disk m') = None).
  { apply Hd. apply drops_disk. apply (rp_disk m _ R). }
  destruct Hmeta as (_ & _ & Hc & Hp & Hl).
  destruct (drops_meta A m) as (_ & _ & Hc0 & Hp0 & Hl0).
  assert (Hne' : fsplit L k <> []).
  { intros H. apply (f_equal (@length mfile)) in H. rewrite fsplit_length in H. destruct L; [congruence|discriminate]. }
  unfold mgr_split_off. rewrite (rp_logs m _ R), map_app, (split_loop_drop k A m (mfst L) 0%nat HA), Heq.
  cbv beta iota zeta.
  destruct A as [|a A'].
  - cbn [length Nat.add Nat.ltb Nat.leb map app set_logs m_logs m_cur m_pre_ptr m_limit m_actors m_disk].
    repeat split; try congruence; assumption.
  - replace (0 <? length (a :: A') + 0)%nat with true by (cbn [length Nat.add]; reflexivity).
    replace (length (a :: A') + 0)%nat with (length (mfst (a :: A'))) by (rewrite map_length; lia).
    rewrite skipn_length_app.
    destruct (mfst (fsplit L k)) as [|g0 l0] eqn:El.
    + exfalso. apply Hne'. destruct (fsplit L k); [reflexivity|discriminate].
    + cbn [save_logs set_logs m_logs m_cur m_pre_ptr m_limit m_actors m_disk].
      repeat split; try congruence; assumption.
Qed.

(** * the file list: where the loop stops *)
Lemma ge_end_false k g : ge_end k g = false <-> k < g_end g.
Proof. unfold ge_end, lt_end. destruct (k <? g_end g) eqn:E; cbn [negb]; split; intros H; try lia; congruence. Qed.

Lemma ge_end_true k g : ge_end k g = true <-> g_end g <= k.
Proof. unfold ge_end, lt_end. destruct (k <? g_end g) eqn:E; cbn [negb]; split; intros H; try lia; congruence. Qed.

Lemma first_kept k : forall (fs : list mfile),
  Exists (fun f => ge_end k (fst f) = false) fs ->
  exists A f B, fs = A ++ f :: B /\ Forall (fun f => ge_end k (fst f) = true) A /\ ge_end k (fst f) = false.
Proof.
  induction fs as [|a fs IH]; intros H; [inversion H|].
  destruct (ge_end k (fst a)) eqn:E.
  - inversion H as [? ? H0|? ? H0]; subst; [congruence|].
    destruct (IH H0) as (A & f & B & -> & HA & Hf). exists (a :: A), f, B.
    split; [reflexivity|]. split; [constructor; assumption|exact Hf].
  - exists [], a, fs. split; [reflexivity|]. split; [constructor|exact E].
Qed.

Lemma links_cons2 (f b : mfile) (B : list mfile) : links (f :: b :: B) <-> link f b /\ links (b :: B).
Proof. split; intros H; exact H. Qed.

(** behind a file that ends above [k], every file lies wholly above [k] *)
Lemma tail_above k : forall (B : list mfile) f,
  links (f :: B) -> Forall file_ok (f :: B) -> k < g_end (fst f) ->
  Forall (fun f' => k < c_split (snd f') /\ k < g_end (fst f')) B.
Proof.
  induction B as [|b B IH]; intros f Hl Hok Hk; [constructor|].
  apply links_cons2 in Hl. destruct Hl as [(Hsp & _ & Hcl) Hl'].
  inversion Hok as [|? ? Hf Hok']; subst. inversion Hok' as [|? ? Hb _]; subst.
  destruct f as [g c], b as [gb cb]. cbn [fst snd] in *.
  rewrite (g_end_closed g c Hf Hcl) in Hk.
  assert (Hkb : k < g_end gb).
  { destruct Hb as (_ & _ & _ & Hle & Hmax & _). destruct (g_close gb) eqn:E.
    - rewrite (g_end_closed gb cb) by (assumption || (inversion Hok'; assumption)). lia.
    - rewrite (g_end_open gb E). clear - Hsp Hk Hle Hmax. lia. }
  constructor; [cbn [fst snd]; split; [lia|exact Hkb]|]. apply (IH (gb, cb)); assumption.
Qed.

(** files that differ at most in the split-off their range records *)
Definition lreq (f f' : mfile) : Prop :=
  f_id f' = f_id f /\ g_close (fst f') = g_close (fst f) /\ c_end (snd f') = c_end (snd f).
Definition req (f f' : mfile) : Prop :=
  f_id f' = f_id f /\ g_close (fst f') = g_close (fst f) /\ snd f' = snd f.

Lemma req_lreq f f' : req f f' -> lreq f f'.
Proof. intros (H1 & H2 & H3). repeat split; congruence. Qed.

Lemma req_refl : forall (l : list mfile), Forall2 req l l.
Proof. induction l; constructor; [repeat split|assumption]. Qed.

Lemma req_snd : forall (B B' : list mfile), Forall2 req B B' -> map snd B' = map snd B.
Proof. induction 1 as [|b b' B B' (_ & _ & Hs) _ IH]; [reflexivity|]. cbn [map]. congruence. Qed.

Lemma req_amap : forall (B B' : list mfile), Forall2 req B B' -> amap B' = amap B.
Proof.
  induction 1 as [|b b' B B' (Hi & _ & Hs) _ IH]; [reflexivity|]. cbn [amap map]. fold (amap B) (amap B').
  rewrite Hi, Hs, IH. reflexivity.
Qed.

Lemma files_vis_snd (X Y : list mfile) : map snd X = map snd Y -> files_vis X = files_vis Y.
Proof.
  intros H. unfold files_vis.
  rewrite <- (map_map snd vis X), <- (map_map snd vis Y), H. reflexivity.
Qed.

Lemma links_req : forall (B B' : list mfile), Forall2 req B B' ->
  forall f f', lreq f f' -> links (f :: B) -> links (f' :: B').
Proof.
  induction 1 as [|b b' B B' Hb HB IH]; intros f f' Hf Hl; [cbn; auto|].
  apply links_cons2 in Hl. destruct Hl as [(H1 & H2 & H3) Hl']. apply links_cons2. split.
  - destruct Hf as (Fi & Fc & Fe), Hb as (Bi & Bc & Bs). unfold link. rewrite Bs, Fe, Fi, Bi, Fc. auto.
  - apply (IH b b'); [apply req_lreq; exact Hb|exact Hl'].
Qed.

Lemma last_opt_rel {A} (R : A -> A -> Prop) : forall l l', Forall2 R l l' ->
  match last_opt l, last_opt l' with Some x, Some x' => R x x' | None, None => True | _, _ => False end.
Proof.
  induction 1 as [|x x' l l' Hx Hl IH]; [exact I|].
  inversion Hl as [|y y' l0 l0' Hy Hl0]; subst.
  - exact Hx.
  - rewrite !last_opt_cons2. exact IH.
Qed.

Lemma last_opt_app_cons {A} (l : list A) x r : last_opt (l ++ x :: r) = last_opt (x :: r).
Proof.
  destruct (list_snoc_cases (x :: r)) as [H|(l0 & z & H)]; [discriminate|].
  rewrite H, app_assoc, !last_opt_snoc. reflexivity.
Qed.

(** raising the recorded split-off of a file that lies wholly above [k] changes nothing else *)
Lemma fsplit_tail k : forall (B : list mfile),
  Forall file_ok B -> Forall (fun f => k < c_split (snd f)) B ->
  Forall2 req B (fsplit B k) /\ Forall file_ok (fsplit B k).
Proof.
  induction B as [|[g c] B IH]; intros Hok Hk; [split; constructor|].
  inversion Hok as [|? ? Hf Hok']; subst. inversion Hk as [|? ? Hk1 Hk']; subst. cbn [snd] in Hk1.
  cbn [fsplit fst snd]. destruct (g_split g <? k) eqn:E.
  - destruct Hf as (W & Hfirst & Hsp & Hle & Hmax & Hcnt).
    assert (Hsame : csp c k = c) by (apply csp_same; lia). rewrite Hsame.
    split; constructor.
    + repeat split.
    + apply req_refl.
    + unfold file_ok. cbn [gsp g_start g_split g_close g_count].
      split; [exact W|]. split; [exact Hfirst|]. split; [lia|]. split; [exact Hle|]. split; [exact Hmax|exact Hcnt].
    + exact Hok'.
  - destruct (IH Hok' Hk') as [H1 H2]. split; constructor; try assumption. repeat split.
Qed.

(** the first kept file: its visible part now starts at [k] *)
Lemma fsplit_head k g c (B : list mfile) :
  Forall file_ok ((g, c) :: B) -> links ((g, c) :: B) ->
  k < g_end g -> c_split c <= k -> k <= c_end c ->
  exists g' c' B', fsplit ((g, c) :: B) k = (g', c') :: B' /\
    file_ok (g', c') /\ c_split c' = k /\ c_first c' = c_first c /\ c_all c' = c_all c /\
    g_id g' = g_id g /\ g_close g' = g_close g /\
    Forall2 req B B' /\ Forall file_ok B'.
Proof.
  intros Hok Hl Hk Hsk Hke. inversion Hok as [|? ? Hf Hok']; subst.
  destruct Hf as (W & Hfirst & Hsp & Hle & Hmax & Hcnt). pose proof (wf_split c W) as Hfs.
  cbn [fsplit fst snd]. destruct (g_split g <? k) eqn:E.
  - exists (gsp g k), (csp c k), B. split; [reflexivity|]. split; [|split; [|split; [|split; [|split; [|split; [|split]]]]]].
    + unfold file_ok. change (c_end (csp c k)) with (c_end c). change (c_all (csp c k)) with (c_all c).
      cbn [gsp csp g_start g_split g_close g_count c_first c_split].
      split; [apply wfc_csp; exact W|]. split; [exact Hfirst|]. split; [lia|].
      split; [unfold c_end in *; lia|]. split; [exact Hmax|exact Hcnt].
    + cbn [csp c_split]. lia.
    + reflexivity.
    + reflexivity.
    + reflexivity.
    + reflexivity.
    + apply req_refl.
    + exact Hok'.
  - pose proof (tail_above k B (g, c) Hl Hok Hk) as Ht.
    destruct (fsplit_tail k B Hok') as [H1 H2].
    { eapply Forall_impl; [|exact Ht]. cbn. intros a [Ha _]. exact Ha. }
    exists g, c, (fsplit B k). split; [reflexivity|]. split; [|split; [|split; [|split; [|split; [|split; [|split]]]]]];
      try reflexivity; try assumption.
    + unfold file_ok. split; [exact W|]. split; [exact Hfirst|]. split; [exact Hsp|]. split; [exact Hle|]. split; [exact Hmax|exact Hcnt].
    + lia.
Qed.

(** * inserting the pointer file in front of a non-empty catalogue *)
Definition ins_ptr (m1 : mgr) (ptr : lrec) : mgr :=
  match m_logs m1 with
  | [] => fst (mgr_write 3 m1 ptr true)
  | first :: _ =>
      let g := mkRange (g_id first - 1) (r_term ptr) (r_index ptr) 1 (r_index ptr) true in
      let m2 := save_logs (set_logs m1 (g :: m_logs m1)) in
      match actor_of (set_logs m2 (m_logs m1)) g with
      | Ok (s, m3) => let '(s', _) := write s ptr in set_logs (set_actor m3 (g_id g) s') (g :: m_logs m1)
      | _ => m2
      end
  end.

Lemma save_pointer_ins m ptr : mgr_save_pointer m ptr = ins_ptr (mgr_split_off m (r_index ptr + 1)) ptr.
Proof. reflexivity. Qed.

Definition ptr_range (id : N) (ptr : lrec) : lrange :=
  mkRange (id - 1) (r_term ptr) (r_index ptr) 1 (r_index ptr) true.
Definition ptr_cst (limit : N) (ptr : lrec) : cst :=
  c_push (c_fresh limit (r_index ptr) (r_term ptr) (r_index ptr)) ptr.

Lemma ptr_cst_all limit ptr : c_all (ptr_cst limit ptr) = [ptr].
Proof. unfold ptr_cst. rewrite c_all_push. reflexivity. Qed.
Lemma ptr_cst_first limit ptr : c_first (ptr_cst limit ptr) = r_index ptr.
Proof. reflexivity. Qed.
Lemma ptr_cst_split limit ptr : c_split (ptr_cst limit ptr) = r_index ptr.
Proof. unfold ptr_cst, c_push, c_fresh. cbn [c_split]. apply N.max_id. Qed.
Lemma ptr_cst_end limit ptr : c_end (ptr_cst limit ptr) = r_index ptr + 1.
Proof. unfold c_end. rewrite ptr_cst_all, ptr_cst_first. unfold nlen. cbn [length]. lia. Qed.
Lemma ptr_cst_vis limit ptr : vis (ptr_cst limit ptr) = [ptr].
Proof. unfold vis. rewrite ptr_cst_all, ptr_cst_first, ptr_cst_split, N.sub_diag. reflexivity. Qed.

Lemma insert_ptr m1 g' c' (B' : list mfile) ptr :
  m_logs m1 = mfst ((g', c') :: B') ->
  (forall id, lookup id (m_actors m1) = lookup id (amap ((g', c') :: B'))) ->
  (forall id, lookup id (m_disk m1) = None) ->
  m_cur m1 = last_id ((g', c') :: B') -> HDR_LEN + 10 < m_limit m1 <= 4096 ->
  Forall file_ok ((g', c') :: B') -> chain ((g', c') :: B') ->
  Forall (fun f => 1 <= f_id f) ((g', c') :: B') ->
  c_split c' = r_index ptr + 1 -> rec_ok ptr -> rec_nonempty ptr ->
  mgr_rep (ins_ptr m1 ptr) ((ptr_range (g_id g') ptr, ptr_cst (m_limit m1) ptr) :: (g', c') :: B') /\
  m_limit (ins_ptr m1 ptr) = m_limit m1 /\ m_pre_ptr (ins_ptr m1 ptr) = m_pre_ptr m1.
Proof.
  intros Hlogs Hact Hdisk Hcur Hlim Hok Hch Hids Hsp Hrok Hrne.
  set (c0 := c_fresh (m_limit m1) (r_index ptr) (r_term ptr) (r_index ptr)).
  assert (W0 : wfc c0) by (apply wfc_fresh; lia).
  assert (Hnf : is_full (conc c0) = false) by (apply fresh_not_full; lia).
  assert (Hi0 : r_index ptr = c_first c0 + nlen (c_all c0)).
  { unfold c0, c_fresh, c_all. cbn [c_first c_blocks c_part concat app]. unfold nlen. cbn [length]. lia. }
  destruct (write_conc c0 ptr W0 Hnf Hi0 Hrok Hrne) as [Hw W1].
  inversion Hids as [|? ? Hid1 Hids']; subst. unfold f_id in Hid1. cbn [fst] in Hid1.
  pose proof (links_ids_lt B' (g', c') (proj1 Hch)) as Hlt.
  assert (Hnotin : ~ In (g_id g' - 1) (map f_id ((g', c') :: B'))).
  { cbn [map]. unfold f_id at 1. cbn [fst]. intros [H|H]; [lia|].
    apply in_map_iff in H. destruct H as (f & Hf & Hin). rewrite Forall_forall in Hlt.
    specialize (Hlt f Hin). unfold f_id at 1 in Hlt. cbn [fst] in Hlt. lia. }
  inversion Hok as [|? ? Hok1 Hok']; subst.
  destruct Hok1 as (W' & Hfirst' & Hsp' & Hle' & Hmax' & Hcnt').
  unfold ins_ptr. rewrite Hlogs. cbn [map fst]. cbv zeta.
  unfold actor_of. cbn [save_logs set_logs m_actors m_disk m_limit g_id].
  rewrite Hact, (lookup_amap_notin _ _ Hnotin), Hdisk. cbn [g_start g_pre g_split].
  rewrite init_fresh by lia. cbn [res_bind]. fold c0. rewrite Hw. cbv beta iota.
  fold (ptr_cst (m_limit m1) ptr). fold (ptr_range (g_id g') ptr).
  split; [|split; reflexivity].
  constructor; cbn [set_actor save_logs set_logs m_logs m_saved m_actors m_disk m_cur m_limit].
  - reflexivity.
  - reflexivity.
  - intros id. rewrite !lookup_set_key, lookup_amap_cons. unfold f_id at 1. cbn [fst snd ptr_range g_id].
    destruct (id =? g_id g' - 1); [reflexivity|]. apply Hact.
  - intros id. do 2 apply lookup_remove_key_none. apply Hdisk.
  - constructor; [|exact Hok].
    unfold file_ok. rewrite ptr_cst_first, ptr_cst_split, ptr_cst_end, ptr_cst_all.
    cbn [ptr_range g_start g_split g_close g_count].
    split; [exact W1|]. split; [reflexivity|]. split; [lia|]. split; [lia|]. split; [lia|]. intros _. reflexivity.
  - destruct Hch as [Hlinks Hopen]. split.
    + apply links_cons2. split; [|exact Hlinks].
      unfold link, f_id. cbn [fst snd ptr_range g_id g_close]. rewrite ptr_cst_end. split; [lia|]. split; [lia|reflexivity].
    + rewrite last_opt_cons2. exact Hopen.
  - cbn [ids_pos]. split; [exact Hids|]. right. eexists. eexists. split; [reflexivity|].
    unfold f_id. cbn [fst ptr_range g_id]. lia.
  - rewrite Hcur. unfold last_id. rewrite last_opt_cons2. reflexivity.
  - exact Hlim.
Qed.

(** * the visible records above the pointer *)
Lemma above_app p l1 l2 : above p (l1 ++ l2) = above p l1 ++ above p l2.
Proof. apply filter_app. Qed.

Lemma above_all p : forall l i, indexed i l -> p < i -> above p l = l.
Proof.
  induction l as [|x l IH]; intros i Hi Hp; [reflexivity|]. cbn [indexed] in Hi. destruct Hi as [Hx Hl].
  unfold above. cbn [filter]. fold (above p l). destruct (p <? r_index x) eqn:E; [|lia].
  f_equal. apply (IH (i + 1)); [exact Hl|lia].
Qed.

Lemma above_none p : forall l i, indexed i l -> i + nlen l <= p + 1 -> above p l = [].
Proof.
  induction l as [|x l IH]; intros i Hi Hp; [reflexivity|]. cbn [indexed] in Hi. destruct Hi as [Hx Hl].
  rewrite nlen_cons in Hp. unfold above. cbn [filter]. fold (above p l).
  destruct (p <? r_index x) eqn:E; [lia|]. apply (IH (i + 1)); [exact Hl|lia].
Qed.

Lemma above_skip p : forall l i, indexed i l -> i <= p + 1 -> above p l = skipn (N.to_nat (p + 1 - i)) l.
Proof.
  induction l as [|x l IH]; intros i Hi Hp; [rewrite skipn_nil; reflexivity|].
  destruct (N.eq_dec i (p + 1)) as [->|Hne].
  - rewrite N.sub_diag. cbn [N.to_nat skipn]. apply (above_all p _ (p + 1)); [exact Hi|lia].
  - cbn [indexed] in Hi. destruct Hi as [Hx Hl]. unfold above. cbn [filter]. fold (above p l).
    destruct (p <? r_index x) eqn:E; [lia|]. rewrite (IH (i + 1)) by (assumption || lia).
    replace (N.to_nat (p + 1 - i)) with (S (N.to_nat (p + 1 - (i + 1)))) by lia. reflexivity.
Qed.

Lemma skipn_add {A} : forall b a (l : list A), skipn a (skipn b l) = skipn (b + a) l.
Proof.
  induction b as [|b IH]; intros a l; [reflexivity|]. destruct l as [|x l]; [rewrite !skipn_nil; reflexivity|].
  cbn [skipn Nat.add]. apply IH.
Qed.

(** raising the split-off of a file to p + 1 keeps exactly its visible records above p *)
Lemma vis_raise c c' p :
  wfc c -> c_split c <= p + 1 -> p + 1 <= c_end c ->
  c_first c' = c_first c -> c_all c' = c_all c -> c_split c' = p + 1 ->
  above p (vis c) = vis c'.
Proof.
  intros W Hs He Hf Ha Hs'. pose proof (wf_split c W) as Hfs.
  rewrite (above_skip p (vis c) (c_split c)) by (try apply vis_indexed; (assumption || lia)).
  unfold vis. rewrite Hf, Ha, Hs', skipn_add. f_equal. lia.
Qed.

Lemma files_vis_bounds (X : list mfile) f0 X' z :
  Forall file_ok X -> links X -> X = f0 :: X' -> last_opt X = Some z ->
  indexed (c_split (snd f0)) (files_vis X) /\ c_split (snd f0) + nlen (files_vis X) = c_end (snd z).
Proof.
  intros Hok Hl -> Hz. destruct (files_vis_indexed _ Hok Hl) as [Hi He]. split; [exact Hi|].
  apply He. unfold files_end. rewrite Hz. reflexivity.
Qed.

Lemma req_lreq_all : forall (B B' : list mfile), Forall2 req B B' -> Forall2 lreq B B'.
Proof. induction 1; constructor; [apply req_lreq|]; assumption. Qed.

Lemma last_opt_rel' {A} (R : A -> A -> Prop) (l l' : list A) x :
  Forall2 R l l' -> last_opt l = Some x -> exists x', last_opt l' = Some x' /\ R x x'.
Proof.
  intros HF Hx. pose proof (last_opt_rel R l l' HF) as H. rewrite Hx in H.
  destruct (last_opt l') as [x'|]; [|contradiction]. exists x'. split; [reflexivity|exact H].
Qed.

Lemma forall_snd_transfer (Q : cst -> Prop) (B B' : list mfile) :
  map snd B' = map snd B -> Forall (fun f => Q (snd f)) B -> Forall (fun f => Q (snd f)) B'.
Proof.
  intros H HB. apply (proj1 (Forall_map snd Q B')). rewrite H. apply (proj2 (Forall_map snd Q B)). exact HB.
Qed.

Lemma chain_intro (X : list mfile) z : links X -> last_opt X = Some z -> g_close (fst z) = false -> chain X.
Proof. intros Hl Hz Hc. split; [exact Hl|]. rewrite Hz. exact Hc. Qed.

Lemma last_id_intro (X : list mfile) z : last_opt X = Some z -> last_id X = Some (f_id z).
Proof. intros Hz. unfold last_id. rewrite Hz. reflexivity. Qed.

Lemma files_end_intro (X : list mfile) z : last_opt X = Some z -> files_end X = Some (c_end (snd z)).
Proof. intros Hz. unfold files_end. rewrite Hz. reflexivity. Qed.

(** * save_new_snapshot_pointer for an index the log holds *)
(** side condition found by the proof: a head file with id 0 (a pointer file in front of file 1) lies
    wholly at or below the new pointer, so that it is dropped by the split-off.  Otherwise the new
    pointer range would get the id [0 - 1] (0 in the model, an overflow in the source). *)
Definition ptr_head_ok (fs : list mfile) (ptr : lrec) : Prop :=
  match fs with f :: _ => 1 <= f_id f \/ c_end (snd f) <= r_index ptr + 1 | [] => True end.

Lemma floor_ptr_head_ok fl (fs : list mfile) ptr :
  floor_ok fl fs -> fl <= r_index ptr + 1 -> ptr_head_ok fs ptr.
Proof.
  intros [_ Hh] Hfl. destruct fs as [|f fs]; [exact I|]. cbn [ptr_head_ok].
  destruct (N.eq_dec (f_id f) 0) as [E|E]; [right; specialize (Hh E); lia|left; lia].
Qed.

Theorem mgr_save_pointer_rep_floor : forall m (fs : list mfile) ptr,
  mgr_rep m fs -> ptr_ok fs ptr -> ptr_head_ok fs ptr ->
  exists fs', mgr_rep (mgr_save_pointer m ptr) fs' /\
    m_limit (mgr_save_pointer m ptr) = m_limit m /\ m_pre_ptr (mgr_save_pointer m ptr) = m_pre_ptr m /\
    files_vis fs' = ptr :: above (r_index ptr) (files_vis fs) /\
    files_first fs' = Some (r_index ptr) /\ files_end fs' = files_end fs /\
    (forall fl, floor_ok fl fs -> floor_ok (N.max fl (r_index ptr + 1)) fs').
Proof.
  intros m fs ptr R (Hrok & Hrne & a & e & Hfa & Hfe & Hae) Hhead.
  rewrite save_pointer_ins. remember (r_index ptr + 1) as k eqn:Hk.
  (* [k] is kept abstract ([subst] must not unfold it) *)
  assert (Hk1 : k <= r_index ptr + 1) by lia. assert (Hk2 : r_index ptr + 1 <= k) by lia. clear Hk.
  pose proof (rp_files m fs R) as Hok. destruct (rp_chain m fs R) as [Hlinks Hopen].
  pose proof (rp_ids m fs R) as Hids. pose proof (rp_cur m fs R) as Hcur. unfold last_id in Hcur.
  (* the last file is open and ends at e *)
  unfold files_end in Hfe. destruct (@last_opt mfile fs) as [[gz cz]|] eqn:Ez; [|discriminate].
  cbn [fst snd] in *. inversion Hfe as [Hze]. clear Hfe.
  assert (Hzin : In (gz, cz) fs).
  { destruct (last_opt_some_snoc fs _ Ez) as (fs0 & ->). apply in_or_app. right. left. reflexivity. }
  assert (Hzok : file_ok (gz, cz)) by (rewrite Forall_forall in Hok; apply Hok; exact Hzin).
  assert (HkU : k < U64MAX) by (destruct Hzok as (_ & _ & _ & _ & Hm & _); lia).
  assert (Hex : Exists (fun f => ge_end k (fst f) = false) fs).
  { apply Exists_exists. exists (gz, cz). split; [exact Hzin|]. cbn [fst]. apply ge_end_false.
    rewrite (g_end_open gz Hopen). exact HkU. }
  destruct (first_kept k fs Hex) as (A & [g c] & B & Hfs & HA & Hg). cbn [fst] in Hg. apply ge_end_false in Hg.
  subst fs. clear Hex Hzin.
  apply Forall_app in Hok. destruct Hok as [HokA HokL].
  apply links_app in Hlinks. destruct Hlinks as (HlA & HlL & Hjoin).
  pose proof (tail_above k B (g, c) HlL HokL Hg) as Ht.
  assert (HL : Forall (fun f => ge_end k (fst f) = false) ((g, c) :: B)).
  { constructor; [apply ge_end_false; exact Hg|]. eapply Forall_impl; [|exact Ht].
    cbn beta. intros f [_ Hf]. apply ge_end_false. exact Hf. }
  inversion HokL as [|? ? Hgc HokB]; subst.
  destruct (Hgc) as (W & Hfirst & Hsp & Hle & Hmax & Hcnt).
  (* the dropped files end at or below k *)
  assert (HAend : forall A0 x, A = A0 ++ [x] -> c_end (snd x) <= k /\ g_close (fst x) = true).
  { intros A0 [gx cx] ->. apply Forall_app in HA. destruct HA as [_ HA]. inversion HA as [|? ? Hx _]; subst.
    apply Forall_app in HokA. destruct HokA as [_ HokA]. inversion HokA as [|? ? Hxok _]; subst.
    cbn [fst snd] in *. apply ge_end_true in Hx. destruct (g_close gx) eqn:E.
    - rewrite (g_end_closed gx cx Hxok E) in Hx. split; [exact Hx|reflexivity].
    - rewrite (g_end_open gx E) in Hx. lia. }
  assert (Hck : c_split c <= k).
  { destruct (list_snoc_cases A) as [->|(A0 & x & HAx)].
    - cbn [app files_first snd] in Hfa. inversion Hfa. lia.
    - destruct (HAend A0 x HAx) as [Hxe _]. subst A. rewrite last_opt_snoc in Hjoin.
      destruct Hjoin as (Hj & _ & _). cbn [snd] in Hj. lia. }
  assert (Hclosed : B <> [] -> g_close g = true).
  { destruct B as [|b B0]; [congruence|]. intros _. apply links_cons2 in HlL. destruct HlL as [(_ & _ & H) _]. exact H. }
  assert (Hke : k <= c_end c).
  { destruct (g_close g) eqn:Ecl.
    - rewrite (g_end_closed g c Hgc Ecl) in Hg. lia.
    - destruct B as [|b B0]; [|specialize (Hclosed ltac:(discriminate)); congruence].
      rewrite last_opt_snoc in Ez. inversion Ez; subst. lia. }
  assert (HidsL : Forall (fun f => 1 <= f_id f) ((g, c) :: B)).
  { destruct A as [|a0 A'].
    - cbn [app ids_pos] in Hids. destruct Hids as [HidsB Hh]. constructor; [|exact HidsB].
      destruct Hh as [H1|(f2 & r' & HB & _)]; [exact H1|].
      cbn [app ptr_head_ok snd] in Hhead. destruct Hhead as [H1|H1]; [exact H1|]. exfalso.
      assert (Hcl : g_close g = true) by (apply Hclosed; rewrite HB; discriminate).
      rewrite (g_end_closed g c Hgc Hcl) in Hg. lia.
    - cbn [app ids_pos] in Hids. destruct Hids as [Hall _]. apply Forall_app in Hall. exact (proj2 Hall). }
  destruct (fsplit_head k g c B HokL HlL Hg Hck Hke)
    as (g' & c' & B' & HLeq & Hok' & Hsp' & Hfirst' & Hall' & Hid' & Hcl' & Hreq & HokB').
  destruct (split_off_ptr m A ((g, c) :: B) k R ltac:(discriminate) HA HL)
    as (Hlogs1 & Hcur1 & Hpre1 & Hlim1 & Hact1 & Hdisk1).
  rewrite HLeq in Hlogs1, Hact1.
  assert (Hlreq : lreq (g, c) (g', c')).
  { unfold lreq, f_id, c_end. cbn [fst snd]. rewrite Hfirst', Hall'. auto. }
  pose proof (links_req B B' Hreq (g, c) (g', c') Hlreq HlL) as HlL'.
  assert (HF2 : Forall2 lreq ((g, c) :: B) ((g', c') :: B')) by (constructor; [exact Hlreq|apply req_lreq_all; exact Hreq]).
  pose proof Ez as Ez0. rewrite last_opt_app_cons in Ez.
  destruct (last_opt_rel' lreq _ _ _ HF2 Ez) as (z' & Ez' & Zi & Zc & Ze). cbn [fst snd] in Zc, Ze.
  assert (HidsL' : Forall (fun f => 1 <= f_id f) ((g', c') :: B')).
  { apply (Forall_map f_id (fun i => 1 <= i)). rewrite <- HLeq, fsplit_ids. apply Forall_map. exact HidsL. }
  assert (Hsp1 : c_split c' = r_index ptr + 1) by lia.
  destruct (insert_ptr (mgr_split_off m k) g' c' B' ptr Hlogs1 Hact1 Hdisk1) as (Rfin & Hl & Hp);
    try assumption.
  { rewrite Hcur1, Hcur. transitivity (Some (f_id z')); [f_equal; symmetry; exact Zi|].
    symmetry. apply (last_id_intro _ _ Ez'). }
  { rewrite Hlim1. apply (rp_limit m _ R). }
  { constructor; assumption. }
  { apply (chain_intro _ z' HlL' Ez'). rewrite Zc. exact Hopen. }
  eexists. split; [exact Rfin|]. split; [congruence|]. split; [congruence|].
  split; [|split; [|split]].
  - (* the visible records *)
    match goal with |- files_vis (?P :: ?M :: ?T) = _ => change (P :: M :: T) with ([P] ++ [M] ++ T) end.
    change ((g, c) :: B) with ([(g, c)] ++ B).
    rewrite !files_vis_app, !files_vis_one, !above_app. cbn [snd]. rewrite ptr_cst_vis. cbn [app]. f_equal.
    assert (HvA : above (r_index ptr) (files_vis A) = []).
    { destruct (list_snoc_cases A) as [->|(A0 & x & HAx)]; [reflexivity|].
      destruct (HAend A0 x HAx) as [Hxe _].
      destruct A as [|a0 A']; [destruct A0; discriminate|].
      destruct (files_vis_bounds (a0 :: A') a0 A' x HokA HlA eq_refl) as [Hi He].
      { rewrite HAx. apply last_opt_snoc. }
      apply (above_none _ _ _ Hi). lia. }
    rewrite HvA. cbn [app]. f_equal.
    + symmetry. apply (vis_raise c c' (r_index ptr)); (assumption || lia).
    + rewrite (files_vis_snd B' B (req_snd B B' Hreq)).
      destruct B as [|b B0]; [reflexivity|].
      inversion Ht as [|? ? [Hb _] _]; subst.
      destruct (files_vis_indexed (b :: B0) HokB (links_tail _ _ HlL)) as [Hi _].
      symmetry. apply (above_all _ _ _ Hi). lia.
  - cbn [files_first snd]. rewrite ptr_cst_split. reflexivity.
  - transitivity (Some (c_end (snd z'))).
    + apply files_end_intro. rewrite last_opt_cons2. exact Ez'.
    + symmetry. rewrite Ze. apply (files_end_intro _ (gz, cz)). exact Ez0.
  - intros fl [Hfl Hhd]. split.
    + apply Forall_app in Hfl. destruct Hfl as [_ Hfl]. apply Forall_inv_tail in Hfl.
      constructor; [cbn [snd]; rewrite ptr_cst_first, ptr_cst_split; lia|].
      constructor; [cbn [snd]; intros _; lia|].
      apply (forall_snd_transfer (fun c0 => c_first c0 < c_split c0 -> c_split c0 <= N.max fl k) B B' (req_snd B B' Hreq)).
      eapply Forall_impl; [|exact Hfl]. cbn beta. intros f Hf Hlt. specialize (Hf Hlt). lia.
    + intros _. cbn [snd]. rewrite ptr_cst_end. lia.
Qed.

(** [mgr_save_pointer_rep] as first stated (without [ptr_head_ok]) does not hold: see
    [mgr_save_pointer_rep_refuted] below.  This is the closest true statement. *)
Theorem mgr_save_pointer_rep_alt : forall m (fs : list mfile) ptr,
  mgr_rep m fs -> ptr_ok fs ptr -> ptr_head_ok fs ptr ->
  exists fs', mgr_rep (mgr_save_pointer m ptr) fs' /\
    m_limit (mgr_save_pointer m ptr) = m_limit m /\ m_pre_ptr (mgr_save_pointer m ptr) = m_pre_ptr m /\
    files_vis fs' = ptr :: above (r_index ptr) (files_vis fs) /\
    files_first fs' = Some (r_index ptr) /\ files_end fs' = files_end fs.
Proof.
  intros m fs ptr R Hok Hhead.
  destruct (mgr_save_pointer_rep_floor m fs ptr R Hok Hhead) as (fs' & H1 & H2 & H3 & H4 & H5 & H6 & _).
  exists fs'. auto 10.
Qed.

(** * BuildSnapshotPointerLog, later calls: the remembered pointer is installed *)
Theorem mgr_build_pointer_some_floor : forall m (fs : list mfile) ptr prev,
  mgr_rep m fs -> m_pre_ptr m = Some prev -> ptr_ok fs prev -> ptr_head_ok fs prev ->
  exists fs', mgr_rep (mgr_build_pointer m ptr) fs' /\
    m_limit (mgr_build_pointer m ptr) = m_limit m /\ m_pre_ptr (mgr_build_pointer m ptr) = Some ptr /\
    files_vis fs' = prev :: above (r_index prev) (files_vis fs) /\
    files_first fs' = Some (r_index prev) /\ files_end fs' = files_end fs /\
    (forall fl, floor_ok fl fs -> floor_ok (N.max fl (r_index prev + 1)) fs').
Proof.
  intros m fs ptr prev R Hpre Hok Hhead. unfold mgr_build_pointer. rewrite Hpre.
  set (m1 := mkMgr (m_logs m) (m_saved m) (m_actors m) (m_disk m) (m_cur m) (Some ptr) (m_limit m)).
  destruct (mgr_save_pointer_rep_floor m1 fs prev (rep_set_pre m fs (Some ptr) R) Hok Hhead)
    as (fs' & R' & Hl & Hp & Hrest).
  exists fs'. split; [exact R'|]. split; [exact Hl|]. split; [exact Hp|]. exact Hrest.
Qed.

Theorem mgr_build_pointer_some_alt : forall m (fs : list mfile) ptr prev,
  mgr_rep m fs -> m_pre_ptr m = Some prev -> ptr_ok fs prev -> ptr_head_ok fs prev ->
  exists fs', mgr_rep (mgr_build_pointer m ptr) fs' /\
    m_limit (mgr_build_pointer m ptr) = m_limit m /\ m_pre_ptr (mgr_build_pointer m ptr) = Some ptr /\
    files_vis fs' = prev :: above (r_index prev) (files_vis fs) /\
    files_first fs' = Some (r_index prev) /\ files_end fs' = files_end fs.
Proof.
  intros m fs ptr prev R Hpre Hok Hhead.
  destruct (mgr_build_pointer_some_floor m fs ptr prev R Hpre Hok Hhead) as (fs' & H1 & H2 & H3 & H4 & H5 & H6 & _).
  exists fs'. auto 10.
Qed.

(** * the side condition is needed
    [mgr_rep] allows a head file with id 0 that holds several records (its [ids_pos] only asks that
    file 1 follows).  A pointer for an index inside such a file leaves it in the catalogue, the
    pointer range gets the id [0 - 1 = 0] as well, [actor_of] finds the actor of the head file, and
    the catalogue ends with two ranges of id 0: no file list represents it. *)
Section Refutation.
  Let r5 := mkRec 5 1 [7].
  Let r6 := mkRec 6 1 [7].
  Let cf := c_fresh 4096 5 1 5.
  Let c0 := c_push (c_push cf r5) r6.
  Let c1 := c_fresh 4096 7 1 7.
  Let g0 := mkRange 0 1 5 2 5 true.
  Let g1 := mkRange 1 1 7 0 7 false.
  Let fs0 : list mfile := [(g0, c0); (g1, c1)].
  Let m0 := mkMgr [g0; g1] [g0; g1] [(0, conc c0); (1, conc c1)] [] (Some 1) None 4096.
  Let ptr := mkRec 5 1 [9].

  Lemma small_rec_ok i v : i < 100 -> v < 256 -> rec_ok (mkRec i 1 [v]) /\ rec_nonempty (mkRec i 1 [v]).
  Proof.
    intros Hi Hv. destruct pow_consts as (P62 & P63 & P64). split.
    - unfold rec_ok. cbn [r_index r_term r_value length]. repeat split; try lia.
      constructor; [exact Hv|constructor].
    - right. left. cbn. discriminate.
  Qed.

  Lemma refut_wf : wfc c0.
  Proof.
    destruct (small_rec_ok 5 7 ltac:(lia) ltac:(lia)) as [O5 N5].
    destruct (small_rec_ok 6 7 ltac:(lia) ltac:(lia)) as [O6 N6].
    assert (Wf : wfc cf) by (apply wfc_fresh; lia).
    assert (F5 : is_full (conc cf) = false) by (vm_compute; reflexivity).
    assert (I5 : r_index r5 = c_first cf + nlen (c_all cf)) by (vm_compute; reflexivity).
    destruct (write_conc cf r5 Wf F5 I5 O5 N5) as [_ W5].
    assert (F6 : is_full (conc (c_push cf r5)) = false) by (vm_compute; reflexivity).
    assert (I6 : r_index r6 = c_first (c_push cf r5) + nlen (c_all (c_push cf r5))) by (vm_compute; reflexivity).
    destruct (write_conc (c_push cf r5) r6 W5 F6 I6 O6 N6) as [_ W6].
    exact W6.
  Qed.

  Lemma refut_rep : mgr_rep m0 fs0.
  Proof.
    constructor.
    - reflexivity.
    - reflexivity.
    - intros id. reflexivity.
    - intros id. reflexivity.
    - constructor; [|constructor; [|constructor]].
      + split; [exact refut_wf|]. split; [reflexivity|]. split; [reflexivity|].
        split; [vm_compute; discriminate|]. split; [vm_compute; reflexivity|]. intros _. reflexivity.
      + apply (file_ok_fresh 4096 1 1 7); [lia|vm_compute; reflexivity].
    - split; [|reflexivity]. split; [|split; exact I].
      split; [reflexivity|]. split; [vm_compute; reflexivity|reflexivity].
    - split; [constructor; [vm_compute; discriminate|constructor]|].
      right. exists (g1, c1), []. split; reflexivity.
    - reflexivity.
    - cbn [m_limit m0]. unfold HDR_LEN. lia.
  Qed.

  Lemma refut_ptr_ok : ptr_ok fs0 ptr.
  Proof.
    destruct (small_rec_ok 5 9 ltac:(lia) ltac:(lia)) as [O N]. split; [exact O|]. split; [exact N|].
    exists 5, 7. split; [vm_compute; reflexivity|]. split; [vm_compute; reflexivity|]. cbn [ptr r_index]. lia.
  Qed.

  Theorem mgr_save_pointer_rep_refuted :
    ~ (forall m (fs : list mfile) ptr, mgr_rep m fs -> ptr_ok fs ptr ->
         exists fs', mgr_rep (mgr_save_pointer m ptr) fs').
  Proof.
    intros H. destruct (H m0 fs0 ptr refut_rep refut_ptr_ok) as (fs' & R').
    pose proof (rp_logs _ _ R') as Hlogs. destruct (rp_chain _ _ R') as [Hlinks _].
    assert (Hl : map g_id (m_logs (mgr_save_pointer m0 ptr)) = [0; 0; 1]) by (vm_compute; reflexivity).
    rewrite Hlogs in Hl.
    destruct fs' as [|f1 [|f2 rest]]; try discriminate. cbn [map] in Hl. inversion Hl as [[H1 H2 H3]].
    destruct Hlinks as [(_ & Hlt & _) _]. unfold f_id in Hlt. lia.
  Qed.
End Refutation.
