(** Consequences of the refinement used by Props/C02.v and Props/C03.v. *)
From RN Require Import Base.Res Codec.Varint Codec.BufReader Codec.VarintProofs Codec.ScanProofs
  RaftLog.LogFile RaftLog.Spec RaftLog.Layout RaftLog.FileProofs RaftLog.RecordProofs
  RaftLog.ScanFileProofs RaftLog.ReadProofs RaftLog.InitProofs RaftLog.WriteProofs RaftLog.StripProofs
  RaftLog.Refine.
From Coq Require Import ZifyBool ZifyNat ZifyN.
Local Open Scope N_scope.
Ltac Zify.zify_post_hook ::= Z.div_mod_to_equations.

(** a fresh file represents the empty log *)
Lemma fresh_rep limit start pre split :
  limit <= 4096 ->
  init None limit start pre split = Ok (conc (c_fresh limit start pre split)) /\
  RepS (conc (c_fresh limit start pre split)) (a_empty start, N.max split start).
Proof.
  intros Hl. split; [apply init_fresh; exact Hl|].
  exists (c_fresh limit start pre split). split; [reflexivity|]. split; [apply wfc_fresh; exact Hl|].
  split; reflexivity.
Qed.

(** * C02 *)
(** after ANY history, closing and reopening returns exactly the entries that were acknowledged
    and not removed ([aruns] computes them from the acknowledgements alone), and reports the last
    of them as last index and term *)
Theorem reopen_returns_exactly_acked : forall ops s st pre split lo hi,
  RepS s st -> Forall (fop_ok (a_first (fst st))) ops ->
  let '(s1, outs) := frun s ops in
  let st1 := aruns st ops outs in
  let '(s2, o2) := fstep s1 (FReopen pre split) in
  let '(s3, o3) := fstep s2 (FRead lo hi) in
  outs_ok st ops outs /\
  o2 = RInfo (a_last (fst st1) pre) /\
  exists l, o3 = RRecs l /\
            map to_ent l = a_get (fst st1) (N.max lo (N.max split (a_first (fst st1)))) hi.
Proof.
  intros ops s st pre split lo hi HR Hops.
  pose proof (logfile_refines_alog ops s st HR Hops) as H.
  destruct (frun s ops) as [s1 outs]. destruct H as [Hos HR1]. cbv zeta.
  pose proof (fstep_refines s1 _ (FReopen pre split) HR1 I) as H2.
  destruct (fstep s1 (FReopen pre split)) as [s2 o2]. destruct H2 as [Ho2 HR2].
  pose proof (fstep_refines s2 _ (FRead lo hi) HR2 I) as H3.
  destruct (fstep s2 (FRead lo hi)) as [s3 o3]. destruct H3 as [Ho3 _].
  split; [exact Hos|].
  destruct (aruns st ops outs) as [a1 sp1] eqn:Ea. cbn [fst] in *.
  destruct o2; cbn [out_ok] in Ho2; try contradiction. subst last.
  split; [reflexivity|].
  cbn [apply_out] in Ho3. destruct o3; cbn [out_ok] in Ho3; try contradiction.
  exists l. split; [reflexivity|exact Ho3].
Qed.

(** entries come out contiguous and in order *)
Lemma number_index i l n :
  (n < length l)%nat -> e_index (nth n (number i l) (mkEnt 0 0 [])) = i + N.of_nat n.
Proof.
  revert i n. induction l as [|[t v] l IH]; intros i n H; [cbn [length] in H; lia|].
  destruct n as [|n]; cbn [number nth e_index]; [lia|].
  rewrite IH by (cbn [length] in H; lia). lia.
Qed.

Lemma number_length i l : length (number i l) = length l.
Proof. revert i. induction l as [|[t v] l IH]; intros i; [reflexivity|]. cbn [number length]. rewrite IH. reflexivity. Qed.

Theorem entries_contiguous_in_order : forall a lo hi n,
  (n < length (a_get a lo hi))%nat ->
  e_index (nth n (a_get a lo hi) (mkEnt 0 0 [])) = N.max lo (a_first a) + N.of_nat n.
Proof.
  intros a lo hi n. unfold a_get. cbv zeta.
  destruct (N.min hi (a_end a) <=? N.max lo (a_first a)); [cbn [length]; lia|].
  rewrite number_length. apply number_index.
Qed.

(** nothing is invented: whatever a read returns is an entry of the abstract log, and the abstract
    log only ever grows by submitted records whose write was acknowledged *)
Lemma number_in i l e : In e (number i l) -> In (e_term e, e_value e) l.
Proof.
  revert i. induction l as [|[t v] l IH]; intros i H; [contradiction|].
  cbn [number] in H. destruct H as [<-|H]; [left; reflexivity|right; eapply IH; exact H].
Qed.

Lemma in_firstn {A} (x : A) n l : In x (firstn n l) -> In x l.
Proof. intros H. rewrite <- (firstn_skipn n l). apply in_or_app. left. exact H. Qed.
Lemma in_skipn {A} (x : A) n l : In x (skipn n l) -> In x l.
Proof. intros H. rewrite <- (firstn_skipn n l). apply in_or_app. right. exact H. Qed.

Theorem no_invented_entry : forall s st lo hi s' l x,
  RepS s st -> fstep s (FRead lo hi) = (s', RRecs l) -> In x l ->
  In (r_term x, r_value x) (a_ents (fst st)).
Proof.
  intros s st lo hi s' l x HR Hstep Hin.
  pose proof (fstep_refines s st (FRead lo hi) HR I) as H. rewrite Hstep in H. destruct H as [Ho _].
  destruct st as [a sp]. cbn [out_ok fst] in *.
  assert (Hin' : In (to_ent x) (a_get a (N.max lo sp) hi)) by (rewrite <- Ho; apply in_map; exact Hin).
  unfold a_get in Hin'. cbv zeta in Hin'.
  destruct (N.min hi (a_end a) <=? N.max (N.max lo sp) (a_first a)); [contradiction|].
  apply number_in in Hin'. apply in_firstn, in_skipn in Hin'. exact Hin'.
Qed.

(** the abstract log only contains initial entries and acknowledged submissions *)
Definition submitted (op : fop) (e : N * list N) : Prop :=
  match op with
  | FAppend x => e = ent_of x
  | FBatch xs => In e (map ent_of xs)
  | _ => False
  end.

Lemma apply_out_entries st op out e :
  In e (a_ents (fst (apply_out st op out))) -> In e (a_ents (fst st)) \/ submitted op e.
Proof.
  destruct st as [a sp]. destruct op, out; cbn [apply_out fst a_ents submitted]; auto.
  - destruct (accepted m); cbn [fst a_ents]; auto. intros H. apply in_app_or in H.
    destruct H as [H|[H|[]]]; auto.
  - intros H. apply in_app_or in H. destruct H as [H|H]; auto.
    right. rewrite <- firstn_map in H. apply in_firstn in H. exact H.
  - unfold a_truncate. destruct (a_end a <=? k); cbn [a_ents]; auto. intros H. left. eapply in_firstn; exact H.
Qed.

Theorem acked_only : forall ops outs st e,
  In e (a_ents (fst (aruns st ops outs))) ->
  In e (a_ents (fst st)) \/ exists op, In op ops /\ submitted op e.
Proof.
  induction ops as [|op ops IH]; intros outs st e H; [left; exact H|].
  destruct outs as [|o outs]; [left; exact H|]. cbn [aruns] in H.
  destruct (IH _ _ _ H) as [H1|(op' & Hin & Hs)].
  - destruct (apply_out_entries _ _ _ _ H1) as [H2|H2]; [left; exact H2|].
    right. exists op. split; [left; reflexivity|exact H2].
  - right. exists op'. split; [right; exact Hin|exact Hs].
Qed.

(** * C03 *)
(** delete-from k leaves exactly the entries below k *)
Theorem truncate_exact : forall s st k,
  RepS s st -> a_first (fst st) <= k ->
  exists s', fstep s (FTruncate k) = (s', RUnit) /\ RepS s' (a_truncate (fst st) k, snd st).
Proof.
  intros s st k HR Hk.
  pose proof (fstep_refines s st (FTruncate k) HR Hk) as H.
  destruct (fstep s (FTruncate k)) as [s' o]. destruct H as [Ho HR'].
  destruct st as [a sp]. destruct o; cbn [out_ok] in Ho; try contradiction.
  exists s'. split; [reflexivity|exact HR'].
Qed.

(** the removed record bytes are physically gone from the data area *)
Theorem removed_bytes_gone : forall c k,
  wfc c -> c_first c <= k < c_first c + nlen (c_all c) ->
  strip_log_to (conc c) k = Ok (conc (c_truncate c k)) /\
  f_data (l_file (conc (c_truncate c k))) = fr (firstn (N.to_nat (k - c_first c)) (c_all c)) /\
  exists z, f_idx (l_file (conc (c_truncate c k))) =
            ienc (firstn (N.to_nat (k - c_first c) / 128) (c_blocks c)) ++ repeat 0 z.
Proof.
  intros c k W Hk. split; [apply strip_conc; assumption|]. split.
  - cbn [conc l_file c_file f_data]. rewrite (strip_kept c k W Hk). reflexivity.
  - cbn [conc l_file c_file f_idx c_truncate c_blocks c_z]. eexists. reflexivity.
Qed.

(** after delete-from k (an effective cut) the next append at k is accepted, unless the 2 GB data
    limit is exhausted below k *)
Theorem append_after_truncate_accepted : forall c k x,
  wfc c -> c_first c <= k < c_first c + nlen (c_all c) ->
  rec_ok x -> rec_nonempty x -> r_index x = k ->
  c_dcur (c_truncate c k) < DATA_MAX ->
  exists c' m, write (conc (c_truncate c k)) x = (conc c', m) /\ accepted m = true /\ wfc c' /\
               c_all c' = firstn (N.to_nat (k - c_first c)) (c_all c) ++ [x].
Proof.
  intros c k x W Hk Hok Hne Hidx Hdata.
  pose proof (strip_wfc c k W Hk) as W'.
  assert (Hnf : is_full (conc (c_truncate c k)) = false).
  { unfold is_full. cbn [conc l_file l_icur l_dcur c_file f_hdr h_data_area].
    pose proof (strip_index_not_full c k W Hk) as Hi. cbn [c_truncate c_da c_blocks].
    apply Bool.orb_false_iff. split; [lia|].
    destruct (DATA_MAX <=? c_dcur (c_truncate c k)) eqn:E; [lia|reflexivity]. }
  assert (Hend : r_index x = c_first (c_truncate c k) + nlen (c_all (c_truncate c k))).
  { rewrite (strip_kept c k W Hk). cbn [c_truncate c_first]. unfold nlen. rewrite firstn_length.
    unfold nlen in Hk. lia. }
  destruct (write_conc (c_truncate c k) x W' Hnf Hend Hok Hne) as [Hw W''].
  exists (c_push (c_truncate c k) x). eexists. split; [exact Hw|].
  split; [destruct (is_full (conc (c_push (c_truncate c k) x))); reflexivity|].
  split; [exact W''|]. rewrite c_all_push, (strip_kept c k W Hk). reflexivity.
Qed.

(** truncate, re-append anything (shorter, equal, longer), reopen: what comes back is the abstract
    log - nothing of the removed suffix is ever parsed again *)
Theorem removed_bytes_never_reparse : forall s st k xs pre split lo hi,
  RepS s st -> a_first (fst st) <= k ->
  Forall rec_ok xs -> Forall rec_nonempty xs ->
  let ops := FTruncate k :: map FAppend xs in
  let '(s1, outs) := frun s ops in
  let st1 := aruns st ops outs in
  let '(s2, o2) := fstep s1 (FReopen pre split) in
  let '(s3, o3) := fstep s2 (FRead lo hi) in
  outs_ok st ops outs /\
  o2 = RInfo (a_last (fst st1) pre) /\
  exists l, o3 = RRecs l /\
            map to_ent l = a_get (fst st1) (N.max lo (N.max split (a_first (fst st1)))) hi.
Proof.
  intros s st k xs pre split lo hi HR Hk Hok Hne. cbv zeta.
  apply reopen_returns_exactly_acked; [exact HR|].
  constructor; [exact Hk|].
  apply Forall_forall. intros op Hin. apply in_map_iff in Hin. destruct Hin as (x & <- & Hx).
  rewrite Forall_forall in Hok, Hne. cbn [fop_ok]. auto.
Qed.

Theorem truncate_then_reopen : forall s st k pre split lo hi,
  RepS s st -> a_first (fst st) <= k ->
  let '(s1, o1) := fstep s (FTruncate k) in
  let '(s2, o2) := fstep s1 (FReopen pre split) in
  let '(s3, o3) := fstep s2 (FRead lo hi) in
  o1 = RUnit /\ o2 = RInfo (a_last (a_truncate (fst st) k) pre) /\
  exists l, o3 = RRecs l /\
            map to_ent l = a_get (a_truncate (fst st) k) (N.max lo (N.max split (a_first (fst st)))) hi.
Proof.
  intros s st k pre split lo hi HR Hk.
  destruct (truncate_exact s st k HR Hk) as (s1 & Hs1 & HR1). rewrite Hs1.
  pose proof (fstep_refines s1 _ (FReopen pre split) HR1 I) as H2.
  destruct (fstep s1 (FReopen pre split)) as [s2 o2]. destruct H2 as [Ho2 HR2].
  pose proof (fstep_refines s2 _ (FRead lo hi) HR2 I) as H3.
  destruct (fstep s2 (FRead lo hi)) as [s3 o3]. destruct H3 as [Ho3 _].
  split; [reflexivity|].
  destruct o2; cbn [out_ok] in Ho2; try contradiction. subst last. split; [reflexivity|].
  cbn [apply_out] in Ho3. destruct o3; cbn [out_ok] in Ho3; try contradiction.
  exists l. split; [reflexivity|].
  rewrite Ho3. f_equal. f_equal. f_equal. unfold a_truncate. destruct (a_end (fst st) <=? k); reflexivity.
Qed.

(** the file only refuses an append (Failure) when it is full, and the index area is full only
    right after a block of 128 records was completed *)
Theorem full_only_at_block_end : forall c,
  wfc c -> c_da c <= HDR_LEN + nlen (ienc (c_blocks c)) + 10 -> nlen (c_all c) mod 128 = 0.
Proof.
  intros c W Hf. pose proof (wf_full c W Hf) as Hp. unfold c_all. rewrite Hp, app_nil_r.
  rewrite (concat_blocks_length _ (wf_blocks c W)). lia.
Qed.
