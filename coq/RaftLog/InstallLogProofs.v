(** Installing a snapshot that covers the whole local log (finalize_snapshot_installation with
    delete_through = None -> SplitOff(u64::MAX), then InstallSnapshotPointerLog) leaves a manager
    whose only log file is fresh, starts at the snapshot index, holds the pointer record, is
    current, and accepts the next append.  This is the repaired behaviour of defect 17 (before the
    repair the stale open file stayed current and the append was rejected: fatal storage error). *)
From RN Require Import Base.Res Codec.Varint Codec.BufReader
  RaftLog.LogFile RaftLog.Spec RaftLog.Layout RaftLog.FileProofs RaftLog.RecordProofs
  RaftLog.WriteProofs RaftLog.InitProofs RaftLog.LogManager RaftLog.ManagerProofs.
From Coq Require Import ZifyBool ZifyNat ZifyN.
Local Open Scope N_scope.
Ltac Zify.zify_post_hook ::= Z.div_mod_to_equations.

(** keys of started actors / files on disk belong to catalogue ranges; the current actor too *)
Definition mgr_tidy (m : mgr) : Prop :=
  (forall id, lookup id (m_actors m) <> None -> In id (map g_id (m_logs m))) /\
  (forall id, lookup id (m_disk m) <> None -> In id (map g_id (m_logs m))) /\
  (forall id, m_cur m = Some id -> In id (map g_id (m_logs m))) /\
  Forall (fun g => g_end g <= U64MAX) (m_logs m).

Definition cleared (m : mgr) : Prop :=
  m_logs m = [] /\ m_cur m = None /\ (forall id, lookup id (m_actors m) = None) /\
  (forall id, lookup id (m_disk m) = None).

Lemma lookup_remove_same {A} k (l : list (N * A)) : lookup k (remove_key k l) = None.
Proof.
  induction l as [|[k0 v] l IH]; [reflexivity|]. cbn [remove_key].
  destruct (k =? k0) eqn:E; [exact IH|]. cbn [lookup]. rewrite E. exact IH.
Qed.

Lemma lookup_remove_none {A} k k' (l : list (N * A)) : lookup k l = None -> lookup k (remove_key k' l) = None.
Proof.
  intros H. destruct (N.eq_dec k k') as [->|Hne]; [apply lookup_remove_same|].
  rewrite lookup_remove_other by exact Hne. exact H.
Qed.

(** SplitOff(u64::MAX) removes every file *)
Lemma split_loop_all : forall logs m i,
  Forall (fun g => g_end g <= U64MAX) logs ->
  exists m1, split_loop m logs U64MAX i = (m1, logs, (i + length logs)%nat) /\
    m_cur m1 = m_cur m /\ m_saved m1 = m_saved m /\ m_logs m1 = m_logs m /\ m_limit m1 = m_limit m /\
    m_pre_ptr m1 = m_pre_ptr m /\
    (forall id, (lookup id (m_actors m) = None \/ In id (map g_id logs)) -> lookup id (m_actors m1) = None) /\
    (forall id, (lookup id (m_disk m) = None \/ In id (map g_id logs)) -> lookup id (m_disk m1) = None).
Proof.
  induction logs as [|g rest IH]; intros m i Hall.
  - exists m. cbn [split_loop length]. rewrite Nat.add_0_r.
    repeat split; try reflexivity; intros id [H|[]]; exact H.
  - inversion Hall as [|? ? Hg Hrest]; subst. cbn [split_loop].
    assert (Hge : ge_end U64MAX g = true).
    { unfold ge_end, lt_end. destruct (U64MAX <? g_end g) eqn:E; [lia|reflexivity]. }
    rewrite Hge.
    destruct (IH (drop_file m (g_id g)) (S i) Hrest) as (m1 & Hs & Hc & Hsv & Hl & Hlim & Hp & Ha & Hd).
    rewrite Hs. exists m1. cbn [length]. replace (i + S (length rest))%nat with (S i + length rest)%nat by lia.
    split; [reflexivity|]. cbn [drop_file m_cur m_saved m_logs m_limit m_pre_ptr] in *.
    repeat split; try assumption.
    + intros id [H|H].
      * apply Ha. left. cbn [drop_file m_actors]. apply lookup_remove_none. exact H.
      * cbn [map] in H. destruct H as [<-|H].
        -- apply Ha. left. cbn [drop_file m_actors]. apply lookup_remove_same.
        -- apply Ha. right. exact H.
    + intros id [H|H].
      * apply Hd. left. cbn [drop_file m_disk]. apply lookup_remove_none. exact H.
      * cbn [map] in H. destruct H as [<-|H].
        -- apply Hd. left. cbn [drop_file m_disk]. apply lookup_remove_same.
        -- apply Hd. right. exact H.
Qed.

Lemma split_off_all_cleared m : mgr_tidy m -> cleared (mgr_split_off m U64MAX) /\
  m_limit (mgr_split_off m U64MAX) = m_limit m.
Proof.
  intros (Ha & Hd & Hc & Hall). unfold mgr_split_off.
  destruct (split_loop_all (m_logs m) m 0%nat Hall) as (m1 & Hs & Hc1 & _ & _ & Hlim & _ & Ha1 & Hd1).
  rewrite Hs. cbn [Nat.add].
  assert (Hact : forall id, lookup id (m_actors m1) = None).
  { intros id. apply Ha1. destruct (lookup id (m_actors m)) eqn:E; [right; apply Ha; congruence|left; reflexivity]. }
  assert (Hdsk : forall id, lookup id (m_disk m1) = None).
  { intros id. apply Hd1. destruct (lookup id (m_disk m)) eqn:E; [right; apply Hd; congruence|left; reflexivity]. }
  destruct (m_logs m) as [|g rest] eqn:El.
  - cbn [length Nat.ltb Nat.leb]. unfold cleared, set_logs. cbn [m_logs m_cur m_actors m_disk m_limit].
    split; [|exact Hlim]. split; [reflexivity|]. split; [|split; assumption].
    rewrite Hc1. destruct (m_cur m) as [id|] eqn:E; [|reflexivity]. exfalso. exact (Hc id eq_refl).
  - replace (0 <? length (g :: rest))%nat with true by (cbn [length]; reflexivity).
    rewrite skipn_all. unfold cleared, save_logs, set_logs, set_cur.
    cbn [m_logs m_cur m_actors m_disk m_limit]. split; [|exact Hlim]. repeat split; assumption.
Qed.

(** InstallSnapshotPointerLog on a manager without files: a fresh file holding the pointer *)
Section Fresh.
  Variable m : mgr.
  Variable ptr x : lrec.
  Hypothesis Hclr : cleared m.
  Hypothesis Hlimit : HDR_LEN + 10 < m_limit m <= 4096.
  Hypothesis Hp : rec_ok ptr /\ rec_nonempty ptr.
  Hypothesis Hx : rec_ok x /\ rec_nonempty x /\ r_index x = r_index ptr + 1.

  Let c0 := c_fresh (m_limit m) (r_index ptr) (r_term ptr) (r_index ptr).
  Let c1 := c_push c0 ptr.
  Let c2 := c_push c1 x.

  Lemma fresh_not_full : is_full (conc c0) = false.
  Proof.
    unfold is_full, conc, c0, c_fresh, c_dcur, c_all.
    cbn [l_file l_icur l_dcur c_file c_blocks c_part c_first c_da f_hdr h_data_area concat app ienc map].
    rewrite frl_nil. unfold nlen. cbn [length]. unfold DATA0, DATA_MAX, HDR_LEN in *.
    apply Bool.orb_false_iff. split; lia.
  Qed.

  Hypothesis Hsmall : DATA0 + nlen (rec_frame ptr) + nlen (rec_frame x) < DATA_MAX.

  Lemma c0_wf : wfc c0.
  Proof. apply wfc_fresh. lia. Qed.

  Lemma write_ptr : write (conc c0) ptr = (conc c1, WSuccess) /\ wfc c1.
  Proof.
    destruct Hp as [Hok Hne].
    destruct (write_conc c0 ptr c0_wf fresh_not_full) as [Hw W1]; try assumption.
    { unfold c0, c_fresh, c_all. cbn [c_first c_blocks c_part concat app]. unfold nlen. cbn [length]. lia. }
    split; [|exact W1]. rewrite Hw. f_equal.
    assert (Hnf : is_full (conc c1) = false).
    { unfold is_full, conc. cbn [l_file l_icur l_dcur].
      unfold c1, c_push, c0, c_fresh, c_dcur, c_all.
      cbn [c_file c_blocks c_part c_first c_da c_flen c_z c_hterm c_lterm c_seek c_dpos c_split
           f_hdr h_data_area concat app length Nat.eqb ienc map].
      rewrite frl_one. unfold nlen at 1. cbn [length].
      apply Bool.orb_false_iff. unfold DATA0, DATA_MAX, HDR_LEN in *. split; lia. }
    unfold c1 in Hnf. rewrite Hnf. reflexivity.
  Qed.
End Fresh.

Definition fresh_range (ptr : lrec) : lrange :=
  mkRange 1 (r_term ptr) (r_index ptr) 0 (r_index ptr) false.

Lemma save_pointer_cleared m ptr x :
  cleared m -> HDR_LEN + 10 < m_limit m <= 4096 ->
  rec_ok ptr /\ rec_nonempty ptr ->
  rec_ok x /\ rec_nonempty x /\ r_index x = r_index ptr + 1 ->
  DATA0 + nlen (rec_frame ptr) + nlen (rec_frame x) < DATA_MAX ->
  let c1 := c_push (c_fresh (m_limit m) (r_index ptr) (r_term ptr) (r_index ptr)) ptr in
  let m' := mgr_save_pointer m ptr in
  m_cur m' = Some 1 /\ lookup 1 (m_actors m') = Some (conc c1) /\ wfc c1 /\
  m_logs m' = [fresh_range ptr] /\ m_saved m' = [fresh_range ptr] /\ m_limit m' = m_limit m.
Proof.
  intros Hclr Hlimit Hp Hx Hsmall c1 m'.
  destruct (write_ptr m ptr x) as [Hw W1]; try assumption.
  destruct Hclr as (Hl & Hc & Ha & Hd).
  destruct m as [logs saved actors disk cur pre limit].
  cbn [m_logs m_cur m_actors m_disk m_limit] in *. subst logs cur.
  unfold m', mgr_save_pointer, mgr_split_off. cbn [m_logs split_loop Nat.ltb Nat.leb set_logs m_logs].
  cbn [mgr_write m_cur]. unfold switch_new_log. cbn [m_logs last_opt rev close_last app].
  unfold actor_of, save_logs, set_logs. cbn [m_logs m_saved m_actors m_disk m_cur m_pre_ptr m_limit g_id g_start g_pre g_split].
  rewrite Ha, Hd.
  rewrite init_fresh by lia. cbn [res_bind].
  unfold set_cur, set_actor, cur_actor. cbn [m_logs m_saved m_actors m_disk m_cur m_pre_ptr m_limit].
  rewrite lookup_set_same.
  rewrite Hw.
  cbn [m_logs m_saved m_actors m_disk m_cur m_pre_ptr m_limit fst].
  rewrite lookup_set_same.
  split; [reflexivity|]. split; [reflexivity|]. split; [exact W1|]. split; [reflexivity|]. split; reflexivity.
Qed.

(** the append that follows the install is accepted *)
Theorem install_covering_log_then_append m ptr x :
  mgr_tidy m -> HDR_LEN + 10 < m_limit m <= 4096 ->
  rec_ok ptr /\ rec_nonempty ptr ->
  rec_ok x /\ rec_nonempty x /\ r_index x = r_index ptr + 1 ->
  DATA0 + nlen (rec_frame ptr) + nlen (rec_frame x) < DATA_MAX ->
  let m1 := mgr_save_pointer (mgr_split_off m U64MAX) ptr in
  m_logs m1 = [fresh_range ptr] /\ m_saved m1 = [fresh_range ptr] /\
  snd (mgr_write 3 m1 x true) = WOk.
Proof.
  intros Ht Hlimit Hp Hx Hsmall m1.
  destruct (split_off_all_cleared m Ht) as [Hclr Hlim].
  rewrite <- Hlim in Hlimit.
  destruct (save_pointer_cleared (mgr_split_off m U64MAX) ptr x Hclr Hlimit Hp Hx Hsmall)
    as (Hc & Ha & W1 & Hl & Hs & _).
  fold m1 in Hc, Ha, Hl, Hs.
  split; [exact Hl|]. split; [exact Hs|].
  cbn [mgr_write]. rewrite Hc. unfold cur_actor. rewrite Hc, Ha.
  set (c1 := c_push (c_fresh (m_limit (mgr_split_off m U64MAX)) (r_index ptr) (r_term ptr) (r_index ptr)) ptr) in *.
  destruct Hx as (Hxok & Hxne & Hxi).
  assert (Hnf : is_full (conc c1) = false).
  { unfold is_full, conc. cbn [l_file l_icur l_dcur].
    unfold c1, c_push, c_fresh, c_dcur, c_all.
    cbn [c_file c_blocks c_part c_first c_da c_flen c_z c_hterm c_lterm c_seek c_dpos c_split
         f_hdr h_data_area concat app length Nat.eqb ienc map].
    rewrite frl_one. unfold nlen at 1. cbn [length].
    apply Bool.orb_false_iff. unfold DATA0, DATA_MAX, HDR_LEN in *. split; lia. }
  assert (Hidx : r_index x = c_first c1 + nlen (c_all c1)).
  { subst c1. rewrite c_all_push, c_first_push. unfold c_fresh, c_all.
    cbn [c_first c_blocks c_part concat app]. unfold nlen. cbn [length]. lia. }
  destruct (write_conc c1 x W1 Hnf Hidx Hxok Hxne) as [Hw _].
  rewrite Hw.
  destruct (is_full (conc (c_push c1 x))).
  - destruct (switch_new_log _ _ _); reflexivity.
  - reflexivity.
Qed.

(** non-vacuity: a manager with one open file holding entries 0..2, snapshot pointer at 1710 *)
Example install_example :
  let r i := mkRec i 1 [7] in
  let m0 := fst (mgr_write 3 (fst (mgr_write 3 (fst (mgr_write 3 (mgr_init 4096) (r 0) true)) (r 1) true)) (r 2) true) in
  let m1 := mgr_save_pointer (mgr_split_off m0 U64MAX) (mkRec 1710 1 [1;2;3]) in
  m_logs m0 <> [] /\ snd (mgr_write 3 m1 (mkRec 1711 1 [9]) true) = WOk.
Proof. cbv zeta. split; [vm_compute; discriminate|vm_compute; reflexivity]. Qed.
