(** File-level proofs for the index file: the reader consumes exactly the declared length
    (whatever stale bytes follow), every writer keeps the file re-readable, and the concrete
    run refines "last saved value of each field". *)
From RN Require Import Base.Res Codec.Varint Codec.VarintBits Codec.VarintProofs
  Codec.PbWire Codec.PbWireProofs Codec.BufReader
  RaftLog.IndexFile RaftLog.AddrMapProofs RaftLog.IndexCodecProofs.
From Coq Require Import ZifyBool ZifyNat ZifyN Permutation.
Local Open Scope N_scope.
Ltac Zify.zify_post_hook ::= Z.div_mod_to_equations.

(** * big-endian u64 *)
Lemma of_be_snoc l b : of_be (l ++ [b]) = of_be l * 256 + b.
Proof. unfold of_be. rewrite fold_left_app. reflexivity. Qed.

Lemma be_bytes_length n v : length (be_bytes n v) = n.
Proof.
  revert v. induction n as [|n IH]; intros v; [reflexivity|].
  cbn [be_bytes]. rewrite app_length, IH. cbn [length]. lia.
Qed.

Lemma be_bytes_all_bytes n v : all_bytes (be_bytes n v).
Proof.
  revert v. induction n as [|n IH]; intros v; [constructor|].
  cbn [be_bytes]. apply Forall_app. split; [apply IH|].
  constructor; [|constructor]. unfold is_byte. apply N.mod_lt. lia.
Qed.

Lemma of_be_be_bytes n v : of_be (be_bytes n v) = v mod 256 ^ N.of_nat n.
Proof.
  revert v. induction n as [|n IH]; intros v.
  - cbn [be_bytes]. change (256 ^ N.of_nat 0) with 1. rewrite N.mod_1_r. reflexivity.
  - cbn [be_bytes]. rewrite of_be_snoc, IH.
    rewrite Nnat.Nat2N.inj_succ, N.pow_succ_r'.
    assert (Hp : 256 ^ N.of_nat n <> 0) by (apply N.pow_nonzero; lia).
    rewrite (N.mod_mul_r v 256 (256 ^ N.of_nat n)) by (try lia; exact Hp). lia.
Qed.

Lemma of_be_be8 v : v < 2 ^ 64 -> of_be (be8 v) = v.
Proof.
  intros Hv. unfold be8. rewrite of_be_be_bytes.
  change (256 ^ N.of_nat 8) with (2 ^ 64). apply N.mod_small, Hv.
Qed.

Lemma be8_length v : length (be8 v) = 8%nat.
Proof. apply be_bytes_length. Qed.

(** * seek + write without truncation *)
Lemma write_at_0 f d : write_at f 0 d = d ++ skipn (length d) f.
Proof. unfold write_at. cbn [firstn Nat.sub repeat app Nat.add]. reflexivity. Qed.

Lemma write_at_8 f d :
  (8 <= length f)%nat -> write_at f 8 d = firstn 8 f ++ d ++ skipn (8 + length d) f.
Proof.
  intros H. unfold write_at. replace (8 - length f)%nat with 0%nat by lia. reflexivity.
Qed.

Lemma all_bytes_firstn n l : all_bytes l -> all_bytes (firstn n l).
Proof.
  unfold all_bytes. revert l. induction n as [|n IH]; intros l H; [constructor|].
  destruct l as [|b l]; [constructor|]. cbn [firstn]. inversion H; subst. constructor; [assumption|apply IH; assumption].
Qed.

Lemma all_bytes_repeat0 n : all_bytes (repeat 0 n).
Proof. induction n; cbn [repeat]; constructor; [unfold is_byte; lia|assumption]. Qed.

Lemma write_at_all_bytes f off d : all_bytes f -> all_bytes d -> all_bytes (write_at f off d).
Proof.
  intros Hf Hd. unfold write_at.
  repeat (apply Forall_app; split);
    [apply all_bytes_firstn, Hf|apply all_bytes_repeat0|exact Hd|apply all_bytes_skipn, Hf].
Qed.

Lemma firstn_app_exact {A} (a b : list A) n : length a = n -> firstn n (a ++ b) = a.
Proof.
  intros <-. rewrite firstn_app, firstn_all, Nat.sub_diag. cbn [firstn]. apply app_nil_r.
Qed.

Lemma skipn_app_exact {A} (a b : list A) n : length a = n -> skipn n (a ++ b) = b.
Proof. intros <-. rewrite skipn_app, skipn_all, Nat.sub_diag. reflexivity. Qed.

Lemma nth_error_skipn {A} (l : list A) n k : nth_error (skipn n l) k = nth_error l (n + k).
Proof.
  revert l. induction n as [|n IH]; intros l; [reflexivity|].
  destruct l as [|a l]; [destruct k; reflexivity|]. cbn [skipn plus nth_error]. apply IH.
Qed.

(** * FileMessageReader::read_next on a frame followed by arbitrary bytes *)
Lemma sizeof_varint_le10 v : (sizeof_varint v <= 10)%nat.
Proof. unfold sizeof_varint. repeat match goal with |- context [if ?c then _ else _] => destruct c end; lia. Qed.

Lemma frame_length body :
  N.of_nat (length body) < 2 ^ 64 ->
  length (frame body) = (sizeof_varint (N.of_nat (length body)) + length body)%nat.
Proof. intros H. unfold frame. rewrite app_length, varint_sizeof by exact H. reflexivity. Qed.

Lemma fmr_read_next_frame f off body tail :
  skipn off f = frame body ++ tail -> body <> [] -> N.of_nat (length body) < 2 ^ 64 ->
  all_bytes body -> all_bytes tail ->
  exists r', fmr_read_next (mkFmr f off off) = Ok (frame body, r').
Proof.
  intros Hskip Hne Hlen Hb Ht.
  remember (N.of_nat (length body)) as len eqn:Hld.
  assert (Hwv : length (write_varint len) = sizeof_varint len) by (apply varint_sizeof, Hlen).
  pose proof (sizeof_varint_le10 len) as H10.
  unfold fmr_read_next, fmr_read_len. cbn [fbytes fpos fstart]. unfold file_read.
  rewrite Hskip. unfold frame. rewrite <- Hld. rewrite <- app_assoc.
  rewrite (firstn_app 10 (write_varint len)).
  rewrite (firstn_all2 (n := 10) (write_varint len)) by lia.
  set (rest := firstn (10 - length (write_varint len)) (body ++ tail)).
  destruct (length (write_varint len ++ rest) =? 0)%nat eqn:E0.
  { apply Nat.eqb_eq in E0. rewrite app_length in E0. pose proof (write_varint_length_pos len). lia. }
  rewrite <- app_assoc.
  rewrite varint_roundtrip_list; [|exact Hlen|].
  2:{ apply Forall_app. split; [|apply all_bytes_repeat0]. unfold rest. apply all_bytes_firstn.
      apply Forall_app. split; assumption. }
  assert (Hpos : 0 < len).
  { rewrite Hld. destruct body; [congruence|cbn [length]; lia]. }
  destruct (len =? 0) eqn:Ez; [lia|]. cbn [res_bind fbytes fpos fstart].
  rewrite Hskip. unfold frame. rewrite <- Hld. rewrite <- app_assoc.
  assert (Hn : N.to_nat (len + N.of_nat (sizeof_varint len)) = (length (write_varint len) + length body)%nat).
  { lia. }
  rewrite Hn. rewrite app_assoc.
  rewrite (firstn_app_exact (write_varint len ++ body) tail) by (rewrite app_length; reflexivity).
  destruct (N.of_nat (length (write_varint len ++ body)) <? len + N.of_nat (sizeof_varint len)) eqn:E1.
  { rewrite app_length in E1. lia. }
  eexists. reflexivity.
Qed.

(** * the read branch of init *)
Lemma write_varint_0 : write_varint 0 = [0].
Proof. reflexivity. Qed.

Lemma decode_index_nil : decode_index [] = Ok ri_default.
Proof. reflexivity. Qed.

Theorem read_index_record_ok s r f tail :
  permutes s -> wf_index r -> amap_sorted (ri_node_addrs r) -> rec_size r < rec_limit ->
  skipn 8 f = index_record s r ++ tail -> all_bytes tail ->
  read_index_record f = Ok r.
Proof.
  intros Hs Hwf Hsorted Hsz Hskip Htail.
  assert (Hsz64 : rec_size r < 2 ^ 64).
  { unfold rec_limit in Hsz. change (2 ^ 32) with 4294967296 in Hsz.
    change (2 ^ 64) with 18446744073709551616. lia. }
  pose proof (decode_index_record s r Hs Hwf Hsorted Hsz64) as Hdec.
  pose proof (rec_size_perm s r Hs) as Hperm.
  unfold index_record in Hskip.
  assert (Hlen : N.of_nat (length (enc_index (to_do s r))) < 2 ^ 64) by (unfold rec_size in Hperm, Hsz64; lia).
  assert (Hbytes : all_bytes (enc_index (to_do s r))) by (apply enc_index_all_bytes, wf_index_to_do; assumption).
  remember (enc_index (to_do s r)) as body eqn:Hbody. clear Hbody.
  unfold read_index_record.
  replace (nth_error f 8) with (nth_error (skipn 8 f) 0) by (rewrite nth_error_skipn; reflexivity).
  rewrite Hskip.
  destruct body as [|b0 body'] eqn:Ebody.
  - (* the all-default record: zero length byte *)
    unfold frame. cbn [length app]. change (N.of_nat 0) with 0. rewrite write_varint_0.
    cbn [app nth_error]. change (0 =? 0) with true. cbv iota.
    rewrite decode_index_nil in Hdec. exact Hdec.
  - rewrite <- Ebody in *.
    assert (Hne : body <> []) by (rewrite Ebody; discriminate).
    assert (Hpos : 0 < N.of_nat (length body)) by (rewrite Ebody; cbn [length]; lia).
    destruct (write_varint_hd_nonzero _ Hpos Hlen) as (hb & ht & Hw & Hnz).
    unfold frame at 1. rewrite Hw. cbn [app nth_error].
    destruct (hb =? 0) eqn:Ehb; [lia|].
    destruct (fmr_read_next_frame f 8 body tail Hskip Hne Hlen Hbytes Htail) as (r' & Hread).
    rewrite Hread. cbn [res_bind].
    unfold frame. rewrite rdv_write_varint by exact Hlen. cbn [res_bind].
    rewrite take_n_all. cbn [res_bind]. exact Hdec.
Qed.

(** * the invariant of RaftIndexInnerManager: the file can always be read back to memory *)
Section Run.
Variable sh : nat -> addr_map -> addr_map.
Hypothesis sh_perm : forall n, permutes (sh n).

Definition inv (st : ist) : Prop :=
  all_bytes (i_file st) /\
  (8 <= length (i_file st))%nat /\
  firstn 8 (i_file st) = be8 (i_applied st) /\
  (exists k tail, skipn 8 (i_file st) = index_record (sh k) (i_index st) ++ tail) /\
  wf_index (i_index st) /\ amap_sorted (ri_node_addrs (i_index st)) /\
  u64 (i_applied st) /\ rec_size (i_index st) < rec_limit.

Lemma index_record_all_bytes s r : permutes s -> wf_index r -> all_bytes (index_record s r).
Proof.
  intros Hs Hwf. unfold index_record, frame. apply Forall_app. split; [apply write_varint_all_bytes|].
  apply enc_index_all_bytes, wf_index_to_do; assumption.
Qed.

Lemma index_record_length_pos s r : (1 <= length (index_record s r))%nat.
Proof. unfold index_record, frame. rewrite app_length. pose proof (write_varint_length_pos (N.of_nat (length (enc_index (to_do s r))))). lia. Qed.

Lemma to_do_default s : permutes s -> to_do s ri_default = ri_default.
Proof.
  intros Hs. unfold to_do, ri_default, set_node_addrs. cbn [ri_logs ri_current_log ri_snapshots ri_last_snapshot
    ri_last_snapshot_index ri_last_snapshot_term ri_current_term ri_voted_for ri_member ri_mac ri_node_addrs].
  rewrite (Permutation_nil (Permutation_sym (Hs []))). reflexivity.
Qed.

Lemma wf_default : wf_index ri_default.
Proof. unfold wf_index, ri_default. cbn. repeat split; try constructor; unfold u64; reflexivity. Qed.

Lemma inv_fresh n0 f : (length f < 9)%nat -> all_bytes f ->
  exists st, init sh n0 f = Ok st /\ inv st /\ i_index st = ri_default /\ i_applied st = 0 /\ i_wcount st = n0.
Proof.
  intros Hlen Hf. unfold init. destruct (length f <? 9)%nat eqn:E; [|apply Nat.ltb_ge in E; lia].
  eexists. split; [reflexivity|]. cbn [i_index i_applied i_wcount i_file].
  split; [|repeat split; reflexivity].
  assert (Himg : write_at f 0 fresh_image = fresh_image).
  { rewrite write_at_0. rewrite skipn_all2; [apply app_nil_r|]. change (length fresh_image) with 9%nat. lia. }
  unfold inv. cbn [i_index i_applied i_wcount i_file]. rewrite Himg.
  split; [vm_compute; repeat constructor|].
  split; [vm_compute; lia|]. split; [reflexivity|].
  split. { exists 0%nat, []. unfold index_record. rewrite (to_do_default _ (sh_perm 0)). reflexivity. }
  split; [apply wf_default|]. split; [constructor|]. split; [unfold u64; reflexivity|].
  vm_compute. reflexivity.
Qed.

(** reopening a file that satisfies the invariant restores memory exactly *)
Lemma inv_reopen st n0 : inv st ->
  init sh n0 (i_file st) = Ok (mkIst (i_file st) (i_index st) (i_applied st) n0).
Proof.
  intros (Hb & Hlen & Hhead & (k & tail & Hskip) & Hwf & Hsorted & Happ & Hsz).
  assert (Htail : all_bytes tail).
  { pose proof (all_bytes_skipn 8 _ Hb) as H. rewrite Hskip in H. apply Forall_app in H. apply H. }
  assert (Hlen9 : (9 <= length (i_file st))%nat).
  { assert (H : length (skipn 8 (i_file st)) = (length (i_file st) - 8)%nat) by apply skipn_length.
    rewrite Hskip, app_length in H. pose proof (index_record_length_pos (sh k) (i_index st)). lia. }
  unfold init. destruct (length (i_file st) <? 9)%nat eqn:E; [apply Nat.ltb_lt in E; lia|].
  rewrite (read_index_record_ok (sh k) (i_index st) (i_file st) tail (sh_perm k) Hwf Hsorted Hsz Hskip Htail).
  cbn [res_map]. rewrite Hhead, of_be_be8 by exact Happ. reflexivity.
Qed.

(** * the writers keep the invariant *)
Lemma amap_of_list_Forall (P : N * list N -> Prop) l : Forall P l -> Forall P (amap_of_list l).
Proof.
  intros H. rewrite amap_of_list_fold.
  assert (G : forall acc, Forall P acc -> Forall P (fold_left ins l acc)).
  { induction H as [|a l Ha Hl IH]; intros acc Hacc; [exact Hacc|].
    cbn [fold_left]. apply IH. unfold ins. apply amap_insert_Forall; [destruct a; exact Ha|exact Hacc]. }
  apply G. constructor.
Qed.

Lemma wf_upd r op : wf_index r -> wf_op op -> wf_index (upd_index r op).
Proof.
  intros (H1 & H2 & H3 & H4 & H5 & H6 & H7 & H8 & H9 & H10 & H11) Hop.
  destruct r as [a1 a2 a3 a4 a5 a6 a7 a8 a9 a10 a11].
  cbn [ri_logs ri_current_log ri_snapshots ri_last_snapshot ri_last_snapshot_index
       ri_last_snapshot_term ri_current_term ri_voted_for ri_member ri_mac ri_node_addrs] in *.
  destruct op as [t v|m mac na|id a|ls|ss|v|]; cbn [wf_op] in Hop.
  - destruct Hop. repeat split; assumption.
  - destruct Hop as (Hm & Hmac & Hna). destruct mac as [x|]; destruct na as [l|];
      repeat split; try assumption; apply amap_of_list_Forall; assumption.
  - repeat split; try assumption. cbn. apply amap_insert_Forall; assumption.
  - repeat split; assumption.
  - repeat split; assumption.
  - repeat split; assumption.
  - repeat split; assumption.
Qed.

Lemma sorted_upd r op : amap_sorted (ri_node_addrs r) -> amap_sorted (ri_node_addrs (upd_index r op)).
Proof.
  intros H. destruct r as [a1 a2 a3 a4 a5 a6 a7 a8 a9 a10 a11]. cbn [ri_node_addrs] in H.
  destruct op as [t v|m mac na|id a|ls|ss|v|]; try exact H.
  - destruct mac; destruct na; cbn; try exact H; apply amap_of_list_sorted.
  - cbn. apply amap_insert_sorted, H.
Qed.

Lemma inv_write_index st r : inv st -> wf_index r -> amap_sorted (ri_node_addrs r) -> rec_size r < rec_limit ->
  inv (write_index sh st r).
Proof.
  intros (Hb & Hlen & Hhead & (k & tail & Hskip) & Hwf & Hsorted & Happ & Hsz) Hwf' Hsorted' Hsz'.
  unfold inv, write_index. cbn [i_file i_index i_applied i_wcount].
  set (rec := index_record (sh (i_wcount st)) r).
  split. { apply write_at_all_bytes; [exact Hb|apply index_record_all_bytes; [apply sh_perm|exact Hwf']]. }
  rewrite write_at_8 by exact Hlen.
  split. { rewrite !app_length, firstn_length. lia. }
  split. { rewrite firstn_app_exact by (rewrite firstn_length; lia). exact Hhead. }
  split. { exists (i_wcount st), (skipn (8 + length rec) (i_file st)).
           rewrite skipn_app_exact by (rewrite firstn_length; lia). reflexivity. }
  split; [exact Hwf'|]. split; [exact Hsorted'|]. split; [exact Happ|exact Hsz'].
Qed.

Lemma inv_write_applied st v : inv st -> u64 v -> inv (write_last_applied st v).
Proof.
  intros (Hb & Hlen & Hhead & (k & tail & Hskip) & Hwf & Hsorted & Happ & Hsz) Hv.
  unfold inv, write_last_applied. cbn [i_file i_index i_applied i_wcount].
  split. { apply write_at_all_bytes; [exact Hb|apply be_bytes_all_bytes]. }
  rewrite write_at_0, be8_length.
  split. { rewrite app_length, be8_length, skipn_length. lia. }
  split. { apply firstn_app_exact, be8_length. }
  split. { exists k, tail. rewrite skipn_app_exact by apply be8_length. exact Hskip. }
  split; [exact Hwf|]. split; [exact Hsorted|]. split; [exact Hv|exact Hsz].
Qed.

Definition applied_after (a : N) (op : iop) : N := match op with OpApplied v => v | _ => a end.

Lemma step_inv st op : inv st -> wf_op op -> rec_size (upd_index (i_index st) op) < rec_limit ->
  exists st', step sh st op = Ok st' /\ inv st' /\
              i_index st' = upd_index (i_index st) op /\ i_applied st' = applied_after (i_applied st) op.
Proof.
  intros Hinv Hop Hsz.
  pose proof Hinv as (Hb & Hlen & Hhead & Hrec & Hwf & Hsorted & Happ & Hsz0).
  assert (W : forall o, o = op -> (match o with OpApplied _ | OpReopen => False | _ => True end) ->
              exists st', Ok (write_index sh st (upd_index (i_index st) o)) = Ok st' /\ inv st' /\
                          i_index st' = upd_index (i_index st) o /\ i_applied st' = applied_after (i_applied st) o).
  { intros o -> Hk. eexists. split; [reflexivity|]. split.
    - apply inv_write_index; [exact Hinv|apply wf_upd; assumption|apply sorted_upd; assumption|exact Hsz].
    - split; [reflexivity|]. destruct op; try reflexivity; destruct Hk. }
  destruct op as [t v|m mac na|id a|ls|ss|v|]; cbn [step].
  - apply W; [reflexivity|exact I].
  - apply W; [reflexivity|exact I].
  - apply W; [reflexivity|exact I].
  - apply W; [reflexivity|exact I].
  - apply W; [reflexivity|exact I].
  - eexists. split; [reflexivity|]. split; [apply inv_write_applied; [exact Hinv|exact Hop]|].
    split; reflexivity.
  - rewrite (inv_reopen st (i_wcount st) Hinv). eexists. split; [reflexivity|].
    split; [|split; reflexivity].
    unfold inv. cbn [i_file i_index i_applied i_wcount]. exact Hinv.
Qed.

Lemma astep_fst a op : fst (astep a op) = upd_index (fst a) op.
Proof. destruct op; reflexivity. Qed.
Lemma astep_snd a op : snd (astep a op) = applied_after (snd a) op.
Proof. destruct op; reflexivity. Qed.

Theorem run_from_refines ops : forall st a,
  inv st -> i_index st = fst a -> i_applied st = snd a -> Forall wf_op ops -> fits a ops ->
  exists st', run_from sh st ops = Ok st' /\ inv st' /\
              i_index st' = fst (fold_left astep ops a) /\ i_applied st' = snd (fold_left astep ops a).
Proof.
  induction ops as [|op ops IH]; intros st a Hinv Hi Ha Hwf Hfits.
  - exists st. cbn [run_from fold_left]. split; [reflexivity|]. split; [exact Hinv|]. split; assumption.
  - inversion Hwf as [|? ? Hop Hwf']; subst. cbn [fits] in Hfits. destruct Hfits as [Hsz Hfits].
    rewrite astep_fst, <- Hi in Hsz.
    destruct (step_inv st op Hinv Hop Hsz) as (st1 & Hstep & Hinv1 & Hi1 & Ha1).
    cbn [run_from fold_left]. rewrite Hstep. cbn [res_bind].
    apply IH; try assumption.
    + rewrite astep_fst, <- Hi. exact Hi1.
    + rewrite astep_snd, <- Ha. exact Ha1.
Qed.

Theorem run_refines ops :
  Forall wf_op ops -> fits (ri_default, 0) ops ->
  exists st, run sh ops = Ok st /\ inv st /\ i_index st = fst (arun ops) /\ i_applied st = snd (arun ops).
Proof.
  intros Hwf Hfits. unfold run.
  destruct (inv_fresh 0 []) as (st0 & Hinit & Hinv0 & Hi0 & Ha0 & _); [cbn; lia|constructor|].
  rewrite Hinit. cbn [res_bind]. unfold arun.
  apply run_from_refines; assumption.
Qed.

End Run.

(** * the property: every field read back is the last saved value of that field *)
Definition shuffles (sh : nat -> addr_map -> addr_map) : Prop := forall n l, Permutation (sh n l) l.

Ltac ri_cases a op :=
  destruct a as [[a1 a2 a3 a4 a5 a6 a7 a8 a9 a10 a11] la];
  destruct op as [t v|m [x|] [l|]|id ad|ls|ss|v|].

Lemma arun_hard_state ops : forall a,
  (ri_current_term (fst (fold_left astep ops a)), ri_voted_for (fst (fold_left astep ops a))) =
  last_hard_state ops (ri_current_term (fst a), ri_voted_for (fst a)).
Proof.
  induction ops as [|op ops IH]; intros a; [reflexivity|].
  cbn [fold_left last_hard_state]. rewrite IH. ri_cases a op; reflexivity.
Qed.

Lemma arun_membership ops : forall a,
  (ri_member (fst (fold_left astep ops a)), ri_mac (fst (fold_left astep ops a))) =
  last_membership ops (ri_member (fst a), ri_mac (fst a)).
Proof.
  induction ops as [|op ops IH]; intros a; [reflexivity|].
  cbn [fold_left last_membership]. rewrite IH. ri_cases a op; reflexivity.
Qed.

Lemma arun_addrs ops : forall a,
  ri_node_addrs (fst (fold_left astep ops a)) = last_addrs ops (ri_node_addrs (fst a)).
Proof.
  induction ops as [|op ops IH]; intros a; [reflexivity|].
  cbn [fold_left last_addrs]. rewrite IH. ri_cases a op; reflexivity.
Qed.

Lemma arun_logs ops : forall a, ri_logs (fst (fold_left astep ops a)) = last_logs ops (ri_logs (fst a)).
Proof.
  induction ops as [|op ops IH]; intros a; [reflexivity|].
  cbn [fold_left last_logs]. rewrite IH. ri_cases a op; reflexivity.
Qed.

Lemma arun_snaps ops : forall a, ri_snapshots (fst (fold_left astep ops a)) = last_snaps ops (ri_snapshots (fst a)).
Proof.
  induction ops as [|op ops IH]; intros a; [reflexivity|].
  cbn [fold_left last_snaps]. rewrite IH. ri_cases a op; reflexivity.
Qed.

Lemma arun_applied ops : forall a, snd (fold_left astep ops a) = last_applied ops (snd a).
Proof.
  induction ops as [|op ops IH]; intros a; [reflexivity|].
  cbn [fold_left last_applied]. rewrite IH. ri_cases a op; reflexivity.
Qed.

Section Durable.
Variable sh : nat -> addr_map -> addr_map.
Hypothesis Hsh : shuffles sh.
Variable ops : list iop.
Hypothesis Hwf : Forall wf_op ops.
Hypothesis Hfits : fits (ri_default, 0) ops.

Lemma sh_permutes : forall n, permutes (sh n).
Proof. intros n l. apply Hsh. Qed.

Theorem hard_state_durable :
  exists st, run sh ops = Ok st /\
    (ri_current_term (i_index st), ri_voted_for (i_index st)) = last_hard_state ops (0, 0).
Proof.
  destruct (run_refines sh sh_permutes ops Hwf Hfits) as (st & Hrun & _ & Hi & _).
  exists st. split; [exact Hrun|]. rewrite Hi. unfold arun. rewrite arun_hard_state. reflexivity.
Qed.

Theorem membership_durable :
  exists st, run sh ops = Ok st /\
    (ri_member (i_index st), ri_mac (i_index st)) = last_membership ops ([], []).
Proof.
  destruct (run_refines sh sh_permutes ops Hwf Hfits) as (st & Hrun & _ & Hi & _).
  exists st. split; [exact Hrun|]. rewrite Hi. unfold arun. rewrite arun_membership. reflexivity.
Qed.

Theorem addr_durable :
  exists st, run sh ops = Ok st /\
    forall id, amap_get id (ri_node_addrs (i_index st)) = amap_get id (last_addrs ops []).
Proof.
  destruct (run_refines sh sh_permutes ops Hwf Hfits) as (st & Hrun & _ & Hi & _).
  exists st. split; [exact Hrun|]. intros id. rewrite Hi. unfold arun. rewrite arun_addrs. reflexivity.
Qed.

Theorem catalogue_durable :
  exists st, run sh ops = Ok st /\
    ri_logs (i_index st) = last_logs ops [] /\ ri_snapshots (i_index st) = last_snaps ops [] /\
    i_applied st = last_applied ops 0.
Proof.
  destruct (run_refines sh sh_permutes ops Hwf Hfits) as (st & Hrun & _ & Hi & Ha).
  exists st. split; [exact Hrun|]. rewrite Hi, Ha. unfold arun.
  rewrite arun_logs, arun_snaps, arun_applied. repeat split; reflexivity.
Qed.
End Durable.

(** a vote saved for a term is what every later read returns, across any restarts and any
    interleaved membership/address/catalogue/last-applied writes, until the next hard-state save *)
Definition no_hard_state (ops : list iop) : Prop :=
  Forall (fun op => match op with OpHardState _ _ => False | _ => True end) ops.

Lemma last_hard_state_app a b acc :
  last_hard_state (a ++ b) acc = last_hard_state b (last_hard_state a acc).
Proof.
  revert acc. induction a as [|op a IH]; intros acc; [reflexivity|].
  cbn [app last_hard_state]. destruct op; apply IH.
Qed.

Lemma last_hard_state_none ops acc : no_hard_state ops -> last_hard_state ops acc = acc.
Proof.
  induction 1 as [|op ops Hop Hops IH]; [reflexivity|].
  cbn [last_hard_state]. destruct op; try exact IH. destruct Hop.
Qed.

Theorem never_vote_twice sh h1 t v h2 :
  shuffles sh -> Forall wf_op (h1 ++ OpHardState t v :: h2) ->
  fits (ri_default, 0) (h1 ++ OpHardState t v :: h2) -> no_hard_state h2 ->
  exists st, run sh (h1 ++ OpHardState t v :: h2) = Ok st /\
             ri_current_term (i_index st) = t /\ ri_voted_for (i_index st) = v.
Proof.
  intros Hsh Hwf Hfits Hno.
  destruct (hard_state_durable sh Hsh _ Hwf Hfits) as (st & Hrun & Hhs).
  exists st. split; [exact Hrun|].
  rewrite last_hard_state_app in Hhs. cbn [last_hard_state] in Hhs.
  rewrite last_hard_state_none in Hhs by exact Hno. injection Hhs as H1 H2. split; assumption.
Qed.

(** the reader consumes exactly the declared length: whatever the file held from offset 8 on
    (a longer earlier record, any stale tail), after the in-place rewrite the record read back
    is the one written *)
Theorem shorter_after_longer_ok s r f :
  permutes s -> wf_index r -> amap_sorted (ri_node_addrs r) -> rec_size r < rec_limit ->
  all_bytes f -> (8 <= length f)%nat ->
  read_index_record (write_at f 8 (index_record s r)) = Ok r /\
  (length f <= length (write_at f 8 (index_record s r)))%nat.
Proof.
  intros Hs Hwf Hsorted Hsz Hb Hlen. rewrite write_at_8 by exact Hlen. split.
  - apply (read_index_record_ok s r _ (skipn (8 + length (index_record s r)) f)); try assumption.
    + rewrite skipn_app_exact by (rewrite firstn_length; lia). reflexivity.
    + apply all_bytes_skipn, Hb.
  - rewrite !app_length, firstn_length, skipn_length. lia.
Qed.

(** * the hypotheses are satisfiable by non-trivial states *)
Definition ex_addr : list N := [49; 50; 55; 46; 48; 46; 48; 46; 49; 58; 57; 56; 52; 56].  (* 127.0.0.1:9848 *)
Definition ex_ops : list iop :=
  [ OpHardState 3 2; OpReopen;
    OpMember [1; 2; 3] None None; OpAddAddr 1 ex_addr; OpAddAddr 300 [];
    OpLogs [mkLR 1 0 1 0 1 false false]; OpApplied 7; OpReopen;
    OpMember [1; 2] (Some [1; 2; 4]) (Some [(2, ex_addr); (1, [97])]);
    OpSnaps [mkSR 1 5]; OpHardState 4 0; OpMember [] (Some []) (Some []); OpReopen ].

Ltac conj_compute :=
  repeat first [apply Forall_nil | apply Forall_cons | split | exact I];
  try (vm_compute; reflexivity).

Example ex_ops_wf : Forall wf_op ex_ops /\ fits (ri_default, 0) ex_ops.
Proof. split; [unfold ex_ops; conj_compute|cbn [fits ex_ops]; conj_compute]. Qed.

Example ex_ops_run :
  exists st, run (fun _ l => l) ex_ops = Ok st /\ ri_current_term (i_index st) = 4 /\ i_applied st = 7 /\
             ri_member (i_index st) = [] /\ length (i_file st) = 63%nat.
Proof. eexists. split; [vm_compute; reflexivity|]. repeat split. Qed.

Example ex_shorter_after_longer :
  exists f r, wf_index r /\ amap_sorted (ri_node_addrs r) /\ rec_size r < rec_limit /\ all_bytes f /\
              (8 <= length f)%nat /\ (length (index_record (fun l => l) r) + 8 < length f)%nat.
Proof.
  exists (be8 9 ++ index_record (fun l => l) (mkRI [] 0 [] 0 0 0 3 2 [1; 2; 3; 4; 5; 6; 7; 8; 9; 10] [] [(1, ex_addr)])),
         (mkRI [] 0 [] 0 0 0 4 0 [] [] []).
  split; [unfold wf_index; cbn; conj_compute|].
  split; [constructor|]. split; [vm_compute; reflexivity|].
  split; [vm_compute; conj_compute|]. split; vm_compute; lia.
Qed.
