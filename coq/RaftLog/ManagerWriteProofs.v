(** The catalogue invariant is preserved by rollover ([switch_new_log]), [mgr_write] and
    [mgr_write_batch]; accepted records extend the visible log at its end. *)
From RN Require Import Base.Res Codec.Varint Codec.BufReader
  RaftLog.LogFile RaftLog.Spec RaftLog.Layout RaftLog.FileProofs RaftLog.RecordProofs
  RaftLog.ReadProofs RaftLog.WriteProofs RaftLog.InitProofs RaftLog.StripProofs RaftLog.Refine
  RaftLog.LogManager RaftLog.ManagerProofs RaftLog.ManagerInv.
From Coq Require Import ZifyBool ZifyNat ZifyN.
Local Open Scope N_scope.
Ltac Zify.zify_post_hook ::= Z.div_mod_to_equations.

Definition close_f (f : mfile) (next : N) : mfile :=
  let g := fst f in
  (mkRange (g_id g) (g_pre g) (g_start g) (next - g_start g) (g_split g) true, snd f).
Definition new_range (id term next : N) : lrange := mkRange id term next 0 next false.
Definition new_file (limit id term next : N) : mfile :=
  (new_range id term next, c_fresh limit next term next).

Lemma close_last_map : forall fs f next,
  close_last (map fst (fs ++ [f])) next = map fst (fs ++ [close_f f next]).
Proof.
  induction fs as [|f0 fs IH]; intros f next; [reflexivity|].
  cbn [app map]. specialize (IH f next).
  destruct (map fst (fs ++ [f])) as [|g1 rest] eqn:E.
  - destruct fs; discriminate.
  - change (close_last (fst f0 :: g1 :: rest) next) with (fst f0 :: close_last (g1 :: rest) next).
    rewrite IH. reflexivity.
Qed.

Lemma file_ok_fresh limit id term next :
  limit <= 4096 -> next < U64MAX -> file_ok (new_file limit id term next).
Proof.
  intros Hl Hn. unfold file_ok, new_file, new_range, c_end. cbn [g_start g_split g_close].
  split; [apply wfc_fresh; exact Hl|]. unfold c_fresh. cbn [c_first c_split c_all c_blocks c_part concat app].
  unfold nlen. cbn [length]. repeat split; try lia; try discriminate.
Qed.

Lemma vis_fresh limit next term : vis (c_fresh limit next term next) = [].
Proof. unfold vis, c_fresh, c_all. cbn [c_blocks c_part concat app]. apply skipn_nil. Qed.

Lemma c_end_fresh limit next term sp : c_end (c_fresh limit next term sp) = next.
Proof. unfold c_end, c_fresh, c_all. cbn [c_first c_blocks c_part concat app]. unfold nlen. cbn [length]. lia. Qed.

Lemma lookup_remove_key_none {A} k (l : list (N * A)) id : lookup id l = None -> lookup id (remove_key k l) = None.
Proof.
  intros H. induction l as [|[k0 v] l IH]; [reflexivity|]. cbn [lookup] in H. cbn [remove_key].
  destruct (id =? k0) eqn:E; [discriminate|]. destruct (k =? k0); [apply IH; exact H|].
  cbn [lookup]. rewrite E. apply IH. exact H.
Qed.

(** starting the first log file *)
Lemma switch_rep_nil m next term :
  mgr_rep m [] -> next < U64MAX ->
  exists m', switch_new_log m next term = Ok m' /\
    mgr_rep m' [new_file (m_limit m) 1 term next] /\ m_limit m' = m_limit m /\ m_pre_ptr m' = m_pre_ptr m.
Proof.
  intros R Hn. pose proof (rp_limit m [] R) as Hlim.
  unfold switch_new_log. rewrite (rp_logs m [] R). cbn [map last_opt rev close_last app].
  unfold actor_of. cbn [save_logs set_logs m_actors m_disk m_limit g_id new_range].
  fold (new_range 1 term next).
  rewrite (rp_actors m [] R). cbn [amap map lookup]. rewrite (rp_disk m [] R).
  rewrite init_fresh by lia. cbn [res_bind new_range g_id g_start g_pre g_split].
  eexists. split; [reflexivity|]. split; [|split; reflexivity].
  constructor; cbn [set_cur set_actor save_logs set_logs m_logs m_saved m_actors m_disk m_cur m_limit].
  - reflexivity.
  - reflexivity.
  - intros id. rewrite lookup_set_key. cbn [amap map lookup new_file f_id fst snd new_range g_id].
    destruct (id =? 1); [reflexivity|]. rewrite (rp_actors m [] R). reflexivity.
  - intros id. apply lookup_remove_key_none. apply (rp_disk m [] R).
  - constructor; [apply file_ok_fresh; lia|constructor].
  - split; [cbn; auto|]. reflexivity.
  - cbn. split; [constructor|]. left. cbn. lia.
  - reflexivity.
  - exact Hlim.
Qed.

(** rollover: the last file is closed with its record count, a fresh file follows it *)
Lemma switch_rep_snoc m fs g c term :
  mgr_rep m (fs ++ [(g, c)]) ->
  exists m', switch_new_log m (c_end c) term = Ok m' /\
    mgr_rep m' ((fs ++ [close_f (g, c) (c_end c)]) ++ [new_file (m_limit m) (g_id g + 1) term (c_end c)]) /\
    m_limit m' = m_limit m /\ m_pre_ptr m' = m_pre_ptr m.
Proof.
  intros R. pose proof (rp_limit m _ R) as Hlim.
  pose proof (rp_files m _ R) as Hfiles. apply Forall_app in Hfiles. destruct Hfiles as [Hfs Hlast].
  inversion Hlast as [|? ? Hgc _]; subst. destruct Hgc as (W & Hfirst & Hsp & Hle & Hmax & Hcnt).
  pose proof (rep_nodup m _ R) as Hnd.
  pose proof (rp_chain m _ R) as [Hlinks Hopen].
  assert (Hnew_notin : ~ In (g_id g + 1) (map f_id (fs ++ [(g, c)]))).
  { intros Hin. apply in_map_iff in Hin. destruct Hin as (f & Hid & Hin).
    apply in_app_or in Hin. destruct Hin as [Hin|[<-|[]]]; [|unfold f_id in Hid; cbn [fst] in Hid; lia].
    (* ids before the last are smaller *)
    apply in_split in Hin. destruct Hin as (l1 & l2 & ->).
    rewrite <- app_assoc in Hlinks. cbn [app] in Hlinks. apply links_app in Hlinks.
    destruct Hlinks as (_ & Hl2 & _). pose proof (links_ids_lt _ _ Hl2) as Hlt.
    rewrite Forall_forall in Hlt. specialize (Hlt (g, c)). unfold f_id in *. cbn [fst] in *.
    assert (In (g, c) (l2 ++ [(g, c)])) by (apply in_or_app; right; left; reflexivity).
    specialize (Hlt H). lia. }
  unfold switch_new_log. rewrite (rp_logs m _ R).
  assert (Hlast' : last_opt (map fst (fs ++ [(g, c)])) = Some g)
    by (rewrite map_app; cbn [map fst]; apply last_opt_snoc).
  rewrite Hlast', close_last_map.
  fold (new_range (g_id g + 1) term (c_end c)).
  unfold actor_of. cbn [save_logs set_logs m_actors m_disk m_limit].
  change (g_id (new_range (g_id g + 1) term (c_end c))) with (g_id g + 1).
  rewrite (rp_actors m _ R), (lookup_amap_notin _ _ Hnew_notin), (rp_disk m _ R).
  cbn [new_range g_start g_pre g_split].
  rewrite init_fresh by lia. cbn [res_bind].
  eexists. split; [reflexivity|]. split; [|split; reflexivity].
  set (fs' := (fs ++ [close_f (g, c) (c_end c)]) ++ [new_file (m_limit m) (g_id g + 1) term (c_end c)]).
  assert (Hfs' : fs' = (fs ++ [close_f (g, c) (c_end c)]) ++ [new_file (m_limit m) (g_id g + 1) term (c_end c)]) by reflexivity.
  assert (Hfs2 : fs' = fs ++ [close_f (g, c) (c_end c); new_file (m_limit m) (g_id g + 1) term (c_end c)]).
  { subst fs'. rewrite <- app_assoc. reflexivity. }
  constructor; cbn [set_cur set_actor save_logs set_logs m_logs m_saved m_actors m_disk m_cur m_limit].
  - rewrite Hfs', !map_app. reflexivity.
  - reflexivity.
  - intros id. rewrite lookup_set_key. change (g_id (new_range (g_id g + 1) term (c_end c))) with (g_id g + 1).
    rewrite Hfs', lookup_amap_app.
    assert (Hold : lookup id (amap (fs ++ [close_f (g, c) (c_end c)])) = lookup id (amap (fs ++ [(g, c)]))).
    { rewrite !lookup_amap_app. reflexivity. }
    rewrite Hold. destruct (id =? g_id g + 1) eqn:E.
    + apply N.eqb_eq in E. subst id. rewrite (lookup_amap_notin _ _ Hnew_notin).
      cbn [amap map lookup new_file f_id fst snd new_range g_id]. rewrite N.eqb_refl. reflexivity.
    + rewrite (rp_actors m _ R). destruct (lookup id (amap (fs ++ [(g, c)]))); [reflexivity|].
      cbn [amap map lookup new_file f_id fst snd new_range g_id]. rewrite E. reflexivity.
  - intros id. apply lookup_remove_key_none. apply (rp_disk m _ R).
  - rewrite Hfs2. apply Forall_app. split; [exact Hfs|]. constructor; [|constructor; [|constructor]].
    + unfold close_f, file_ok. cbn [fst snd g_start g_split g_close g_count].
      split; [exact W|]. split; [exact Hfirst|]. split; [exact Hsp|]. split; [exact Hle|]. split; [exact Hmax|].
      intros _. unfold c_end. lia.
    + apply file_ok_fresh; lia.
  - split.
    + rewrite Hfs'. apply links_app. split; [|split].
      * (* closing the last range does not disturb the links into it *)
        apply links_app in Hlinks. destruct Hlinks as (H1 & _ & H3). apply links_app. split; [exact H1|].
        split; [cbn; auto|]. revert H3. destruct (@last_opt mfile fs) as [x|]; intros H3; [exact H3|exact I].
      * cbn; auto.
      * rewrite last_opt_snoc. unfold link, close_f, new_file, f_id. cbn [fst snd g_id g_close new_range].
        unfold c_fresh. cbn [c_split]. split; [lia|]. split; [lia|reflexivity].
    + rewrite Hfs', last_opt_snoc. reflexivity.
  - pose proof (rp_ids m _ R) as Hids. rewrite Hfs2. clear Hfs' Hfs2 fs'. destruct fs as [|f0 fs0].
    + cbn [app ids_pos] in *. destruct Hids as [_ Hh]. split.
      * constructor; [cbn; lia|constructor].
      * destruct Hh as [Hh|(f2 & r & Hr & _)]; [left; exact Hh|discriminate].
    + cbn [app ids_pos] in *. destruct Hids as [Hall Hh]. split.
      * apply Forall_app in Hall. destruct Hall as [H1 H2]. apply Forall_app. split; [exact H1|].
        inversion H2; subst. constructor; [exact H3|]. constructor; [cbn; lia|constructor].
      * destruct Hh as [Hh|(f2 & r & Hr & Hid)]; [left; exact Hh|]. right.
        destruct fs0 as [|f1 fs1].
        -- cbn [app] in Hr. inversion Hr; subst. eexists. eexists. split; [reflexivity|]. exact Hid.
        -- cbn [app] in Hr. inversion Hr; subst. eexists. eexists. split; [reflexivity|]. exact Hid.
  - rewrite Hfs', last_id_snoc. reflexivity.
  - exact Hlim.
Qed.

(** * replacing the state of the last (open) file *)
Lemma rep_set_last m (fs : list mfile) g c c' :
  mgr_rep m (fs ++ [(g, c)]) ->
  wfc c' -> c_first c' = c_first c -> c_split c' = c_split c -> c_split c' <= c_end c' -> c_end c' < U64MAX ->
  mgr_rep (set_actor m (g_id g) (conc c')) (fs ++ [(g, c')]).
Proof.
  intros R W' Hf Hs Hle Hmax.
  pose proof (rp_files m _ R) as Hfiles. apply Forall_app in Hfiles. destruct Hfiles as [Hfs Hlast].
  inversion Hlast as [|? ? Hgc _]; subst. destruct Hgc as (W & Hfirst & Hsp & _ & _ & _).
  pose proof (rp_chain m _ R) as [Hlinks Hopen]. rewrite last_opt_snoc in Hopen. cbn [fst] in Hopen.
  pose proof (rep_nodup m _ R) as Hnd.
  constructor; cbn [set_actor m_logs m_saved m_actors m_disk m_cur m_limit].
  - rewrite (rp_logs m _ R), !map_app. reflexivity.
  - apply (rp_saved m _ R).
  - intros id. rewrite lookup_set_key.
    pose proof (lookup_amap_replace fs (g, c) (g, c') [] id eq_refl (nodup_snoc_notin f_id fs (g, c) Hnd)) as HH.
    unfold f_id in HH. cbn [fst snd] in HH.
    transitivity (if id =? g_id g then Some (conc c') else lookup id (amap (fs ++ [(g, c)]))); [|symmetry; exact HH].
    destruct (id =? g_id g); [reflexivity|apply (rp_actors m _ R)].
  - intros id. apply lookup_remove_key_none. apply (rp_disk m _ R).
  - apply Forall_app. split; [exact Hfs|]. constructor; [|constructor].
    unfold file_ok. split; [exact W'|]. split; [congruence|]. split; [congruence|].
    split; [exact Hle|]. split; [exact Hmax|]. intros Hc. congruence.
  - split.
    + apply links_app in Hlinks. destruct Hlinks as (H1 & _ & H3). apply links_app.
      split; [exact H1|]. split; [cbn; auto|]. revert H3. destruct (@last_opt mfile fs) as [x|]; intros H3; [|exact I].
      unfold link in *. cbn [snd fst] in *. unfold f_id in *. cbn [fst] in *. rewrite Hs. exact H3.
    + rewrite last_opt_snoc. exact Hopen.
  - pose proof (rp_ids m _ R) as Hids. destruct fs as [|f0 fs0]; cbn [app ids_pos] in *.
    + exact Hids.
    + destruct Hids as [Hall Hh]. split.
      * apply Forall_app in Hall. destruct Hall as [H1 H2]. apply Forall_app. split; [exact H1|].
        inversion H2; subst. constructor; [exact H3|constructor].
      * destruct Hh as [Hh|(f2 & r & Hr & Hid)]; [left; exact Hh|right].
        destruct fs0 as [|f1 fs1]; cbn [app] in Hr; inversion Hr; subst; eexists; eexists; (split; [reflexivity|exact Hid]).
  - rewrite (rp_cur m _ R), !last_id_snoc. reflexivity.
  - apply (rp_limit m _ R).
Qed.

Lemma vis_push c c' x :
  c_first c' = c_first c -> c_split c' = c_split c -> c_all c' = c_all c ++ [x] ->
  c_first c <= c_split c -> c_split c <= c_end c -> vis c' = vis c ++ [x].
Proof.
  intros Hf Hs Ha H1 H2. unfold vis. rewrite Hf, Hs, Ha, skipn_app.
  replace (N.to_nat (c_split c - c_first c) - length (c_all c))%nat with 0%nat by (unfold c_end, nlen in H2; lia).
  reflexivity.
Qed.

Lemma files_first_snoc (fs : list mfile) g c c' :
  c_split c' = c_split c -> files_first (fs ++ [(g, c')]) = files_first (fs ++ [(g, c)]).
Proof. intros H. destruct fs; cbn [app files_first snd]; congruence. Qed.

Lemma files_first_app_ne (fs : list mfile) f l : files_first ((fs ++ [f]) ++ l) = files_first (fs ++ [f]).
Proof. destruct fs; reflexivity. Qed.

Lemma files_end_snoc (fs : list mfile) f : files_end (fs ++ [f]) = Some (c_end (snd f)).
Proof. unfold files_end. rewrite last_opt_snoc. reflexivity. Qed.

Definition floor_pres (fs fs' : list mfile) : Prop := forall fl, floor_ok fl fs -> floor_ok fl fs'.

Lemma floor_ok_last_same fl (fs : list mfile) g c g' c' :
  floor_ok fl (fs ++ [(g, c)]) -> g_id g' = g_id g -> c_first c' = c_first c -> c_split c' = c_split c ->
  (fs = [] -> g_id g <> 0) -> floor_ok fl (fs ++ [(g', c')]).
Proof.
  intros [Hall Hhd] Hid Hf Hs Hne. split.
  - apply Forall_app in Hall. destruct Hall as [H1 H2]. apply Forall_app. split; [exact H1|].
    inversion H2; subst. constructor; [|constructor]. cbn [snd] in *. rewrite Hf, Hs. assumption.
  - destruct fs as [|f0 fs0]; cbn [app] in *.
    + unfold f_id. cbn [fst]. intros E. exfalso. apply (Hne eq_refl). congruence.
    + exact Hhd.
Qed.

Lemma floor_ok_snoc_fresh fl (fs : list mfile) f limit id term next :
  floor_ok fl (fs ++ [f]) -> floor_ok fl ((fs ++ [f]) ++ [new_file limit id term next]).
Proof.
  intros [Hall Hhd]. split.
  - apply Forall_app. split; [exact Hall|]. constructor; [|constructor].
    unfold new_file, c_fresh. cbn [snd c_first c_split]. lia.
  - destruct fs; exact Hhd.
Qed.

Lemma rep_single_id m g c : mgr_rep m [(g, c)] -> g_id g <> 0.
Proof.
  intros R. pose proof (rp_ids m _ R) as H. cbn [ids_pos] in H. destruct H as [_ [H|(f2 & r & Hr & _)]].
  - unfold f_id in H. cbn [fst] in H. lia.
  - discriminate.
Qed.

Definition write_post (fs fs' : list mfile) (e : N) (x : lrec) (r : wres) : Prop :=
  match r with
  | WOk => r_index x = e /\ files_vis fs' = files_vis fs ++ [x] /\ files_first fs' = files_first fs
  | WErrIndex => r_index x <> e /\ files_vis fs' = files_vis fs /\ files_first fs' = files_first fs
  | WErr => False
  end.

(** writing into a last file that is not full *)
Lemma mgr_write_notfull m (fs : list mfile) g c x fuel can :
  mgr_rep m (fs ++ [(g, c)]) -> is_full (conc c) = false ->
  rec_ok x -> rec_nonempty x -> r_index x + 1 < U64MAX ->
  exists m' fs' r, mgr_write (S fuel) m x can = (m', r) /\ mgr_rep m' fs' /\
    m_limit m' = m_limit m /\ m_pre_ptr m' = m_pre_ptr m /\
    write_post (fs ++ [(g, c)]) fs' (c_end c) x r /\ floor_pres (fs ++ [(g, c)]) fs'.
Proof.
  intros R Hnf Hok Hne Hidx.
  assert (Hid0 : fs = [] -> g_id g <> 0) by (intros ->; apply (rep_single_id m g c R)).
  pose proof (rp_files m _ R) as Hfiles. apply Forall_app in Hfiles. destruct Hfiles as [Hfs Hlast].
  inversion Hlast as [|? ? Hgc _]; subst. destruct Hgc as (W & Hfirst & Hsp & Hle & Hmax & _).
  cbn [mgr_write]. rewrite (rp_cur m _ R), last_id_snoc.
  unfold cur_actor. rewrite (rp_cur m _ R), last_id_snoc. unfold f_id. cbn [fst].
  assert (Hact : lookup (g_id g) (m_actors m) = Some (conc c)).
  { apply (rep_actor m _ (g, c) R). apply in_or_app. right. left. reflexivity. }
  rewrite Hact.
  destruct (write_step c x W Hok Hne) as (c' & mk & Hw & W' & Hsp' & Hf' & Hmk). rewrite Hw.
  rewrite abs_end in Hmk. fold (c_end c) in Hmk.
  destruct mk.
  - (* Success *)
    destruct Hmk as [Hi Hall].
    assert (Hend' : c_end c' = c_end c + 1).
    { unfold c_end. rewrite Hf', Hall, nlen_app. unfold nlen. cbn [length]. lia. }
    eexists. exists (fs ++ [(g, c')]), WOk. split; [reflexivity|].
    split; [apply (rep_set_last m fs g c c' R W' Hf' Hsp'); lia|].
    split; [reflexivity|]. split; [reflexivity|].
    split; [|intros fl Hfl; apply (floor_ok_last_same fl fs g c g c' Hfl eq_refl Hf' Hsp' Hid0)].
    split; [exact Hi|]. split.
    + rewrite !files_vis_app, !files_vis_one. cbn [snd]. rewrite <- app_assoc. f_equal.
      apply vis_push; try assumption. apply (wf_split c W).
    + apply files_first_snoc. exact Hsp'.
  - (* SuccessToEnd: the file is closed and a new one started *)
    destruct Hmk as [Hi Hall].
    assert (Hend' : c_end c' = c_end c + 1).
    { unfold c_end. rewrite Hf', Hall, nlen_app. unfold nlen. cbn [length]. lia. }
    assert (R' : mgr_rep (set_actor m (g_id g) (conc c')) (fs ++ [(g, c')]))
      by (apply (rep_set_last m fs g c c' R W' Hf' Hsp'); lia).
    destruct (switch_rep_snoc _ fs g c' (l_lterm (conc c')) R') as (m3 & Hsw & R3 & Hl3 & Hp3).
    change (end_index (conc c')) with (c_end c'). rewrite Hsw.
    eexists. eexists. exists WOk. split; [reflexivity|]. split; [exact R3|].
    split; [exact Hl3|]. split; [exact Hp3|].
    split; [|intros fl Hfl; apply floor_ok_snoc_fresh; unfold close_f; cbn [fst snd];
             eapply floor_ok_last_same; [exact Hfl|reflexivity|exact Hf'|exact Hsp'|exact Hid0]].
    split; [exact Hi|]. split.
    + rewrite !files_vis_app, !files_vis_one. unfold close_f, new_file. cbn [snd].
      rewrite vis_fresh, app_nil_r, <- app_assoc. f_equal.
      apply vis_push; try assumption. apply (wf_split c W).
    + rewrite files_first_app_ne. unfold close_f. cbn [fst snd].
      destruct fs; cbn [app files_first snd]; congruence.
  - (* Failure: excluded *)
    destruct Hmk as [_ Hfull]. congruence.
  - (* IndexEqualError *)
    destruct Hmk as [Hi ->].
    eexists. exists (fs ++ [(g, c)]), WErrIndex. split; [reflexivity|].
    split; [apply (rep_set_last m fs g c c R W); auto|].
    split; [reflexivity|]. split; [reflexivity|]. split; [|intros fl Hfl; exact Hfl].
    split; [exact Hi|]. split; reflexivity.
Qed.

Lemma fresh_not_full limit next term sp : HDR_LEN + 10 < limit -> is_full (conc (c_fresh limit next term sp)) = false.
Proof.
  intros H. unfold is_full, conc, c_fresh, c_file, c_dcur, c_all.
  cbn [l_file l_icur l_dcur f_hdr h_data_area c_da c_blocks c_part c_first concat app ienc map].
  rewrite frl_nil. unfold nlen. cbn [length]. unfold HDR_LEN, DATA_MAX, DATA0 in *.
  apply Bool.orb_false_iff. split; lia.
Qed.

(** * mgr_write *)
Theorem mgr_write_rep m (fs : list mfile) x :
  mgr_rep m fs -> rec_ok x -> rec_nonempty x -> r_index x + 1 < U64MAX ->
  exists m' fs' r, mgr_write 3 m x true = (m', r) /\ mgr_rep m' fs' /\
    m_limit m' = m_limit m /\ m_pre_ptr m' = m_pre_ptr m /\
    match files_end fs with
    | Some e => write_post fs fs' e x r
    | None => r = WOk /\ files_vis fs' = [x] /\ files_first fs' = Some (r_index x)
    end /\ floor_pres fs fs'.
Proof.
  intros R Hok Hne Hidx. pose proof (rp_limit m _ R) as Hlim.
  assert (Hl42 : HDR_LEN + 10 < m_limit m) by lia.
  destruct (list_snoc_cases fs) as [->|(fs0 & [g c] & ->)].
  - (* the very first record: a log file is started at its index *)
    cbn [mgr_write]. rewrite (rp_cur m _ R). cbn [last_id last_opt rev].
    destruct (switch_rep_nil m (r_index x) (r_term x) R ltac:(lia)) as (m1 & Hsw & R1 & Hl1 & Hp1).
    rewrite Hsw.
    pose proof (mgr_write_notfull m1 [] _ _ x 2 true R1 (fresh_not_full (m_limit m) _ _ _ Hl42) Hok Hne Hidx)
      as (m' & fs' & r & Hwr & R' & Hl' & Hp' & Hpost & Hflo).
    cbn [mgr_write] in Hwr. rewrite (rp_cur m1 _ R1) in Hwr. cbn [app last_id last_opt rev new_file f_id fst] in Hwr.
    rewrite Hwr. exists m', fs', r. split; [reflexivity|]. split; [exact R'|].
    split; [congruence|]. split; [congruence|].
    split; [|intros fl _; apply Hflo; split; [constructor; [unfold new_file, c_fresh; cbn [snd c_first c_split]; lia|constructor]|
                                            unfold new_file, f_id; cbn [fst new_range g_id]; intros E; discriminate]].
    unfold files_end. cbn [last_opt rev].
    rewrite c_end_fresh in Hpost. destruct r; cbn [write_post] in Hpost.
    + destruct Hpost as (_ & Hv & Hf). split; [reflexivity|]. split.
      * rewrite Hv. cbn [app]. rewrite files_vis_one. cbn [snd new_file]. rewrite vis_fresh. reflexivity.
      * rewrite Hf. cbn [app files_first new_file snd c_fresh c_split]. f_equal. lia.
    + destruct Hpost as (Hneq & _). congruence.
    + contradiction.
  - rewrite files_end_snoc. cbn [snd].
    destruct (is_full (conc c)) eqn:Efull.
    + (* the current file is full: rollover, then the record goes to the fresh file *)
      pose proof (rp_files m _ R) as Hfiles. apply Forall_app in Hfiles. destruct Hfiles as [Hfs Hlast].
      inversion Hlast as [|? ? Hgc _]; subst. destruct Hgc as (W & Hfirst & Hsp & Hle & Hmax & _).
      remember 2%nat as two eqn:Htwo.
      cbn [mgr_write]. rewrite (rp_cur m _ R), last_id_snoc.
      unfold cur_actor. rewrite (rp_cur m _ R), last_id_snoc. unfold f_id. cbn [fst].
      assert (Hact : lookup (g_id g) (m_actors m) = Some (conc c)).
      { apply (rep_actor m _ (g, c) R). apply in_or_app. right. left. reflexivity. }
      rewrite Hact.
      assert (Hwf : write (conc c) x = (conc c, WFailure)) by (unfold write; rewrite Efull; reflexivity).
      rewrite Hwf.
      assert (R0 : mgr_rep (set_actor m (g_id g) (conc c)) (fs0 ++ [(g, c)]))
        by (apply (rep_set_last m fs0 g c c R W); auto).
      destruct (switch_rep_snoc _ fs0 g c (l_lterm (conc c)) R0) as (m3 & Hsw & R3 & Hl3 & Hp3).
      change (end_index (conc c)) with (c_end c). rewrite Hsw.
      cbn [set_actor m_limit] in R3.
      pose proof (mgr_write_notfull m3 _ _ _ x 1 false R3 (fresh_not_full (m_limit m) _ _ _ Hl42) Hok Hne Hidx)
        as (m' & fs' & r & Hwr & R' & Hl' & Hp' & Hpost & Hflo).
      subst two. rewrite Hwr. exists m', fs', r. split; [reflexivity|]. split; [exact R'|].
      split; [cbn [set_actor m_limit] in *; congruence|]. split; [cbn [set_actor m_pre_ptr] in *; congruence|].
      split; [|intros fl Hfl; apply Hflo; apply floor_ok_snoc_fresh; unfold close_f; cbn [fst snd];
               eapply floor_ok_last_same; [exact Hfl|reflexivity|reflexivity|reflexivity|];
               intros ->; apply (rep_single_id m g c R)].
      rewrite c_end_fresh in Hpost. unfold new_file in *. cbn [set_actor m_limit] in *.
      assert (Hv0 : files_vis ((fs0 ++ [close_f (g, c) (c_end c)]) ++ [new_file (m_limit m) (g_id g + 1) (l_lterm (conc c)) (c_end c)])
                    = files_vis (fs0 ++ [(g, c)])).
      { rewrite !files_vis_app, !files_vis_one. unfold new_file, close_f. cbn [snd]. rewrite vis_fresh, app_nil_r. reflexivity. }
      assert (Hf0 : files_first ((fs0 ++ [close_f (g, c) (c_end c)]) ++ [new_file (m_limit m) (g_id g + 1) (l_lterm (conc c)) (c_end c)])
                    = files_first (fs0 ++ [(g, c)])).
      { rewrite files_first_app_ne. destruct fs0; reflexivity. }
      destruct r; cbn [write_post] in *; [| |contradiction]; destruct Hpost as (A & B & C).
      * split; [exact A|split; [rewrite B; f_equal; exact Hv0|rewrite C; exact Hf0]].
      * split; [exact A|split; [rewrite B; exact Hv0|rewrite C; exact Hf0]].
    + destruct (mgr_write_notfull m fs0 g c x 2 true R Efull Hok Hne Hidx)
        as (m' & fs' & r & Hwr & R' & Hl' & Hp' & Hpost & Hflo).
      exists m', fs', r. repeat (split; [assumption|]). exact Hflo.
Qed.
