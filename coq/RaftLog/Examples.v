(** The hypotheses of the C02/C03 theorems are satisfiable by non-trivial states: a log file that
    went through 130 appends (one index entry), a truncation across the index boundary, 31
    re-appends and a reopen satisfies the representation invariant. *)
From RN Require Import Base.Res Codec.Varint Codec.BufReader
  RaftLog.LogFile RaftLog.Spec RaftLog.Layout RaftLog.RecordProofs RaftLog.InitProofs
  RaftLog.Refine RaftLog.Corollaries.
From Coq Require Import ZifyBool ZifyNat ZifyN.
Local Open Scope N_scope.

Definition ex_rec (term : N) (i : nat) : lrec := mkRec (1 + N.of_nat i) term [7; N.of_nat i mod 256; 0].
Definition ex_ops : list fop :=
  map (fun i => FAppend (ex_rec 1 i)) (seq 0 130) ++ [FTruncate 101] ++
  map (fun i => FAppend (ex_rec 2 i)) (seq 100 31) ++ [FReopen 0 0].

Lemma ex_rec_ok t i : t < 2 ^ 64 -> (i < 1000)%nat -> rec_ok (ex_rec t i) /\ rec_nonempty (ex_rec t i).
Proof.
  intros Ht Hi. assert (P62 : 2 ^ 62 = 4611686018427387904) by (vm_compute; reflexivity).
  assert (P64 : 2 ^ 64 = 18446744073709551616) by (vm_compute; reflexivity).
  split.
  - unfold rec_ok, ex_rec. cbn [r_index r_term r_value length]. repeat split; try lia.
    repeat constructor; unfold is_byte; lia.
  - left. unfold ex_rec. cbn [r_index]. lia.
Qed.

Lemma ex_ops_ok : Forall (fop_ok 1) ex_ops.
Proof.
  assert (H64 : 2 < 2 ^ 64) by (vm_compute; reflexivity).
  unfold ex_ops. repeat (apply Forall_app; split).
  - apply Forall_forall. intros op Hin. apply in_map_iff in Hin. destruct Hin as (i & <- & Hi).
    apply in_seq in Hi. apply ex_rec_ok; lia.
  - constructor; [cbn [fop_ok]; lia|constructor].
  - apply Forall_forall. intros op Hin. apply in_map_iff in Hin. destruct Hin as (i & <- & Hi).
    apply in_seq in Hi. apply ex_rec_ok; lia.
  - constructor; [exact I|constructor].
Qed.

Example rep_example : exists s st,
  RepS s st /\ a_first (fst st) = 1 /\ a_len (fst st) = 131 /\ a_last (fst st) 0 = (131, 2).
Proof.
  assert (Hl : 4096 <= 4096) by lia.
  destruct (fresh_rep 4096 1 0 0 Hl) as [_ HR].
  pose proof (logfile_refines_alog ex_ops _ _ HR ex_ops_ok) as H.
  destruct (frun (conc (c_fresh 4096 1 0 0)) ex_ops) as [s outs] eqn:E.
  destruct H as [_ HR'].
  exists s, (aruns (a_empty 1, N.max 0 1) ex_ops outs). split; [exact HR'|].
  assert (Eo : outs = snd (frun (conc (c_fresh 4096 1 0 0)) ex_ops)) by (rewrite E; reflexivity).
  rewrite Eo. vm_compute. auto.
Qed.
