(** Lemmas about the sparse file primitives of LogFile.v and about list layout helpers. *)
From RN Require Import Base.Res Codec.Varint Codec.BufReader RaftLog.LogFile RaftLog.Spec RaftLog.Layout.
From Coq Require Import ZifyBool ZifyNat ZifyN.
Local Open Scope N_scope.
Ltac Zify.zify_post_hook ::= Z.div_mod_to_equations.

Lemma nlen_app {A} (a b : list A) : nlen (a ++ b) = nlen a + nlen b.
Proof. unfold nlen. rewrite app_length. lia. Qed.

Lemma nlen_nil {A} : nlen (@nil A) = 0.
Proof. reflexivity. Qed.

Lemma nlen_cons {A} (x : A) l : nlen (x :: l) = 1 + nlen l.
Proof. unfold nlen. cbn [length]. lia. Qed.

Lemma fr_app a b : fr (a ++ b) = fr a ++ fr b.
Proof. unfold fr. rewrite map_app, concat_app. reflexivity. Qed.

Lemma fr_nil : fr [] = [].
Proof. reflexivity. Qed.

Lemma fr_cons x l : fr (x :: l) = rec_frame x ++ fr l.
Proof. reflexivity. Qed.

Lemma fr_one x : fr [x] = rec_frame x.
Proof. unfold fr. cbn [map concat]. apply app_nil_r. Qed.

Lemma frl_app a b : frl (a ++ b) = frl a + frl b.
Proof. unfold frl. rewrite fr_app. apply nlen_app. Qed.

Lemma frl_nil : frl [] = 0.
Proof. reflexivity. Qed.

Lemma frl_one x : frl [x] = nlen (rec_frame x).
Proof. unfold frl. rewrite fr_one. reflexivity. Qed.

Lemma fr_concat bs : fr (concat bs) = concat (map fr bs).
Proof.
  induction bs as [|b bs IH]; [reflexivity|].
  cbn [concat map]. rewrite fr_app, IH. reflexivity.
Qed.

(** * write_at *)
Lemma skipn_repeat {A} (x : A) n k : skipn k (repeat x n) = repeat x (n - k).
Proof.
  revert n. induction k as [|k IH]; intros n.
  - rewrite Nat.sub_0_r. reflexivity.
  - destruct n as [|n]; [reflexivity|]. cbn [repeat skipn]. rewrite IH. reflexivity.
Qed.

(** writing inside or at the end of the written bytes: prefix kept, bytes replaced, rest kept *)
Lemma write_at_spec a m t bs :
  length m = length bs -> write_at (a ++ m ++ t) (length a) bs = a ++ bs ++ t.
Proof.
  intros Hm. induction a as [|x a IH]; cbn [length app write_at].
  - f_equal. rewrite <- Hm, skipn_app, skipn_all, Nat.sub_diag. reflexivity.
  - rewrite IH. reflexivity.
Qed.

Lemma write_at_end l bs : write_at l (length l) bs = l ++ bs.
Proof.
  induction l as [|x l IH]; cbn [length write_at app].
  - rewrite skipn_nil, app_nil_r. reflexivity.
  - rewrite IH. reflexivity.
Qed.

(** writing over the start of a run of zeros *)
Lemma write_at_zeros a z bs :
  write_at (a ++ repeat 0 z) (length a) bs = a ++ bs ++ repeat 0 (z - length bs).
Proof.
  induction a as [|x a IH]; cbn [length app write_at].
  - rewrite skipn_repeat. reflexivity.
  - rewrite IH. reflexivity.
Qed.

(** writing beyond the prefix leaves the prefix alone *)
Lemma firstn_write_at l off bs : (off <= length l)%nat -> firstn off (write_at l off bs) = firstn off l.
Proof.
  revert l. induction off as [|o IH]; intros l H; [reflexivity|].
  destruct l as [|x l]; [cbn [length] in H; lia|]. cbn [write_at firstn]. rewrite IH; [reflexivity|].
  cbn [length] in H. lia.
Qed.

Lemma write_at_length l off bs : (off <= length l)%nat ->
  length (write_at l off bs) = Nat.max (length l) (off + length bs).
Proof.
  revert l. induction off as [|o IH]; intros l H.
  - cbn [write_at]. rewrite app_length, skipn_length. lia.
  - destruct l as [|x l]; [cbn [length] in H; lia|]. cbn [write_at length]. rewrite IH by (cbn [length] in H; lia). lia.
Qed.

(** * blocks *)
Lemma concat_blocks_length (bs : list (list lrec)) :
  Forall (fun b => length b = 128%nat) bs -> nlen (concat bs) = 128 * nlen bs.
Proof.
  induction 1 as [|b bs Hb _ IH]; [reflexivity|].
  cbn [concat]. rewrite nlen_app, nlen_cons, IH. unfold nlen at 1. rewrite Hb. lia.
Qed.

Lemma ixs_from_app li fi a b :
  ixs_from li fi (a ++ b) =
  ixs_from li fi a ++ ixs_from (li + 128 * nlen a) (fi + frl (concat a)) b.
Proof.
  revert li fi. induction a as [|x a IH]; intros li fi.
  - cbn [app ixs_from concat]. rewrite frl_nil. unfold nlen. cbn [length]. f_equal; lia.
  - cbn [app ixs_from concat]. rewrite IH. rewrite frl_app, nlen_cons.
    replace (li + 128 + 128 * nlen a) with (li + 128 * (1 + nlen a)) by lia.
    replace (fi + frl x + frl (concat a)) with (fi + (frl x + frl (concat a))) by lia.
    reflexivity.
Qed.

Lemma last_ixs_of first blocks d :
  last (ixs_of first blocks) d = (first + 128 * nlen blocks, DATA0 + frl (concat blocks)).
Proof.
  unfold ixs_of. destruct blocks as [|b bs] using rev_ind.
  - cbn [ixs_from last concat]. rewrite frl_nil. unfold nlen. cbn [length]. f_equal; lia.
  - rewrite ixs_from_app. cbn [ixs_from].
    rewrite app_comm_cons, last_last. rewrite concat_app, frl_app, nlen_app, nlen_cons.
    cbn [concat]. rewrite app_nil_r. unfold nlen. cbn [length]. f_equal; lia.
Qed.

Lemma ienc_app a b : ienc (a ++ b) = ienc a ++ ienc b.
Proof. unfold ienc. rewrite map_app, concat_app. reflexivity. Qed.

Lemma ienc_one b : ienc [b] = write_varint (frl b).
Proof. unfold ienc. cbn [map concat]. apply app_nil_r. Qed.

Lemma ixs_of_snoc first blocks b :
  ixs_of first (blocks ++ [b]) =
  ixs_of first blocks ++ [(first + 128 * nlen blocks + 128, DATA0 + frl (concat blocks) + frl b)].
Proof.
  unfold ixs_of. rewrite ixs_from_app. cbn [ixs_from]. reflexivity.
Qed.

Lemma ixs_of_length first blocks : length (ixs_of first blocks) = S (length blocks).
Proof.
  unfold ixs_of. cbn [length]. f_equal. generalize first DATA0.
  induction blocks as [|b bs IH]; intros li fi; [reflexivity|]. cbn [ixs_from length]. rewrite IH. reflexivity.
Qed.

Lemma lim_ext (a b : lim) :
  l_file a = l_file b -> l_indexs a = l_indexs b -> l_start a = l_start b -> l_icur a = l_icur b ->
  l_flen a = l_flen b -> l_dcur a = l_dcur b -> l_cnt a = l_cnt b -> l_lterm a = l_lterm b ->
  l_cic a = l_cic b -> l_seek a = l_seek b -> l_dpos a = l_dpos b -> l_split a = l_split b -> a = b.
Proof. destruct a, b. cbn. intros. subst. reflexivity. Qed.
