(** crash_safe_log_append: every prefix of the journal of every history of appends to a log file
    reopens (repaired init), and the log read back consists of exactly the records whose data
    write is in the prefix: contiguous, only submitted records, nothing written is missing.
    The interesting image: the data write that completes an index block has reached the file,
    its index entry has not.  init finds all records behind the older entry and writes the
    missing entry (rebuild_index), which makes the file canonical again. *)
From RN Require Import Base.Res Codec.Varint Codec.BufReader RaftLog.LogFile RaftLog.Spec RaftLog.Layout
  RaftLog.FileProofs RaftLog.RecordProofs RaftLog.ScanFileProofs RaftLog.WriteProofs RaftLog.InitProofs
  RaftLog.LogCrash.
From Coq Require Import ZifyBool ZifyNat ZifyN.
Local Open Scope N_scope.
Ltac Zify.zify_post_hook ::= Z.div_mod_to_equations.

Lemma apply_lmuts_app f a b : apply_lmuts f (a ++ b) = apply_lmuts (apply_lmuts f a) b.
Proof. unfold apply_lmuts. apply fold_left_app. Qed.

Lemma data_writes_app a b : data_writes (a ++ b) = (data_writes a + data_writes b)%nat.
Proof. induction a as [|m a IH]; [reflexivity|]. destruct m; cbn [app data_writes]; rewrite IH; reflexivity. Qed.

(** * init in two stages: on a canonical file the first stage is known *)
Lemma init_stage c limit pre split :
  wfc c ->
  init (Some (c_file c)) limit (c_first c) pre split =
  init_finish (c_file c) (ixs_of (c_first c) (c_blocks c)) (HDR_LEN + nlen (ienc (c_blocks c))) (c_flen c)
              (c_dcur c) (nlen (c_all c)) (c_first c) pre split.
Proof.
  intros W. unfold init. cbn [c_file f_hdr h_interval].
  fold (c_file c). rewrite (read_indexs_conc c W). cbn [res_bind f_len c_file].
  fold (c_file c).
  unfold move_to_end, move_to_index_by_count, last_ix. rewrite last_ixs_of. cbn [fst snd].
  pose proof (concat_blocks_length _ (wf_blocks c W)) as Hcb.
  destruct (c_first c + 128 * nlen (c_blocks c) <? c_first c) eqn:E1; [lia|].
  replace (65535 =? 0) with false by reflexivity.
  pose proof (wf_part c W) as Hpart.
  rewrite (scan_file_to_end c (concat (c_blocks c)) (c_part c) 65535); [|exact W|reflexivity|unfold nlen; lia].
  cbn [res_bind].
  rewrite rebuild_index_noop
    by (unfold last_ix; rewrite last_ixs_of; cbn [fst c_file f_hdr h_interval]; unfold nlen in *; lia).
  cbn [res_bind].
  replace (c_first c + 128 * nlen (c_blocks c) - c_first c + nlen (c_part c)) with (nlen (c_all c))
    by (unfold c_all; rewrite nlen_app, Hcb; lia).
  f_equal. lia.
Qed.

(** * the images inside one write *)
Definition c_grow (c : cst) (x : lrec) : cst :=
  mkCst (c_first c) (c_blocks c) (c_part c) (c_z c)
        (if c_flen c <=? c_dcur c + nlen (rec_frame x) then c_flen c + N.max (nlen (rec_frame x)) BUF_SIZE
         else c_flen c)
        (c_hterm c) (c_da c) (c_lterm c) (c_seek c) (c_dpos c) (c_split c).

Lemma wfc_grow c x : wfc c -> wfc (c_grow c x).
Proof.
  intros W. destruct W. constructor;
    cbn [c_grow c_blocks c_part c_first c_z c_flen c_da c_seek c_dpos c_split]; try assumption.
  change (c_dcur (c_grow c x)) with (c_dcur c).
  destruct (c_flen c <=? c_dcur c + nlen (rec_frame x)); lia.
Qed.

(** data written, index entry (if any) not yet: the data and length of the pushed state, the
    index area of the old one *)
Definition lag_file (c : cst) (x : lrec) : lfile :=
  mkFile (f_hdr (c_file (c_push c x))) (f_idx (c_file c)) (f_data (c_file (c_push c x)))
         (f_len (c_file (c_push c x))).

Definition completes (c : cst) (x : lrec) : bool := (length (c_part c ++ [x]) =? 128)%nat.

(** journal of an accepted write at the level of the canonical state *)
Definition wj (c : cst) (x : lrec) : list lmut :=
  (if c_flen c <=? c_dcur c + nlen (rec_frame x)
   then [LSetLen (c_flen c + N.max (nlen (rec_frame x)) BUF_SIZE)] else []) ++
  [LData (c_dcur c) (rec_frame x)] ++
  (if completes c x
   then [LIdx (HDR_LEN + nlen (ienc (c_blocks c))) (write_varint (frl (c_part c ++ [x])))] else []).

Definition writable (c : cst) (x : lrec) : Prop :=
  is_full (conc c) = false /\ r_index x = c_first c + nlen (c_all c) /\ rec_ok x /\ rec_nonempty x.

Lemma not_full_bounds c : is_full (conc c) = false ->
  c_dcur c < DATA_MAX /\ HDR_LEN + nlen (ienc (c_blocks c)) + 10 < c_da c.
Proof.
  intros Hfull. unfold is_full, conc in Hfull. cbn [l_file l_icur l_dcur c_file f_hdr h_data_area] in Hfull.
  apply Bool.orb_false_iff in Hfull. destruct Hfull as [H1 H2]. unfold DATA_MAX in *. lia.
Qed.

Lemma write_journal_conc c x : wfc c -> writable c x -> write_journal (conc c) x = wj c x.
Proof.
  intros W (Hfull & Hidx & Hok & Hne). unfold write_journal. rewrite Hfull.
  unfold end_index. cbn [conc l_start l_cnt l_flen l_dcur l_seek l_dpos l_cic l_file l_icur l_indexs c_file f_hdr h_interval].
  destruct (c_first c + nlen (c_all c) =? r_index x) eqn:E; [|lia]. cbn [negb].
  assert (Hpos : (if c_seek c then c_dcur c else c_dpos c) = c_dcur c).
  { destruct (c_seek c) eqn:Es; [reflexivity|]. apply (wf_pos c W Es). }
  rewrite Hpos.
  unfold last_ix. rewrite last_ixs_of. cbn [snd].
  assert (Hd : c_dcur c + N.of_nat (length (rec_frame x)) - (DATA0 + frl (concat (c_blocks c))) = frl (c_part c ++ [x])).
  { unfold c_dcur, c_all. rewrite !frl_app, frl_one. unfold nlen. lia. }
  rewrite Hd.
  assert (Hc : (nlen (c_part c) + 1 =? 128) = completes c x).
  { unfold completes. rewrite app_length. cbn [length]. unfold nlen.
    destruct (N.of_nat (length (c_part c)) + 1 =? 128) eqn:E1;
      destruct (length (c_part c) + 1 =? 128)%nat eqn:E2; try reflexivity; lia. }
  rewrite Hc. unfold wj. fold (nlen (rec_frame x)). reflexivity.
Qed.

(** the file after each prefix of the journal of one write *)
Lemma file_after_grow c x : wfc c ->
  apply_lmuts (Some (c_file c))
    (if c_flen c <=? c_dcur c + nlen (rec_frame x)
     then [LSetLen (c_flen c + N.max (nlen (rec_frame x)) BUF_SIZE)] else [])
  = Some (c_file (c_grow c x)).
Proof.
  intros W. pose proof (wf_flen c W) as Hfl.
  unfold c_file at 2. cbn [c_grow c_first c_blocks c_part c_z c_flen c_hterm c_da].
  change (c_all (c_grow c x)) with (c_all c).
  destruct (c_flen c <=? c_dcur c + nlen (rec_frame x)) eqn:E; [|reflexivity].
  cbn [apply_lmuts fold_left apply_lmut]. f_equal.
  rewrite file_set_len_grow; [reflexivity|]. cbn [c_file f_data]. unfold c_dcur, frl in *. lia.
Qed.

Lemma grown_len c x : wfc c -> c_dcur c + nlen (rec_frame x) < c_flen (c_grow c x).
Proof.
  intros W. pose proof (wf_flen c W). cbn [c_grow c_flen].
  destruct (c_flen c <=? c_dcur c + nlen (rec_frame x)) eqn:E; lia.
Qed.

Lemma file_after_data c x : wfc c ->
  data_write (c_file (c_grow c x)) (c_dcur c) (rec_frame x) = lag_file c x.
Proof.
  intros W. pose proof (grown_len c x W) as Hg.
  unfold data_write, lag_file. cbn [c_file f_hdr f_idx f_data f_len c_grow c_first c_blocks c_part c_z c_flen c_hterm c_da].
  change (c_all (c_grow c x)) with (c_all c).
  cbn [c_push c_first c_hterm c_da c_flen].
  rewrite c_all_push.
  replace (N.to_nat (c_dcur c - DATA0)) with (length (fr (c_all c))) by (unfold c_dcur, frl, nlen; lia).
  rewrite write_at_end.
  replace (fr (c_all c) ++ rec_frame x) with (fr (c_all c ++ [x])) by (rewrite fr_app, fr_one; reflexivity).
  cbn [c_grow c_flen] in Hg.
  f_equal. unfold nlen in *.
  destruct (c_flen c <=? c_dcur c + N.of_nat (length (rec_frame x))) eqn:E; lia.
Qed.

Lemma lag_is_push c x : completes c x = false -> lag_file c x = c_file (c_push c x).
Proof.
  intros H. unfold lag_file, c_file. unfold completes in H.
  cbn [f_hdr f_idx f_data f_len c_push c_blocks c_z c_first c_hterm c_da c_flen]. rewrite H. reflexivity.
Qed.

Lemma file_after_idx c x : wfc c -> writable c x -> completes c x = true ->
  idx_write (lag_file c x) (HDR_LEN + nlen (ienc (c_blocks c))) (write_varint (frl (c_part c ++ [x])))
  = c_file (c_push c x).
Proof.
  intros W Hwr Hc. unfold idx_write, lag_file. cbn [f_hdr f_idx f_data f_len].
  unfold c_file at 5. unfold completes in Hc.
  cbn [c_push c_blocks c_z c_first c_hterm c_da c_flen c_file f_hdr f_idx f_data f_len]. rewrite Hc.
  f_equal.
  replace (N.to_nat (HDR_LEN + nlen (ienc (c_blocks c)) - HDR_LEN)) with (length (ienc (c_blocks c)))
    by (unfold nlen; lia).
  rewrite write_at_zeros, ienc_app, ienc_one, <- app_assoc. reflexivity.
Qed.

(** * the lagging image reopens like the canonical file *)
Lemma c_all_push_blocks c x : completes c x = true ->
  c_all (c_push c x) = concat (c_blocks c) ++ (c_part c ++ [x]) /\
  c_blocks (c_push c x) = c_blocks c ++ [c_part c ++ [x]] /\ c_part (c_push c x) = [].
Proof.
  intros Hc. unfold completes in Hc. unfold c_all. cbn [c_push c_blocks c_part]. rewrite Hc.
  rewrite concat_app. cbn [concat]. rewrite !app_nil_r. auto.
Qed.

Lemma init_lag c x limit pre split :
  wfc c -> writable c x -> wfc (c_push c x) -> completes c x = true ->
  init (Some (lag_file c x)) limit (c_first c) pre split =
  init (Some (c_file (c_push c x))) limit (c_first c) pre split.
Proof.
  intros W Hwr W' Hc.
  destruct (c_all_push_blocks c x Hc) as (Hall' & Hbl' & Hpart').
  set (part' := c_part c ++ [x]) in *.
  assert (Hp128 : length part' = 128%nat) by (unfold completes in Hc; apply Nat.eqb_eq in Hc; exact Hc).
  pose proof (concat_blocks_length _ (wf_blocks c W)) as Hcb.
  destruct (not_full_bounds c (proj1 Hwr)) as [Hdmax Hifit].
  change (c_first c) with (c_first (c_push c x)) at 2.
  rewrite (init_stage (c_push c x) limit pre split W').
  (* left-hand side, stage by stage *)
  unfold init.
  change (idx_buf (lag_file c x)) with (idx_buf (c_file c)).
  change (h_interval (f_hdr (lag_file c x))) with 128.
  rewrite (read_indexs_conc c W). cbn [res_bind].
  replace (nlen (ienc (c_blocks c)) + HDR_LEN) with (HDR_LEN + nlen (ienc (c_blocks c))) by lia.
  change (f_len (lag_file c x)) with (c_flen (c_push c x)).
  set (lag := lag_file c x).
  set (pos := DATA0 + frl (concat (c_blocks c))).
  assert (Hrd : rdr_open lag pos = rdr_open (c_file (c_push c x)) pos) by reflexivity.
  assert (Hfu : scan_fuel lag pos = scan_fuel (c_file (c_push c x)) pos) by reflexivity.
  unfold move_to_end, move_to_index_by_count at 1. unfold last_ix. rewrite last_ixs_of. cbn [fst snd]. fold pos.
  destruct (c_first c + 128 * nlen (c_blocks c) <? c_first c) eqn:E1; [lia|].
  replace (65535 =? 0) with false by reflexivity.
  rewrite Hrd, Hfu.
  rewrite (scan_file_to_end (c_push c x) (concat (c_blocks c)) part' 65535);
    [|exact W'|exact Hall'|unfold nlen; rewrite Hp128; reflexivity].
  cbn [res_bind].
  set (cnt := c_first c + 128 * nlen (c_blocks c) - c_first c + nlen part').
  assert (Hcnt : cnt = 128 * nlen (c_blocks c) + 128) by (subst cnt; unfold nlen at 2; rewrite Hp128; lia).
  (* one round of rebuild_index *)
  cbn [rebuild_index]. unfold last_ix. rewrite last_ixs_of. cbn [fst snd]. fold pos.
  change (h_interval (f_hdr lag)) with 128. change (h_data_area (f_hdr lag)) with (c_da c).
  replace (128 =? 0) with false by reflexivity.
  destruct (c_first c + cnt <? c_first c + 128 * nlen (c_blocks c) + 128) eqn:E2; [lia|].
  destruct (c_da c <=? HDR_LEN + nlen (ienc (c_blocks c)) + 10) eqn:E3; [lia|].
  cbn [orb].
  unfold move_to_index_by_count. cbn [fst snd].
  rewrite E1. rewrite Hrd, Hfu.
  rewrite (scan_file_to_count (c_push c x) (concat (c_blocks c)) part' 128);
    [|exact W'|exact Hall'|unfold nlen; rewrite Hp128; lia].
  replace (128 =? 0) with false by reflexivity.
  cbn [res_bind].
  change (N.to_nat 128) with 128%nat. rewrite firstn_all2 by lia.
  fold pos.
  replace (pos + frl part' - pos) with (frl part') by lia.
  assert (Hidx : idx_write lag (HDR_LEN + nlen (ienc (c_blocks c))) (write_varint (frl part')) = c_file (c_push c x)).
  { rewrite <- (file_after_idx c x W Hwr Hc). reflexivity. }
  rewrite Hidx.
  assert (Hixs : ixs_of (c_first c) (c_blocks c) ++ [(c_first c + 128 * nlen (c_blocks c) + 128, pos + frl part')]
                 = ixs_of (c_first c) (c_blocks (c_push c x))).
  { rewrite Hbl', ixs_of_snoc. reflexivity. }
  rewrite Hixs.
  assert (Hicur : HDR_LEN + nlen (ienc (c_blocks c)) + N.of_nat (length (write_varint (frl part')))
                  = HDR_LEN + nlen (ienc (c_blocks (c_push c x)))).
  { rewrite Hbl', ienc_app, ienc_one, nlen_app. unfold nlen. lia. }
  rewrite Hicur.
  destruct (N.to_nat cnt) as [|fu] eqn:Efu; [lia|].
  rewrite rebuild_index_noop.
  2:{ unfold last_ix. rewrite last_ixs_of. cbn [fst c_file f_hdr h_interval]. rewrite Hbl', nlen_app.
      replace (nlen [part']) with 1 by reflexivity. lia. }
  cbn [res_bind].
  assert (Hn : cnt = nlen (c_all (c_push c x))).
  { rewrite Hall', nlen_app, Hcb. replace (nlen part') with 128 by (unfold nlen; rewrite Hp128; reflexivity). lia. }
  rewrite Hn. reflexivity.
Qed.

(** * every image inside one write reopens *)
Definition reopens_to (f : lfile) (c' : cst) : Prop :=
  wfc c' /\ forall limit pre split,
    init (Some f) limit (c_first c') pre split = Ok (conc (c_reopen c' pre split)).

Lemma reopens_canonical c : wfc c -> reopens_to (c_file c) c.
Proof. intros W. split; [exact W|]. intros. apply init_conc, W. Qed.

Lemma wfc_push c x : wfc c -> writable c x -> wfc (c_push c x).
Proof. intros W (H1 & H2 & H3 & H4). apply (write_conc c x W H1 H2 H3 H4). Qed.

Lemma reopens_lag c x : wfc c -> writable c x -> reopens_to (lag_file c x) (c_push c x).
Proof.
  intros W Hwr. pose proof (wfc_push c x W Hwr) as W'.
  destruct (completes c x) eqn:Ec.
  - split; [exact W'|]. intros limit pre split.
    change (c_first (c_push c x)) with (c_first c).
    rewrite (init_lag c x limit pre split W Hwr W' Ec). apply (init_conc (c_push c x)), W'.
  - rewrite (lag_is_push c x Ec). apply reopens_canonical, W'.
Qed.

Lemma wj_full c x : wfc c -> writable c x ->
  apply_lmuts (Some (c_file c)) (wj c x) = Some (c_file (c_push c x)) /\ data_writes (wj c x) = 1%nat.
Proof.
  intros W Hwr. unfold wj. rewrite !apply_lmuts_app, (file_after_grow c x W), !data_writes_app.
  cbn [apply_lmuts fold_left apply_lmut]. rewrite (file_after_data c x W).
  split.
  - destruct (completes c x) eqn:Ec.
    + cbn [apply_lmuts fold_left apply_lmut]. rewrite (file_after_idx c x W Hwr Ec). reflexivity.
    + cbn [apply_lmuts fold_left]. rewrite (lag_is_push c x Ec). reflexivity.
  - destruct (c_flen c <=? c_dcur c + nlen (rec_frame x)); destruct (completes c x); reflexivity.
Qed.

Lemma c_all_grow c x : c_all (c_grow c x) = c_all c.
Proof. reflexivity. Qed.

Lemma some_inj {A} (a b : A) : Some a = Some b -> a = b.
Proof. congruence. Qed.

Lemma wj_images c x k : wfc c -> writable c x -> (k <= length (wj c x))%nat ->
  exists f c' d, apply_lmuts (Some (c_file c)) (firstn k (wj c x)) = Some f /\ reopens_to f c' /\
    c_first c' = c_first c /\ d = data_writes (firstn k (wj c x)) /\ (d <= 1)%nat /\
    c_all c' = c_all c ++ firstn d [x].
Proof.
  intros W Hwr Hk.
  pose proof (file_after_grow c x W) as Hg. pose proof (file_after_data c x W) as Hd.
  pose proof (reopens_lag c x W Hwr) as Hlag.
  pose proof (wfc_grow c x W) as Wg. pose proof (wfc_push c x W Hwr) as Wp.
  assert (Hidx : completes c x = true ->
            idx_write (lag_file c x) (HDR_LEN + nlen (ienc (c_blocks c))) (write_varint (frl (c_part c ++ [x])))
            = c_file (c_push c x)) by (apply file_after_idx; assumption).
  unfold wj in *.
  destruct (c_flen c <=? c_dcur c + nlen (rec_frame x)) eqn:Eg; destruct (completes c x) eqn:Ec;
    cbn [app length] in Hk; cbn [app]; cbn [apply_lmuts fold_left apply_lmut] in Hg;
    apply some_inj in Hg.
  (* the images, by position in the journal *)
  all: destruct k as [|[|[|[|k]]]]; try (cbn [length] in Hk; lia);
       cbn [firstn apply_lmuts fold_left apply_lmut data_writes].
  (* k = 0 : nothing of this write *)
  all: try (exists (c_file c), c, 0%nat; split; [reflexivity|]; split; [apply reopens_canonical, W|];
            split; [reflexivity|]; split; [reflexivity|]; split; [lia|]; cbn [firstn]; rewrite app_nil_r; reflexivity).
  (* after the set_len only *)
  all: try (rewrite Hg; exists (c_file (c_grow c x)), (c_grow c x), 0%nat; split; [reflexivity|];
            split; [apply reopens_canonical, Wg|]; split; [reflexivity|]; split; [reflexivity|]; split; [lia|];
            cbn [firstn]; rewrite app_nil_r; reflexivity).
  (* data written, index entry not (yet) *)
  all: try (rewrite Hg, Hd;
            exists (lag_file c x), (c_push c x), 1%nat; split; [reflexivity|];
            split; [exact Hlag|]; split; [reflexivity|]; split; [reflexivity|]; split; [lia|];
            cbn [firstn]; apply c_all_push).
  (* the complete write *)
  all: try (rewrite Hg, Hd, (Hidx eq_refl);
            exists (c_file (c_push c x)), (c_push c x), 1%nat; split; [reflexivity|];
            split; [apply reopens_canonical, Wp|]; split; [reflexivity|]; split; [reflexivity|]; split; [lia|];
            cbn [firstn]; apply c_all_push).
Qed.

(** * histories of appends *)
Fixpoint appendable (c : cst) (xs : list lrec) : Prop :=
  match xs with
  | [] => True
  | x :: r => writable c x /\ appendable (c_push c x) r
  end.

Lemma appends_images xs : forall c k,
  wfc c -> appendable c xs -> (k <= length (appends_journal (conc c) xs))%nat ->
  exists f c', apply_lmuts (Some (c_file c)) (firstn k (appends_journal (conc c) xs)) = Some f /\
    reopens_to f c' /\ c_first c' = c_first c /\
    c_all c' = c_all c ++ firstn (data_writes (firstn k (appends_journal (conc c) xs))) xs.
Proof.
  induction xs as [|x r IH]; intros c k W Hap Hk.
  - cbn [appends_journal] in *. rewrite firstn_nil. cbn [apply_lmuts fold_left data_writes firstn].
    exists (c_file c), c. split; [reflexivity|]. split; [apply reopens_canonical, W|].
    split; [reflexivity|]. rewrite app_nil_r. reflexivity.
  - destruct Hap as [Hwr Hap].
    pose proof Hwr as (H1 & H2 & H3 & H4).
    destruct (write_conc c x W H1 H2 H3 H4) as [Hw W'].
    cbn [appends_journal] in Hk |- *. rewrite Hw in Hk |- *. cbn [fst] in Hk |- *.
    rewrite (write_journal_conc c x W Hwr) in Hk |- *.
    destruct (Nat.le_gt_cases k (length (wj c x))) as [Hle|Hgt].
    + rewrite firstn_app. replace (k - length (wj c x))%nat with 0%nat by lia.
      cbn [firstn]. rewrite app_nil_r.
      destruct (wj_images c x k W Hwr Hle) as (f & c' & d & Hf & Hre & Hfi & Hd & Hd1 & Hall).
      exists f, c'. split; [exact Hf|]. split; [exact Hre|]. split; [exact Hfi|].
      rewrite Hall, <- Hd. f_equal. destruct d as [|[|d]]; [reflexivity|reflexivity|lia].
    + destruct (wj_full c x W Hwr) as [Hfull Hdw].
      rewrite firstn_app, firstn_all2 by lia.
      rewrite apply_lmuts_app, Hfull, data_writes_app, Hdw.
      rewrite app_length in Hk.
      destruct (IH (c_push c x) (k - length (wj c x))%nat W' Hap ltac:(lia)) as (f & c' & Hf & Hre & Hfi & Hall).
      exists f, c'. split; [exact Hf|]. split; [exact Hre|]. split; [exact Hfi|].
      rewrite Hall, c_all_push, <- app_assoc. reflexivity.
Qed.

(** * a file that holds the header only (killed before the first set_len) *)
Definition header_only (limit start pre : N) : lfile := mkFile (mkHdr pre start limit 128) [] [] HDR_BUF.

Definition empty_state (limit start pre split : N) : lim :=
  mkLim (header_only limit start pre) [(start, DATA0)] start HDR_LEN HDR_BUF DATA0 0 pre 0 false DATA0
        (N.max split start).

Lemma init_header_only limit start pre split :
  init (Some (header_only limit start pre)) limit start pre split = Ok (empty_state limit start pre split).
Proof.
  unfold init.
  assert (Hri : read_indexs (idx_buf (header_only limit start pre)) (start, DATA0)
                  (h_interval (f_hdr (header_only limit start pre))) = Ok ([(start, DATA0)], 0)).
  { unfold read_indexs.
    assert (Hz : read_varint (idx_buf (header_only limit start pre)) 0 = Ok 0) by (vm_compute; reflexivity).
    rewrite Hz. rewrite read_indexs_loop_zero. reflexivity. }
  rewrite Hri. cbn [res_bind].
  unfold move_to_end, move_to_index_by_count, last_ix. cbn [last fst snd].
  destruct (start <? start) eqn:E; [lia|].
  replace (65535 =? 0) with false by reflexivity.
  replace (start - start) with 0 by lia.
  assert (Hsc : scan_file (scan_fuel (header_only limit start pre) DATA0)
                  (rdr_open (header_only limit start pre) DATA0) mbr_new 0 65535 DATA0 0 = Ok (DATA0, 0))
    by (vm_compute; reflexivity).
  rewrite Hsc. cbn [res_bind].
  rewrite rebuild_index_noop by (unfold last_ix; cbn [last fst header_only f_hdr h_interval]; lia).
  cbn [res_bind]. unfold init_finish. cbn [header_only f_hdr h_interval f_len].
  replace (128 =? 0) with false by reflexivity. replace (0 <? 0) with false by reflexivity.
  unfold set_split, empty_state. cbn [l_file l_indexs l_start l_icur l_flen l_dcur l_cnt l_lterm l_cic l_seek l_dpos l_split].
  replace (0 mod 128) with 0 by reflexivity. replace (0 + HDR_LEN) with HDR_LEN by reflexivity.
  reflexivity.
Qed.

(** * what the restarted log file exposes *)
Definition recovered (s : lim) (start : N) (ys : list lrec) : Prop :=
  (exists c, s = conc c /\ wfc c /\ c_first c = start /\ c_all c = ys) \/
  (ys = [] /\ l_start s = start /\ l_cnt s = 0 /\ forall lo hi, fst (read_records s lo hi) = Ok []).

Lemma recovered_empty limit start pre split : recovered (empty_state limit start pre split) start [].
Proof.
  right. split; [reflexivity|]. split; [reflexivity|]. split; [reflexivity|].
  intros lo hi. unfold read_records, end_index, empty_state. cbn [l_split l_start l_cnt].
  destruct (N.min hi (start + 0) <=? N.max lo (N.max split start)) eqn:E; [reflexivity|lia].
Qed.

(** crash_safe_log_append *)
Theorem crash_safe_log_append limit start pre split xs k :
  limit <= 4096 -> appendable (c_fresh limit start pre split) xs ->
  (k <= length (log_journal limit start pre split xs))%nat ->
  exists s, init (crash_log (log_journal limit start pre split xs) k) limit start pre split = Ok s /\
            recovered s start (firstn (data_writes (firstn k (log_journal limit start pre split xs))) xs).
Proof.
  intros Hl Hap Hk. unfold log_journal, crash_log in *.
  rewrite (init_fresh limit start pre split Hl) in Hk |- *.
  pose proof (wfc_fresh limit start pre split Hl) as W0.
  set (c0 := c_fresh limit start pre split) in *.
  unfold fresh_journal in Hk |- *. cbn [app] in Hk |- *.
  assert (Hfresh : exists s, init None limit start pre split = Ok s /\ recovered s start (firstn 0 xs)).
  { exists (conc c0). split; [apply init_fresh, Hl|]. left. exists c0.
    split; [reflexivity|]. split; [exact W0|]. split; reflexivity. }
  destruct k as [|[|[|k]]].
  - exact Hfresh.
  - exact Hfresh.
  - cbn [firstn apply_lmuts fold_left apply_lmut data_writes].
    exists (empty_state limit start pre split). split; [apply init_header_only|apply recovered_empty].
  - cbn [firstn data_writes length] in Hk |- *.
    assert (Hc0 : apply_lmuts None [LCreate; LHeader (mkHdr pre start limit 128); LSetLen BUF_SIZE] = Some (c_file c0))
      by (vm_compute; reflexivity).
    change (apply_lmuts None (LCreate :: LHeader (mkHdr pre start limit 128) :: LSetLen BUF_SIZE ::
                              firstn k (appends_journal (conc c0) xs)))
      with (apply_lmuts (apply_lmuts None [LCreate; LHeader (mkHdr pre start limit 128); LSetLen BUF_SIZE])
                        (firstn k (appends_journal (conc c0) xs))).
    rewrite Hc0.
    destruct (appends_images xs c0 k W0 Hap ltac:(lia)) as (f & c' & Hf & (W' & Hinit) & Hfi & Hall).
    rewrite Hf. exists (conc (c_reopen c' pre split)).
    change start with (c_first c0). rewrite <- Hfi.
    split; [apply Hinit|]. left. exists (c_reopen c' pre split).
    split; [reflexivity|]. split; [apply wfc_reopen, W'|]. split; [reflexivity|].
    rewrite c_all_reopen, Hall. reflexivity.
Qed.
