(** [write] on a well-formed state appends exactly one record (refinement step for append). *)
From RN Require Import Base.Res Codec.Varint Codec.BufReader Codec.VarintProofs
  RaftLog.LogFile RaftLog.Spec RaftLog.Layout RaftLog.FileProofs.
From Coq Require Import ZifyBool ZifyNat ZifyN.
Local Open Scope N_scope.
Ltac Zify.zify_post_hook ::= Z.div_mod_to_equations.

(** * size bounds of a record frame *)
Lemma write_varint_length_le10 v : v < 2 ^ 64 -> (length (write_varint v) <= 10)%nat.
Proof.
  intros Hv. destruct (varint_canonical v Hv) as (cs & l & Heq & _ & _ & Hlen).
  rewrite Heq, app_length. cbn [length]. lia.
Qed.

Lemma write_varint_length_pos v : (1 <= length (write_varint v))%nat.
Proof. unfold write_varint. cbn [write_varint_fuel]. destruct (127 <? v); cbn [length]; lia. Qed.

Lemma enc_uint_length tag v : v < 2 ^ 64 -> (length (enc_uint tag v) <= 11)%nat.
Proof.
  intros Hv. unfold enc_uint. destruct (v =? 0); cbn [length]; [lia|].
  pose proof (write_varint_length_le10 v Hv). lia.
Qed.

Lemma enc_bytes_length tag b :
  N.of_nat (length b) < 2 ^ 64 -> (length (enc_bytes tag b) <= 11 + length b)%nat.
Proof.
  intros Hb. unfold enc_bytes. destruct b as [|x b]; [cbn [length]; lia|].
  cbn [length]. rewrite app_length.
  pose proof (write_varint_length_le10 _ Hb). cbn [length] in *. lia.
Qed.

Lemma pow62_lt_64 : 2 ^ 62 < 2 ^ 64.
Proof. vm_compute. reflexivity. Qed.

Lemma rec_body_length_le r : rec_ok r -> nlen (rec_body r) <= 33 + nlen (r_value r).
Proof.
  intros (Hi & Ht & _ & Hv). unfold rec_body, nlen. rewrite !app_length.
  pose proof (enc_uint_length 8 _ Hi). pose proof (enc_uint_length 16 _ Ht).
  pose proof pow62_lt_64.
  assert (Hv' : N.of_nat (length (r_value r)) < 2 ^ 64) by lia.
  pose proof (enc_bytes_length 42 _ Hv'). lia.
Qed.

Lemma pow_consts : 2 ^ 62 = 4611686018427387904 /\ 2 ^ 63 = 9223372036854775808 /\ 2 ^ 64 = 18446744073709551616.
Proof. vm_compute. auto. Qed.

Lemma rec_frame_length_le r : rec_ok r -> nlen (rec_frame r) <= 43 + nlen (r_value r).
Proof.
  intros Hr. pose proof (rec_body_length_le r Hr) as Hb.
  unfold rec_frame, frame, nlen in *. rewrite app_length.
  destruct Hr as (_ & _ & _ & Hv). destruct pow_consts as (P62 & P63 & P64).
  assert (Hl : N.of_nat (length (rec_body r)) < 2 ^ 64) by lia.
  pose proof (write_varint_length_le10 _ Hl). lia.
Qed.

Lemma rec_frame_small r : rec_ok r -> nlen (rec_frame r) < 2 ^ 62 + 64.
Proof.
  intros Hr. pose proof (rec_frame_length_le r Hr). destruct Hr as (_ & _ & _ & Hv).
  unfold nlen in *. lia.
Qed.

(** * the state after an accepted write *)
Definition c_push (c : cst) (x : lrec) : cst :=
  let part' := c_part c ++ [x] in
  let fl := nlen (rec_frame x) in
  let full := (length part' =? 128)%nat in
  mkCst (c_first c)
        (if full then c_blocks c ++ [part'] else c_blocks c)
        (if full then [] else part')
        (if full then (c_z c - length (write_varint (frl part')))%nat else c_z c)
        (if c_flen c <=? c_dcur c + fl then c_flen c + N.max fl BUF_SIZE else c_flen c)
        (c_hterm c) (c_da c) (r_term x) false (c_dcur c + fl) (c_split c).

Lemma c_all_push c x : c_all (c_push c x) = c_all c ++ [x].
Proof.
  unfold c_push, c_all. cbn [c_blocks c_part].
  destruct (length (c_part c ++ [x]) =? 128)%nat.
  - rewrite concat_app. cbn [concat]. rewrite !app_nil_r, app_assoc. reflexivity.
  - rewrite app_assoc. reflexivity.
Qed.

Lemma c_dcur_push c x : c_dcur (c_push c x) = c_dcur c + nlen (rec_frame x).
Proof. unfold c_dcur. rewrite c_all_push, frl_app, frl_one. lia. Qed.

Lemma c_first_push c x : c_first (c_push c x) = c_first c.
Proof. reflexivity. Qed.


Lemma indexed_app i a b : indexed i (a ++ b) <-> indexed i a /\ indexed (i + nlen a) b.
Proof.
  revert i. induction a as [|x a IH]; intros i.
  - cbn [app indexed]. replace (i + nlen []) with i by (unfold nlen; cbn [length]; lia). tauto.
  - cbn [app indexed]. rewrite IH, nlen_cons.
    replace (i + 1 + nlen a) with (i + (1 + nlen a)) by lia. tauto.
Qed.

Lemma file_set_len_grow f n :
  DATA0 + nlen (f_data f) <= n -> file_set_len f n = mkFile (f_hdr f) (f_idx f) (f_data f) n.
Proof.
  intros H. unfold file_set_len.
  destruct (n - DATA0 <? N.of_nat (length (f_data f))) eqn:E; [unfold nlen in H; lia|reflexivity].
Qed.

Lemma abs_push c x :
  abs (c_push c x) = mkAlog (c_first c) (a_ents (abs c) ++ [(r_term x, r_value x)]).
Proof.
  unfold abs. rewrite c_all_push, c_first_push, map_app. reflexivity.
Qed.

Theorem write_conc c x :
  wfc c -> is_full (conc c) = false ->
  r_index x = c_first c + nlen (c_all c) -> rec_ok x -> rec_nonempty x ->
  write (conc c) x =
    (conc (c_push c x), if is_full (conc (c_push c x)) then WSuccessToEnd else WSuccess)
  /\ wfc (c_push c x).
Proof.
  intros W Hfull Hidx Hok Hne.
  destruct pow_consts as (P62 & P63 & P64).
  pose proof (rec_frame_small x Hok) as Hsmall.
  assert (Hdmax : c_dcur c < DATA_MAX /\ HDR_LEN + nlen (ienc (c_blocks c)) + 10 < c_da c).
  { unfold is_full, conc in Hfull. cbn [l_file l_icur l_dcur c_file f_hdr h_data_area] in Hfull.
    apply Bool.orb_false_iff in Hfull. destruct Hfull as [H1 H2]. unfold DATA_MAX in *. lia. }
  destruct Hdmax as [Hdmax Hifit].
  split.
  - assert (Hpos : (if c_seek c then c_dcur c else c_dpos c) = c_dcur c).
    { destruct (c_seek c) eqn:E; [reflexivity|]. apply (wf_pos c W E). }
    pose proof (wf_flen c W) as Hfl.
    assert (Hlenp : length (c_part c ++ [x]) = S (length (c_part c))).
    { rewrite app_length. cbn [length]. lia. }
    pose proof (concat_blocks_length _ (wf_blocks c W)) as Hcb.
    assert (Hcic : (nlen (c_part c) + 1 =? 128) = (length (c_part c ++ [x]) =? 128)%nat).
    { rewrite Hlenp. unfold nlen. destruct (S (length (c_part c)) =? 128)%nat eqn:E; lia. }
    (* the three file updates *)
    assert (Hf1 : forall fl', c_dcur c < fl' ->
      (if c_flen c <=? c_dcur c + nlen (rec_frame x)
       then file_set_len (c_file c) fl' else c_file c) =
      mkFile (f_hdr (c_file c)) (f_idx (c_file c)) (f_data (c_file c))
             (if c_flen c <=? c_dcur c + nlen (rec_frame x) then fl' else c_flen c)).
    { intros fl' Hlt. destruct (c_flen c <=? c_dcur c + nlen (rec_frame x)); [|reflexivity].
      apply file_set_len_grow. cbn [c_file f_data]. unfold c_dcur, frl in *. lia. }
    assert (Hdw : forall h ib fl,
      data_write (mkFile h ib (fr (c_all c)) fl) (c_dcur c) (rec_frame x) =
      mkFile h ib (fr (c_all c) ++ rec_frame x) (N.max fl (c_dcur c + nlen (rec_frame x)))).
    { intros h ib fl. unfold data_write. cbn [f_hdr f_idx f_data f_len]. f_equal.
      replace (N.to_nat (c_dcur c - DATA0)) with (length (fr (c_all c))).
      - apply write_at_end.
      - unfold c_dcur, frl, nlen. lia. }
    assert (Hidxw : forall h d fl bs,
      idx_write (mkFile h (ienc (c_blocks c) ++ repeat 0 (c_z c)) d fl)
                (HDR_LEN + nlen (ienc (c_blocks c))) bs =
      mkFile h (ienc (c_blocks c) ++ bs ++ repeat 0 (c_z c - length bs)) d fl).
    { intros h d fl bs. unfold idx_write. cbn [f_hdr f_idx f_data f_len]. f_equal.
      replace (N.to_nat (HDR_LEN + nlen (ienc (c_blocks c)) - HDR_LEN)) with (length (ienc (c_blocks c)))
        by (unfold nlen; lia).
      apply write_at_zeros. }
    assert (Hdelta : c_dcur c + nlen (rec_frame x) - (DATA0 + frl (concat (c_blocks c)))
                     = frl (c_part c ++ [x])).
    { unfold c_dcur, c_all. rewrite !frl_app, frl_one. lia. }
    unfold write. rewrite Hfull.
    assert (Hend : (end_index (conc c) =? r_index x) = true).
    { unfold end_index, conc. cbn [l_start l_cnt]. lia. }
    rewrite Hend. cbn [negb].
    cbn [conc l_file l_indexs l_start l_icur l_flen l_dcur l_cnt l_lterm l_cic l_seek l_dpos l_split].
    fold (nlen (rec_frame x)). rewrite Hpos.
    match goal with
    | |- context [if c_flen c <=? ?a then (file_set_len ?f ?n, ?n) else (?f, ?m)] =>
        replace (if c_flen c <=? a then (file_set_len f n, n) else (f, m))
          with (if c_flen c <=? a then file_set_len f n else f, if c_flen c <=? a then n else m)
          by (destruct (c_flen c <=? a); reflexivity)
    end.
    rewrite Hf1 by (unfold BUF_SIZE; lia).
    cbn [c_file f_hdr f_idx f_data h_interval h_first_index].
    rewrite Hdw. unfold last_ix. rewrite last_ixs_of. cbn [snd]. rewrite Hdelta, Hidxw.
    rewrite Hcic.
    assert (Hmax : N.max (if c_flen c <=? c_dcur c + nlen (rec_frame x)
                          then c_flen c + N.max (nlen (rec_frame x)) BUF_SIZE else c_flen c)
                         (c_dcur c + nlen (rec_frame x))
                   = c_flen (c_push c x)).
    { unfold c_push. cbn [c_flen].
      destruct (c_flen c <=? c_dcur c + nlen (rec_frame x)) eqn:E; unfold BUF_SIZE; lia. }
    rewrite Hmax.
    destruct (length (c_part c ++ [x]) =? 128)%nat eqn:E128.
    + apply Nat.eqb_eq in E128.
      match goal with |- (?st', _) = _ => assert (Hst : st' = conc (c_push c x)) end.
      { apply lim_ext;
          cbn [conc l_file l_indexs l_start l_icur l_flen l_dcur l_cnt l_lterm l_cic l_seek l_dpos l_split].
        - unfold c_file. rewrite c_all_push. unfold c_push. cbn [c_first c_blocks c_z c_flen c_hterm c_da].
          rewrite (proj2 (Nat.eqb_eq _ _) E128).
          rewrite ienc_app, ienc_one, fr_app, fr_one, <- app_assoc. reflexivity.
        - unfold c_push. cbn [c_first c_blocks]. rewrite (proj2 (Nat.eqb_eq _ _) E128).
          rewrite ixs_of_snoc. f_equal. f_equal. f_equal.
          all: unfold c_dcur, c_all; rewrite ?nlen_app, ?frl_app, ?frl_one, ?Hcb; unfold nlen; lia.
        - reflexivity.
        - unfold c_push. cbn [c_blocks]. rewrite (proj2 (Nat.eqb_eq _ _) E128).
          rewrite ienc_app, ienc_one, nlen_app. unfold nlen. lia.
        - reflexivity.
        - rewrite c_dcur_push. reflexivity.
        - rewrite c_all_push, nlen_app. unfold nlen. cbn [length]. lia.
        - reflexivity.
        - unfold c_push. cbn [c_part]. rewrite (proj2 (Nat.eqb_eq _ _) E128). reflexivity.
        - reflexivity.
        - reflexivity.
        - reflexivity. }
      rewrite Hst. reflexivity.
    + match goal with |- (?st', _) = _ => assert (Hst : st' = conc (c_push c x)) end.
      { apply lim_ext;
          cbn [conc l_file l_indexs l_start l_icur l_flen l_dcur l_cnt l_lterm l_cic l_seek l_dpos l_split].
        - unfold c_file. rewrite c_all_push. unfold c_push. cbn [c_first c_blocks c_z c_flen c_hterm c_da].
          rewrite E128. rewrite fr_app, fr_one. reflexivity.
        - unfold c_push. cbn [c_first c_blocks]. rewrite E128. reflexivity.
        - reflexivity.
        - unfold c_push. cbn [c_blocks]. rewrite E128. reflexivity.
        - reflexivity.
        - rewrite c_dcur_push. reflexivity.
        - rewrite c_all_push, nlen_app. unfold nlen. cbn [length]. lia.
        - reflexivity.
        - unfold c_push. cbn [c_part]. rewrite E128. unfold nlen. rewrite Hlenp. lia.
        - reflexivity.
        - reflexivity.
        - reflexivity. }
      rewrite Hst. reflexivity.
  - (* well-formedness is preserved *)
    pose proof (wf_flen c W) as Hfl.
    assert (Hlenp : length (c_part c ++ [x]) = S (length (c_part c))).
    { rewrite app_length. cbn [length]. lia. }
    pose proof (wf_part c W) as Hpart.
    constructor.
    + unfold c_push. destruct (length (c_part c ++ [x]) =? 128)%nat eqn:E; cbn [c_blocks].
      * apply Forall_app. split; [apply (wf_blocks c W)|]. constructor; [|constructor].
        apply Nat.eqb_eq in E. exact E.
      * apply (wf_blocks c W).
    + unfold c_push. destruct (length (c_part c ++ [x]) =? 128)%nat eqn:E; cbn [c_part length]; [lia|].
      apply Nat.eqb_neq in E. lia.
    + rewrite c_all_push, c_first_push. apply indexed_app. split; [apply (wf_indexed c W)|].
      cbn [indexed]. split; [exact Hidx|exact I].
    + rewrite c_all_push. apply Forall_app. split; [apply (wf_ok c W)|]. constructor; [exact Hok|constructor].
    + rewrite c_all_push. apply Forall_app. split; [apply (wf_nonempty c W)|]. constructor; [exact Hne|constructor].
    + rewrite c_dcur_push. unfold c_push.
      destruct (length (c_part c ++ [x]) =? 128)%nat; cbn [c_flen];
        destruct (c_flen c <=? c_dcur c + nlen (rec_frame x)) eqn:E; unfold BUF_SIZE; lia.
    + rewrite c_dcur_push. unfold DATA_MAX in *. lia.
    + unfold c_push. destruct (length (c_part c ++ [x]) =? 128)%nat; cbn [c_da]; apply (wf_da c W).
    + unfold c_push. destruct (length (c_part c ++ [x]) =? 128)%nat eqn:E; cbn [c_da c_blocks]; [|apply (wf_fits c W)].
      (* the new entry starts at the old index cursor, which was not full *)
      pose proof (wf_fits c W) as Hf. revert Hf Hifit. unfold ienc.
      generalize HDR_LEN as off. generalize (c_blocks c) as bs.
      induction bs as [|b bs IH]; intros off Hf Hifit.
      * cbn [app idx_fits]. cbn [map concat] in Hifit. unfold nlen in Hifit. cbn [length] in Hifit.
        split; [lia|exact I].
      * cbn [app idx_fits] in *. destruct Hf as [Hf1 Hf2]. split; [exact Hf1|].
        apply IH; [exact Hf2|]. cbn [map concat] in Hifit. rewrite nlen_app in Hifit. unfold nlen in *. lia.
    + unfold c_push. destruct (length (c_part c ++ [x]) =? 128)%nat eqn:E; cbn [c_blocks c_z]; [|apply (wf_idx_len c W)].
      rewrite ienc_app, ienc_one, app_length.
      pose proof (wf_idx_len c W) as Hil. pose proof (wf_da c W) as Hda.
      assert (Hfb : frl (c_part c ++ [x]) < 2 ^ 64).
      { assert (frl (c_part c ++ [x]) <= c_dcur c + nlen (rec_frame x)).
        { unfold c_dcur, c_all. rewrite !frl_app, frl_one. lia. }
        unfold DATA_MAX in *. lia. }
      pose proof (write_varint_length_le10 _ Hfb) as Hw.
      unfold HDR_LEN, IDX_AREA, nlen in *. lia.
    + intros _. rewrite c_dcur_push. unfold c_push.
      destruct (length (c_part c ++ [x]) =? 128)%nat; reflexivity.
    + rewrite c_first_push. unfold c_push.
      destruct (length (c_part c ++ [x]) =? 128)%nat; cbn [c_split]; apply (wf_split c W).
    + unfold c_push. cbn [c_da c_blocks c_part].
      destruct (length (c_part c ++ [x]) =? 128)%nat eqn:E; [reflexivity|]. intros Hfull2. lia.
Qed.
