(** Executable glue for the log-file part of the C04 check: the model journal of a script of
    writes / strips as (kind, offset, length), and the model's init on a crash image given by its
    raw parts followed by a script (what the real recovery is compared with).  No proofs. *)
From RN Require Import Base.Res Codec.Varint Codec.BufReader Codec.Script
  RaftLog.LogFile RaftLog.LogScript RaftLog.Layout RaftLog.LogCrash.
Local Open Scope N_scope.

(** kind: 0 = write, 1 = create, 2 = set_len *)
Definition lmut_shape (m : lmut) : N * N * N :=
  match m with
  | LCreate => (1, 0, 0)
  | LHeader _ => (0, 0, HDR_BUF)
  | LSetLen n => (2, n, 0)
  | LData off bs => (0, off, N.of_nat (length bs))
  | LIdx off bs => (0, off, N.of_nat (length bs))
  end.

Fixpoint ops_journal (s : lim) (ops : list lop) : list lmut :=
  match ops with
  | [] => []
  | LW i t vl vs :: r =>
      let x := mkRec i t (gen_fast vl vs) in
      write_journal s x ++ ops_journal (fst (write s x)) r
  | LS k :: r =>
      strip_journal s k ++
      match strip_log_to s k with
      | Ok s' => ops_journal s' r
      | _ => []
      end
  | _ :: r => ops_journal s r
  end.

Definition script_journal (limit start pre split : N) (ops : list lop) : list (N * N * N) :=
  map lmut_shape
    (fresh_journal limit start pre ++
     match init None limit start pre split with
     | Ok s => ops_journal s ops
     | _ => []
     end).

(** a crash image by its parts: header fields, index-area bytes, data-area bytes (both without
    their zero tail), file length; [None] when the file is missing or empty *)
Definition image (lt fi da iv : N) (idx data : list N) (len : N) : option lfile :=
  if len =? 0 then None else Some (mkFile (mkHdr lt fi da iv) idx data len).

Definition open_image_log (img : option lfile) (limit start pre split : N) (ops : list lop) : list lout :=
  match init img limit start pre split with
  | Ok st => OO true :: run_lops limit start pre split (SOpen st) ops
  | _ => [OO false]
  end.
