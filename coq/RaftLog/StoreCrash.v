(** C04: the log file and the last_applied header of the index file together.  A history of the
    store as Raft drives it: entries are appended to the log (LogInnerManager::write), and
    SaveLastAppliedLog(v) rewrites the 8 header bytes of the index file; Raft applies only entries
    it has appended ([applied_ok]).  The journal is the program order of the file mutations of
    both files.  Model only. *)
From RN Require Export Base.Res Codec.Varint RaftLog.LogFile RaftLog.Layout RaftLog.LogCrash.
Local Open Scope N_scope.

Inductive sop : Type := SAppend (x : lrec) | SApplied (v : N).

Inductive smut : Type :=
| SLog (m : lmut)          (* a mutation of the log file *)
| SHeader (v : N).         (* MWrite "index" 0 (be8 v): RaftIndexInnerManager::write_last_applied_log *)

Fixpoint store_journal (s : lim) (ops : list sop) : list smut :=
  match ops with
  | [] => []
  | SAppend x :: r => map SLog (write_journal s x) ++ store_journal (fst (write s x)) r
  | SApplied v :: r => SHeader v :: store_journal s r
  end.

Fixpoint appends (ops : list sop) : list lrec :=
  match ops with
  | [] => []
  | SAppend x :: r => x :: appends r
  | SApplied _ :: r => appends r
  end.

Fixpoint log_muts (j : list smut) : list lmut :=
  match j with
  | [] => []
  | SLog m :: r => m :: log_muts r
  | SHeader _ :: r => log_muts r
  end.

(** the header value a restart reads: the last header write of the prefix, else the initial one *)
Fixpoint header_after (j : list smut) (h : N) : N :=
  match j with
  | [] => h
  | SHeader v :: r => header_after r v
  | SLog _ :: r => header_after r h
  end.

(** Raft's discipline: last_applied only names entries already appended ([endi] = next index) *)
Fixpoint applied_ok (endi : N) (ops : list sop) : Prop :=
  match ops with
  | [] => True
  | SAppend _ :: r => applied_ok (endi + 1) r
  | SApplied v :: r => v < endi /\ applied_ok endi r
  end.

Definition full_journal (limit start pre split : N) (ops : list sop) : list smut :=
  map SLog (fresh_journal limit start pre) ++
  match init None limit start pre split with
  | Ok s => store_journal s ops
  | _ => []
  end.
