(** crash_safe for the index file: EVERY prefix of the journal of EVERY history reopens, and the
    state read back is the state after some prefix of the history (so term, vote, membership,
    addresses, catalogue and last_applied are all values written before the crash). *)
From RN Require Import Base.Res Base.Fs Codec.Varint RaftLog.IndexFile RaftLog.AddrMapProofs
  RaftLog.IndexCodecProofs RaftLog.IndexFileProofs RaftLog.Crash.
From Coq Require Import ZifyBool ZifyNat ZifyN Permutation.
Local Open Scope N_scope.

(** * the directory map *)
Lemma fs_get_set_same n d s : fs_get n (fs_set n d s) = Some d.
Proof.
  induction s as [|[n' d'] s IH]; cbn [fs_set fs_get].
  - unfold fname_eqb. rewrite String.eqb_refl. reflexivity.
  - destruct (fname_eqb n n') eqn:E; cbn [fs_get].
    + unfold fname_eqb. rewrite String.eqb_refl. reflexivity.
    + rewrite E. exact IH.
Qed.

Lemma fs_get_set_other n n' d s : fname_eqb n n' = false -> fs_get n (fs_set n' d s) = fs_get n s.
Proof.
  intros Hne. induction s as [|[n2 d2] s IH]; cbn [fs_set fs_get].
  - rewrite Hne. reflexivity.
  - destruct (fname_eqb n' n2) eqn:E; cbn [fs_get].
    + unfold fname_eqb in *. apply String.eqb_eq in E. subst n2. rewrite Hne. reflexivity.
    + destruct (fname_eqb n n2); [reflexivity|exact IH].
Qed.

Lemma fs_get_del_other n n' s : fname_eqb n n' = false -> fs_get n (fs_del n' s) = fs_get n s.
Proof.
  intros Hne. induction s as [|[n2 d2] s IH]; cbn [fs_del fs_get]; [reflexivity|].
  destruct (fname_eqb n' n2) eqn:E.
  - unfold fname_eqb in *. apply String.eqb_eq in E. subst n2. rewrite Hne. exact IH.
  - cbn [fs_get]. destruct (fname_eqb n n2); [reflexivity|exact IH].
Qed.

(** a mutation of another file leaves a file alone *)
Lemma apply_mut_other n m s : mut_touches m n = false -> fs_get n (apply_mut s m) = fs_get n s.
Proof.
  intros H. destruct m as [f off d|f k|f|a b|f]; cbn [mut_touches apply_mut] in *.
  - destruct (fs_get f s); [apply fs_get_set_other, H|reflexivity].
  - destruct (fs_get f s); [apply fs_get_set_other, H|reflexivity].
  - destruct (fs_get f s); [reflexivity|apply fs_get_set_other, H].
  - apply Bool.orb_false_iff in H. destruct H as [Ha Hb].
    destruct (fs_get a s); [|reflexivity].
    rewrite fs_get_set_other by exact Hb. apply fs_get_del_other, Ha.
  - apply fs_get_del_other, H.
Qed.

Lemma apply_write_idx s f off d :
  fs_get IDX s = Some f -> fs_get IDX (apply_mut s (MWrite IDX off d)) = Some (write_at f off d).
Proof. intros H. cbn [apply_mut]. rewrite H. apply fs_get_set_same. Qed.

(** * one operation: its journal has at most one mutation and produces the new file *)
Section Crash.
Variable sh : nat -> addr_map -> addr_map.
Hypothesis Hsh : shuffles sh.

Let shp : forall n, permutes (sh n) := sh_permutes sh Hsh.

Lemma inv_len9 st : inv sh st -> (9 <= length (i_file st))%nat.
Proof.
  intros (Hb & Hlen & Hhead & (k & tail & Hskip) & _).
  assert (H : length (skipn 8 (i_file st)) = (length (i_file st) - 8)%nat) by apply skipn_length.
  rewrite Hskip, app_length in H. pose proof (index_record_length_pos (sh k) (i_index st)). lia.
Qed.

Lemma op_journal_cases st op st' : inv sh st -> step sh st op = Ok st' ->
  (op_journal sh st op = [] /\ i_file st' = i_file st) \/
  (exists off d, op_journal sh st op = [MWrite IDX off d] /\ i_file st' = write_at (i_file st) off d).
Proof.
  intros Hinv Hstep. pose proof (inv_len9 st Hinv) as H9.
  destruct op as [t v|m mac na|id a|ls|ss|v|]; cbn [step op_journal] in *;
    try (right; injection Hstep as <-; eexists; eexists; split; reflexivity).
  left. rewrite (inv_reopen sh shp st (i_wcount st) Hinv) in Hstep. injection Hstep as <-.
  cbn [i_file init_journal]. destruct (length (i_file st) <? 9)%nat eqn:E; [apply Nat.ltb_lt in E; lia|].
  split; reflexivity.
Qed.

(** every prefix of the journal of [ops] from [st] is the complete journal of a prefix of [ops] *)
Lemma journal_prefix ops : forall st a s k,
  inv sh st -> i_index st = fst a -> i_applied st = snd a -> Forall wf_op ops -> fits a ops ->
  fs_get IDX s = Some (i_file st) -> (k <= length (journal_from sh st ops))%nat ->
  exists j st', (j <= length ops)%nat /\ run_from sh st (firstn j ops) = Ok st' /\ inv sh st' /\
    fs_get IDX (apply_muts s (firstn k (journal_from sh st ops))) = Some (i_file st').
Proof.
  induction ops as [|op ops IH]; intros st a s k Hinv Hi Ha Hwf Hfits Hs Hk.
  - exists 0%nat, st. cbn [journal_from firstn length run_from apply_muts fold_left] in *.
    rewrite firstn_nil. cbn [fold_left]. split; [lia|]. split; [reflexivity|]. split; [exact Hinv|exact Hs].
  - inversion Hwf as [|? ? Hop Hwf']; subst. cbn [fits] in Hfits. destruct Hfits as [Hsz Hfits].
    rewrite astep_fst, <- Hi in Hsz.
    destruct (step_inv sh shp st op Hinv Hop Hsz) as (st1 & Hstep & Hinv1 & Hi1 & Ha1).
    cbn [journal_from] in Hk |- *. rewrite Hstep in Hk |- *.
    assert (Hi1' : i_index st1 = fst (astep a op)) by (rewrite astep_fst, <- Hi; exact Hi1).
    assert (Ha1' : i_applied st1 = snd (astep a op)) by (rewrite astep_snd, <- Ha; exact Ha1).
    destruct (op_journal_cases st op st1 Hinv Hstep) as [[Hj Hf]|(off & d & Hj & Hf)]; rewrite Hj in Hk |- *.
    + (* no mutation: the operation is already complete in every prefix *)
      cbn [app] in Hk |- *.
      destruct (IH st1 (astep a op) s k Hinv1 Hi1' Ha1' Hwf' Hfits) as (j & st' & Hj' & Hrun & Hinv' & Hget);
        [rewrite Hf; exact Hs|exact Hk|].
      exists (S j), st'. cbn [firstn length run_from]. rewrite Hstep. cbn [res_bind].
      split; [lia|]. split; [exact Hrun|]. split; [exact Hinv'|exact Hget].
    + destruct k as [|k].
      * exists 0%nat, st. cbn [firstn run_from apply_muts fold_left length].
        split; [lia|]. split; [reflexivity|]. split; [exact Hinv|exact Hs].
      * cbn [app firstn length] in Hk |- *. unfold apply_muts. cbn [fold_left]. fold (apply_muts (apply_mut s (MWrite IDX off d))).
        destruct (IH st1 (astep a op) (apply_mut s (MWrite IDX off d)) k Hinv1 Hi1' Ha1' Hwf' Hfits)
          as (j & st' & Hj' & Hrun & Hinv' & Hget);
          [rewrite Hf; apply apply_write_idx, Hs|lia|].
        exists (S j), st'. cbn [firstn length run_from]. rewrite Hstep. cbn [res_bind].
        split; [lia|]. split; [exact Hrun|]. split; [exact Hinv'|exact Hget].
Qed.

Lemma fits_firstn j ops : forall a, fits a ops -> fits a (firstn j ops).
Proof.
  revert ops. induction j as [|j IH]; intros ops a H; [exact I|].
  destruct ops as [|op ops]; [exact I|]. cbn [firstn fits] in *. destruct H as [H1 H2]. split; [exact H1|apply IH, H2].
Qed.

Lemma Forall_firstn {A} (P : A -> Prop) j l : Forall P l -> Forall P (firstn j l).
Proof.
  revert l. induction j as [|j IH]; intros l H; [constructor|].
  destruct l as [|x l]; [constructor|]. inversion H; subst. cbn [firstn]. constructor; [assumption|apply IH; assumption].
Qed.

(** crash_safe, index file, full strength *)
Theorem crash_safe_index ops k :
  Forall wf_op ops -> fits (ri_default, 0) ops -> (k <= length (journal sh ops))%nat ->
  exists st j, recover sh (crash_fs (journal sh ops) k) = Ok st /\ (j <= length ops)%nat /\
    i_index st = fst (arun (firstn j ops)) /\ i_applied st = snd (arun (firstn j ops)).
Proof.
  intros Hwf Hfits Hk. unfold journal in *.
  destruct (inv_fresh sh shp 0 []) as (st0 & Hinit & Hinv0 & Hi0 & Ha0 & Hw0); [cbn; lia|constructor|].
  rewrite Hinit in Hk |- *.
  assert (Hfile0 : i_file st0 = fresh_image).
  { unfold init in Hinit. cbn [length Nat.ltb Nat.leb] in Hinit. injection Hinit as <-. reflexivity. }
  (* the two mutations of the very first start *)
  assert (Hfresh : forall f, (length f < 9)%nat -> all_bytes f ->
            exists st, init sh 0 f = Ok st /\ i_index st = ri_default /\ i_applied st = 0).
  { intros f Hl Hb. destruct (inv_fresh sh shp 0 f Hl Hb) as (st & H1 & _ & H2 & H3 & _). exists st. auto. }
  unfold crash_fs, recover. cbn [init_journal app] in Hk |- *.
  destruct k as [|[|k]].
  - cbn [firstn apply_muts fold_left fs_get].
    destruct (Hfresh [] ltac:(cbn; lia) ltac:(constructor)) as (st & H1 & H2 & H3).
    exists st, 0%nat. cbn [firstn]. split; [exact H1|]. split; [lia|]. split; [exact H2|exact H3].
  - cbn [firstn apply_muts fold_left apply_mut fs_get fs_set]. unfold fname_eqb. cbn [String.eqb Ascii.eqb Bool.eqb].
    destruct (Hfresh [] ltac:(cbn; lia) ltac:(constructor)) as (st & H1 & H2 & H3).
    exists st, 0%nat. cbn [firstn]. split; [exact H1|]. split; [lia|]. split; [exact H2|exact H3].
  - cbn [firstn length] in Hk |- *.
    set (s2 := apply_muts [] [MCreate IDX; MWrite IDX 0 fresh_image]).
    assert (Hs2 : fs_get IDX s2 = Some (i_file st0)).
    { rewrite Hfile0. vm_compute. reflexivity. }
    change (apply_muts [] (MCreate IDX :: MWrite IDX 0 fresh_image :: firstn k (journal_from sh st0 ops)))
      with (apply_muts s2 (firstn k (journal_from sh st0 ops))).
    destruct (journal_prefix ops st0 (ri_default, 0) s2 k Hinv0 Hi0 Ha0 Hwf Hfits Hs2 ltac:(lia))
      as (j & st' & Hj & Hrun & Hinv' & Hget).
    rewrite Hget.
    destruct (run_from_refines sh shp (firstn j ops) st0 (ri_default, 0) Hinv0 Hi0 Ha0
                (Forall_firstn _ j ops Hwf) (fits_firstn j ops _ Hfits)) as (st'' & Hrun' & _ & Hi' & Ha').
    rewrite Hrun in Hrun'. injection Hrun' as <-.
    rewrite (inv_reopen sh shp st' 0 Hinv').
    eexists. exists j. split; [reflexivity|]. cbn [i_index i_applied].
    split; [exact Hj|]. split; [exact Hi'|exact Ha'].
Qed.

End Crash.

(** * last_applied never points past what can be reproduced — composition over an abstract
    interface to the log / snapshot files (whose model is built separately).
    [J] is any journal of the whole store; [reproducible s] is the highest index that the
    snapshot + log files of the directory [s] reproduce.  If whenever the header write of
    last_applied = v is issued the directory already reproduces v, and later mutations never
    lower what is reproduced below an applied value, then in EVERY crash state the header
    value is reproducible. *)
Section Compose.
Variable reproducible : fs -> N.

Definition header_of (s : fs) : N :=
  match fs_get IDX s with Some f => of_be (firstn 8 f) | None => 0 end.

(** the obligation on the journal, position by position *)
Definition applied_covered (J : list mut) : Prop :=
  forall k, (k < length J)%nat ->
    let s := crash_fs J k in let s' := crash_fs J (S k) in
    header_of s' <= reproducible s' \/ (header_of s' = header_of s /\ reproducible s <= reproducible s').

Theorem applied_never_past_reproducible J :
  header_of [] <= reproducible [] -> applied_covered J ->
  forall k, (k <= length J)%nat -> header_of (crash_fs J k) <= reproducible (crash_fs J k).
Proof.
  intros H0 Hcov k. induction k as [|k IH]; intros Hk.
  - exact H0.
  - specialize (IH ltac:(lia)). destruct (Hcov k ltac:(lia)) as [H|[H1 H2]]; [exact H|].
    rewrite H1. eapply N.le_trans; [exact IH|exact H2].
Qed.
End Compose.

(** the fields of the recovered state, spelled out *)
Corollary crash_safe_index_fields sh ops k :
  shuffles sh -> Forall wf_op ops -> fits (ri_default, 0) ops -> (k <= length (journal sh ops))%nat ->
  exists st j, recover sh (crash_fs (journal sh ops) k) = Ok st /\ (j <= length ops)%nat /\
    (ri_current_term (i_index st), ri_voted_for (i_index st)) = last_hard_state (firstn j ops) (0, 0) /\
    (ri_member (i_index st), ri_mac (i_index st)) = last_membership (firstn j ops) ([], []) /\
    ri_node_addrs (i_index st) = last_addrs (firstn j ops) [] /\
    ri_logs (i_index st) = last_logs (firstn j ops) [] /\
    ri_snapshots (i_index st) = last_snaps (firstn j ops) [] /\
    i_applied st = last_applied (firstn j ops) 0.
Proof.
  intros Hsh Hwf Hfits Hk.
  destruct (crash_safe_index sh Hsh ops k Hwf Hfits Hk) as (st & j & Hrec & Hj & Hi & Ha).
  exists st, j. split; [exact Hrec|]. split; [exact Hj|]. rewrite Hi, Ha. unfold arun.
  rewrite arun_hard_state, arun_membership, arun_addrs, arun_logs, arun_snaps, arun_applied.
  repeat split; reflexivity.
Qed.

Example crash_ex :
  length (journal (fun _ l => l) ex_ops) = 12%nat /\
  res_map (fun st => (ri_current_term (i_index st), i_applied st))
          (recover (fun _ l => l) (crash_fs (journal (fun _ l => l) ex_ops) 8)) = Ok (3, 7).
Proof. split; vm_compute; reflexivity. Qed.
