(** C04/C05 at crash points: acknowledgements in the journal.  After the repair the handler of
    a record save (hard state, membership, address, catalogue) answers only when the rewrite has
    been carried out, so in the sequence of events "mutation / acknowledgement" the ack of the
    i-th operation follows its write.  [ejournal] interleaves them in that order
    (SaveLastAppliedLog is fire-and-forget: no acknowledgement is claimed for it). *)
From RN Require Export Base.Res Base.Fs RaftLog.IndexFile RaftLog.Crash.
Local Open Scope N_scope.

Inductive ev : Type := EMut (m : mut) | EAck (i : nat).

Definition acks_of (op : iop) (i : nat) : list ev :=
  match op with
  | OpApplied _ => []
  | _ => [EAck i]
  end.

Fixpoint ejournal_from (sh : nat -> addr_map -> addr_map) (st : ist) (ops : list iop) (base : nat) : list ev :=
  match ops with
  | [] => []
  | op :: ops' =>
      map EMut (op_journal sh st op) ++ acks_of op base ++
      match step sh st op with
      | Ok st' => ejournal_from sh st' ops' (S base)
      | _ => []
      end
  end.

Fixpoint muts_of (es : list ev) : list mut :=
  match es with
  | [] => []
  | EMut m :: r => m :: muts_of r
  | EAck _ :: r => muts_of r
  end.

Definition ejournal (sh : nat -> addr_map -> addr_map) (ops : list iop) : list ev :=
  map EMut (init_journal None) ++
  match init sh 0 [] with
  | Ok st => ejournal_from sh st ops 0
  | _ => []
  end.
