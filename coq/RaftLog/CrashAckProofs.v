(** Every acknowledged save is in every later crash image: for every prefix of the event
    journal, the restarted store reads back the state after j operations with j beyond every
    operation whose acknowledgement lies in the prefix. *)
From RN Require Import Base.Res Base.Fs Codec.Varint RaftLog.IndexFile RaftLog.AddrMapProofs
  RaftLog.IndexCodecProofs RaftLog.IndexFileProofs RaftLog.Crash RaftLog.CrashProofs RaftLog.CrashAck.
From Coq Require Import ZifyBool ZifyNat ZifyN Permutation.
Local Open Scope N_scope.

Lemma muts_of_app a b : muts_of (a ++ b) = muts_of a ++ muts_of b.
Proof. induction a as [|[m|i] a IH]; cbn [app muts_of]; [reflexivity|rewrite IH; reflexivity|exact IH]. Qed.

Lemma muts_of_map l : muts_of (map EMut l) = l.
Proof. induction l as [|m l IH]; cbn [map muts_of]; [reflexivity|rewrite IH; reflexivity]. Qed.

Section Ack.
Variable sh : nat -> addr_map -> addr_map.
Hypothesis Hsh : shuffles sh.
Let shp : forall n, permutes (sh n) := sh_permutes sh Hsh.

Lemma ejournal_prefix ops : forall st a s k base,
  inv sh st -> i_index st = fst a -> i_applied st = snd a -> Forall wf_op ops -> fits a ops ->
  fs_get IDX s = Some (i_file st) -> (k <= length (ejournal_from sh st ops base))%nat ->
  exists j st', (j <= length ops)%nat /\ run_from sh st (firstn j ops) = Ok st' /\ inv sh st' /\
    fs_get IDX (apply_muts s (muts_of (firstn k (ejournal_from sh st ops base)))) = Some (i_file st') /\
    forall i, In (EAck i) (firstn k (ejournal_from sh st ops base)) -> (i < base + j)%nat.
Proof.
  induction ops as [|op ops IH]; intros st a s k base Hinv Hi Ha Hwf Hfits Hs Hk.
  - exists 0%nat, st. cbn [ejournal_from]. assert (E : firstn k (@nil ev) = []) by apply firstn_nil. rewrite E.
    cbn [muts_of apply_muts fold_left firstn run_from length].
    split; [lia|]. split; [reflexivity|]. split; [exact Hinv|]. split; [exact Hs|]. intros i [].
  - inversion Hwf as [|? ? Hop Hwf']; subst. cbn [fits] in Hfits. destruct Hfits as [Hsz Hfits].
    rewrite astep_fst, <- Hi in Hsz.
    destruct (step_inv sh shp st op Hinv Hop Hsz) as (st1 & Hstep & Hinv1 & Hi1 & Ha1).
    assert (Hi1' : i_index st1 = fst (astep a op)) by (rewrite astep_fst, <- Hi; exact Hi1).
    assert (Ha1' : i_applied st1 = snd (astep a op)) by (rewrite astep_snd, <- Ha; exact Ha1).
    cbn [ejournal_from] in Hk |- *. rewrite Hstep in Hk |- *.
    set (rest := ejournal_from sh st1 ops (S base)) in *.
    (* continuing after the complete operation, with [k'] events of the rest *)
    assert (Cont : forall s1 k', fs_get IDX s1 = Some (i_file st1) -> (k' <= length rest)%nat ->
              exists j st', (j <= length (op :: ops))%nat /\ run_from sh st (firstn j (op :: ops)) = Ok st' /\ inv sh st' /\
                fs_get IDX (apply_muts s1 (muts_of (firstn k' rest))) = Some (i_file st') /\
                (forall i, In (EAck i) (firstn k' rest) -> (i < base + j)%nat) /\ (base < base + j)%nat).
    { intros s1 k' Hs1 Hk'.
      destruct (IH st1 (astep a op) s1 k' (S base) Hinv1 Hi1' Ha1' Hwf' Hfits Hs1 Hk')
        as (j & st' & Hj & Hrun & Hinv' & Hget & Hack).
      exists (S j), st'. cbn [firstn length run_from]. rewrite Hstep. cbn [res_bind].
      split; [lia|]. split; [exact Hrun|]. split; [exact Hinv'|]. split; [exact Hget|].
      split; [|lia]. intros i Hin. specialize (Hack i Hin). lia. }
    assert (Stop : exists j st', (j <= length (op :: ops))%nat /\ run_from sh st (firstn j (op :: ops)) = Ok st' /\ inv sh st' /\
                fs_get IDX s = Some (i_file st') /\ j = 0%nat).
    { exists 0%nat, st. cbn [firstn run_from length]. split; [lia|]. split; [reflexivity|]. split; [exact Hinv|]. split; [exact Hs|reflexivity]. }
    destruct (op_journal_cases sh Hsh st op st1 Hinv Hstep) as [[Hj Hf]|(off & d & Hj & Hf)]; rewrite Hj in Hk |- *;
      cbn [map app] in Hk |- *.
    + (* no mutation (reopen): [EAck base] ++ rest, or nothing *)
      assert (Hs1 : fs_get IDX s = Some (i_file st1)) by (rewrite Hf; exact Hs).
      destruct op; cbn [acks_of app] in Hk |- *;
        try (destruct k as [|k];
             [ destruct Stop as (j & st' & H1 & H2 & H3 & H4 & ->); exists 0%nat, st'; cbn [firstn muts_of apply_muts fold_left];
               split; [lia|]; split; [exact H2|]; split; [exact H3|]; split; [exact H4|]; intros i []
             | cbn [firstn muts_of length] in Hk |- *;
               destruct (Cont s k Hs1 ltac:(lia)) as (j & st' & H1 & H2 & H3 & H4 & H5 & H6);
               exists j, st'; split; [exact H1|]; split; [exact H2|]; split; [exact H3|]; split; [exact H4|];
               intros i [Hi0|Hi0]; [injection Hi0 as <-; exact H6|apply H5, Hi0] ]).
      (* OpApplied never has an empty journal *)
      cbn [op_journal] in Hj. discriminate.
    + assert (Hs1 : fs_get IDX (apply_mut s (MWrite IDX off d)) = Some (i_file st1))
        by (rewrite Hf; apply apply_write_idx, Hs).
      destruct k as [|k].
      { destruct Stop as (j & st' & H1 & H2 & H3 & H4 & ->). exists 0%nat, st'. cbn [firstn muts_of apply_muts fold_left].
        split; [lia|]. split; [exact H2|]. split; [exact H3|]. split; [exact H4|]. intros i []. }
      cbn [firstn muts_of length] in Hk |- *.
      unfold apply_muts at 1. cbn [fold_left]. fold (apply_muts (apply_mut s (MWrite IDX off d))).
      destruct op; cbn [acks_of app] in Hk |- *;
        try (destruct k as [|k];
             [ destruct (Cont (apply_mut s (MWrite IDX off d)) 0%nat Hs1 ltac:(lia)) as (j & st' & H1 & H2 & H3 & H4 & H5 & H6);
               cbn [firstn muts_of] in H4 |- *; exists j, st';
               split; [exact H1|]; split; [exact H2|]; split; [exact H3|]; split; [exact H4|];
               intros i [Hi0|[]]; discriminate
             | cbn [firstn muts_of length] in Hk |- *;
               destruct (Cont (apply_mut s (MWrite IDX off d)) k Hs1 ltac:(lia)) as (j & st' & H1 & H2 & H3 & H4 & H5 & H6);
               exists j, st'; split; [exact H1|]; split; [exact H2|]; split; [exact H3|]; split; [exact H4|];
               intros i [Hi0|[Hi0|Hi0]]; [discriminate|injection Hi0 as <-; exact H6|apply H5, Hi0] ]).
      (* OpApplied: the write only, no acknowledgement claimed *)
      destruct (Cont (apply_mut s (MWrite IDX off d)) k Hs1 ltac:(lia)) as (j & st' & H1 & H2 & H3 & H4 & H5 & H6).
      exists j, st'. split; [exact H1|]. split; [exact H2|]. split; [exact H3|]. split; [exact H4|].
      intros i [Hi0|Hi0]; [discriminate|apply H5, Hi0].
Qed.

(** crash_safe with acknowledgements: every crash state reopens to the state after j operations,
    and every save acknowledged before the crash point is among them *)
Theorem crash_safe_acked ops k :
  Forall wf_op ops -> fits (ri_default, 0) ops -> (k <= length (ejournal sh ops))%nat ->
  exists st j, recover sh (apply_muts [] (muts_of (firstn k (ejournal sh ops)))) = Ok st /\ (j <= length ops)%nat /\
    i_index st = fst (arun (firstn j ops)) /\ i_applied st = snd (arun (firstn j ops)) /\
    forall i, In (EAck i) (firstn k (ejournal sh ops)) -> (i < j)%nat.
Proof.
  intros Hwf Hfits Hk. unfold ejournal in *.
  destruct (inv_fresh sh shp 0 []) as (st0 & Hinit & Hinv0 & Hi0 & Ha0 & Hw0); [cbn; lia|constructor|].
  rewrite Hinit in Hk |- *.
  assert (Hfile0 : i_file st0 = fresh_image).
  { unfold init in Hinit. cbn [length Nat.ltb Nat.leb] in Hinit. injection Hinit as <-. reflexivity. }
  assert (Hfresh : forall f, (length f < 9)%nat -> all_bytes f ->
            exists st, init sh 0 f = Ok st /\ i_index st = ri_default /\ i_applied st = 0).
  { intros f Hl Hb. destruct (inv_fresh sh shp 0 f Hl Hb) as (st & H1 & _ & H2 & H3 & _). exists st. auto. }
  unfold recover. cbn [init_journal map app] in Hk |- *.
  destruct k as [|[|k]].
  - cbn [firstn muts_of apply_muts fold_left fs_get].
    destruct (Hfresh [] ltac:(cbn; lia) ltac:(constructor)) as (st & H1 & H2 & H3).
    exists st, 0%nat. cbn [firstn]. split; [exact H1|]. split; [lia|]. split; [exact H2|]. split; [exact H3|]. intros i [].
  - cbn [firstn muts_of apply_muts fold_left apply_mut fs_get fs_set]. unfold fname_eqb. cbn [String.eqb Ascii.eqb Bool.eqb].
    destruct (Hfresh [] ltac:(cbn; lia) ltac:(constructor)) as (st & H1 & H2 & H3).
    exists st, 0%nat. cbn [firstn]. split; [exact H1|]. split; [lia|]. split; [exact H2|]. split; [exact H3|].
    intros i [Hx|[]]. discriminate.
  - cbn [firstn muts_of length] in Hk |- *.
    set (s2 := apply_muts [] [MCreate IDX; MWrite IDX 0 fresh_image]).
    assert (Hs2 : fs_get IDX s2 = Some (i_file st0)).
    { rewrite Hfile0. vm_compute. reflexivity. }
    change (apply_muts [] (MCreate IDX :: MWrite IDX 0 fresh_image :: muts_of (firstn k (ejournal_from sh st0 ops 0))))
      with (apply_muts s2 (muts_of (firstn k (ejournal_from sh st0 ops 0)))).
    destruct (ejournal_prefix ops st0 (ri_default, 0) s2 k 0%nat Hinv0 Hi0 Ha0 Hwf Hfits Hs2 ltac:(lia))
      as (j & st' & Hj & Hrun & Hinv' & Hget & Hack).
    rewrite Hget.
    destruct (run_from_refines sh shp (firstn j ops) st0 (ri_default, 0) Hinv0 Hi0 Ha0
                (Forall_firstn _ j ops Hwf) (fits_firstn j ops _ Hfits)) as (st'' & Hrun' & _ & Hi' & Ha').
    rewrite Hrun in Hrun'. injection Hrun' as <-.
    rewrite (inv_reopen sh shp st' 0 Hinv').
    eexists. exists j. split; [reflexivity|]. cbn [i_index i_applied].
    split; [exact Hj|]. split; [exact Hi'|]. split; [exact Ha'|].
    intros i [Hx|[Hx|Hx]]; [discriminate|discriminate|]. specialize (Hack i Hx). lia.
Qed.

End Ack.
