(** last_applied never points past what the recovered log reproduces — now with the real log
    model: in every crash state of the store journal the log file reopens to the records whose
    data write landed, and the header of the index file names an index below the recovered end. *)
From RN Require Import Base.Res Codec.Varint Codec.BufReader RaftLog.LogFile RaftLog.Spec RaftLog.Layout
  RaftLog.FileProofs RaftLog.WriteProofs RaftLog.InitProofs RaftLog.LogCrash RaftLog.LogCrashProofs
  RaftLog.StoreCrash.
From Coq Require Import ZifyBool ZifyNat ZifyN.
Local Open Scope N_scope.

Lemma log_muts_app a b : log_muts (a ++ b) = log_muts a ++ log_muts b.
Proof. induction a as [|m a IH]; [reflexivity|]. destruct m; cbn [app log_muts]; rewrite IH; reflexivity. Qed.

Lemma log_muts_map l : log_muts (map SLog l) = l.
Proof. induction l as [|m l IH]; [reflexivity|]. cbn [map log_muts]. rewrite IH. reflexivity. Qed.

Lemma header_after_app a b h : header_after (a ++ b) h = header_after b (header_after a h).
Proof. revert h. induction a as [|m a IH]; intros h; [reflexivity|]. destruct m; cbn [app header_after]; apply IH. Qed.

Lemma header_after_map l h : header_after (map SLog l) h = h.
Proof. induction l as [|m l IH]; [reflexivity|]. cbn [map header_after]. exact IH. Qed.

Lemma firstn_map {A B} (f : A -> B) n l : firstn n (map f l) = map f (firstn n l).
Proof. revert l. induction n as [|n IH]; intros l; [reflexivity|]. destruct l; [reflexivity|]. cbn [map firstn]. rewrite IH. reflexivity. Qed.

(** the projection of a prefix of the store journal on the log file is a prefix of the log
    journal, and a header value in the prefix is below the end of what the prefix wrote *)
Lemma store_prefix ops : forall c k h,
  wfc c -> appendable c (appends ops) -> applied_ok (c_first c + nlen (c_all c)) ops ->
  (k <= length (store_journal (conc c) ops))%nat ->
  (h = 0 \/ h < c_first c + nlen (c_all c)) ->
  let P := firstn k (store_journal (conc c) ops) in
  exists k', (k' <= length (appends_journal (conc c) (appends ops)))%nat /\
    log_muts P = firstn k' (appends_journal (conc c) (appends ops)) /\
    (header_after P h = 0 \/
     header_after P h < c_first c + nlen (c_all c) + N.of_nat (data_writes (log_muts P))).
Proof.
  induction ops as [|op r IH]; intros c k h W Hap Hok Hk Hh; cbv zeta.
  - cbn [store_journal appends appends_journal] in *. rewrite firstn_nil. cbn [log_muts header_after data_writes].
    exists 0%nat. split; [cbn; lia|]. split; [reflexivity|]. destruct Hh; [left; assumption|right; lia].
  - destruct op as [x|v].
    + cbn [appends] in Hap. destruct Hap as [Hwr Hap].
      pose proof Hwr as (H1 & H2 & H3 & H4).
      destruct (write_conc c x W H1 H2 H3 H4) as [Hw W'].
      destruct (wj_full c x W Hwr) as [_ Hdw].
      cbn [store_journal appends appends_journal applied_ok] in *. rewrite Hw in *. cbn [fst] in *.
      rewrite (write_journal_conc c x W Hwr) in *.
      destruct (Nat.le_gt_cases k (length (wj c x))) as [Hle|Hgt].
      * rewrite firstn_app, map_length. replace (k - length (wj c x))%nat with 0%nat by lia.
        cbn [firstn]. rewrite app_nil_r, firstn_map, log_muts_map, header_after_map.
        exists k. split; [rewrite app_length; lia|]. split.
        -- rewrite firstn_app. replace (k - length (wj c x))%nat with 0%nat by lia. cbn [firstn]. rewrite app_nil_r. reflexivity.
        -- destruct Hh; [left; assumption|right; lia].
      * rewrite firstn_app, map_length, firstn_all2 by (rewrite map_length; lia).
        rewrite app_length, map_length in Hk.
        assert (Hend : c_first (c_push c x) + nlen (c_all (c_push c x)) = c_first c + nlen (c_all c) + 1).
        { rewrite c_all_push, nlen_app. unfold nlen at 2. cbn [length c_first c_push]. lia. }
        rewrite <- Hend in Hok.
        destruct (IH (c_push c x) (k - length (wj c x))%nat h W' Hap Hok ltac:(lia)
                     ltac:(destruct Hh; [left; assumption|right; lia])) as (k' & Hk' & Hlm & Hhd).
        cbv zeta in Hlm, Hhd.
        rewrite log_muts_app, log_muts_map, header_after_app, header_after_map, Hlm.
        exists (length (wj c x) + k')%nat. split; [rewrite app_length; lia|]. split.
        -- rewrite firstn_app, (firstn_all2 (n := (length (wj c x) + k')%nat) (wj c x)) by lia.
           replace (length (wj c x) + k' - length (wj c x))%nat with k' by lia. reflexivity.
        -- rewrite <- Hlm, data_writes_app, Hdw. rewrite Hend in Hhd.
           destruct Hhd as [Hz|Hlt]; [left; exact Hz|right; lia].
    + cbn [store_journal appends applied_ok] in *. destruct Hok as [Hv Hok].
      destruct k as [|k].
      * cbn [firstn log_muts header_after data_writes]. exists 0%nat. split; [lia|]. split; [reflexivity|].
        destruct Hh; [left; assumption|right; lia].
      * cbn [length] in Hk. cbn [firstn log_muts header_after].
        apply (IH c k v W Hap Hok ltac:(lia)). right. exact Hv.
Qed.

(** crash_safe_store: the log part reopens to the written records and last_applied is below
    the recovered end index (or still 0) — for EVERY prefix of the journal of EVERY history *)
Theorem crash_safe_store limit start pre split ops k :
  limit <= 4096 -> appendable (c_fresh limit start pre split) (appends ops) -> applied_ok start ops ->
  (k <= length (full_journal limit start pre split ops))%nat ->
  let P := firstn k (full_journal limit start pre split ops) in
  let j := data_writes (log_muts P) in
  exists s, init (apply_lmuts None (log_muts P)) limit start pre split = Ok s /\
            recovered s start (firstn j (appends ops)) /\
            (header_after P 0 = 0 \/ header_after P 0 < start + N.of_nat j).
Proof.
  intros Hl Hap Hok Hk. cbv zeta. unfold full_journal in *.
  rewrite (init_fresh limit start pre split Hl) in *.
  pose proof (wfc_fresh limit start pre split Hl) as W0.
  set (c0 := c_fresh limit start pre split) in *.
  assert (Hend0 : c_first c0 + nlen (c_all c0) = start) by (unfold c0, c_fresh, c_all; cbn; unfold nlen; cbn; lia).
  pose proof (crash_safe_log_append limit start pre split (appends ops)) as Hlog.
  unfold log_journal, crash_log in Hlog. rewrite (init_fresh limit start pre split Hl) in Hlog. fold c0 in Hlog.
  destruct (Nat.le_gt_cases k 3) as [Hle|Hgt].
  - (* inside the creation of the log file: no header write yet *)
    rewrite firstn_app, map_length. replace (k - length (fresh_journal limit start pre))%nat with 0%nat by (cbn [fresh_journal length]; lia).
    cbn [firstn]. rewrite app_nil_r, firstn_map, log_muts_map, header_after_map.
    destruct (Hlog k Hl Hap) as (s & Hinit & Hrec).
    { rewrite app_length. cbn [fresh_journal length]. lia. }
    rewrite firstn_app in Hinit, Hrec. replace (k - length (fresh_journal limit start pre))%nat with 0%nat in Hinit, Hrec by (cbn [fresh_journal length]; lia).
    cbn [firstn] in Hinit, Hrec. rewrite app_nil_r in Hinit, Hrec.
    exists s. split; [exact Hinit|]. split; [exact Hrec|]. left. reflexivity.
  - rewrite firstn_app, map_length, firstn_all2 by (rewrite map_length; cbn [fresh_journal length]; lia).
    rewrite app_length, map_length in Hk. cbn [fresh_journal length] in Hk |- *.
    rewrite <- Hend0 in Hok.
    destruct (store_prefix ops c0 (k - 3)%nat 0 W0 Hap Hok ltac:(lia) ltac:(left; reflexivity)) as (k' & Hk' & Hlm & Hhd).
    cbv zeta in Hlm, Hhd.
    rewrite log_muts_app, log_muts_map, header_after_app, header_after_map, Hlm.
    destruct (Hlog (3 + k')%nat Hl Hap) as (s & Hinit & Hrec).
    { rewrite app_length. cbn [fresh_journal length]. lia. }
    rewrite firstn_app, (firstn_all2 (n := (3 + k')%nat) (fresh_journal limit start pre)) in Hinit, Hrec
      by (cbn [fresh_journal length]; lia).
    cbn [fresh_journal length] in Hinit, Hrec. replace (3 + k' - 3)%nat with k' in Hinit, Hrec by lia.
    exists s. split; [exact Hinit|]. split; [exact Hrec|].
    rewrite <- Hlm in *. rewrite data_writes_app. cbn [fresh_journal data_writes]. rewrite Hend0 in Hhd.
    destruct Hhd as [Hz|Hlt]; [left; exact Hz|right; lia].
Qed.
