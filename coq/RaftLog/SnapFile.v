(** Model of the snapshot file (src/raft/filestore/raftsnapshot.rs): SnapshotWriter and
    SnapshotReader.  Model only: no proofs in this file.

    A snapshot file is the header frame followed by one frame per record
    (quick-protobuf `write_message` = varint length prefix ++ body, Codec.Varint.frame).

    Writer.  SnapshotWriter::init opens the path and writes sequentially from offset 0.
      * [write_in_place]  — the code before the repair: OpenOptions .create(true) WITHOUT
        .truncate(true): bytes of an earlier file of the same name beyond the new length
        survive (Regression variant);
      * [write_truncate]  — the repaired code: .create(true).truncate(true).

    Reader.  SnapshotReader::init reads one 1024-byte block and takes the first message as the
    header; read_record returns the buffered messages and refills with 1024-byte reads until
    read_len = 0.  That is exactly Codec.BufReader.feed_drain over the 1024-byte blocks of the
    file, provided the header frame lies within the first block (otherwise init fails with
    "read snapshot head error"). *)
From RN Require Export Base.Res Codec.Varint Codec.BufReader.
Local Open Scope nat_scope.

Definition snap_image (hdr : list N) (recs : list (list N)) : list N :=
  frame hdr ++ concat (map frame recs).

(** writing [new] from offset 0 over a file whose previous content is [old] *)
Definition write_in_place (old new : list N) : list N := new ++ skipn (length new) old.
Definition write_truncate (old new : list N) : list N := new.

(** successive 1024-byte reads until read_len = 0 (fuel: one block per remaining byte) *)
Fixpoint blocks (fuel : nat) (f : list N) : list (list N) :=
  match fuel with
  | O => []
  | S fuel' => match f with
               | [] => []
               | _ => firstn 1024 f :: blocks fuel' (skipn 1024 f)
               end
  end.

Definition blocks1024 (f : list N) : list (list N) := blocks (length f) f.

(** (header frame, record frames) *)
Definition snap_read (file : list N) : res (list N * list (list N)) :=
  match feed_drain (blocks1024 file) mbr_new with
  | Ok (h :: recs) => if length h <=? length (hd [] (blocks1024 file)) then Ok (h, recs) else Err
  | Ok [] => Err               (* "read snapshot head error" *)
  | Err => Err
  | Panic => Panic
  end.

(** do_load_snapshot: `while let Ok(Some(record)) = reader.read_record()` — the loop ends at
    the first frame that does not decode *)
Fixpoint decode_until {R} (dec : list N -> option R) (frames : list (list N)) : list R :=
  match frames with
  | [] => []
  | f :: fs => match dec f with Some r => r :: decode_until dec fs | None => [] end
  end.
