(** What is PROVED about the manager layer (RaftLogManager model): routing.  A query is the
    concatenation, in catalogue order, of what each selected file returns for the same interval,
    and each of those answers is the file's abstract slice (by the single-file refinement); a
    delete-from drops exactly the files that start above the cut and truncates, with the single-file
    [strip_log_to], exactly the files that contain it.  NOT proved here (covered by the
    correspondence with the real FileStore only): that the catalogue produced by rollover /
    pointer insertion / split-off keeps the files contiguous, i.e. the full manager refinement to
    one abstract log - hence the [_partial] names in Props. *)
From RN Require Import Base.Res Codec.Varint Codec.BufReader
  RaftLog.LogFile RaftLog.Spec RaftLog.Layout RaftLog.FileProofs RaftLog.RecordProofs
  RaftLog.ReadProofs RaftLog.StripProofs RaftLog.Refine RaftLog.LogManager.
From Coq Require Import ZifyBool ZifyNat ZifyN.
Local Open Scope N_scope.
Ltac Zify.zify_post_hook ::= Z.div_mod_to_equations.

(** every range of the catalogue has a started actor in a canonical well-formed state that
    starts at the range's start index; ids are distinct *)
Definition range_ok (actors : list (N * lim)) (g : lrange) : Prop :=
  exists c, lookup (g_id g) actors = Some (conc c) /\ wfc c /\ c_first c = g_start g.

Definition mgr_wf (m : mgr) : Prop :=
  NoDup (map g_id (m_logs m)) /\ Forall (range_ok (m_actors m)) (m_logs m).

Definition mgr_first (m : mgr) : N := match m_logs m with g :: _ => g_start g | [] => 0 end.

Lemma lookup_set_same {A} k (v : A) l : lookup k (set_key k v l) = Some v.
Proof. unfold set_key. cbn [lookup]. rewrite N.eqb_refl. reflexivity. Qed.

Lemma lookup_remove_other {A} k k' (l : list (N * A)) : k <> k' -> lookup k (remove_key k' l) = lookup k l.
Proof.
  intros H. induction l as [|[k0 v] l IH]; [reflexivity|]. cbn [remove_key lookup].
  destruct (k' =? k0) eqn:E1.
  - rewrite IH. destruct (k =? k0) eqn:E2; [lia|reflexivity].
  - cbn [lookup]. rewrite IH. reflexivity.
Qed.

Lemma lookup_set_other {A} k k' (v : A) l : k <> k' -> lookup k (set_key k' v l) = lookup k l.
Proof.
  intros H. unfold set_key. cbn [lookup]. destruct (k =? k') eqn:E; [lia|]. apply lookup_remove_other. exact H.
Qed.

(** what one file answers *)
Definition file_slice (actors : list (N * lim)) (g : lrange) (lo hi : N) : list lrec :=
  match lookup (g_id g) actors with
  | Some s => match fst (read_records s lo hi) with Ok l => l | _ => [] end
  | None => []
  end.

Definition selected (g : lrange) (lo hi : N) : bool := lt_end lo g || (g_start g <=? hi).

Lemma range_ok_other actors g id s :
  g_id g <> id -> range_ok actors g -> range_ok (set_key id s actors) g.
Proof.
  intros Hne (c & Hl & W & Hf). exists c. rewrite lookup_set_other by exact Hne. auto.
Qed.

Lemma query_loop_spec : forall logs m lo hi,
  NoDup (map g_id logs) -> Forall (range_ok (m_actors m)) logs ->
  snd (mgr_query_loop m logs lo hi)
  = concat (map (fun g => if selected g lo hi then file_slice (m_actors m) g lo hi else []) logs).
Proof.
  induction logs as [|g rest IH]; intros m lo hi Hnd Hok; [reflexivity|].
  inversion Hnd as [|? ? Hnin Hnd']; subst. inversion Hok as [|? ? Hg Hrest]; subst.
  cbn [mgr_query_loop map concat]. fold (selected g lo hi).
  destruct (selected g lo hi) eqn:Esel.
  - destruct Hg as (c & Hl & W & Hf).
    unfold actor_of. rewrite Hl. unfold file_slice at 1. rewrite Hl.
    rewrite (read_records_conc c lo hi W). cbn [fst].
    set (m2 := set_actor m (g_id g) (conc (c_after_read c lo hi))).
    assert (Hok2 : Forall (range_ok (m_actors m2)) rest).
    { apply Forall_forall. intros g' Hin. rewrite Forall_forall in Hrest.
      apply range_ok_other; [|apply Hrest; exact Hin].
      intros Heq. apply Hnin. rewrite <- Heq. apply in_map. exact Hin. }
    specialize (IH m2 lo hi Hnd' Hok2).
    destruct (mgr_query_loop m2 rest lo hi) as [m3 l] eqn:E. cbn [snd] in *. rewrite IH. f_equal.
    (* the other files' answers do not depend on this file's actor *)
    f_equal. apply map_ext_in. intros g' Hin. destruct (selected g' lo hi); [|reflexivity].
    unfold file_slice, m2. cbn [m_actors set_actor].
    rewrite lookup_set_other; [reflexivity|].
    intros Heq. apply Hnin. rewrite <- Heq. apply in_map. exact Hin.
  - cbn [app]. apply IH; assumption.
Qed.

(** routing of reads; every file's answer is its abstract slice *)
Definition mgr_query_spec (m : mgr) (lo hi : N) : Prop :=
  snd (mgr_query m lo hi)
  = concat (map (fun g => if selected g lo hi then file_slice (m_actors m) g lo hi else []) (m_logs m))
  /\ forall g, In g (m_logs m) ->
       exists c, lookup (g_id g) (m_actors m) = Some (conc c) /\ wfc c /\
                 file_slice (m_actors m) g lo hi = c_slice c lo hi /\
                 map to_ent (c_slice c lo hi) = a_get (abs c) (N.max lo (c_split c)) hi.

Theorem mgr_query_refines : forall m lo hi, mgr_wf m -> mgr_query_spec m lo hi.
Proof.
  intros m lo hi [Hnd Hok]. split.
  - unfold mgr_query. apply query_loop_spec; assumption.
  - intros g Hin. rewrite Forall_forall in Hok. destruct (Hok g Hin) as (c & Hl & W & Hf).
    exists c. split; [exact Hl|]. split; [exact W|]. split.
    + unfold file_slice. rewrite Hl, (read_records_conc c lo hi W). reflexivity.
    + apply slice_get. exact W.
Qed.

(** delete-from: which files are dropped, which are truncated (by the single-file strip) and which
    are left alone *)
Definition strip_file (actors : list (N * lim)) (g : lrange) (k : N) : option lim :=
  match lookup (g_id g) actors with
  | Some s => match strip_log_to s k with Ok s' => Some s' | _ => Some s end
  | None => None
  end.

Lemma strip_loop_spec : forall logs m k pops,
  NoDup (map g_id logs) -> Forall (range_ok (m_actors m)) logs ->
  let '(m', pops') := strip_loop m logs k pops in
  pops' = (pops + length (filter (fun g => lt_end k g && (k <? g_start g)%N) logs))%nat /\
  (forall g, In g logs ->
     lookup (g_id g) (m_actors m') =
       if lt_end k g then (if (k <? g_start g)%N then None else strip_file (m_actors m) g k)
       else lookup (g_id g) (m_actors m)) /\
  (forall id, ~ In id (map g_id logs) -> lookup id (m_actors m') = lookup id (m_actors m)).
Proof.
  induction logs as [|g rest IH]; intros m k pops Hnd Hok.
  - cbn [strip_loop filter length]. split; [lia|]. split; [intros g []|reflexivity].
  - inversion Hnd as [|? ? Hnin Hnd']; subst. inversion Hok as [|? ? Hg Hrest]; subst.
    cbn [strip_loop filter].
    assert (Hother : forall g', In g' rest -> g_id g' <> g_id g).
    { intros g' Hin Heq. apply Hnin. rewrite <- Heq. apply in_map. exact Hin. }
    destruct (lt_end k g) eqn:Elt; cbn [andb].
    + destruct (k <? g_start g) eqn:Ek.
      * (* dropped *)
        assert (Hok2 : Forall (range_ok (m_actors (drop_file m (g_id g)))) rest).
        { apply Forall_forall. intros g' Hin. rewrite Forall_forall in Hrest.
          destruct (Hrest g' Hin) as (c & Hl & W & Hf). exists c. cbn [drop_file m_actors].
          rewrite lookup_remove_other by (apply Hother; exact Hin). auto. }
        specialize (IH (drop_file m (g_id g)) k (S pops) Hnd' Hok2).
        destruct (strip_loop (drop_file m (g_id g)) rest k (S pops)) as [m' pops'].
        destruct IH as (Hp & Hin' & Hout). cbn [length]. split; [lia|]. split.
        -- intros g' [<-|Hin].
           ++ rewrite Elt, Ek. rewrite (Hout (g_id g) Hnin). cbn [drop_file m_actors].
              clear. induction (m_actors m) as [|[k0 v] l IHl]; [reflexivity|].
              cbn [remove_key]. destruct (g_id g =? k0) eqn:E; [exact IHl|].
              cbn [lookup]. rewrite E. exact IHl.
           ++ rewrite (Hin' g' Hin). cbn [drop_file m_actors]. unfold strip_file.
              rewrite !lookup_remove_other by (apply Hother; exact Hin). reflexivity.
        -- intros id Hid. cbn [map In] in Hid. rewrite Hout by tauto. cbn [drop_file m_actors].
           apply lookup_remove_other. intros Heq. apply Hid. left. congruence.
      * (* truncated with the file's own strip_log_to *)
        destruct Hg as (c & Hl & W & Hf). unfold actor_of. rewrite Hl.
        set (m2 := match strip_log_to (conc c) k with Ok s' => set_actor m (g_id g) s' | _ => m end).
        assert (Hact2 : forall id, id <> g_id g -> lookup id (m_actors m2) = lookup id (m_actors m)).
        { intros id Hne. subst m2. destruct (strip_log_to (conc c) k); [|reflexivity|reflexivity].
          cbn [set_actor m_actors]. apply lookup_set_other. exact Hne. }
        assert (Hok2 : Forall (range_ok (m_actors m2)) rest).
        { apply Forall_forall. intros g' Hin. rewrite Forall_forall in Hrest.
          destruct (Hrest g' Hin) as (c' & Hl' & W' & Hf'). exists c'.
          rewrite Hact2 by (apply Hother; exact Hin). auto. }
        specialize (IH m2 k pops Hnd' Hok2).
        destruct (strip_loop m2 rest k pops) as [m' pops'].
        destruct IH as (Hp & Hin' & Hout). split; [exact Hp|]. split.
        -- intros g' [<-|Hin].
           ++ rewrite Elt, Ek. rewrite (Hout (g_id g) Hnin). unfold strip_file. rewrite Hl.
              subst m2. destruct (strip_log_to (conc c) k); cbn [set_actor m_actors];
                [apply lookup_set_same|exact Hl|exact Hl].
           ++ rewrite (Hin' g' Hin). unfold strip_file. rewrite !Hact2 by (apply Hother; exact Hin). reflexivity.
        -- intros id Hid. cbn [map In] in Hid. rewrite Hout by tauto. apply Hact2. intros Heq. apply Hid. left. congruence.
    + (* wholly below the cut: untouched (repair of defect 4: continue, not break) *)
      specialize (IH m k pops Hnd' Hrest).
      destruct (strip_loop m rest k pops) as [m' pops'].
      destruct IH as (Hp & Hin' & Hout). split; [exact Hp|]. split.
      * intros g' [<-|Hin]; [rewrite Elt; apply Hout; exact Hnin|apply Hin'; exact Hin].
      * intros id Hid. cbn [map In] in Hid. apply Hout. tauto.
Qed.

Definition mgr_truncate_spec (m : mgr) (k : N) : Prop :=
  let '(m', pops) := strip_loop m (m_logs m) k 0 in
  pops = length (filter (fun g => lt_end k g && (k <? g_start g)%N) (m_logs m)) /\
  forall g, In g (m_logs m) ->
    (* below the cut: untouched *)
    (lt_end k g = false -> lookup (g_id g) (m_actors m') = lookup (g_id g) (m_actors m)) /\
    (* above the cut: dropped *)
    (lt_end k g = true -> k < g_start g -> lookup (g_id g) (m_actors m') = None) /\
    (* containing the cut: exactly the abstract truncation of that file *)
    (lt_end k g = true -> g_start g <= k ->
       exists c, lookup (g_id g) (m_actors m) = Some (conc c) /\ wfc c /\
         exists c', lookup (g_id g) (m_actors m') = Some (conc c') /\ wfc c' /\
                    abs c' = a_truncate (abs c) k).

Theorem mgr_truncate_refines : forall m k, mgr_wf m -> mgr_first m <= k -> mgr_truncate_spec m k.
Proof.
  intros m k [Hnd Hok] _. unfold mgr_truncate_spec.
  pose proof (strip_loop_spec (m_logs m) m k 0 Hnd Hok) as H.
  destruct (strip_loop m (m_logs m) k 0) as [m' pops]. destruct H as (Hp & Hin & _).
  split; [exact Hp|]. intros g Hg. specialize (Hin g Hg). rewrite Forall_forall in Hok.
  destruct (Hok g Hg) as (c & Hl & W & Hf).
  split; [|split].
  - intros E. rewrite E in Hin. exact Hin.
  - intros E Hk. rewrite E in Hin. destruct (k <? g_start g) eqn:E2; [exact Hin|lia].
  - intros E Hk. rewrite E in Hin. destruct (k <? g_start g) eqn:E2; [lia|].
    exists c. split; [exact Hl|]. split; [exact W|].
    unfold strip_file in Hin. rewrite Hl in Hin.
    destruct (N.ltb_spec k (c_first c + nlen (c_all c))) as [Hlt|Hge].
    + assert (Hkk : c_first c <= k < c_first c + nlen (c_all c)) by lia.
      rewrite (strip_conc c k W Hkk) in Hin.
      exists (c_truncate c k). split; [exact Hin|]. split; [apply strip_wfc; assumption|].
      apply abs_truncate; assumption.
    + rewrite (strip_noop c k Hge) in Hin. exists c. split; [exact Hin|]. split; [exact W|].
      unfold a_truncate. rewrite abs_end. destruct (c_first c + nlen (c_all c) <=? k) eqn:E3; [reflexivity|lia].
Qed.
