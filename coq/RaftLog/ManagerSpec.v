(** The abstract side of the manager refinement: one abstract log ([Spec.alog]) for the whole
    catalogue, a floor below which delete-from / new pointers are out of scope (Raft never truncates
    or re-points below its newest snapshot), the pending BuildSnapshotPointerLog pointer; the
    operations of RaftLogManager and what the abstract log demands of their answers. *)
From RN Require Import Base.Res Codec.Varint Codec.BufReader
  RaftLog.LogFile RaftLog.Spec RaftLog.Layout RaftLog.FileProofs RaftLog.RecordProofs
  RaftLog.WriteProofs RaftLog.Refine RaftLog.LogManager RaftLog.ManagerInv.
From Coq Require Import ZifyBool ZifyNat ZifyN.
Local Open Scope N_scope.
Ltac Zify.zify_post_hook ::= Z.div_mod_to_equations.

Record mstate : Type := mkMst {
  ms_log : option alog;          (* None: nothing was ever written (no log file) *)
  ms_floor : N;                  (* newest snapshot pointer index + 1 (0: none) *)
  ms_pend : option lrec          (* pointer remembered by BuildSnapshotPointerLog *)
}.

Inductive mop :=
| OAppend (x : lrec)             (* Write *)
| OBatch (xs : list lrec)        (* WriteBatch *)
| OTruncate (k : N)              (* StripLogToIndex *)
| OQuery (lo hi : N)             (* Query *)
| OLast                          (* GetLastLogIndex (index part) *)
| OPointer (ptr : lrec)          (* InstallSnapshotPointerLog (it splits off at index + 1 itself) *)
| OInstallAll (ptr : lrec)       (* SplitOff(u64::MAX) then InstallSnapshotPointerLog: snapshot ahead of the log *)
| OBuild (ptr : lrec)            (* BuildSnapshotPointerLog *)
| OReopen.                       (* graceful stop + start *)

Inductive mout := MAck (ok : bool) | MRecs (l : list lrec) | MIdx (i : N) | MDone.

Definition wres_ack (r : wres) : bool := match r with WOk => true | _ => false end.

Definition mstep (m : mgr) (op : mop) : mgr * mout :=
  match op with
  | OAppend x => let '(m', r) := mgr_write 3 m x true in (m', MAck (wres_ack r))
  | OBatch xs => let '(m', r) := mgr_write_batch (S (S (length xs))) m xs 0 in (m', MAck (wres_ack r))
  | OTruncate k => (mgr_strip m k, MAck true)
  | OQuery lo hi => let '(m', l) := mgr_query m lo hi in (m', MRecs l)
  | OLast => (m, MIdx (fst (mgr_last m)))
  | OPointer ptr => (mgr_save_pointer m ptr, MDone)
  | OInstallAll ptr => (mgr_save_pointer (mgr_split_off m U64MAX) ptr, MDone)
  | OBuild ptr => (mgr_build_pointer m ptr, MDone)
  | OReopen => (mgr_reopen m, MDone)
  end.

Fixpoint mrun (m : mgr) (ops : list mop) : mgr * list mout :=
  match ops with
  | [] => (m, [])
  | op :: ops' => let '(m1, o) := mstep m op in let '(m2, os) := mrun m1 ops' in (m2, o :: os)
  end.

(** * abstract operations *)
Definition alog_app (a : alog) (xs : list lrec) : alog := mkAlog (a_first a) (a_ents a ++ map ent_of xs).

(** compaction to a snapshot pointer at index p: the pointer entry replaces everything up to p *)
Definition a_compact (a : alog) (ptr : lrec) : alog :=
  mkAlog (r_index ptr) (ent_of ptr :: skipn (N.to_nat (r_index ptr + 1 - a_first a)) (a_ents a)).

Definition ptr_in (a : alog) (fl : N) (ptr : lrec) : Prop :=
  rec_ok ptr /\ rec_nonempty ptr /\ a_first a <= r_index ptr < a_end a /\ fl <= r_index ptr + 1.

Definition rec_in (x : lrec) : Prop := rec_ok x /\ rec_nonempty x /\ r_index x + 1 < U64MAX.

(** inputs in scope *)
Definition mop_ok (st : mstate) (op : mop) : Prop :=
  match op with
  | OAppend x => rec_in x
  | OBatch xs => Forall rec_in xs
  | OTruncate k =>
      k < U64MAX /\ ms_floor st <= k /\ match ms_log st with Some a => a_first a <= k | None => True end
  | OQuery lo hi => lo < U64MAX
  | OLast => True
  | OPointer ptr => match ms_log st with Some a => ptr_in a (ms_floor st) ptr | None => rec_in ptr end
  | OInstallAll ptr => rec_in ptr
  | OBuild ptr =>
      match ms_pend st, ms_log st with
      | Some prev, Some a => ptr_in a (ms_floor st) prev
      | Some prev, None => rec_in prev
      | None, _ => True
      end
  | OReopen => True
  end.

Definition indexed_from (a : option alog) (xs : list lrec) : Prop :=
  match a, xs with
  | _, [] => True
  | Some a, _ => indexed (a_end a) xs
  | None, x :: _ => indexed (r_index x) xs
  end.

Definition log_app (l : option alog) (xs : list lrec) : option alog :=
  match l, xs with
  | Some a, _ => Some (alog_app a xs)
  | None, [] => None
  | None, x :: _ => Some (mkAlog (r_index x) (map ent_of xs))
  end.

Definition log_end (l : option alog) : option N := match l with Some a => Some (a_end a) | None => None end.

Definition install_ptr (st : mstate) (ptr : lrec) (pend : option lrec) : mstate :=
  mkMst (match ms_log st with
         | Some a => Some (a_compact a ptr)
         | None => Some (mkAlog (r_index ptr) [ent_of ptr])
         end)
        (N.max (ms_floor st) (r_index ptr + 1)) pend.

(** what the abstract log demands: relation between state, operation, answer and next state *)
Definition mspec (st : mstate) (op : mop) (out : mout) (st' : mstate) : Prop :=
  match op, out with
  | OAppend x, MAck true =>
      (* acknowledged only at the end of the log (or as the very first record) *)
      match ms_log st with Some a => r_index x = a_end a | None => True end /\
      st' = mkMst (log_app (ms_log st) [x]) (ms_floor st) (ms_pend st)
  | OAppend x, MAck false =>
      (* refused only when not contiguous; nothing changes *)
      (exists a, ms_log st = Some a /\ r_index x <> a_end a) /\ st' = st
  | OBatch xs, MAck true =>
      indexed_from (ms_log st) xs /\ st' = mkMst (log_app (ms_log st) xs) (ms_floor st) (ms_pend st)
  | OBatch xs, MAck false =>
      (* a prefix was stored, the next record was not contiguous *)
      exists n, (n < length xs)%nat /\ indexed_from (ms_log st) (firstn n xs) /\
        (match log_end (log_app (ms_log st) (firstn n xs)) with
         | Some e => r_index (nth n xs (mkRec 0 0 [])) <> e
         | None => False
         end) /\
        st' = mkMst (log_app (ms_log st) (firstn n xs)) (ms_floor st) (ms_pend st)
  | OTruncate k, MAck true =>
      st' = mkMst (match ms_log st with Some a => Some (a_truncate a k) | None => None end)
                  (ms_floor st) (ms_pend st)
  | OQuery lo hi, MRecs l =>
      map to_ent l = match ms_log st with Some a => a_get a lo hi | None => [] end /\ st' = st
  | OLast, MIdx i =>
      i = match ms_log st with Some a => (if a_end a =? 0 then 0 else a_end a - 1) | None => 0 end /\ st' = st
  | OPointer ptr, MDone => st' = install_ptr st ptr (ms_pend st)
  | OInstallAll ptr, MDone =>
      st' = mkMst (Some (mkAlog (r_index ptr) [ent_of ptr])) (r_index ptr + 1) (ms_pend st)
  | OBuild ptr, MDone =>
      st' = match ms_pend st with
            | Some prev => install_ptr st prev (Some ptr)
            | None => mkMst (ms_log st) (ms_floor st) (Some ptr)
            end
  | OReopen, MDone => st' = mkMst (ms_log st) (ms_floor st) None
  | _, _ => False
  end.

(** * representation relation *)
Definition MRep (m : mgr) (st : mstate) : Prop :=
  exists fs : list mfile,
    mgr_rep m fs /\ floor_ok (ms_floor st) fs /\ m_pre_ptr m = ms_pend st /\
    match ms_log st with
    | None => fs = []
    | Some a => files_first fs = Some (a_first a) /\ a_ents a = map ent_of (files_vis fs)
    end.
