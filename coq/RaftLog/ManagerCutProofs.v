(** Delete-from ([mgr_strip], the repaired strip_log_to_index) preserves the catalogue invariant
    and removes exactly the visible records with index >= k.

    The catalogue splits as  A ++ [(g, c)] ++ B  where (g, c) is the last file whose visible part
    starts at or below the cut: the files of A end at or below k and are left alone, the files of B
    start above k and are dropped, (g, c) is truncated by its own [strip_log_to] and, when files were
    dropped, reopened as the current file. *)
From RN Require Import Base.Res Codec.Varint Codec.BufReader
  RaftLog.LogFile RaftLog.Spec RaftLog.Layout RaftLog.FileProofs RaftLog.RecordProofs
  RaftLog.ReadProofs RaftLog.WriteProofs RaftLog.InitProofs RaftLog.StripProofs RaftLog.Refine
  RaftLog.LogManager RaftLog.ManagerProofs RaftLog.ManagerInv RaftLog.ManagerWriteProofs.
From Coq Require Import ZifyBool ZifyNat ZifyN.
Local Open Scope N_scope.
Ltac Zify.zify_post_hook ::= Z.div_mod_to_equations.

(** * consecutively indexed records and the filter [below] *)
Lemma indexed_bounds : forall l i,
  indexed i l -> Forall (fun x => i <= r_index x < i + nlen l) l.
Proof.
  induction l as [|x l IH]; intros i H; [constructor|].
  cbn [indexed] in H. destruct H as [Hx Hl]. specialize (IH _ Hl).
  constructor.
  - unfold nlen. cbn [length]. lia.
  - eapply Forall_impl; [|exact IH]. cbn beta. intros a Ha. unfold nlen in *. cbn [length]. lia.
Qed.

Lemma below_app k a b : below k (a ++ b) = below k a ++ below k b.
Proof. apply filter_app. Qed.

Lemma below_all k l : Forall (fun x => r_index x < k) l -> below k l = l.
Proof.
  induction l as [|x l IH]; intros H; [reflexivity|]. inversion H; subst.
  cbn [below filter]. destruct (r_index x <? k) eqn:E; [|lia]. f_equal. apply IH. assumption.
Qed.

Lemma below_none k l : Forall (fun x => k <= r_index x) l -> below k l = [].
Proof.
  induction l as [|x l IH]; intros H; [reflexivity|]. inversion H; subst.
  cbn [below filter]. destruct (r_index x <? k) eqn:E; [lia|]. apply IH. assumption.
Qed.

Lemma below_concat_all k (ls : list (list lrec)) :
  Forall (fun l => Forall (fun x => r_index x < k) l) ls -> below k (concat ls) = concat ls.
Proof.
  intros H. apply below_all. apply Forall_concat. exact H.
Qed.

Lemma below_concat_none k (ls : list (list lrec)) :
  Forall (fun l => Forall (fun x => k <= r_index x) l) ls -> below k (concat ls) = [].
Proof.
  intros H. apply below_none. apply Forall_concat. exact H.
Qed.

Lemma below_indexed : forall l i k,
  indexed i l -> i <= k -> below k l = firstn (N.to_nat (k - i)) l.
Proof.
  induction l as [|x l IH]; intros i k H Hik; [rewrite firstn_nil; reflexivity|].
  cbn [indexed] in H. destruct H as [Hx Hl].
  destruct (N.eq_dec i k) as [->|Hne].
  - replace (N.to_nat (k - k)) with 0%nat by lia. cbn [firstn].
    apply below_none. pose proof (indexed_bounds _ _ Hl) as Hb.
    constructor; [lia|]. eapply Forall_impl; [|exact Hb]. cbn beta. intros a Ha. lia.
  - replace (N.to_nat (k - i)) with (S (N.to_nat (k - (i + 1)))) by lia.
    cbn [below filter firstn]. destruct (r_index x <? k) eqn:E; [|lia].
    f_equal. apply IH; [exact Hl|lia].
Qed.

(** * the visible part of a truncated file *)
Lemma c_truncate_first c k : c_first (c_truncate c k) = c_first c.
Proof. reflexivity. Qed.
Lemma c_truncate_split c k : c_split (c_truncate c k) = c_split c.
Proof. reflexivity. Qed.

Lemma c_truncate_end c k : wfc c -> c_first c <= k < c_end c -> c_end (c_truncate c k) = k.
Proof.
  intros W Hk. unfold c_end in *. rewrite c_truncate_first, (strip_kept c k W Hk).
  unfold nlen in *. rewrite firstn_length. lia.
Qed.

Lemma vis_bounds c : wfc c -> c_split c <= c_end c ->
  Forall (fun x => c_split c <= r_index x < c_end c) (vis c).
Proof.
  intros W Hs. pose proof (indexed_bounds _ _ (vis_indexed c W Hs)) as Hb.
  rewrite (vis_length c W Hs) in Hb. eapply Forall_impl; [|exact Hb]. cbn beta. intros a Ha. lia.
Qed.

Lemma vis_truncate c k : wfc c -> c_split c <= k < c_end c ->
  vis (c_truncate c k) = below k (vis c).
Proof.
  intros W Hk. pose proof (wf_split c W) as Hf.
  assert (Hk' : c_first c <= k < c_first c + nlen (c_all c)) by (unfold c_end in Hk; lia).
  rewrite (below_indexed (vis c) (c_split c) k) by (try apply vis_indexed; try assumption; lia).
  unfold vis. rewrite c_truncate_first, c_truncate_split, (strip_kept c k W Hk').
  rewrite firstn_skipn_comm. f_equal. f_equal. lia.
Qed.

(** * [strip_loop]: fields it does not touch, and its effect on segments of the catalogue *)
Fixpoint drop_all (m : mgr) (ids : list N) : mgr :=
  match ids with
  | [] => m
  | id :: rest => drop_all (drop_file m id) rest
  end.

Lemma drop_all_fields : forall ids m,
  m_logs (drop_all m ids) = m_logs m /\ m_saved (drop_all m ids) = m_saved m /\
  m_cur (drop_all m ids) = m_cur m /\ m_pre_ptr (drop_all m ids) = m_pre_ptr m /\
  m_limit (drop_all m ids) = m_limit m.
Proof.
  induction ids as [|id ids IH]; intros m; [cbn [drop_all]; tauto|].
  cbn [drop_all]. destruct (IH (drop_file m id)) as (H1 & H2 & H3 & H4 & H5).
  rewrite H1, H2, H3, H4, H5. cbn [drop_file m_logs m_saved m_cur m_pre_ptr m_limit]. tauto.
Qed.

Lemma drop_all_disk : forall ids m,
  (forall id, lookup id (m_disk m) = None) -> forall id, lookup id (m_disk (drop_all m ids)) = None.
Proof.
  induction ids as [|i ids IH]; intros m H id; [apply H|].
  cbn [drop_all]. apply IH. intros id'. cbn [drop_file m_disk]. apply lookup_remove_key_none. apply H.
Qed.

Lemma lookup_remove_same {A} k (l : list (N * A)) : lookup k (remove_key k l) = None.
Proof.
  induction l as [|[k0 v] l IH]; [reflexivity|]. cbn [remove_key].
  destruct (k =? k0) eqn:E; [exact IH|]. cbn [lookup]. rewrite E. exact IH.
Qed.

Lemma drop_all_actors_none : forall ids m id,
  lookup id (m_actors m) = None -> lookup id (m_actors (drop_all m ids)) = None.
Proof.
  induction ids as [|j ids IH]; intros m id H; [exact H|]. cbn [drop_all]. apply IH.
  cbn [drop_file m_actors]. apply lookup_remove_key_none. exact H.
Qed.

Lemma drop_all_actors_in : forall ids m id,
  In id ids -> lookup id (m_actors (drop_all m ids)) = None.
Proof.
  induction ids as [|i ids IH]; intros m id Hin; [contradiction|].
  cbn [drop_all]. destruct Hin as [->|Hin]; [|apply IH; exact Hin].
  apply drop_all_actors_none. cbn [drop_file m_actors]. apply lookup_remove_same.
Qed.

Lemma drop_all_actors_notin : forall ids m id,
  ~ In id ids -> lookup id (m_actors (drop_all m ids)) = lookup id (m_actors m).
Proof.
  induction ids as [|i ids IH]; intros m id Hni; [reflexivity|].
  cbn [drop_all]. rewrite IH by (intros Hx; apply Hni; right; exact Hx).
  cbn [drop_file m_actors]. apply lookup_remove_other. intros ->. apply Hni. left. reflexivity.
Qed.

Lemma strip_loop_app : forall l1 l2 m k p,
  strip_loop m (l1 ++ l2) k p = let '(m1, p1) := strip_loop m l1 k p in strip_loop m1 l2 k p1.
Proof.
  induction l1 as [|g l1 IH]; intros l2 m k p; [reflexivity|].
  cbn [app strip_loop]. destruct (lt_end k g).
  - destruct (k <? g_start g); [apply IH|]. destruct (actor_of m g) as [[s m1]| |]; apply IH.
  - apply IH.
Qed.

Lemma strip_loop_untouched : forall l m k p,
  Forall (fun g => lt_end k g = false) l -> strip_loop m l k p = (m, p).
Proof.
  induction l as [|g l IH]; intros m k p H; [reflexivity|]. inversion H as [|? ? Hg Hl]; subst.
  cbn [strip_loop]. rewrite Hg. apply IH. exact Hl.
Qed.

Lemma strip_loop_dropped : forall l m k p,
  Forall (fun g => lt_end k g = true /\ k < g_start g) l ->
  strip_loop m l k p = (drop_all m (map g_id l), (p + length l)%nat).
Proof.
  induction l as [|g l IH]; intros m k p H; [cbn [strip_loop map drop_all length]; f_equal; lia|].
  inversion H as [|? ? [Hg1 Hg2] Hl]; subst.
  cbn [strip_loop map drop_all length]. rewrite Hg1.
  destruct (k <? g_start g) eqn:E; [|lia]. rewrite IH by exact Hl. f_equal. lia.
Qed.

(** * reopening the last range *)
Definition reopen_f (f : mfile) : mfile :=
  let g := fst f in (mkRange (g_id g) (g_pre g) (g_start g) 0 (g_split g) false, snd f).

Lemma reopen_last_map : forall (fs : list mfile) f,
  reopen_last (map fst (fs ++ [f])) = map fst (fs ++ [reopen_f f]).
Proof.
  induction fs as [|f0 fs IH]; intros f; [reflexivity|].
  cbn [app map]. specialize (IH f).
  destruct (map fst (fs ++ [f])) as [|g1 rest] eqn:E.
  - destruct fs; discriminate.
  - change (reopen_last (fst f0 :: g1 :: rest)) with (fst f0 :: reopen_last (g1 :: rest)).
    rewrite IH. reflexivity.
Qed.

Lemma firstn_app_sub {A} (l1 l2 : list A) : firstn (length (l1 ++ l2) - length l2) (l1 ++ l2) = l1.
Proof.
  rewrite app_length. replace (length l1 + length l2 - length l2)%nat with (length l1) by lia.
  rewrite firstn_app, Nat.sub_diag, firstn_all. cbn [firstn]. apply app_nil_r.
Qed.

(** * where the cut falls *)
Lemma split_mono : forall (fs : list mfile) f,
  Forall file_ok (f :: fs) -> links (f :: fs) ->
  Forall (fun b => c_split (snd f) <= c_split (snd b)) fs.
Proof.
  induction fs as [|f2 fs IH]; intros f Hok Hl; [constructor|].
  inversion Hok as [|? ? Hf Hok']; subst. cbn [links] in Hl. destruct Hl as [(Hlk & _ & _) Hl'].
  destruct f as [g c]. destruct Hf as (_ & _ & _ & Hle & _). cbn [snd] in *.
  assert (H2 : c_split c <= c_split (snd f2)) by lia.
  constructor; [exact H2|]. specialize (IH f2 Hok' Hl').
  eapply Forall_impl; [|exact IH]. cbn beta. intros a Ha. lia.
Qed.

Lemma cut_split k : forall (fs : list mfile) f,
  Forall file_ok (f :: fs) -> links (f :: fs) -> c_split (snd f) <= k ->
  exists A x B, f :: fs = A ++ x :: B /\ c_split (snd x) <= k /\
    Forall (fun a => g_close (fst a) = true /\ c_end (snd a) <= k) A /\
    Forall (fun b => k < c_split (snd b)) B.
Proof.
  induction fs as [|f2 fs IH]; intros f Hok Hl Hk.
  - exists [], f, []. split; [reflexivity|]. split; [exact Hk|]. split; constructor.
  - destruct (N.le_gt_cases (c_split (snd f2)) k) as [H2|H2].
    + inversion Hok as [|? ? Hf Hok']; subst. pose proof Hl as Hl0. cbn [links] in Hl. destruct Hl as [(Hlk & _ & Hcl) Hl'].
      destruct (IH f2 Hok' Hl' H2) as (A & x & B & E & Hx & HA & HB).
      exists (f :: A), x, B. split; [cbn [app]; rewrite E; reflexivity|]. split; [exact Hx|].
      split; [|exact HB]. constructor; [|exact HA]. split; [exact Hcl|lia].
    + exists [], f, (f2 :: fs). split; [reflexivity|]. split; [exact Hk|]. split; [constructor|].
      inversion Hok as [|? ? Hf Hok']; subst. cbn [links] in Hl. destruct Hl as [_ Hl'].
      constructor; [lia|]. pose proof (split_mono fs f2 Hok' Hl') as Hm.
      eapply Forall_impl; [|exact Hm]. cbn beta. intros a Ha. lia.
Qed.

(** the state of the file that contains the cut *)
Definition cut_c (c : cst) (k : N) : cst := if k <? c_end c then c_truncate c k else c.

Lemma cut_c_facts c k :
  wfc c -> c_split c <= k -> c_split c <= c_end c -> c_end c < U64MAX ->
  wfc (cut_c c k) /\ c_first (cut_c c k) = c_first c /\ c_split (cut_c c k) = c_split c /\
  c_end (cut_c c k) = N.min k (c_end c) /\ vis (cut_c c k) = below k (vis c) /\
  strip_log_to (conc c) k = Ok (conc (cut_c c k)).
Proof.
  intros W Hk Hle Hmax. pose proof (wf_split c W) as Hf. unfold cut_c.
  destruct (k <? c_end c) eqn:E.
  - assert (Hk' : c_first c <= k < c_first c + nlen (c_all c)) by (unfold c_end in E; lia).
    split; [apply strip_wfc; assumption|]. split; [reflexivity|]. split; [reflexivity|].
    split; [rewrite c_truncate_end by (try assumption; lia); lia|].
    split; [apply vis_truncate; [assumption|lia]|]. apply strip_conc; assumption.
  - split; [exact W|]. split; [reflexivity|]. split; [reflexivity|]. split; [lia|].
    split.
    + symmetry. apply below_all. pose proof (vis_bounds c W Hle) as Hb.
      eapply Forall_impl; [|exact Hb]. cbn beta. intros a Ha. lia.
    + apply strip_noop. unfold c_end in E. lia.
Qed.

Lemma lookup_amap_prefix (P B : list mfile) id :
  ~ In id (map f_id B) -> lookup id (amap (P ++ B)) = lookup id (amap P).
Proof.
  intros H. rewrite lookup_amap_app, (lookup_amap_notin B id H).
  destruct (lookup id (amap P)); reflexivity.
Qed.

Section Cut.
  Variable m : mgr.
  Variables (A B : list mfile) (g : lrange) (c : cst) (k : N).
  Hypothesis R : mgr_rep m (A ++ (g, c) :: B).
  Hypothesis Hk : k < U64MAX.
  Hypothesis Hc : c_split c <= k.
  Hypothesis HA : Forall (fun a => g_close (fst a) = true /\ c_end (snd a) <= k) A.
  Hypothesis HB : Forall (fun b => k < g_start (fst b)) B.

  Let c' := cut_c c k.

  Lemma cut_file_ok : file_ok (g, c).
  Proof using All.
    pose proof (rp_files m _ R) as Hf. rewrite Forall_forall in Hf. apply Hf.
    apply in_or_app. right. left. reflexivity.
  Qed.

  Lemma cut_facts :
    wfc c' /\ c_first c' = c_first c /\ c_split c' = c_split c /\
    c_end c' = N.min k (c_end c) /\ vis c' = below k (vis c) /\
    strip_log_to (conc c) k = Ok (conc c').
  Proof using All.
    destruct cut_file_ok as (W & _ & _ & Hle & Hmax & _). apply cut_c_facts; assumption.
  Qed.

  (** the cut file is open when nothing follows; otherwise it is closed and ends above k *)
  Lemma cut_file_end :
    match B with
    | [] => g_close g = false
    | b :: _ => g_close g = true /\ k < c_end c /\ g_end g = c_end c
    end.
  Proof using All.
    pose proof (rp_chain m _ R) as [Hl Ho]. pose proof cut_file_ok as Hgc.
    pose proof (rp_files m _ R) as Hf. rewrite Forall_forall in Hf.
    assert (Hbok : forall b, In b B -> file_ok b) by (intros b Hin; apply Hf; apply in_or_app; right; right; exact Hin).
    clear Hf. revert Hl Ho HB Hbok. generalize B. intros B0 Hl Ho HB0 Hbok. destruct B0 as [|b B'].
    - rewrite last_opt_snoc in Ho. exact Ho.
    - apply links_app in Hl. destruct Hl as (_ & Hl & _). cbn [links] in Hl.
      destruct Hl as [(Hlk & _ & Hcl) _]. cbn [snd fst] in *.
      destruct Hgc as (_ & Hfirst & _ & _ & _ & Hcnt).
      inversion HB0 as [|? ? Hb _]; subst.
      specialize (Hbok b (or_introl eq_refl)).
      destruct b as [gb cb]. destruct Hbok as (_ & _ & Hsp & _). cbn [fst snd] in *.
      split; [exact Hcl|]. split; [lia|]. unfold g_end. rewrite Hcl, (Hcnt Hcl). unfold c_end. lia.
  Qed.

  Lemma cut_loop :
    strip_loop m (map fst (A ++ (g, c) :: B)) k 0
    = (drop_all (set_actor m (g_id g) (conc c')) (map f_id B), length B).
  Proof using All.
    rewrite map_app, strip_loop_app.
    rewrite strip_loop_untouched.
    2:{ apply Forall_forall. intros ga Hin. apply in_map_iff in Hin. destruct Hin as ([ga' ca] & <- & Hin).
        rewrite Forall_forall in HA. destruct (HA _ Hin) as [Hcl He]. cbn [fst snd] in *.
        pose proof (rp_files m _ R) as Hf. rewrite Forall_forall in Hf.
        assert (Hok : file_ok (ga', ca)) by (apply Hf; apply in_or_app; left; exact Hin).
        destruct Hok as (_ & Hfirst & _ & _ & _ & Hcnt).
        unfold lt_end, g_end. rewrite Hcl, (Hcnt Hcl). unfold c_end in He. lia. }
    cbn [map fst strip_loop].
    destruct cut_file_ok as (W & Hfirst & _ & _ & _ & _). pose proof (wf_split c W) as Hfs.
    assert (Hlt : lt_end k g = true).
    { pose proof cut_file_end as He. unfold lt_end. revert He. generalize B. intros [|b B'] He.
      - unfold g_end. rewrite He. lia.
      - destruct He as (_ & H1 & H2). rewrite H2. lia. }
    rewrite Hlt. destruct (k <? g_start g) eqn:E; [lia|].
    assert (Hact : lookup (g_id g) (m_actors m) = Some (conc c)).
    { apply (rep_actor m _ (g, c) R). apply in_or_app. right. left. reflexivity. }
    unfold actor_of. rewrite Hact.
    destruct cut_facts as (_ & _ & _ & _ & _ & Hs). rewrite Hs.
    rewrite strip_loop_dropped.
    - rewrite map_map, map_length. reflexivity.
    - apply Forall_forall. intros gb Hin. apply in_map_iff in Hin. destruct Hin as (b & <- & Hin).
      rewrite Forall_forall in HB. specialize (HB _ Hin). split; [|exact HB].
      unfold lt_end, g_end. destruct (g_close (fst b)); lia.
  Qed.

  Lemma cut_visible :
    files_vis (A ++ [(g, c')]) = below k (files_vis (A ++ (g, c) :: B)).
  Proof using All.
    pose proof (rp_files m _ R) as Hf. rewrite Forall_forall in Hf.
    change (A ++ (g, c) :: B) with (A ++ [(g, c)] ++ B).
    rewrite !files_vis_app, !below_app, !files_vis_one. cbn [snd].
    destruct cut_facts as (_ & _ & _ & _ & Hv & _). rewrite Hv.
    assert (H1 : below k (files_vis A) = files_vis A).
    { unfold files_vis. apply below_concat_all. apply Forall_forall. intros l Hin.
      apply in_map_iff in Hin. destruct Hin as ([ga ca] & <- & Hin). cbn [snd].
      rewrite Forall_forall in HA. destruct (HA _ Hin) as [_ He]. cbn [snd] in He.
      assert (Hok : file_ok (ga, ca)) by (apply Hf; apply in_or_app; left; exact Hin).
      destruct Hok as (W & _ & _ & Hle & _). pose proof (vis_bounds ca W Hle) as Hb.
      eapply Forall_impl; [|exact Hb]. cbn beta. intros a Ha. lia. }
    assert (H2 : below k (files_vis B) = []).
    { unfold files_vis. apply below_concat_none. apply Forall_forall. intros l Hin.
      apply in_map_iff in Hin. destruct Hin as ([gb cb] & <- & Hin). cbn [snd].
      rewrite Forall_forall in HB. specialize (HB _ Hin). cbn [fst] in HB.
      assert (Hok : file_ok (gb, cb)) by (apply Hf; apply in_or_app; right; right; exact Hin).
      destruct Hok as (W & _ & Hsp & Hle & _). pose proof (vis_bounds cb W Hle) as Hb.
      eapply Forall_impl; [|exact Hb]. cbn beta. intros a Ha. lia. }
    rewrite H1, H2, app_nil_r. reflexivity.
  Qed.
End Cut.

Lemma nodup_app_disj {X} (l1 l2 : list X) x : NoDup (l1 ++ l2) -> In x l2 -> ~ In x l1.
Proof.
  induction l1 as [|a l1 IH]; intros Hnd Hin2 Hin1; [contradiction|].
  cbn [app] in Hnd. inversion Hnd as [|? ? Hn Hnd']; subst. destruct Hin1 as [->|Hin1].
  - apply Hn. apply in_or_app. right. exact Hin2.
  - exact (IH Hnd' Hin2 Hin1).
Qed.

Lemma nodup_app_l {X} (l1 l2 : list X) : NoDup (l1 ++ l2) -> NoDup l1.
Proof.
  induction l1 as [|a l1 IH]; intros H; [constructor|]. cbn [app] in H. inversion H as [|? ? Hn Hnd]; subst.
  constructor; [|apply IH; exact Hnd]. intros Hin. apply Hn. apply in_or_app. left. exact Hin.
Qed.

Lemma ids_pos_prefix (A B : list mfile) x x' :
  ids_pos (A ++ x :: B) -> f_id x' = f_id x -> (A = [] -> B <> [] -> 1 <= f_id x) -> ids_pos (A ++ [x']).
Proof.
  intros H Hid Hhead. destruct A as [|a0 A']; cbn [app ids_pos] in *.
  - destruct H as [_ Hh]. split; [constructor|]. left. rewrite Hid.
    destruct Hh as [Hh|(f2 & r & Hr & _)]; [exact Hh|]. apply Hhead; [reflexivity|]. rewrite Hr. discriminate.
  - destruct H as [Hall Hh]. split.
    + apply Forall_app in Hall. destruct Hall as [H1 H2]. apply Forall_app. split; [exact H1|].
      inversion H2; subst. constructor; [rewrite Hid; assumption|constructor].
    + destruct Hh as [Hh|(f2 & r & Hr & Hi)]; [left; exact Hh|right].
      destruct A' as [|a1 A'']; cbn [app] in Hr; inversion Hr; subst; eexists; eexists;
        (split; [reflexivity|]); [rewrite Hid; exact Hi|exact Hi].
Qed.

(** * the catalogue after files were dropped: the cut file is reopened and becomes current *)
Lemma rep_cut_reopen m (A B : list mfile) g c c' :
  mgr_rep m (A ++ (g, c) :: B) ->
  wfc c' -> c_first c' = c_first c -> c_split c' = c_split c -> c_split c' <= c_end c' -> c_end c' < U64MAX ->
  (A = [] -> B <> [] -> 1 <= g_id g) ->
  mgr_rep (save_logs (set_cur (set_logs (drop_all (set_actor m (g_id g) (conc c')) (map f_id B))
                                        (map fst (A ++ [reopen_f (g, c')]))) (Some (g_id g))))
          (A ++ [reopen_f (g, c')]).
Proof.
  intros R W' Hf Hs Hle Hmax Hhead.
  pose proof (rp_files m _ R) as Hfiles. apply Forall_app in Hfiles. destruct Hfiles as [Hfs Hlast].
  inversion Hlast as [|? ? Hgc _]; subst. destruct Hgc as (W & Hfirst & Hsp & _ & _ & _).
  pose proof (rp_chain m _ R) as [Hlinks _].
  pose proof (rep_nodup m _ R) as Hnd.
  assert (Hnd2 : NoDup (map f_id (A ++ [(g, c)]) ++ map f_id B)).
  { rewrite <- map_app, <- app_assoc. exact Hnd. }
  assert (HnA : ~ In (g_id g) (map f_id A)).
  { apply nodup_app_l in Hnd2. apply (nodup_snoc_notin f_id A (g, c) Hnd2). }
  destruct (drop_all_fields (map f_id B) (set_actor m (g_id g) (conc c'))) as (_ & _ & _ & _ & Hlim).
  constructor; cbn [save_logs set_cur set_logs m_logs m_saved m_actors m_disk m_cur m_limit].
  - reflexivity.
  - reflexivity.
  - intros id.
    pose proof (lookup_amap_replace A (g, c) (reopen_f (g, c')) [] id eq_refl HnA) as HH.
    unfold f_id in HH. cbn [fst snd reopen_f] in HH.
    destruct (in_dec N.eq_dec id (map f_id B)) as [Hin|Hnin].
    + rewrite drop_all_actors_in by exact Hin. symmetry.
      transitivity (if id =? g_id g then Some (conc c') else lookup id (amap (A ++ [(g, c)]))); [exact HH|].
      pose proof (nodup_app_disj _ _ id Hnd2 Hin) as Hd.
      destruct (id =? g_id g) eqn:E.
      * exfalso. apply Hd. rewrite map_app. apply in_or_app. right. left. unfold f_id. cbn [fst]. lia.
      * apply lookup_amap_notin. exact Hd.
    + rewrite drop_all_actors_notin by exact Hnin. cbn [set_actor m_actors]. rewrite lookup_set_key.
      transitivity (if id =? g_id g then Some (conc c') else lookup id (amap (A ++ [(g, c)]))); [|symmetry; exact HH].
      destruct (id =? g_id g); [reflexivity|]. rewrite (rp_actors m _ R).
      change (A ++ (g, c) :: B) with (A ++ [(g, c)] ++ B). rewrite app_assoc.
      apply lookup_amap_prefix. exact Hnin.
  - apply drop_all_disk. intros id. cbn [set_actor m_disk]. apply lookup_remove_key_none. apply (rp_disk m _ R).
  - apply Forall_app. split; [exact Hfs|]. constructor; [|constructor].
    unfold reopen_f, file_ok. cbn [fst snd g_start g_split g_close g_count].
    split; [exact W'|]. split; [congruence|]. split; [congruence|].
    split; [exact Hle|]. split; [exact Hmax|]. discriminate.
  - split.
    + apply links_app in Hlinks. destruct Hlinks as (H1 & _ & H3). apply links_app.
      split; [exact H1|]. split; [cbn; auto|]. revert H3. destruct (@last_opt mfile A) as [x|]; intros H3; [|exact I].
      unfold link, reopen_f in *. cbn [snd fst] in *. unfold f_id in *. cbn [fst g_id] in *. rewrite Hs. exact H3.
    + rewrite last_opt_snoc. reflexivity.
  - apply (ids_pos_prefix A B (g, c) (reopen_f (g, c')) (rp_ids m _ R) eq_refl). exact Hhead.
  - rewrite last_id_snoc. reflexivity.
  - rewrite Hlim. cbn [set_actor m_limit]. apply (rp_limit m _ R).
Qed.

(** * delete-from *)

(** The head of the catalogue may be a snapshot-pointer file with id 0.  If the cut falls into that
    file while later files exist (k = the pointer index and the next file starts exactly behind
    it), the file with id 0 would become the only, current file: the id discipline [ids_pos] - the
    next pointer file gets id (first id - 1) - is lost.  This input class is excluded by
    [cut_head_ok] (ManagerInv.v). *)
Lemma floor_ok_prefix fl (A B : list mfile) g g' c c' :
  c_first c' = c_first c -> c_split c' = c_split c -> c_end c' <= c_end c -> g_id g' = g_id g ->
  floor_ok fl (A ++ (g, c) :: B) -> floor_ok fl (A ++ [(g', c')]).
Proof.
  intros Hf Hs He Hid [H Hh]. split.
  - apply Forall_app in H. destruct H as [H1 H2].
    apply Forall_app. split; [exact H1|]. inversion H2 as [|? ? Hx _]; subst.
    constructor; [|constructor]. cbn [snd] in *. rewrite Hf, Hs. exact Hx.
  - destruct A as [|a0 A']; cbn [app] in *; [|exact Hh].
    unfold f_id in *. cbn [fst snd] in *. rewrite Hid. intros H0. specialize (Hh H0). lia.
Qed.

Definition strip_post (m m' : mgr) (fs fs' : list mfile) (k : N) : Prop :=
  mgr_rep m' fs' /\
  m_limit m' = m_limit m /\ m_pre_ptr m' = m_pre_ptr m /\
  files_vis fs' = below k (files_vis fs) /\
  files_first fs' = files_first fs /\
  (forall e, files_end fs = Some e -> files_end fs' = Some (N.min k e)) /\
  (forall fl, floor_ok fl fs -> floor_ok fl fs').

Lemma files_end_ge_split : forall (fs : list mfile) f e,
  Forall file_ok (f :: fs) -> links (f :: fs) -> files_end (f :: fs) = Some e -> c_split (snd f) <= e.
Proof.
  induction fs as [|f2 fs IH]; intros f e Hok Hl He.
  - unfold files_end in He. change (last_opt [f]) with (Some f) in He. inversion He; subst.
    inversion Hok as [|? ? Hf _]; subst. destruct f as [g c]. destruct Hf as (_ & _ & _ & Hle & _). exact Hle.
  - unfold files_end in He. rewrite last_opt_cons2 in He. fold (files_end (f2 :: fs)) in He.
    inversion Hok as [|? ? Hf Hok']; subst. cbn [links] in Hl. destruct Hl as [(Hlk & _ & _) Hl'].
    specialize (IH f2 e Hok' Hl' He). destruct f as [g c]. destruct Hf as (_ & _ & _ & Hle & _).
    cbn [snd] in *. lia.
Qed.

(** the manager after a delete-from that dropped files *)
Lemma mgr_strip_dropped m (A B : list mfile) g c k :
  mgr_rep m (A ++ (g, c) :: B) -> k < U64MAX -> c_split c <= k ->
  Forall (fun a => g_close (fst a) = true /\ c_end (snd a) <= k) A ->
  Forall (fun b => k < g_start (fst b)) B -> B <> [] ->
  mgr_strip m k =
  save_logs (set_cur (set_logs (drop_all (set_actor m (g_id g) (conc (cut_c c k))) (map f_id B))
                               (map fst (A ++ [reopen_f (g, cut_c c k)]))) (Some (g_id g))).
Proof.
  intros R Hk Hc HA HB HBne.
  pose proof (cut_loop m A B g c k R Hk Hc HA HB) as Hloop.
  set (c' := cut_c c k) in *.
  unfold mgr_strip. rewrite (rp_logs m _ R), Hloop.
  destruct B as [|b B']; [exfalso; apply HBne; reflexivity|].
  set (Bs := b :: B') in *.
  change (0 <? length Bs)%nat with true. cbv iota.
  set (m1 := drop_all (set_actor m (g_id g) (conc c')) (map f_id Bs)).
  destruct (drop_all_fields (map f_id Bs) (set_actor m (g_id g) (conc c'))) as (Hlogs & _).
  fold m1 in Hlogs. cbn [set_actor m_logs] in Hlogs.
  rewrite Hlogs, (rp_logs m _ R).
  assert (Hfirstn : firstn (length (map fst (A ++ (g, c) :: Bs)) - length Bs) (map fst (A ++ (g, c) :: Bs))
                    = map fst (A ++ [(g, c)])).
  { assert (Hm : map fst (A ++ (g, c) :: Bs) = map fst (A ++ [(g, c)]) ++ map fst Bs).
    { rewrite !map_app. cbn [map]. rewrite <- app_assoc. reflexivity. }
    rewrite Hm. etransitivity; [|apply (firstn_app_sub (map fst (A ++ [(g, c)])) (map fst Bs))].
    f_equal. f_equal. symmetry. apply map_length. }
  rewrite Hfirstn, reopen_last_map.
  assert (Hlogs' : map fst (A ++ [reopen_f (g, c)]) = map fst (A ++ [reopen_f (g, c')])).
  { rewrite !map_app. reflexivity. }
  rewrite Hlogs'.
  assert (Hlast : last_opt (map fst (A ++ [reopen_f (g, c')])) = Some (fst (reopen_f (g, c')))).
  { rewrite map_app. cbn [map]. apply last_opt_snoc. }
  rewrite Hlast.
  pose proof (rep_nodup m _ R) as Hnd.
  assert (HnB : ~ In (g_id g) (map f_id Bs)).
  { intros Hin. rewrite map_app in Hnd. cbn [map] in Hnd. apply NoDup_remove_2 in Hnd.
    apply Hnd. apply in_or_app. right. exact Hin. }
  assert (Hact : lookup (g_id g) (m_actors m1) = Some (conc c')).
  { unfold m1. rewrite drop_all_actors_notin by exact HnB. cbn [set_actor m_actors]. apply lookup_set_same. }
  unfold actor_of. cbn [set_logs m_actors reopen_f fst g_id]. rewrite Hact. reflexivity.
Qed.

Lemma mgr_strip_cut m (A B : list mfile) g c k :
  mgr_rep m (A ++ (g, c) :: B) -> k < U64MAX -> c_split c <= k ->
  Forall (fun a => g_close (fst a) = true /\ c_end (snd a) <= k) A ->
  Forall (fun b => k < g_start (fst b)) B ->
  (A = [] -> B <> [] -> 1 <= g_id g) ->
  exists fs', strip_post m (mgr_strip m k) (A ++ (g, c) :: B) fs' k.
Proof.
  intros R Hk Hc HA HB Hhead.
  pose proof (cut_loop m A B g c k R Hk Hc HA HB) as Hloop.
  pose proof (cut_facts m A B g c k R Hk Hc HA HB) as (W' & Hf' & Hs' & He' & Hv' & _).
  pose proof (cut_file_end m A B g c k R Hk Hc HA HB) as Hend.
  pose proof (cut_visible m A B g c k R Hk Hc HA HB) as Hvis.
  pose proof (cut_file_ok m A B g c k R Hk Hc HA HB) as (W & Hfirst & Hsp & Hle & Hmax & _).
  pose proof (mgr_strip_dropped m A B g c k R Hk Hc HA HB) as Hdrop.
  set (c' := cut_c c k) in *.
  assert (Hle' : c_split c' <= c_end c') by lia.
  assert (Hmax' : c_end c' < U64MAX) by lia.
  destruct B as [|b B'].
  - (* nothing dropped: the cut file is the last, open file *)
    unfold mgr_strip. rewrite (rp_logs m _ R), Hloop.
    cbn [length map drop_all]. change (0 <? 0)%nat with false. cbv iota.
    exists (A ++ [(g, c')]). split; [|split; [reflexivity|split; [reflexivity|split; [exact Hvis|split; [|split]]]]].
    + apply (rep_set_last m A g c c' R W' Hf' Hs' Hle' Hmax').
    + apply files_first_snoc. exact Hs'.
    + intros e Hee. rewrite files_end_snoc in *. cbn [snd] in *. inversion Hee; subst. f_equal. exact He'.
    + intros fl. apply floor_ok_prefix; try assumption; [lia|reflexivity].
  - (* the files of B are dropped, the cut file is reopened *)
    set (Bs := b :: B') in *.
    rewrite Hdrop by discriminate.
    destruct (drop_all_fields (map f_id Bs) (set_actor m (g_id g) (conc c'))) as (_ & _ & _ & Hptr & Hlim).
    cbn [set_actor m_pre_ptr m_limit] in Hptr, Hlim.
    exists (A ++ [reopen_f (g, c')]).
    split; [|split; [|split; [|split; [|split; [|split]]]]].
    + apply (rep_cut_reopen m A Bs g c c' R W' Hf' Hs' Hle' Hmax' Hhead).
    + cbn [save_logs set_cur set_logs m_limit]. exact Hlim.
    + cbn [save_logs set_cur set_logs m_pre_ptr]. exact Hptr.
    + transitivity (files_vis (A ++ [(g, c')])); [|exact Hvis].
      rewrite !files_vis_app, !files_vis_one. reflexivity.
    + destruct A; cbn [app files_first snd reopen_f]; congruence.
    + intros e Hee. rewrite files_end_snoc. cbn [snd reopen_f]. f_equal.
      destruct Hend as (_ & Hke & _).
      (* the end of the whole catalogue lies above k *)
      assert (Hke2 : k < e).
      { pose proof (rp_files m _ R) as Hfiles. pose proof (rp_chain m _ R) as [Hl _].
        apply Forall_app in Hfiles. destruct Hfiles as [_ Hfiles]. apply links_app in Hl. destruct Hl as (_ & Hl & _).
        inversion Hfiles as [|? ? _ Hfb]; subst. pose proof Hl as Hl0. cbn [links] in Hl. destruct Hl as [(Hlk & _ & _) Hlb].
        assert (HeB : files_end Bs = Some e).
        { revert Hee. unfold files_end, Bs. replace (A ++ (g, c) :: b :: B') with ((A ++ [(g, c)]) ++ b :: B') by (rewrite <- app_assoc; reflexivity).
          destruct (list_snoc_cases (b :: B')) as [HH|(l0 & z & HH)]; [discriminate|]. rewrite HH, app_assoc, !last_opt_snoc. auto. }
        pose proof (files_end_ge_split B' b e Hfb Hlb HeB) as Hge. cbn [snd] in Hlk. lia. }
      lia.
    + intros fl. unfold reopen_f. cbn [fst snd]. apply floor_ok_prefix; try assumption; [lia|reflexivity].
Qed.

(** the decomposition of a catalogue at an admissible cut *)
Lemma cut_decompose0 m (fs : list mfile) k :
  mgr_rep m fs -> cut_ok fs k ->
  exists A g c B, fs = A ++ (g, c) :: B /\ k < U64MAX /\ c_split c <= k /\
    Forall (fun a => g_close (fst a) = true /\ c_end (snd a) <= k) A /\
    Forall (fun b => k < g_start (fst b)) B.
Proof.
  intros R ((a & Ha & Hak) & Hk & Hall).
  destruct fs as [|f fs0]; [discriminate|]. cbn [files_first] in Ha. inversion Ha; subst a. clear Ha.
  pose proof (rp_files m _ R) as Hok. pose proof (rp_chain m _ R) as [Hl _].
  destruct (cut_split k fs0 f Hok Hl Hak) as (A & [g c] & B & E & Hx & HA & HB0). cbn [snd] in Hx.
  exists A, g, c, B. split; [exact E|]. split; [exact Hk|]. split; [exact Hx|]. split; [exact HA|].
  rewrite E in Hall. apply Forall_app in Hall. destruct Hall as [_ Hall]. inversion Hall as [|? ? _ HallB]; subst.
  rewrite Forall_forall in *. intros b Hin. specialize (HB0 b Hin). specialize (HallB b Hin). cbv beta in *. lia.
Qed.

Lemma cut_decompose m (fs : list mfile) k :
  mgr_rep m fs -> cut_ok fs k -> cut_head_ok fs k ->
  exists A g c B, fs = A ++ (g, c) :: B /\ k < U64MAX /\ c_split c <= k /\
    Forall (fun a => g_close (fst a) = true /\ c_end (snd a) <= k) A /\
    Forall (fun b => k < g_start (fst b)) B /\
    (A = [] -> B <> [] -> 1 <= g_id g).
Proof.
  intros R Hcut Hh.
  destruct (cut_decompose0 m fs k R Hcut) as (A & g & c & B & E & Hk & Hc & HA & HB).
  exists A, g, c, B. repeat (split; [assumption|]).
  intros -> HBne. cbn [app] in E. destruct B as [|b B']; [exfalso; apply HBne; reflexivity|].
  subst fs. unfold cut_head_ok in Hh. destruct Hh as [Hh|Hh]; [exact Hh|exfalso].
  cbn [snd] in Hh.
  pose proof (cut_file_end m [] (b :: B') g c k R Hk Hc HA HB) as (_ & Hke & _). lia.
Qed.

(** delete-from k keeps the catalogue invariant, removes exactly the visible records with index >= k
    and keeps the floor of the snapshot pointers *)
Theorem mgr_strip_rep_floor : forall m (fs : list mfile) k,
  mgr_rep m fs -> cut_ok fs k -> cut_head_ok fs k ->
  exists fs', mgr_rep (mgr_strip m k) fs' /\
    m_limit (mgr_strip m k) = m_limit m /\ m_pre_ptr (mgr_strip m k) = m_pre_ptr m /\
    files_vis fs' = below k (files_vis fs) /\
    files_first fs' = files_first fs /\
    (forall e, files_end fs = Some e -> files_end fs' = Some (N.min k e)) /\
    (forall fl, floor_ok fl fs -> floor_ok fl fs').
Proof.
  intros m fs k R Hcut Hh.
  destruct (cut_decompose m fs k R Hcut Hh) as (A & g & c & B & -> & Hk & Hc & HA & HB & Hhead).
  exact (mgr_strip_cut m A B g c k R Hk Hc HA HB Hhead).
Qed.

Theorem mgr_strip_rep_alt : forall m (fs : list mfile) k,
  mgr_rep m fs -> cut_ok fs k -> cut_head_ok fs k ->
  exists fs', mgr_rep (mgr_strip m k) fs' /\
    m_limit (mgr_strip m k) = m_limit m /\ m_pre_ptr (mgr_strip m k) = m_pre_ptr m /\
    files_vis fs' = below k (files_vis fs) /\
    files_first fs' = files_first fs /\
    (forall e, files_end fs = Some e -> files_end fs' = Some (N.min k e)).
Proof.
  intros m fs k R Hcut Hh.
  destruct (mgr_strip_rep_floor m fs k R Hcut Hh) as (fs' & H1 & H2 & H3 & H4 & H5 & H6 & _).
  exists fs'. tauto.
Qed.

(** * the side condition [cut_head_ok] is needed *)

(** when the cut falls into a head file with id 0 and later files exist, the result has a single
    range with id 0, which no file list can represent ([ids_pos]) *)
Lemma mgr_strip_head0_no_rep m g c b (B' : list mfile) k :
  mgr_rep m ((g, c) :: b :: B') -> cut_ok ((g, c) :: b :: B') k -> g_id g = 0 -> k < c_end c ->
  forall fs', ~ mgr_rep (mgr_strip m k) fs'.
Proof.
  intros R Hcut Hid Hke fs' R'.
  destruct (cut_decompose0 m _ k R Hcut) as (A & g1 & c1 & B & E & Hk & Hc & HA & HB).
  destruct A as [|a A'].
  - cbn [app] in E. inversion E; subst g1 c1 B. clear E.
    change ((g, c) :: b :: B') with ([] ++ (g, c) :: b :: B') in R.
    pose proof (mgr_strip_dropped m [] (b :: B') g c k R Hk Hc HA HB ltac:(discriminate)) as Hd.
    pose proof (rp_logs _ _ R') as Hlogs. pose proof (rp_ids _ _ R') as Hids.
    rewrite Hd in Hlogs. cbn [save_logs set_cur set_logs m_logs app map reopen_f fst] in Hlogs.
    destruct fs' as [|f' [|f2 fs'']]; cbn [map] in Hlogs; try discriminate.
    inversion Hlogs as [Hg]. cbn [ids_pos] in Hids. destruct Hids as [_ [H1|(f2 & r & Hr & _)]]; [|discriminate].
    unfold f_id in H1. rewrite <- Hg in H1. cbn [g_id] in H1. lia.
  - cbn [app] in E. inversion E; subst a. inversion HA as [|? ? [_ Ha] _]; subst. cbn [snd] in Ha. lia.
Qed.

(** such a state exists: a pointer file (id 0) holding the record with index 5, followed by the
    empty, open file 1 that starts at index 6; a delete-from 5 satisfies [cut_ok] *)
Theorem mgr_strip_rep_needs_head_ok :
  exists m (fs : list mfile) k, mgr_rep m fs /\ cut_ok fs k /\ forall fs', ~ mgr_rep (mgr_strip m k) fs'.
Proof.
  set (x := mkRec 5 1 []).
  assert (Hok : rec_ok x).
  { unfold rec_ok, x. cbn [r_index r_term r_value length]. repeat split; try lia. constructor. }
  assert (Hne : rec_nonempty x) by (left; unfold x; cbn [r_index]; lia).
  pose proof (wfc_fresh 4096 5 1 5 ltac:(lia)) as W00.
  destruct (write_step (c_fresh 4096 5 1 5) x W00 Hok Hne) as (c0 & mk & Hw & W0 & Hsp0 & Hf0 & Hmk).
  assert (Hall0 : c_all c0 = [x]).
  { destruct mk.
    - destruct Hmk as [_ H]. exact H.
    - destruct Hmk as [_ H]. exact H.
    - destruct Hmk as [_ H]. rewrite fresh_not_full in H by (unfold HDR_LEN; lia). discriminate.
    - destruct Hmk as [H _]. exfalso. apply H. rewrite abs_end. reflexivity. }
  unfold c_fresh in Hsp0, Hf0. cbn [c_split c_first] in Hsp0, Hf0.
  assert (Hsp0' : c_split c0 = 5) by lia. clear Hsp0.
  assert (He0 : c_end c0 = 6) by (unfold c_end; rewrite Hf0, Hall0; unfold nlen; cbn [length]; lia).
  set (c1 := c_fresh 4096 6 1 6).
  set (g0 := mkRange 0 1 5 1 5 true). set (g1 := mkRange 1 1 6 0 6 false).
  set (m := mkMgr [g0; g1] [g0; g1] [(0, conc c0); (1, conc c1)] [] (Some 1) None 4096).
  assert (R : mgr_rep m [(g0, c0); (g1, c1)]).
  { constructor; cbn [m m_logs m_saved m_actors m_disk m_cur m_limit].
    - reflexivity.
    - reflexivity.
    - reflexivity.
    - reflexivity.
    - constructor; [|constructor; [|constructor]].
      + unfold file_ok, g0. cbn [g_start g_split g_close g_count].
        split; [exact W0|]. split; [exact Hf0|]. split; [lia|]. split; [lia|].
        split; [unfold U64MAX; lia|]. intros _. rewrite Hall0. reflexivity.
      + apply (file_ok_fresh 4096 1 1 6); unfold U64MAX; lia.
    - split; [|reflexivity]. cbn [links]. split; [|auto].
      unfold link, f_id, g0, g1, c1, c_fresh. cbn [fst snd g_id g_close c_split]. rewrite He0. split; [lia|split; [lia|reflexivity]].
    - cbn [ids_pos]. split; [constructor; [unfold f_id, g1; cbn [fst g_id]; lia|constructor]|].
      right. eexists. eexists. split; [reflexivity|]. reflexivity.
    - reflexivity.
    - unfold HDR_LEN. lia. }
  exists m, [(g0, c0); (g1, c1)], 5. split; [exact R|]. split.
  - split; [exists 5; split; [cbn [files_first snd]; f_equal; exact Hsp0'|lia]|].
    split; [unfold U64MAX; lia|]. constructor; [cbn [fst snd]; lia|]. constructor; [|constructor].
    unfold g1. cbn [fst g_start]. lia.
  - apply (mgr_strip_head0_no_rep m g0 c0 (g1, c1) [] 5 R); [|reflexivity|lia].
    split; [exists 5; split; [cbn [files_first snd]; f_equal; exact Hsp0'|lia]|].
    split; [unfold U64MAX; lia|]. constructor; [cbn [fst snd]; lia|]. constructor; [|constructor].
    unfold g1. cbn [fst g_start]. lia.
Qed.
