(** [read_records] on a well-formed state returns exactly the requested records: position lookup
    through the index list, [read_index_position], and the chunked decode loop. *)
From RN Require Import Base.Res Codec.Varint Codec.BufReader Codec.VarintProofs Codec.ScanProofs
  RaftLog.LogFile RaftLog.Spec RaftLog.Layout RaftLog.FileProofs RaftLog.RecordProofs
  RaftLog.ScanFileProofs.
From Coq Require Import ZifyBool ZifyNat ZifyN.
Local Open Scope N_scope.
Ltac Zify.zify_post_hook ::= Z.div_mod_to_equations.

Lemma rec_body_ok x : rec_ok x -> rec_nonempty x -> body_ok (rec_body x).
Proof.
  intros Hok Hne. split; [apply rec_body_nonempty; assumption|].
  split; [apply rec_body_all_bytes; assumption|].
  pose proof (rec_body_length_bound x Hok). assert (2 ^ 63 < 2 ^ 64) by (vm_compute; reflexivity). lia.
Qed.

Lemma fr_all_bytes rs : Forall rec_ok rs -> Forall rec_nonempty rs -> all_bytes (fr rs).
Proof. intros H1 H2. rewrite fr_frames. apply frames_all_bytes, rec_bodies_ok; assumption. Qed.

(** * the inner loop: buffered records, at most c *)
Lemma drain_dec_nohit : forall rs r fuel c acc resid,
  mbr_inv r -> Forall rec_ok rs -> Forall rec_nonempty rs -> all_bytes resid -> stuck_view resid ->
  mbr_view r = fr rs ++ resid -> (length rs < fuel)%nat -> nlen rs < c ->
  exists r', drain_dec fuel r c acc = Ok (c - nlen rs, rev rs ++ acc, r')
             /\ mbr_inv r' /\ mbr_view r' = resid.
Proof.
  induction rs as [|x rs IH]; intros r fuel c acc resid Hinv Hok Hne Hres Hst Hv Hf Hc;
    (destruct fuel as [|f]; [cbn [length] in Hf; lia|]); cbn [drain_dec].
  - cbn [fr map concat app] in Hv.
    destruct (mbr_next_stuck r Hinv) as (r' & Hn & Hb & Hs & He); [rewrite Hv; exact Hst|].
    rewrite Hn. exists r'. split.
    + cbn [rev app]. f_equal. f_equal. f_equal. unfold nlen. cbn [length]. lia.
    + destruct (mbr_view_cells r r' Hb Hs He) as (H1 & H2 & _). split; [auto|congruence].
  - inversion Hok as [|? ? Hx Hok']; subst. inversion Hne as [|? ? Hxn Hne']; subst.
    rewrite fr_cons, <- app_assoc in Hv. unfold rec_frame in Hv.
    destruct (mbr_next_frame r (rec_body x) (fr rs ++ resid) Hinv (rec_body_ok x Hx Hxn))
      as (r1 & Hn & Hinv1 & Hv1);
      [apply Forall_app; split; [apply fr_all_bytes; assumption|exact Hres]|exact Hv|].
    rewrite Hn. fold (rec_frame x). rewrite (dec_frame_roundtrip x Hx).
    rewrite nlen_cons in Hc. destruct (c - 1 =? 0) eqn:E; [lia|].
    cbn [length] in Hf.
    destruct (IH r1 f (c - 1) (x :: acc) resid) as (r' & Hd & Hinv' & Hv'); try assumption; try lia.
    exists r'. split; [|split; assumption]. rewrite Hd. f_equal. f_equal. f_equal.
    + rewrite nlen_cons. lia.
    + cbn [rev]. rewrite <- app_assoc. reflexivity.
Qed.

Lemma drain_dec_hit : forall rs r fuel c acc rest,
  mbr_inv r -> Forall rec_ok rs -> Forall rec_nonempty rs -> all_bytes rest -> rs <> [] ->
  mbr_view r = fr rs ++ rest -> (length rs < fuel)%nat -> c = nlen rs ->
  exists r', drain_dec fuel r c acc = Ok (0, rev rs ++ acc, r') /\ mbr_inv r'.
Proof.
  induction rs as [|x rs IH]; intros r fuel c acc rest Hinv Hok Hne Hrest Hnn Hv Hf Hc; [congruence|].
  destruct fuel as [|f]; [cbn [length] in Hf; lia|]. cbn [drain_dec].
  inversion Hok as [|? ? Hx Hok']; subst. inversion Hne as [|? ? Hxn Hne']; subst.
  rewrite fr_cons, <- app_assoc in Hv. unfold rec_frame in Hv.
  destruct (mbr_next_frame r (rec_body x) (fr rs ++ rest) Hinv (rec_body_ok x Hx Hxn))
    as (r1 & Hn & Hinv1 & Hv1);
    [apply Forall_app; split; [apply fr_all_bytes; assumption|exact Hrest]|exact Hv|].
  rewrite Hn. fold (rec_frame x). rewrite (dec_frame_roundtrip x Hx).
  rewrite nlen_cons. cbn [length] in Hf.
  destruct (1 + nlen rs - 1 =? 0) eqn:E.
  - assert (rs = []) by (destruct rs; [reflexivity|rewrite nlen_cons in E; lia]). subst rs.
    exists r1. split; [reflexivity|exact Hinv1].
  - assert (rs <> []) by (intros ->; unfold nlen in E; cbn [length] in E; lia).
    destruct (IH r1 f (1 + nlen rs - 1) (x :: acc) rest) as (r' & Hd & Hinv'); try assumption; try lia.
    exists r'. split; [|exact Hinv']. rewrite Hd. cbn [rev]. rewrite <- app_assoc. reflexivity.
Qed.

(** * one iteration of the outer loop *)
Lemma map_eq_app_inv {A B} (f : A -> B) l l1 l2 :
  map f l = l1 ++ l2 -> exists a b, l = a ++ b /\ map f a = l1 /\ map f b = l2.
Proof.
  revert l. induction l1 as [|y l1 IH]; intros l H.
  - exists [], l. auto.
  - destruct l as [|x l]; [discriminate|]. cbn [map app] in H. inversion H; subst.
    destruct (IH l H2) as (a & b & -> & <- & <-). exists (x :: a), b. auto.
Qed.

Lemma rev_rev_app {A} (l acc : list A) : rev (rev l ++ acc) = rev acc ++ l.
Proof. rewrite rev_app_distr, rev_involutive. reflexivity. Qed.

Lemma Forall_firstn' {A} (P : A -> Prop) n l : Forall P l -> Forall P (firstn n l).
Proof. intros H. rewrite <- (firstn_skipn n l) in H. apply Forall_app in H. tauto. Qed.
Lemma Forall_skipn' {A} (P : A -> Prop) n l : Forall P l -> Forall P (skipn n l).
Proof. intros H. rewrite <- (firstn_skipn n l) in H. apply Forall_app in H. tauto. Qed.

Lemma read_loop_step : forall fu rd r c acc todo z,
  mbr_inv r ->
  Forall rec_ok todo -> Forall rec_nonempty todo ->
  mbr_view r ++ rdr_view rd = fr todo ++ 0 :: repeat 0 z ->
  c <= nlen todo ->
  (length (rdr_view rd) <= 1024 * fu)%nat ->
  read_loop (S fu) rd r c acc = Ok (rev acc ++ firstn (N.to_nat c) todo)
  \/ exists r2 rd' c' acc' todo' z',
       rdr_view rd <> [] /\ length (rdr_view rd') = (length (rdr_view rd) - 1024)%nat /\
       read_loop (S fu) rd r c acc = read_loop fu rd' r2 c' acc' /\
       mbr_inv r2 /\ Forall rec_ok todo' /\ Forall rec_nonempty todo' /\
       mbr_view r2 ++ rdr_view rd' = fr todo' ++ 0 :: repeat 0 z' /\
       c' <= nlen todo' /\
       rev acc' ++ firstn (N.to_nat c') todo' = rev acc ++ firstn (N.to_nat c) todo.
Proof.
  intros fu rd r c acc todo z Hinv Hok Hne Hstream Hc Hfu.
  cbn [read_loop]. destruct (c =? 0) eqn:Ec.
  { left. replace (N.to_nat c) with 0%nat by lia. cbn [firstn]. rewrite app_nil_r. reflexivity. }
  assert (Hzb : all_bytes (0 :: repeat 0 z)).
  { constructor; [unfold is_byte; lia|apply all_bytes_repeat0]. }
  rewrite fr_frames in Hstream.
  destruct (prefix_frames _ _ _ _ Hstream) as (bs1 & bs2 & resid & Hsplit & Hview & Hcase).
  destruct (map_eq_app_inv _ _ _ _ Hsplit) as (t1 & t2 & -> & <- & <-).
  apply Forall_app in Hok. destruct Hok as [Hok1 Hok2].
  apply Forall_app in Hne. destruct Hne as [Hne1 Hne2].
  rewrite <- fr_frames in Hview.
  rewrite map_app, frames_app, <- !fr_frames, Hview, <- !app_assoc in Hstream.
  apply app_inv_head in Hstream.
  assert (Hresid_bytes : all_bytes resid).
  { assert (Ha : all_bytes (resid ++ rdr_view rd)).
    { rewrite Hstream. apply Forall_app. split; [apply fr_all_bytes; assumption|exact Hzb]. }
    apply Forall_app in Ha. tauto. }
  assert (Hvl : (length (mbr_view r) <= en r - st r)%nat) by (rewrite mbr_view_length by exact Hinv; lia).
  assert (Hfuel : (length t1 < S (S (en r - st r)))%nat).
  { rewrite Hview, app_length in Hvl. rewrite fr_frames in Hvl.
    pose proof (frames_length_ge (map rec_body t1)) as Hg. rewrite map_length in Hg. lia. }
  destruct (rdr_read_spec rd 1024) as [Hrd1 Hrd2].
  destruct (rdr_read rd 1024) as [ch rd'] eqn:Erd. cbn [fst snd] in Hrd1, Hrd2.
  destruct (N.leb c (nlen t1)) eqn:Ehit.
  - (* all requested records are already buffered *)
    left.
    assert (Hc1 : (N.to_nat c <= length t1)%nat) by (unfold nlen in Ehit; lia).
    assert (Hview' : mbr_view r = fr (firstn (N.to_nat c) t1) ++ (fr (skipn (N.to_nat c) t1) ++ resid)).
    { rewrite Hview, app_assoc, <- fr_app, firstn_skipn. reflexivity. }
    destruct (drain_dec_hit (firstn (N.to_nat c) t1) r (S (S (en r - st r))) c acc
                (fr (skipn (N.to_nat c) t1) ++ resid)) as (r1 & Hd & Hinv1); try assumption.
    + apply Forall_firstn'; assumption.
    + apply Forall_firstn'; assumption.
    + apply Forall_app. split; [|exact Hresid_bytes].
      apply fr_all_bytes; apply Forall_skipn'; assumption.
    + destruct t1; [cbn [length] in Hc1; lia|]. destruct (N.to_nat c) eqn:E; [lia|]. cbn [firstn]. discriminate.
    + rewrite firstn_length. lia.
    + unfold nlen. rewrite firstn_length. lia.
    + rewrite Hd. cbn [res_bind].
      assert (Hres : rev (rev (firstn (N.to_nat c) t1) ++ acc) = rev acc ++ firstn (N.to_nat c) (t1 ++ t2)).
      { rewrite rev_rev_app, firstn_app. replace (N.to_nat c - length t1)%nat with 0%nat by lia.
        cbn [firstn]. rewrite app_nil_r. reflexivity. }
      destruct ch as [|b ch'].
      * rewrite Hres. reflexivity.
      * destruct (mbr_append_view r1 (b :: ch') Hinv1) as (r2 & Ha & Hinv2 & Hv2).
        rewrite Ha. cbn [res_bind].
        destruct fu as [|fu'].
        { destruct (rdr_view rd); [cbn [firstn] in Hrd1; discriminate|cbn [length] in Hfu; lia]. }
        cbn [read_loop]. replace (0 =? 0) with true by reflexivity. rewrite Hres. reflexivity.
  - (* more records are needed than are buffered: t1 is consumed, the window is stuck *)
    right.
    assert (Hc1 : nlen t1 < c) by lia.
    rewrite nlen_app in Hc.
    destruct Hcase as [[Ht2 _]|(b & bs3 & y & Hb & Hy & Hfr)].
    { apply map_eq_nil in Ht2. subst t2. unfold nlen in Hc. cbn [length] in Hc. unfold nlen in Hc1. lia. }
    destruct t2 as [|x t2]; [discriminate|]. cbn [map] in Hb. inversion Hb; subst b bs3. clear Hb.
    inversion Hok2 as [|? ? Hx Hok2']; subst. inversion Hne2 as [|? ? Hxn Hne2']; subst.
    assert (Hstuck : stuck_view resid).
    { right. right. exists (rec_body x), y. split; [apply rec_body_ok; assumption|]. split; assumption. }
    destruct (drain_dec_nohit t1 r (S (S (en r - st r))) c acc resid) as (r1 & Hd & Hinv1 & Hv1);
      try assumption.
    rewrite Hd. cbn [res_bind].
    (* the rest of record x is still in the file: the read is not empty *)
    assert (Htail : rdr_view rd = y ++ fr t2 ++ 0 :: repeat 0 z).
    { rewrite fr_cons in Hstream. unfold rec_frame in Hstream. rewrite <- Hfr, <- !app_assoc in Hstream.
      apply app_inv_head in Hstream. exact Hstream. }
    assert (Hvne : rdr_view rd <> []).
    { rewrite Htail. destruct y; [congruence|discriminate]. }
    destruct (firstn 1024 (rdr_view rd)) as [|b ch'] eqn:Ech.
    { destruct (rdr_view rd); [congruence|cbn [firstn] in Ech; discriminate]. }
    destruct (mbr_append_view r1 (b :: ch') Hinv1) as (r2 & Ha & Hinv2 & Hv2).
    rewrite Ha. cbn [res_bind].
    exists r2, rd', (c - nlen t1), (rev t1 ++ acc), (x :: t2), z.
    assert (Hchl : length (b :: ch') = Nat.min 1024 (length (rdr_view rd))).
    { rewrite <- Ech. apply firstn_length. }
    split; [exact Hvne|]. split; [rewrite Hrd2, skipn_length; reflexivity|].
    split; [reflexivity|].
    split; [exact Hinv2|]. split; [constructor; assumption|]. split; [constructor; assumption|].
    split; [|split].
    + rewrite Hv2, Hv1, Hrd2, <- Ech. rewrite <- app_assoc, firstn_skipn. exact Hstream.
    + rewrite nlen_cons in *. lia.
    + rewrite rev_rev_app, <- app_assoc. f_equal. rewrite firstn_app. f_equal.
      * symmetry. apply firstn_all2. unfold nlen in Hc1. lia.
      * f_equal. unfold nlen. lia.
Qed.

Lemma read_loop_gen : forall fu rd r c acc todo z,
  mbr_inv r ->
  Forall rec_ok todo -> Forall rec_nonempty todo ->
  mbr_view r ++ rdr_view rd = fr todo ++ 0 :: repeat 0 z ->
  c <= nlen todo ->
  (length (rdr_view rd) <= 1024 * fu)%nat ->
  read_loop (S fu) rd r c acc = Ok (rev acc ++ firstn (N.to_nat c) todo).
Proof.
  induction fu as [|fu IH]; intros rd r c acc todo z Hinv Hok Hne Hstream Hc Hfu;
    destruct (read_loop_step _ rd r c acc todo z Hinv Hok Hne Hstream Hc Hfu)
      as [H|(r2 & rd' & c' & acc' & todo' & z' & Hvne & Hl1 & Hstep & Hinv2 & Hok' & Hne' & Hstream' & Hc' & Hres)];
    try exact H.
  - exfalso. destruct (rdr_view rd); [congruence|cbn [length] in Hfu; lia].
  - rewrite Hstep, <- Hres. apply (IH rd' r2 c' acc' todo' z'); try assumption. lia.
Qed.

(** * FileMessageReader: read_len at a record boundary, read_index_position *)
Lemma firstn_app_le {A} n (a b : list A) : (length a <= n)%nat -> firstn n (a ++ b) = a ++ firstn (n - length a) b.
Proof. intros H. rewrite firstn_app, firstn_all2 by exact H. reflexivity. Qed.

Lemma pos_read_len_frame rd x rest :
  rec_ok x -> rec_nonempty x -> all_bytes rest ->
  rdr_view rd = rec_frame x ++ rest ->
  pos_read_len rd = Ok (nlen (rec_frame x)).
Proof.
  intros Hx Hxn Hrest Hv.
  unfold pos_read_len. destruct (rdr_read_spec rd 10) as [H1 _]. rewrite H1, Hv.
  unfold rec_frame at 1 2, frame. rewrite <- app_assoc.
  set (L := N.of_nat (length (rec_body x))).
  set (R := rec_body x ++ rest).
  assert (HL : L < 2 ^ 64).
  { pose proof (rec_body_length_bound x Hx). assert (2 ^ 63 < 2 ^ 64) by (vm_compute; reflexivity).
    subst L. lia. }
  pose proof (write_varint_length L) as [Hw1 Hw10].
  rewrite firstn_app_le by exact Hw10.
  rewrite app_length.
  destruct (length (write_varint L) + length (firstn (10 - length (write_varint L)) R) =? 0)%nat eqn:E; [lia|].
  rewrite <- app_assoc.
  assert (HR : all_bytes R).
  { subst R. apply Forall_app. split; [apply rec_body_all_bytes; exact Hx|exact Hrest]. }
  rewrite varint_roundtrip_list; [|exact HL|].
  - assert (HLne : (L =? 0) = false).
    { pose proof (rec_body_nonempty x Hxn). subst L. destruct (rec_body x); [congruence|cbn [length]; lia]. }
    rewrite HLne. f_equal. rewrite <- (varint_sizeof L HL).
    unfold nlen, rec_frame, frame. rewrite app_length. subst L. lia.
  - apply Forall_app. split; [apply Forall_firstn'; exact HR|apply all_bytes_repeat0].
Qed.

Lemma rdr_skip_view rd k : rdr_view (rdr_skip rd k) = skipn k (rdr_view rd).
Proof. unfold rdr_skip. apply (proj2 (rdr_read_spec rd k)). Qed.

Lemma pos_skip_frames : forall mid rd pos x rest,
  Forall rec_ok mid -> Forall rec_nonempty mid -> rec_ok x -> rec_nonempty x -> all_bytes rest ->
  rdr_view rd = fr mid ++ rec_frame x ++ rest ->
  exists rd', pos_skip (length mid) rd pos = Ok (pos + frl mid, nlen (rec_frame x), rd') /\
              rdr_view rd' = rec_frame x ++ rest.
Proof.
  induction mid as [|m mid IH]; intros rd pos x rest Hok Hne Hx Hxn Hrest Hv.
  - cbn [length pos_skip]. cbn [fr map concat app] in Hv.
    rewrite (pos_read_len_frame rd x rest Hx Hxn Hrest Hv). cbn [res_bind].
    exists rd. rewrite frl_nil, N.add_0_r. auto.
  - cbn [length pos_skip].
    inversion Hok as [|? ? Hm Hok']; subst. inversion Hne as [|? ? Hmn Hne']; subst.
    rewrite fr_cons, <- app_assoc in Hv.
    assert (Hrest' : all_bytes (fr mid ++ rec_frame x ++ rest)).
    { apply Forall_app. split; [apply fr_all_bytes; assumption|].
      apply Forall_app. split; [|exact Hrest]. apply frame_all_bytes, rec_body_ok; assumption. }
    rewrite (pos_read_len_frame rd m _ Hm Hmn Hrest' Hv). cbn [res_bind].
    destruct (IH (rdr_skip rd (N.to_nat (nlen (rec_frame m)))) (pos + nlen (rec_frame m)) x rest)
      as (rd' & Hs & Hv'); try assumption.
    + rewrite rdr_skip_view, Hv. unfold nlen. rewrite Nat2N.id, skipn_app, skipn_all, Nat.sub_diag.
      reflexivity.
    + exists rd'. rewrite Hs. split; [|exact Hv']. f_equal. f_equal. f_equal.
      unfold frl at 2. rewrite fr_cons, nlen_app. unfold frl. lia.
Qed.

(** * get_start_index on the canonical index list *)
Lemma find_start_ixs : forall blocks li fi s0,
  li <= s0 ->
  find_start (ixs_from li fi blocks) s0 (li, fi) =
  let j := Nat.min (length blocks) (N.to_nat ((s0 - li) / 128)) in
  (li + 128 * N.of_nat j, fi + frl (concat (firstn j blocks))).
Proof.
  induction blocks as [|b bs IH]; intros li fi s0 Hle.
  - cbn [ixs_from find_start length Nat.min firstn concat]. rewrite frl_nil. f_equal; lia.
  - cbn [ixs_from find_start fst]. destruct (li + 128 <=? s0) eqn:E.
    + rewrite IH by lia. cbv zeta.
      assert (Hj : Nat.min (length (b :: bs)) (N.to_nat ((s0 - li) / 128)) =
                   S (Nat.min (length bs) (N.to_nat ((s0 - (li + 128)) / 128)))).
      { cbn [length]. assert ((s0 - li) / 128 = 1 + (s0 - (li + 128)) / 128) by lia. lia. }
      rewrite Hj. cbn [firstn concat]. rewrite frl_app. f_equal; lia.
    + cbv zeta. assert (Hj : Nat.min (length (b :: bs)) (N.to_nat ((s0 - li) / 128)) = 0%nat).
      { assert ((s0 - li) / 128 = 0) by lia. lia. }
      rewrite Hj. cbn [firstn concat]. rewrite frl_nil. f_equal; lia.
Qed.

Lemma concat_firstn_length (bs : list (list lrec)) j :
  Forall (fun b => length b = 128%nat) bs -> (j <= length bs)%nat ->
  length (concat (firstn j bs)) = (128 * j)%nat.
Proof.
  intros H Hj.
  assert (Hf : Forall (fun b => length b = 128%nat) (firstn j bs)) by (apply Forall_firstn'; exact H).
  pose proof (concat_blocks_length _ Hf) as Hc. unfold nlen in Hc. rewrite firstn_length in Hc. lia.
Qed.

(** * read_records *)
Definition c_slice (c : cst) (lo hi : N) : list lrec :=
  let s0 := N.max lo (c_split c) in
  let e0 := N.min hi (c_first c + nlen (c_all c)) in
  if e0 <=? s0 then [] else firstn (N.to_nat (e0 - s0)) (skipn (N.to_nat (s0 - c_first c)) (c_all c)).

Definition c_after_read (c : cst) (lo hi : N) : cst :=
  let s0 := N.max lo (c_split c) in
  let e0 := N.min hi (c_first c + nlen (c_all c)) in
  if e0 <=? s0 then c
  else mkCst (c_first c) (c_blocks c) (c_part c) (c_z c) (c_flen c) (c_hterm c) (c_da c) (c_lterm c)
             true 0 (c_split c).

Lemma wfc_after_read c lo hi : wfc c -> wfc (c_after_read c lo hi).
Proof.
  intros W. unfold c_after_read. cbv zeta.
  destruct (N.min hi (c_first c + nlen (c_all c)) <=? N.max lo (c_split c)); [exact W|].
  destruct W. constructor; cbn [c_blocks c_part c_first c_z c_flen c_da c_seek c_dpos c_split]; try assumption.
  intros H. discriminate.
Qed.

Lemma c_all_after_read c lo hi : c_all (c_after_read c lo hi) = c_all c.
Proof.
  unfold c_after_read. cbv zeta.
  destruct (N.min hi (c_first c + nlen (c_all c)) <=? N.max lo (c_split c)); reflexivity.
Qed.

Theorem read_records_conc c lo hi :
  wfc c -> read_records (conc c) lo hi = (Ok (c_slice c lo hi), conc (c_after_read c lo hi)).
Proof.
  intros W. unfold read_records, c_slice, c_after_read. cbv zeta.
  cbn [conc l_split l_start l_cnt end_index l_file l_indexs l_icur l_flen l_dcur l_lterm l_cic].
  unfold end_index. cbn [conc l_start l_cnt].
  set (s0 := N.max lo (c_split c)). set (e0 := N.min hi (c_first c + nlen (c_all c))).
  destruct (e0 <=? s0) eqn:Ee; [reflexivity|].
  pose proof (wf_split c W) as Hsp. pose proof (wf_blocks c W) as Hbl. pose proof (wf_part c W) as Hpart.
  pose proof (concat_blocks_length _ Hbl) as Hcb.
  assert (Hs0 : c_first c <= s0 /\ s0 < c_first c + nlen (c_all c)) by lia.
  set (k0 := N.to_nat (s0 - c_first c)).
  assert (Hk0 : (k0 < length (c_all c))%nat) by (unfold nlen in Hs0; lia).
  (* the index entry *)
  set (j := Nat.min (length (c_blocks c)) (N.to_nat ((s0 - c_first c) / 128))).
  assert (Hix : get_start_index (conc c) s0 =
                (c_first c + 128 * N.of_nat j, DATA0 + frl (concat (firstn j (c_blocks c))))).
  { unfold get_start_index. cbn [conc l_indexs]. unfold ixs_of. rewrite find_start_ixs by lia. reflexivity. }
  rewrite Hix. clear Hix.
  assert (Hall_len : length (c_all c) = (128 * length (c_blocks c) + length (c_part c))%nat).
  { unfold c_all. rewrite app_length. unfold nlen in Hcb. lia. }
  assert (Hj : j = (k0 / 128)%nat).
  { subst j k0. assert (N.to_nat ((s0 - c_first c) / 128) = (N.to_nat (s0 - c_first c) / 128)%nat).
    { rewrite N2Nat.inj_div. reflexivity. }
    rewrite H. apply Nat.min_r.
    assert (N.to_nat (s0 - c_first c) / 128 < S (length (c_blocks c)))%nat; [|lia].
    apply Nat.div_lt_upper_bound; lia. }
  assert (Hjle : (j <= length (c_blocks c))%nat) by (subst j; lia).
  cbn [fst snd].
  set (pre := concat (firstn j (c_blocks c))).
  set (rest := concat (skipn j (c_blocks c)) ++ c_part c).
  assert (Hsplit : c_all c = pre ++ rest).
  { subst pre rest. unfold c_all. rewrite app_assoc, <- concat_app, firstn_skipn. reflexivity. }
  assert (Hprelen : length pre = (128 * j)%nat) by (apply concat_firstn_length; assumption).
  set (m := (k0 - 128 * j)%nat).
  assert (Hm : (m < length rest)%nat).
  { subst m. rewrite Hsplit, app_length in Hk0. rewrite Hj in *.
    pose proof (Nat.div_mod k0 128). lia. }
  assert (Hk0m : k0 = (128 * j + m)%nat).
  { subst m. rewrite Hj. pose proof (Nat.div_mod k0 128). pose proof (Nat.mod_upper_bound k0 128). lia. }
  destruct (nth_split rest (mkRec 0 0 []) Hm) as (mid & post & Hrest & Hmid).
  set (x := nth m rest (mkRec 0 0 [])) in *.
  assert (Hall : c_all c = pre ++ mid ++ x :: post) by (rewrite Hsplit, Hrest; reflexivity).
  replace (N.to_nat (s0 - (c_first c + 128 * N.of_nat j))) with (length mid) by (rewrite Hmid; lia).
  pose proof (c_file_ok c W) as Hfok.
  destruct (tail_from_conc c pre (mid ++ x :: post) W Hall) as [z Hz].
  assert (Hpos : DATA0 <= DATA0 + frl pre) by lia.
  rewrite <- (rdr_open_view _ _ Hfok Hpos) in Hz.
  assert (Hrs : Forall rec_ok (mid ++ x :: post) /\ Forall rec_nonempty (mid ++ x :: post)).
  { pose proof (wf_ok c W) as H1. pose proof (wf_nonempty c W) as H2. rewrite Hall in *.
    apply Forall_app in H1. apply Forall_app in H2. tauto. }
  destruct Hrs as [Hok Hne].
  apply Forall_app in Hok. destruct Hok as [Hokm Hokx].
  apply Forall_app in Hne. destruct Hne as [Hnem Hnex].
  inversion Hokx as [|? ? Hx Hokp]; subst. inversion Hnex as [|? ? Hxn Hnep]; subst.
  assert (Hrestb : all_bytes (fr post ++ 0 :: repeat 0 z)).
  { apply Forall_app. split; [apply fr_all_bytes; assumption|].
    constructor; [unfold is_byte; lia|apply all_bytes_repeat0]. }
  rewrite fr_app, fr_cons, <- !app_assoc in Hz.
  destruct (pos_skip_frames mid (rdr_open (c_file c) (DATA0 + frl pre)) (DATA0 + frl pre)
              (nth m rest (mkRec 0 0 [])) (fr post ++ 0 :: repeat 0 z)) as (rd' & Hskip & Hv'); try assumption.
  rewrite Hskip.
  (* the loop *)
  assert (Hall' : c_all c = (pre ++ mid) ++ nth m rest (mkRec 0 0 []) :: post) by (rewrite <- app_assoc; exact Hall).
  destruct mbr_new_inv as [Hninv Hnview].
  subst x. set (xx := nth m rest (mkRec 0 0 [])) in *.
  assert (Hloop : read_loop (S (scan_fuel (c_file c) (DATA0 + frl pre + frl mid))) rd' mbr_new (e0 - s0) []
                  = Ok (rev [] ++ firstn (N.to_nat (e0 - s0)) (xx :: post))).
  { apply (read_loop_gen _ rd' mbr_new (e0 - s0) [] (xx :: post) z).
    - exact Hninv.
    - constructor; assumption.
    - constructor; assumption.
    - rewrite Hnview. cbn [app]. rewrite Hv', fr_cons, <- app_assoc. reflexivity.
    - assert (nlen (c_all c) = nlen (pre ++ mid) + nlen (xx :: post))
        by (rewrite Hall', nlen_app; reflexivity).
      assert (nlen (pre ++ mid) = N.of_nat k0) by (unfold nlen; rewrite app_length; lia).
      lia.
    - (* fuel: the reader behind the skipped records is a suffix of the file *)
      assert (Hfu : (length (tail_from (c_file c) (DATA0 + frl pre + frl mid))
                     <= 1024 * scan_fuel (c_file c) (DATA0 + frl pre + frl mid))%nat)
        by (apply scan_fuel_enough; [exact Hfok|lia]).
      rewrite tail_from_length in Hfu by (try exact Hfok; lia).
      rewrite Hv'.
      assert (Hlen : length (rdr_view (rdr_open (c_file c) (DATA0 + frl pre))) =
                     N.to_nat (f_len (c_file c) - (DATA0 + frl pre))).
      { rewrite (rdr_open_view _ _ Hfok Hpos). apply tail_from_length; [exact Hfok|lia]. }
      rewrite Hz, !app_length in Hlen. unfold frl, nlen in *. rewrite !app_length. lia. }
  rewrite Hloop. cbn [rev app]. f_equal. f_equal. f_equal.
  rewrite Hall'. fold k0. rewrite skipn_app.
  assert (Hpm : length (pre ++ mid) = k0) by (rewrite app_length; lia).
  rewrite Hpm, Nat.sub_diag. cbn [skipn]. rewrite skipn_all2 by lia. reflexivity.
Qed.
