(** C04, log file: the file mutations that LogInnerManager issues, in program order, and the
    crash images they pass through.  Works on the sparse-file model of LogFile.v: a mutation is
    one write call at the level of that model (set_len / data write / index-area write / header
    write), which is what the crash model of C04 treats as atomic.  Model only. *)
From RN Require Export Base.Res Codec.Varint RaftLog.LogFile RaftLog.Layout.
Local Open Scope N_scope.

Inductive lmut : Type :=
| LCreate                          (* OpenOptions::create(true) on a missing file *)
| LHeader (h : lhdr)               (* write_all of the 256-byte header buffer at offset 0 *)
| LSetLen (n : N)                  (* data_file.set_len *)
| LData (off : N) (bs : list N)    (* data_file.write_all at the data cursor *)
| LIdx (off : N) (bs : list N).    (* index_file.seek + write_all in the index area *)

(** the file as init sees it: [None] = missing or of length 0 *)
Definition HDR_BUF : N := 256.

Definition apply_lmut (f : option lfile) (m : lmut) : option lfile :=
  match m, f with
  | LCreate, _ => f
  | LHeader h, None => Some (mkFile h [] [] HDR_BUF)
  | LHeader h, Some g => Some (mkFile h (f_idx g) (f_data g) (f_len g))
  | LSetLen n, Some g => Some (file_set_len g n)
  | LData off bs, Some g => Some (data_write g off bs)
  | LIdx off bs, Some g => Some (idx_write g off bs)
  | _, None => None
  end.

Definition apply_lmuts (f : option lfile) (j : list lmut) : option lfile := fold_left apply_lmut j f.

(** journal of [write] (LogFile.write, the accepted case), literally in the order of the source:
    set_len when the file must grow, the data write, the index entry when a block completes *)
Definition write_journal (s : lim) (x : lrec) : list lmut :=
  if is_full s then []
  else if negb (end_index s =? r_index x) then []
  else
    let buf := rec_frame x in
    let blen := N.of_nat (length buf) in
    let pos := if l_seek s then l_dcur s else l_dpos s in
    (if l_flen s <=? l_dcur s + blen then [LSetLen (l_flen s + N.max blen BUF_SIZE)] else []) ++
    [LData pos buf] ++
    (if l_cic s + 1 =? h_interval (f_hdr (l_file s))
     then [LIdx (l_icur s) (write_varint (l_dcur s + blen - snd (last_ix (l_indexs s))))]
     else []).

(** journal of the fresh init (data_meta.len() == 0): header buffer, then set_len(1 MiB) *)
Definition fresh_journal (limit start pre_term : N) : list lmut :=
  [LCreate; LHeader (mkHdr pre_term start limit 128); LSetLen BUF_SIZE].

(** a history of appends to one log file that was started fresh *)
Fixpoint appends_journal (s : lim) (xs : list lrec) : list lmut :=
  match xs with
  | [] => []
  | x :: xs' => write_journal s x ++ appends_journal (fst (write s x)) xs'
  end.

Definition log_journal (limit start pre_term split : N) (xs : list lrec) : list lmut :=
  fresh_journal limit start pre_term ++
  match init None limit start pre_term split with
  | Ok s => appends_journal s xs
  | _ => []
  end.

Definition crash_log (j : list lmut) (k : nat) : option lfile := apply_lmuts None (firstn k j).

(** number of data writes in a journal prefix = number of records whose bytes reached the file *)
Fixpoint data_writes (j : list lmut) : nat :=
  match j with
  | [] => O
  | LData _ _ :: r => S (data_writes r)
  | _ :: r => data_writes r
  end.

(** * delete-from (strip_log_to), in the order of the repaired source: zeros over the popped index
    entries, shrink to the new data cursor, grow back *)
Definition strip_journal (s : lim) (k : N) : list lmut :=
  if end_index s <=? k then []
  else
    match get_file_index_by_log_index s k with
    | Ok (ix, fil, pops) =>
        let '(f1, icur) :=
          if 0 <? pops then (idx_write (l_file s) (l_icur s - fil) (repeat 0 (N.to_nat fil)), l_icur s - fil)
          else (l_file s, l_icur s) in
        match move_to_index_by_count f1 ix (l_start s) (k - fst ix) with
        | Ok (dcur, _) =>
            (if 0 <? pops then [LIdx (l_icur s - fil) (repeat 0 (N.to_nat fil))] else []) ++
            [LSetLen dcur; LSetLen (l_flen s)]
        | _ => []
        end
    | _ => []
    end.
