(** Forward simulation of the manager model (catalogue of log files, rollover, batch
    re-submission, delete-from, snapshot pointers, split-off, restart) to ONE abstract log, for every
    operation history. *)
From RN Require Import Base.Res Codec.Varint Codec.BufReader
  RaftLog.LogFile RaftLog.Spec RaftLog.Layout RaftLog.FileProofs RaftLog.RecordProofs
  RaftLog.ReadProofs RaftLog.WriteProofs RaftLog.InitProofs RaftLog.StripProofs RaftLog.Refine
  RaftLog.LogManager RaftLog.ManagerProofs RaftLog.ManagerInv RaftLog.ManagerWriteProofs
  RaftLog.ManagerBatchProofs RaftLog.ManagerCutProofs RaftLog.ManagerReopenProofs
  RaftLog.ManagerSpec.
From Coq Require Import ZifyBool ZifyNat ZifyN.
Local Open Scope N_scope.
Ltac Zify.zify_post_hook ::= Z.div_mod_to_equations.

(** * facts about a represented manager *)
Lemma rep_indexed m (fs : list mfile) a :
  mgr_rep m fs -> files_first fs = Some a ->
  indexed a (files_vis fs) /\ files_end fs = Some (a + nlen (files_vis fs)).
Proof.
  intros R Hf. pose proof (rp_chain m fs R) as [Hl _].
  pose proof (files_vis_indexed fs (rp_files m fs R) Hl) as H.
  destruct fs as [|f fs0]; [discriminate|]. cbn [files_first] in Hf. inversion Hf; subst.
  destruct H as [Hi He]. split; [exact Hi|].
  destruct (list_snoc_cases (f :: fs0)) as [E|(l0 & x & E)]; [discriminate|].
  rewrite E in *. rewrite files_end_snoc in *. f_equal. symmetry. apply He. reflexivity.
Qed.

Lemma floor_ok_mono fl fl' (fs : list mfile) : fl <= fl' -> floor_ok fl fs -> floor_ok fl' fs.
Proof.
  intros Hle [H1 H2]. split.
  - eapply Forall_impl; [|exact H1]. cbn beta. intros f Hf Hlt. specialize (Hf Hlt). lia.
  - destruct fs; [exact I|]. intros E. specialize (H2 E). lia.
Qed.

Lemma rep_pre_irrelevant m (fs : list mfile) p :
  mgr_rep m fs -> mgr_rep (mkMgr (m_logs m) (m_saved m) (m_actors m) (m_disk m) (m_cur m) p (m_limit m)) fs.
Proof. intros R. destruct R. constructor; assumption. Qed.

Lemma mst_eta st : st = mkMst (ms_log st) (ms_floor st) (ms_pend st).
Proof. destruct st; reflexivity. Qed.

(** * abstract log vs. indexed record lists *)
Lemma above_all p (l : list lrec) : Forall (fun x => p < r_index x) l -> above p l = l.
Proof.
  induction l as [|x l IH]; intros H; [reflexivity|]. inversion H; subst.
  unfold above in *. cbn [filter]. destruct (p <? r_index x) eqn:E; [|lia]. f_equal. apply IH. assumption.
Qed.

Lemma above_indexed : forall (l : list lrec) i p,
  indexed i l -> i <= p + 1 -> above p l = skipn (N.to_nat (p + 1 - i)) l.
Proof.
  induction l as [|x l IH]; intros i p H Hip; [rewrite skipn_nil; reflexivity|].
  destruct (N.ltb_spec p i) as [Hlt|Hge].
  - replace (N.to_nat (p + 1 - i)) with 0%nat by lia. cbn [skipn]. apply above_all.
    pose proof (indexed_bounds _ _ H) as Hb. eapply Forall_impl; [|exact Hb]. cbn beta. intros a Ha. lia.
  - cbn [indexed] in H. destruct H as [Hx Hl]. unfold above in *. cbn [filter]. rewrite Hx.
    destruct (p <? i) eqn:E; [lia|]. rewrite (IH (i + 1) p Hl) by lia.
    replace (N.to_nat (p + 1 - i)) with (S (N.to_nat (p + 1 - (i + 1)))) by lia. reflexivity.
Qed.

Lemma truncate_below (l : list lrec) first k :
  indexed first l -> first <= k ->
  a_truncate (mkAlog first (map ent_of l)) k = mkAlog first (map ent_of (below k l)).
Proof.
  intros Hi Hk. unfold a_truncate, a_end, a_len. cbn [a_first a_ents]. rewrite map_length.
  rewrite (below_indexed l first k Hi Hk).
  destruct (first + N.of_nat (length l) <=? k) eqn:E.
  - rewrite firstn_all2 by lia. reflexivity.
  - rewrite firstn_map. reflexivity.
Qed.

Lemma get_between (l : list lrec) first lo hi :
  indexed first l -> map to_ent (between lo hi l) = a_get (mkAlog first (map ent_of l)) lo hi.
Proof.
  intros Hi. unfold a_get, a_end, a_len. cbv zeta. cbn [a_first a_ents]. rewrite map_length.
  rewrite (between_indexed l first lo hi Hi). fold (nlen l).
  destruct (N.min hi (first + nlen l) <=? N.max lo first) eqn:E.
  - replace (N.to_nat (N.min hi (first + nlen l) - N.max lo first)) with 0%nat by lia. reflexivity.
  - rewrite skipn_map, firstn_map. apply indexed_map_number. apply indexed_firstn.
    pose proof (indexed_skipn first (N.to_nat (N.max lo first - first)) l Hi) as Hs.
    rewrite Nat.min_l in Hs by (unfold nlen in *; lia).
    replace (first + N.of_nat (N.to_nat (N.max lo first - first))) with (N.max lo first) in Hs by lia. exact Hs.
Qed.

(** * single steps *)
Section Steps.
  Variable m : mgr.
  Variable st : mstate.
  Hypothesis HR : MRep m st.

  Lemma step_append x : rec_in x ->
    let '(m', out) := mstep m (OAppend x) in exists st', mspec st (OAppend x) out st' /\ MRep m' st'.
  Proof.
    intros (Hok & Hne & Hb). destruct HR as (fs & R & Hfl & Hp & Hlog). cbn [mstep].
    destruct (mgr_write_rep m fs x R Hok Hne Hb) as (m' & fs' & r & Hw & R' & Hl' & Hp' & Hpost & Hflo).
    rewrite Hw. destruct (ms_log st) as [a|] eqn:El.
    - destruct Hlog as [Hfirst Hents]. destruct (rep_indexed m fs _ R Hfirst) as [Hidx Hend].
      rewrite Hend in Hpost.
      assert (Haend : a_end a = a_first a + nlen (files_vis fs)).
      { unfold a_end, a_len. rewrite Hents, map_length. reflexivity. }
      destruct r; cbn [write_post wres_ack] in *.
      + destruct Hpost as (Hi & Hv & Hf). eexists. cbn [mspec]. rewrite El. split; [split; [lia|reflexivity]|].
        exists fs'. cbn [ms_log ms_floor ms_pend]. split; [exact R'|]. split; [apply Hflo; exact Hfl|]. split; [congruence|].
        cbn [ms_log log_app alog_app a_first a_ents]. split; [congruence|]. rewrite Hv, map_app, Hents. reflexivity.
      + destruct Hpost as (Hi & Hv & Hf). exists st. cbn [mspec]. split; [split; [exists a; split; [exact El|lia]|reflexivity]|].
        exists fs'. cbn [ms_log ms_floor ms_pend]. split; [exact R'|]. split; [apply Hflo; exact Hfl|]. split; [congruence|].
        rewrite El. split; [congruence|]. rewrite Hv. exact Hents.
      + contradiction.
    - subst fs. cbn [files_end last_opt rev] in Hpost. destruct Hpost as (-> & Hv & Hf). cbn [wres_ack].
      eexists. cbn [mspec]. rewrite El. split; [split; [exact I|reflexivity]|].
      exists fs'. cbn [ms_log ms_floor ms_pend]. split; [exact R'|]. split; [apply Hflo; exact Hfl|]. split; [congruence|].
      cbn [ms_log log_app a_first a_ents map]. split; [exact Hf|]. rewrite Hv. reflexivity.
  Qed.

  Lemma step_truncate k :
    k < U64MAX -> ms_floor st <= k -> match ms_log st with Some a => a_first a <= k | None => True end ->
    let '(m', out) := mstep m (OTruncate k) in exists st', mspec st (OTruncate k) out st' /\ MRep m' st'.
  Proof.
    intros Hk Hflk Hak. destruct HR as (fs & R & Hfl & Hp & Hlog). cbn [mstep mspec].
    eexists. split; [reflexivity|]. destruct (ms_log st) as [a|] eqn:El.
    - destruct Hlog as [Hfirst Hents]. destruct (rep_indexed m fs _ R Hfirst) as [Hidx Hend].
      destruct (floor_ok_cut fs _ k _ (rp_files m fs R) Hfl Hfirst Hak Hflk Hk) as [Hc Hh].
      destruct (mgr_strip_rep_floor m fs k R Hc Hh) as (fs' & R' & Hl' & Hp' & Hv & Hf & _ & Hflo).
      exists fs'. cbn [ms_log ms_floor ms_pend]. split; [exact R'|]. split; [apply Hflo; exact Hfl|]. split; [cbn [ms_pend]; congruence|].
      cbn [ms_log]. assert (Ha : a = mkAlog (a_first a) (map ent_of (files_vis fs))) by (destruct a; cbn in *; congruence).
      rewrite Ha at 1 2. rewrite (truncate_below _ _ k Hidx Hak). cbn [a_first a_ents]. rewrite Hv. split; [congruence|reflexivity].
    - subst fs. assert (Hm : mgr_strip m k = m).
      { unfold mgr_strip. rewrite (rp_logs m [] R). reflexivity. }
      rewrite Hm. exists []. cbn [ms_log ms_floor ms_pend]. auto.
  Qed.

  Lemma step_query lo hi : lo < U64MAX ->
    let '(m', out) := mstep m (OQuery lo hi) in exists st', mspec st (OQuery lo hi) out st' /\ MRep m' st'.
  Proof.
    intros Hlo. destruct HR as (fs & R & Hfl & Hp & Hlog). cbn [mstep].
    destruct (mgr_query_rep_floor m fs lo hi R Hlo) as (fs' & R' & Hl' & Hp' & Hv & Hf & He & Hres & Hflo).
    destruct (mgr_query m lo hi) as [m' l]. cbn [fst snd] in *. exists st. cbn [mspec]. split.
    - split; [|reflexivity]. subst l. destruct (ms_log st) as [a|] eqn:El.
      + destruct Hlog as [Hfirst Hents]. destruct (rep_indexed m fs _ R Hfirst) as [Hidx _].
        assert (Ha : a = mkAlog (a_first a) (map ent_of (files_vis fs))) by (destruct a; cbn in *; congruence).
        rewrite Ha at 1. apply get_between. exact Hidx.
      + subst fs. reflexivity.
    - exists fs'. cbn [ms_log ms_floor ms_pend]. split; [exact R'|]. split; [apply Hflo; exact Hfl|]. split; [congruence|].
      destruct (ms_log st) as [a|].
      + destruct Hlog as [Hfirst Hents]. split; congruence.
      + subst fs. destruct fs'; [reflexivity|]. cbn [files_first] in Hf. discriminate.
  Qed.

  Lemma step_last :
    let '(m', out) := mstep m OLast in exists st', mspec st OLast out st' /\ MRep m' st'.
  Proof.
    destruct HR as (fs & R & Hfl & Hp & Hlog). cbn [mstep]. exists st. cbn [mspec]. split; [|exact HR].
    split; [|reflexivity]. destruct (ms_log st) as [a|] eqn:El.
    - destruct Hlog as [Hfirst Hents]. destruct (rep_indexed m fs _ R Hfirst) as [_ Hend].
      rewrite (mgr_last_index m fs _ R Hend).
      assert (Haend : a_end a = a_first a + nlen (files_vis fs)).
      { unfold a_end, a_len. rewrite Hents, map_length. reflexivity. }
      rewrite Haend. reflexivity.
    - subst fs. unfold mgr_last, cur_actor. rewrite (rp_cur m [] R). reflexivity.
  Qed.

  Lemma step_reopen :
    let '(m', out) := mstep m OReopen in exists st', mspec st OReopen out st' /\ MRep m' st'.
  Proof.
    destruct HR as (fs & R & Hfl & Hp & Hlog). cbn [mstep mspec]. eexists. split; [reflexivity|].
    destruct (mgr_reopen_rep m fs R) as (R' & Hl' & Hp' & Hv & Hf & He).
    exists (map reopen_f fs). cbn [ms_log ms_floor ms_pend]. split; [exact R'|].
    split; [apply floor_ok_reopen; [apply (rp_files m fs R)|exact Hfl]|]. split; [exact Hp'|].
    cbn [ms_log]. destruct (ms_log st) as [a|].
    - destruct Hlog as [Hfirst Hents]. split; congruence.
    - subst fs. reflexivity.
  Qed.
  Lemma indexed_from_some a (l : list lrec) : indexed (a_end a) l -> indexed_from (Some a) l.
  Proof. destruct l; [intros; exact I|intros H; exact H]. Qed.

  Lemma a_end_app a (l : list lrec) : a_end (alog_app a l) = a_end a + nlen l.
  Proof. unfold a_end, a_len, alog_app. cbn [a_first a_ents]. rewrite app_length, map_length. unfold nlen. lia. Qed.

  Lemma step_batch xs : Forall rec_in xs ->
    let '(m', out) := mstep m (OBatch xs) in exists st', mspec st (OBatch xs) out st' /\ MRep m' st'.
  Proof.
    intros Hin. destruct HR as (fs & R & Hfl & Hp & Hlog). cbn [mstep].
    assert (Hok : Forall rec_ok xs) by (eapply Forall_impl; [|exact Hin]; intros x H; apply H).
    assert (Hne : Forall rec_nonempty xs) by (eapply Forall_impl; [|exact Hin]; intros x H; apply H).
    assert (Hb : Forall (fun x => r_index x + 1 < U64MAX) xs) by (eapply Forall_impl; [|exact Hin]; intros x H; apply H).
    destruct (mgr_write_batch_rep m fs xs R Hok Hne Hb) as (m' & fs' & r & Hw & R' & Hl' & Hp' & Hpost & Hflo).
    rewrite Hw. destruct xs as [|x0 xs0].
    - destruct Hpost as [-> ->]. cbn [wres_ack]. eexists. cbn [mspec]. split; [split; [destruct (ms_log st); exact I|reflexivity]|].
      exists fs. cbn [ms_log ms_floor ms_pend]. split; [exact R'|]. split; [exact Hfl|]. split; [congruence|].
      destruct (ms_log st) as [a|]; cbn [log_app]; [|exact Hlog].
      cbn [alog_app a_first a_ents map]. rewrite app_nil_r. exact Hlog.
    - set (xs := x0 :: xs0) in *. destruct (ms_log st) as [a|] eqn:El.
      + destruct Hlog as [Hfirst Hents]. destruct (rep_indexed m fs _ R Hfirst) as [Hidx Hend].
        rewrite Hend in Hpost.
        assert (Haend : a_end a = a_first a + nlen (files_vis fs)).
        { unfold a_end, a_len. rewrite Hents, map_length. reflexivity. }
        rewrite <- Haend in Hpost.
        destruct r; cbn [batch_post wres_ack] in *.
        * destruct Hpost as (Hi & Hv & Hf). eexists. cbn [mspec]. rewrite El.
          split; [split; [apply indexed_from_some; exact Hi|reflexivity]|].
          exists fs'. cbn [ms_log ms_floor ms_pend]. split; [exact R'|]. split; [apply Hflo; exact Hfl|]. split; [congruence|].
          cbn [log_app alog_app a_first a_ents]. split; [congruence|]. rewrite Hv, map_app, Hents. reflexivity.
        * destruct Hpost as (n & Hn & Hi & Hnth & Hv & Hf). eexists. cbn [mspec]. rewrite El. split.
          -- exists n. split; [exact Hn|]. split; [apply indexed_from_some; exact Hi|]. split; [|reflexivity].
             cbn [log_app log_end]. rewrite a_end_app. unfold nlen. rewrite firstn_length.
             replace (Nat.min n (length xs)) with n by lia. exact Hnth.
          -- exists fs'. cbn [ms_log ms_floor ms_pend]. split; [exact R'|]. split; [apply Hflo; exact Hfl|]. split; [congruence|].
             cbn [log_app alog_app a_first a_ents]. split; [congruence|]. rewrite Hv, map_app, Hents. reflexivity.
        * contradiction.
      + subst fs. cbn [files_end last_opt rev] in Hpost.
        destruct r; cbn [wres_ack] in *.
        * destruct Hpost as (Hi & Hv & Hf). eexists. cbn [mspec]. rewrite El. split; [split; [exact Hi|reflexivity]|].
          exists fs'. cbn [ms_log ms_floor ms_pend]. split; [exact R'|]. split; [apply Hflo; exact Hfl|]. split; [congruence|].
          cbn [log_app a_first a_ents]. split; [exact Hf|]. rewrite Hv. reflexivity.
        * destruct Hpost as (n & Hn & Hi & Hnth & Hv & Hf).
          destruct n as [|n']; [subst xs; cbn [nth] in Hnth; lia|].
          eexists. cbn [mspec]. rewrite El. split.
          -- exists (S n'). split; [exact Hn|]. subst xs. cbn [firstn] in *. split; [exact Hi|]. split; [|reflexivity].
             cbn [log_app log_end]. unfold a_end, a_len. cbn [a_first a_ents]. rewrite map_length. cbn [length].
             rewrite firstn_length. cbn [length] in Hn. replace (Nat.min n' (length xs0)) with n' by lia. exact Hnth.
          -- exists fs'. cbn [ms_log ms_floor ms_pend]. split; [exact R'|]. split; [apply Hflo; exact Hfl|]. split; [congruence|].
             subst xs. cbn [firstn log_app a_first a_ents] in *. split; [exact Hf|]. rewrite Hv. reflexivity.
        * contradiction.
  Qed.
End Steps.
