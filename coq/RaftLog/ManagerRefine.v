(** Forward simulation of the manager model (catalogue of log files, rollover, batch
    re-submission, delete-from, snapshot pointers, split-off, restart) to ONE abstract log, for every
    operation history. *)
From RN Require Import Base.Res Codec.Varint Codec.BufReader
  RaftLog.LogFile RaftLog.Spec RaftLog.Layout RaftLog.FileProofs RaftLog.RecordProofs
  RaftLog.ReadProofs RaftLog.WriteProofs RaftLog.InitProofs RaftLog.StripProofs RaftLog.Refine
  RaftLog.LogManager RaftLog.ManagerProofs RaftLog.ManagerInv RaftLog.ManagerWriteProofs
  RaftLog.ManagerBatchProofs RaftLog.ManagerCutProofs RaftLog.ManagerReopenProofs
  RaftLog.ManagerPointerProofs RaftLog.ManagerSpec.
From Coq Require Import ZifyBool ZifyNat ZifyN.
Local Open Scope N_scope.
Ltac Zify.zify_post_hook ::= Z.div_mod_to_equations.

(** * facts about a represented manager *)
Lemma rep_indexed m (fs : list mfile) a :
  mgr_rep m fs -> files_first fs = Some a ->
  indexed a (files_vis fs) /\ files_end fs = Some (a + nlen (files_vis fs)).
Proof.
  intros R Hf. pose proof (rp_chain m fs R) as [Hl _].
  pose proof (files_vis_indexed fs (rp_files m fs R) Hl) as H.
  destruct fs as [|f fs0]; [discriminate|]. cbn [files_first] in Hf. inversion Hf; subst.
  destruct H as [Hi He]. split; [exact Hi|].
  destruct (list_snoc_cases (f :: fs0)) as [E|(l0 & x & E)]; [discriminate|].
  rewrite E in *. rewrite files_end_snoc in *. f_equal. symmetry. apply He. reflexivity.
Qed.

Lemma floor_ok_mono fl fl' (fs : list mfile) : fl <= fl' -> floor_ok fl fs -> floor_ok fl' fs.
Proof.
  intros Hle [H1 H2]. split.
  - eapply Forall_impl; [|exact H1]. cbn beta. intros f Hf Hlt. specialize (Hf Hlt). lia.
  - destruct fs; [exact I|]. intros E. specialize (H2 E). lia.
Qed.

Lemma rep_pre_irrelevant m (fs : list mfile) p :
  mgr_rep m fs -> mgr_rep (mkMgr (m_logs m) (m_saved m) (m_actors m) (m_disk m) (m_cur m) p (m_limit m)) fs.
Proof. intros R. destruct R. constructor; assumption. Qed.

Lemma mst_eta st : st = mkMst (ms_log st) (ms_floor st) (ms_pend st).
Proof. destruct st; reflexivity. Qed.

(** * abstract log vs. indexed record lists *)
Lemma above_all p (l : list lrec) : Forall (fun x => p < r_index x) l -> above p l = l.
Proof.
  induction l as [|x l IH]; intros H; [reflexivity|]. inversion H; subst.
  unfold above in *. cbn [filter]. destruct (p <? r_index x) eqn:E; [|lia]. f_equal. apply IH. assumption.
Qed.

Lemma above_indexed : forall (l : list lrec) i p,
  indexed i l -> i <= p + 1 -> above p l = skipn (N.to_nat (p + 1 - i)) l.
Proof.
  induction l as [|x l IH]; intros i p H Hip; [rewrite skipn_nil; reflexivity|].
  destruct (N.ltb_spec p i) as [Hlt|Hge].
  - replace (N.to_nat (p + 1 - i)) with 0%nat by lia. cbn [skipn]. apply above_all.
    pose proof (indexed_bounds _ _ H) as Hb. eapply Forall_impl; [|exact Hb]. cbn beta. intros a Ha. lia.
  - cbn [indexed] in H. destruct H as [Hx Hl]. unfold above in *. cbn [filter]. rewrite Hx.
    destruct (p <? i) eqn:E; [lia|]. rewrite (IH (i + 1) p Hl) by lia.
    replace (N.to_nat (p + 1 - i)) with (S (N.to_nat (p + 1 - (i + 1)))) by lia. reflexivity.
Qed.

Lemma truncate_below (l : list lrec) first k :
  indexed first l -> first <= k ->
  a_truncate (mkAlog first (map ent_of l)) k = mkAlog first (map ent_of (below k l)).
Proof.
  intros Hi Hk. unfold a_truncate, a_end, a_len. cbn [a_first a_ents]. rewrite map_length.
  rewrite (below_indexed l first k Hi Hk).
  destruct (first + N.of_nat (length l) <=? k) eqn:E.
  - rewrite firstn_all2 by lia. reflexivity.
  - rewrite firstn_map. reflexivity.
Qed.

Lemma get_between (l : list lrec) first lo hi :
  indexed first l -> map to_ent (between lo hi l) = a_get (mkAlog first (map ent_of l)) lo hi.
Proof.
  intros Hi. unfold a_get, a_end, a_len. cbv zeta. cbn [a_first a_ents]. rewrite map_length.
  rewrite (between_indexed l first lo hi Hi). fold (nlen l).
  destruct (N.min hi (first + nlen l) <=? N.max lo first) eqn:E.
  - replace (N.to_nat (N.min hi (first + nlen l) - N.max lo first)) with 0%nat by lia. reflexivity.
  - rewrite skipn_map, firstn_map. apply indexed_map_number. apply indexed_firstn.
    pose proof (indexed_skipn first (N.to_nat (N.max lo first - first)) l Hi) as Hs.
    rewrite Nat.min_l in Hs by (unfold nlen in *; lia).
    replace (first + N.of_nat (N.to_nat (N.max lo first - first))) with (N.max lo first) in Hs by lia. exact Hs.
Qed.

(** * single steps *)
Section Steps.
  Variable m : mgr.
  Variable st : mstate.
  Hypothesis HR : MRep m st.

  Lemma step_append x : rec_in x ->
    let '(m', out) := mstep m (OAppend x) in exists st', mspec st (OAppend x) out st' /\ MRep m' st'.
  Proof.
    intros (Hok & Hne & Hb). destruct HR as (fs & R & Hfl & Hp & Hlog). cbn [mstep].
    destruct (mgr_write_rep m fs x R Hok Hne Hb) as (m' & fs' & r & Hw & R' & Hl' & Hp' & Hpost & Hflo).
    rewrite Hw. destruct (ms_log st) as [a|] eqn:El.
    - destruct Hlog as [Hfirst Hents]. destruct (rep_indexed m fs _ R Hfirst) as [Hidx Hend].
      rewrite Hend in Hpost.
      assert (Haend : a_end a = a_first a + nlen (files_vis fs)).
      { unfold a_end, a_len. rewrite Hents, map_length. reflexivity. }
      destruct r; cbn [write_post wres_ack] in *.
      + destruct Hpost as (Hi & Hv & Hf). eexists. cbn [mspec]. rewrite El. split; [split; [lia|reflexivity]|].
        exists fs'. cbn [ms_log ms_floor ms_pend]. split; [exact R'|]. split; [apply Hflo; exact Hfl|]. split; [congruence|].
        cbn [ms_log log_app alog_app a_first a_ents]. split; [congruence|]. rewrite Hv, map_app, Hents. reflexivity.
      + destruct Hpost as (Hi & Hv & Hf). exists st. cbn [mspec]. split; [split; [exists a; split; [exact El|lia]|reflexivity]|].
        exists fs'. cbn [ms_log ms_floor ms_pend]. split; [exact R'|]. split; [apply Hflo; exact Hfl|]. split; [congruence|].
        rewrite El. split; [congruence|]. rewrite Hv. exact Hents.
      + contradiction.
    - subst fs. cbn [files_end last_opt rev] in Hpost. destruct Hpost as (-> & Hv & Hf). cbn [wres_ack].
      eexists. cbn [mspec]. rewrite El. split; [split; [exact I|reflexivity]|].
      exists fs'. cbn [ms_log ms_floor ms_pend]. split; [exact R'|]. split; [apply Hflo; exact Hfl|]. split; [congruence|].
      cbn [ms_log log_app a_first a_ents map]. split; [exact Hf|]. rewrite Hv. reflexivity.
  Qed.

  Lemma step_truncate k :
    k < U64MAX -> ms_floor st <= k -> match ms_log st with Some a => a_first a <= k | None => True end ->
    let '(m', out) := mstep m (OTruncate k) in exists st', mspec st (OTruncate k) out st' /\ MRep m' st'.
  Proof.
    intros Hk Hflk Hak. destruct HR as (fs & R & Hfl & Hp & Hlog). cbn [mstep mspec].
    eexists. split; [reflexivity|]. destruct (ms_log st) as [a|] eqn:El.
    - destruct Hlog as [Hfirst Hents]. destruct (rep_indexed m fs _ R Hfirst) as [Hidx Hend].
      destruct (floor_ok_cut fs _ k _ (rp_files m fs R) Hfl Hfirst Hak Hflk Hk) as [Hc Hh].
      destruct (mgr_strip_rep_floor m fs k R Hc Hh) as (fs' & R' & Hl' & Hp' & Hv & Hf & _ & Hflo).
      exists fs'. cbn [ms_log ms_floor ms_pend]. split; [exact R'|]. split; [apply Hflo; exact Hfl|]. split; [cbn [ms_pend]; congruence|].
      cbn [ms_log]. assert (Ha : a = mkAlog (a_first a) (map ent_of (files_vis fs))) by (destruct a; cbn in *; congruence).
      rewrite Ha at 1 2. rewrite (truncate_below _ _ k Hidx Hak). cbn [a_first a_ents]. rewrite Hv. split; [congruence|reflexivity].
    - subst fs. assert (Hm : mgr_strip m k = m).
      { unfold mgr_strip. rewrite (rp_logs m [] R). reflexivity. }
      rewrite Hm. exists []. cbn [ms_log ms_floor ms_pend]. auto.
  Qed.

  Lemma step_query lo hi : lo < U64MAX ->
    let '(m', out) := mstep m (OQuery lo hi) in exists st', mspec st (OQuery lo hi) out st' /\ MRep m' st'.
  Proof.
    intros Hlo. destruct HR as (fs & R & Hfl & Hp & Hlog). cbn [mstep].
    destruct (mgr_query_rep_floor m fs lo hi R Hlo) as (fs' & R' & Hl' & Hp' & Hv & Hf & He & Hres & Hflo).
    destruct (mgr_query m lo hi) as [m' l]. cbn [fst snd] in *. exists st. cbn [mspec]. split.
    - split; [|reflexivity]. subst l. destruct (ms_log st) as [a|] eqn:El.
      + destruct Hlog as [Hfirst Hents]. destruct (rep_indexed m fs _ R Hfirst) as [Hidx _].
        assert (Ha : a = mkAlog (a_first a) (map ent_of (files_vis fs))) by (destruct a; cbn in *; congruence).
        rewrite Ha at 1. apply get_between. exact Hidx.
      + subst fs. reflexivity.
    - exists fs'. cbn [ms_log ms_floor ms_pend]. split; [exact R'|]. split; [apply Hflo; exact Hfl|]. split; [congruence|].
      destruct (ms_log st) as [a|].
      + destruct Hlog as [Hfirst Hents]. split; congruence.
      + subst fs. destruct fs'; [reflexivity|]. cbn [files_first] in Hf. discriminate.
  Qed.

  Lemma step_last :
    let '(m', out) := mstep m OLast in exists st', mspec st OLast out st' /\ MRep m' st'.
  Proof.
    destruct HR as (fs & R & Hfl & Hp & Hlog). cbn [mstep]. exists st. cbn [mspec]. split; [|exact HR].
    split; [|reflexivity]. destruct (ms_log st) as [a|] eqn:El.
    - destruct Hlog as [Hfirst Hents]. destruct (rep_indexed m fs _ R Hfirst) as [_ Hend].
      rewrite (mgr_last_index m fs _ R Hend).
      assert (Haend : a_end a = a_first a + nlen (files_vis fs)).
      { unfold a_end, a_len. rewrite Hents, map_length. reflexivity. }
      rewrite Haend. reflexivity.
    - subst fs. unfold mgr_last, cur_actor. rewrite (rp_cur m [] R). reflexivity.
  Qed.

  Lemma step_reopen :
    let '(m', out) := mstep m OReopen in exists st', mspec st OReopen out st' /\ MRep m' st'.
  Proof.
    destruct HR as (fs & R & Hfl & Hp & Hlog). cbn [mstep mspec]. eexists. split; [reflexivity|].
    destruct (mgr_reopen_rep m fs R) as (R' & Hl' & Hp' & Hv & Hf & He).
    exists (map reopen_f fs). cbn [ms_log ms_floor ms_pend]. split; [exact R'|].
    split; [apply floor_ok_reopen; [apply (rp_files m fs R)|exact Hfl]|]. split; [exact Hp'|].
    cbn [ms_log]. destruct (ms_log st) as [a|].
    - destruct Hlog as [Hfirst Hents]. split; congruence.
    - subst fs. reflexivity.
  Qed.
  Lemma indexed_from_some a (l : list lrec) : indexed (a_end a) l -> indexed_from (Some a) l.
  Proof. destruct l; [intros; exact I|intros H; exact H]. Qed.

  Lemma a_end_app a (l : list lrec) : a_end (alog_app a l) = a_end a + nlen l.
  Proof. unfold a_end, a_len, alog_app. cbn [a_first a_ents]. rewrite app_length, map_length. unfold nlen. lia. Qed.

  Lemma step_batch xs : Forall rec_in xs ->
    let '(m', out) := mstep m (OBatch xs) in exists st', mspec st (OBatch xs) out st' /\ MRep m' st'.
  Proof.
    intros Hin. destruct HR as (fs & R & Hfl & Hp & Hlog). cbn [mstep].
    assert (Hok : Forall rec_ok xs) by (eapply Forall_impl; [|exact Hin]; intros x H; apply H).
    assert (Hne : Forall rec_nonempty xs) by (eapply Forall_impl; [|exact Hin]; intros x H; apply H).
    assert (Hb : Forall (fun x => r_index x + 1 < U64MAX) xs) by (eapply Forall_impl; [|exact Hin]; intros x H; apply H).
    destruct (mgr_write_batch_rep m fs xs R Hok Hne Hb) as (m' & fs' & r & Hw & R' & Hl' & Hp' & Hpost & Hflo).
    rewrite Hw. destruct xs as [|x0 xs0].
    - destruct Hpost as [-> ->]. cbn [wres_ack]. eexists. cbn [mspec]. split; [split; [destruct (ms_log st); exact I|reflexivity]|].
      exists fs. cbn [ms_log ms_floor ms_pend]. split; [exact R'|]. split; [exact Hfl|]. split; [congruence|].
      destruct (ms_log st) as [a|]; cbn [log_app]; [|exact Hlog].
      cbn [alog_app a_first a_ents map]. rewrite app_nil_r. exact Hlog.
    - set (xs := x0 :: xs0) in *. destruct (ms_log st) as [a|] eqn:El.
      + destruct Hlog as [Hfirst Hents]. destruct (rep_indexed m fs _ R Hfirst) as [Hidx Hend].
        rewrite Hend in Hpost.
        assert (Haend : a_end a = a_first a + nlen (files_vis fs)).
        { unfold a_end, a_len. rewrite Hents, map_length. reflexivity. }
        rewrite <- Haend in Hpost.
        destruct r; cbn [batch_post wres_ack] in *.
        * destruct Hpost as (Hi & Hv & Hf). eexists. cbn [mspec]. rewrite El.
          split; [split; [apply indexed_from_some; exact Hi|reflexivity]|].
          exists fs'. cbn [ms_log ms_floor ms_pend]. split; [exact R'|]. split; [apply Hflo; exact Hfl|]. split; [congruence|].
          cbn [log_app alog_app a_first a_ents]. split; [congruence|]. rewrite Hv, map_app, Hents. reflexivity.
        * destruct Hpost as (n & Hn & Hi & Hnth & Hv & Hf). eexists. cbn [mspec]. rewrite El. split.
          -- exists n. split; [exact Hn|]. split; [apply indexed_from_some; exact Hi|]. split; [|reflexivity].
             cbn [log_app log_end]. rewrite a_end_app. unfold nlen. rewrite firstn_length.
             replace (Nat.min n (length xs)) with n by lia. exact Hnth.
          -- exists fs'. cbn [ms_log ms_floor ms_pend]. split; [exact R'|]. split; [apply Hflo; exact Hfl|]. split; [congruence|].
             cbn [log_app alog_app a_first a_ents]. split; [congruence|]. rewrite Hv, map_app, Hents. reflexivity.
        * contradiction.
      + subst fs. cbn [files_end last_opt rev] in Hpost.
        destruct r; cbn [wres_ack] in *.
        * destruct Hpost as (Hi & Hv & Hf). eexists. cbn [mspec]. rewrite El. split; [split; [exact Hi|reflexivity]|].
          exists fs'. cbn [ms_log ms_floor ms_pend]. split; [exact R'|]. split; [apply Hflo; exact Hfl|]. split; [congruence|].
          cbn [log_app a_first a_ents]. split; [exact Hf|]. rewrite Hv. reflexivity.
        * destruct Hpost as (n & Hn & Hi & Hnth & Hv & Hf).
          destruct n as [|n']; [subst xs; cbn [nth] in Hnth; lia|].
          eexists. cbn [mspec]. rewrite El. split.
          -- exists (S n'). split; [exact Hn|]. subst xs. cbn [firstn] in *. split; [exact Hi|]. split; [|reflexivity].
             cbn [log_app log_end]. unfold a_end, a_len. cbn [a_first a_ents]. rewrite map_length. cbn [length].
             rewrite firstn_length. cbn [length] in Hn. replace (Nat.min n' (length xs0)) with n' by lia. exact Hnth.
          -- exists fs'. cbn [ms_log ms_floor ms_pend]. split; [exact R'|]. split; [apply Hflo; exact Hfl|]. split; [congruence|].
             subst xs. cbn [firstn log_app a_first a_ents] in *. split; [exact Hf|]. rewrite Hv. reflexivity.
        * contradiction.
  Qed.
  (** pointer steps *)
  Lemma compact_ents a (vis0 : list lrec) ptr :
    indexed (a_first a) vis0 -> a_ents a = map ent_of vis0 -> a_first a <= r_index ptr + 1 ->
    a_ents (a_compact a ptr) = map ent_of (ptr :: above (r_index ptr) vis0).
  Proof.
    intros Hi He Hle. unfold a_compact. cbn [a_ents map]. f_equal.
    rewrite (above_indexed vis0 (a_first a) (r_index ptr) Hi Hle), He, skipn_map. reflexivity.
  Qed.

  Lemma save_pointer_step (m0 : mgr) ptr pend :
    MRep m0 (mkMst (ms_log st) (ms_floor st) pend) ->
    match ms_log st with Some a => ptr_in a (ms_floor st) ptr | None => rec_in ptr end ->
    MRep (mgr_save_pointer m0 ptr) (install_ptr st ptr pend).
  Proof.
    intros (fs & R & Hfl & Hp & Hlog) Hok. cbn [ms_log ms_floor ms_pend] in *.
    unfold install_ptr. destruct (ms_log st) as [a|] eqn:El.
    - destruct Hlog as [Hfirst Hents]. destruct (rep_indexed m0 fs _ R Hfirst) as [Hidx Hend].
      destruct Hok as (Hrok & Hrne & Hrange & Hflp).
      assert (Haend : a_end a = a_first a + nlen (files_vis fs)).
      { unfold a_end, a_len. rewrite Hents, map_length. reflexivity. }
      assert (Hpok : ptr_ok fs ptr).
      { split; [exact Hrok|]. split; [exact Hrne|]. exists (a_first a), (a_end a).
        split; [exact Hfirst|]. split; [rewrite Haend; exact Hend|exact Hrange]. }
      destruct (mgr_save_pointer_rep_floor m0 fs ptr R Hpok (floor_ptr_head_ok _ fs ptr Hfl Hflp))
        as (fs' & R' & Hl' & Hp' & Hv & Hf & He & Hflo).
      exists fs'. cbn [ms_log ms_floor ms_pend]. split; [exact R'|]. split; [apply Hflo; exact Hfl|].
      split; [congruence|]. split; [exact Hf|]. rewrite Hv. apply compact_ents; [exact Hidx|exact Hents|lia].
    - subst fs. destruct Hok as (Hrok & Hrne & Hb).
      destruct (mgr_save_pointer_empty_floor m0 ptr R Hrok Hrne Hb) as (fs' & R' & Hl' & Hp' & Hv & Hf & He & Hfl0).
      exists fs'. cbn [ms_log ms_floor ms_pend]. split; [exact R'|].
      split; [apply (floor_ok_mono 0); [lia|exact Hfl0]|]. split; [congruence|].
      cbn [a_first a_ents]. split; [exact Hf|]. rewrite Hv. reflexivity.
  Qed.

  Lemma MRep_eta : MRep m (mkMst (ms_log st) (ms_floor st) (ms_pend st)).
  Proof. rewrite <- mst_eta. exact HR. Qed.

  Lemma step_pointer ptr :
    match ms_log st with Some a => ptr_in a (ms_floor st) ptr | None => rec_in ptr end ->
    let '(m', out) := mstep m (OPointer ptr) in exists st', mspec st (OPointer ptr) out st' /\ MRep m' st'.
  Proof.
    intros Hok. cbn [mstep mspec]. eexists. split; [reflexivity|].
    apply save_pointer_step; [exact MRep_eta|exact Hok].
  Qed.

  Lemma step_install_all ptr : rec_in ptr ->
    let '(m', out) := mstep m (OInstallAll ptr) in exists st', mspec st (OInstallAll ptr) out st' /\ MRep m' st'.
  Proof.
    intros (Hrok & Hrne & Hb). destruct HR as (fs & R & Hfl & Hp & Hlog). cbn [mstep mspec].
    eexists. split; [reflexivity|].
    destruct (mgr_split_all_rep m fs R) as (R1 & Hl1 & Hp1).
    destruct (mgr_save_pointer_empty_floor _ ptr R1 Hrok Hrne Hb) as (fs' & R' & Hl' & Hp' & Hv & Hf & He & Hfl0).
    exists fs'. cbn [ms_log ms_floor ms_pend]. split; [exact R'|].
    split; [apply (floor_ok_mono 0); [lia|exact Hfl0]|]. split; [congruence|].
    cbn [a_first a_ents]. split; [exact Hf|]. rewrite Hv. reflexivity.
  Qed.

  Lemma step_build ptr :
    match ms_pend st, ms_log st with
    | Some prev, Some a => ptr_in a (ms_floor st) prev
    | Some prev, None => rec_in prev
    | None, _ => True
    end ->
    let '(m', out) := mstep m (OBuild ptr) in exists st', mspec st (OBuild ptr) out st' /\ MRep m' st'.
  Proof.
    intros Hok. cbn [mstep mspec]. eexists. split; [reflexivity|].
    destruct HR as (fs & R & Hfl & Hp & Hlog).
    destruct (ms_pend st) as [prev|] eqn:Epend.
    - (* the remembered pointer is installed, the new one remembered *)
      unfold mgr_build_pointer. rewrite Hp.
      apply (save_pointer_step _ prev (Some ptr)).
      + exists fs. cbn [ms_log ms_floor ms_pend m_pre_ptr]. split; [apply rep_set_pre; exact R|].
        split; [exact Hfl|]. split; [reflexivity|exact Hlog].
      + destruct (ms_log st); exact Hok.
    - destruct (mgr_build_pointer_none m fs ptr R Hp) as (R' & Hp' & Hl').
      exists fs. cbn [ms_log ms_floor ms_pend]. split; [exact R'|]. split; [exact Hfl|]. split; [exact Hp'|exact Hlog].
  Qed.
End Steps.

(** * the simulation *)
Theorem mstep_refines m st op :
  MRep m st -> mop_ok st op ->
  let '(m', out) := mstep m op in exists st', mspec st op out st' /\ MRep m' st'.
Proof.
  intros HR Hok. destruct op; cbn [mop_ok] in Hok.
  - apply step_append; assumption.
  - apply step_batch; assumption.
  - destruct Hok as (H1 & H2 & H3). apply step_truncate; assumption.
  - apply step_query; assumption.
  - apply step_last; assumption.
  - apply step_pointer; assumption.
  - apply step_install_all; assumption.
  - apply step_build; assumption.
  - apply step_reopen; assumption.
Qed.

(** histories: the abstract states are threaded through the specification relation *)
Fixpoint mspecs (st : mstate) (ops : list mop) (outs : list mout) (st' : mstate) : Prop :=
  match ops, outs with
  | [], [] => st' = st
  | op :: ops', o :: outs' => exists st1, mspec st op o st1 /\ mspecs st1 ops' outs' st'
  | _, _ => False
  end.

(** inputs in scope along a history (scope depends on the abstract state reached so far) *)
Fixpoint mops_ok (st : mstate) (ops : list mop) (outs : list mout) : Prop :=
  match ops, outs with
  | op :: ops', o :: outs' =>
      mop_ok st op /\ forall st1, mspec st op o st1 -> mops_ok st1 ops' outs'
  | _, _ => True
  end.

Theorem mgr_refines_alog : forall ops m st,
  MRep m st ->
  let '(m', outs) := mrun m ops in
  mops_ok st ops outs -> exists st', mspecs st ops outs st' /\ MRep m' st'.
Proof.
  induction ops as [|op ops IH]; intros m st HR; cbn [mrun].
  - intros _. exists st. split; [reflexivity|exact HR].
  - destruct (mstep m op) as [m1 o] eqn:E1.
    specialize (IH m1).
    destruct (mrun m1 ops) as [m2 os] eqn:E2.
    cbn [mops_ok]. intros [Hok Hrest].
    pose proof (mstep_refines m st op HR Hok) as Hs. rewrite E1 in Hs.
    destruct Hs as (st1 & Hsp & HR1).
    specialize (IH st1 HR1).
    destruct (IH (Hrest st1 Hsp)) as (st' & Hss & HR').
    exists st'. split; [|exact HR']. cbn [mspecs]. exists st1. split; assumption.
Qed.

(** the empty manager represents "nothing written yet" *)
Lemma MRep_init limit : HDR_LEN + 10 < limit <= 4096 -> MRep (mgr_init limit) (mkMst None 0 None).
Proof.
  intros Hl. exists []. split.
  - constructor; cbn; auto. split; exact I.
  - split; [split; [constructor|exact I]|]. split; reflexivity.
Qed.

(** * corollaries for Props *)
(** C02: after ANY history, stop + start + query returns exactly the abstract log (acknowledged and
    not removed entries) in the interval - whatever the number of files *)
Theorem reopen_returns_exactly_acked_multi_file : forall ops m st lo hi,
  MRep m st -> lo < U64MAX ->
  let '(m1, outs) := mrun m ops in
  mops_ok st ops outs ->
  exists st1, mspecs st ops outs st1 /\
    let '(m2, o2) := mstep m1 OReopen in
    let '(m3, o3) := mstep m2 (OQuery lo hi) in
    o2 = MDone /\ exists l, o3 = MRecs l /\
      map to_ent l = match ms_log st1 with Some a => a_get a lo hi | None => [] end.
Proof.
  intros ops m st lo hi HR Hlo.
  pose proof (mgr_refines_alog ops m st HR) as H.
  destruct (mrun m ops) as [m1 outs]. intros Hok. destruct (H Hok) as (st1 & Hss & HR1).
  exists st1. split; [exact Hss|].
  pose proof (mstep_refines m1 st1 OReopen HR1 I) as H2.
  destruct (mstep m1 OReopen) as [m2 o2]. destruct H2 as (st2 & Hs2 & HR2).
  destruct o2; cbn [mspec] in Hs2; try contradiction. subst st2.
  pose proof (mstep_refines m2 _ (OQuery lo hi) HR2 Hlo) as H3.
  destruct (mstep m2 (OQuery lo hi)) as [m3 o3]. destruct H3 as (st3 & Hs3 & HR3).
  destruct o3; cbn [mspec] in Hs3; try contradiction. destruct Hs3 as [Hq _]. cbn [ms_log] in Hq.
  split; [reflexivity|]. exists l. split; [reflexivity|exact Hq].
Qed.

(** C03: delete-from k leaves exactly the abstract prefix below k, across files *)
Theorem truncate_exact_multi_file : forall m st k,
  MRep m st -> mop_ok st (OTruncate k) ->
  let '(m', out) := mstep m (OTruncate k) in
  out = MAck true /\
  MRep m' (mkMst (match ms_log st with Some a => Some (a_truncate a k) | None => None end)
                 (ms_floor st) (ms_pend st)).
Proof.
  intros m st k HR Hok. pose proof (mstep_refines m st (OTruncate k) HR Hok) as H.
  cbn [mstep] in *. destruct H as (st' & Hs & HR'). cbn [mspec] in Hs. subst st'. split; [reflexivity|exact HR'].
Qed.

(** C03: after delete-from k (k inside the log) the append at k is acknowledged *)
Theorem append_after_truncate_accepted_multi_file : forall m st a k x,
  MRep m st -> ms_log st = Some a -> mop_ok st (OTruncate k) -> k < a_end a ->
  rec_in x -> r_index x = k ->
  let '(m1, _) := mstep m (OTruncate k) in
  let '(m2, o2) := mstep m1 (OAppend x) in
  o2 = MAck true.
Proof.
  intros m st a k x HR Ha Hok Hk Hx Hidx.
  pose proof (truncate_exact_multi_file m st k HR Hok) as H.
  change (mstep m (OTruncate k)) with (mgr_strip m k, MAck true) in *. cbv beta iota in *.
  destruct H as [_ HR1]. rewrite Ha in HR1.
  pose proof (mstep_refines _ _ (OAppend x) HR1 Hx) as H2.
  destruct (mstep (mgr_strip m k) (OAppend x)) as [m2 o2]. destruct H2 as (st2 & Hs2 & _).
  destruct o2; cbn [mspec ms_log] in Hs2; try contradiction.
  destruct ok; [reflexivity|]. exfalso. destruct Hs2 as [(a' & Ha' & Hne) _]. inversion Ha'; subst a'.
  apply Hne. rewrite Hidx. cbn [mop_ok] in Hok. rewrite Ha in Hok. destruct Hok as (_ & _ & Hfk).
  unfold a_truncate. destruct (a_end a <=? k) eqn:E; [lia|].
  unfold a_end, a_len. cbn [a_first a_ents]. rewrite firstn_length.
  unfold a_end, a_len in Hk. lia.
Qed.

(** C02: a query returns exactly the abstract log's entries in the interval *)
Theorem manager_query : forall m st lo hi,
  MRep m st -> lo < U64MAX ->
  let '(m', out) := mstep m (OQuery lo hi) in
  MRep m' st /\ exists l, out = MRecs l /\
    map to_ent l = match ms_log st with Some a => a_get a lo hi | None => [] end.
Proof.
  intros m st lo hi HR Hlo. pose proof (mstep_refines m st (OQuery lo hi) HR Hlo) as H.
  destruct (mstep m (OQuery lo hi)) as [m' out]. destruct H as (st' & Hs & HR').
  destruct out; cbn [mspec] in Hs; try contradiction. destruct Hs as [Hq ->].
  split; [exact HR'|]. exists l. auto.
Qed.
