(** The LogRecord encoding (quick-protobuf, fields index/term/value, defaults omitted) is
    injective and decodes back to the record; size facts used by the log-file proofs. *)
From RN Require Import Base.Res Codec.Varint Codec.VarintBits Codec.VarintProofs RaftLog.LogFile RaftLog.Layout.
From Coq Require Import ZifyBool ZifyNat ZifyN.
Local Open Scope N_scope.
Ltac Zify.zify_post_hook ::= Z.div_mod_to_equations.

(** [rec_ok] and [rec_nonempty] are defined in RaftLog/Layout.v *)

(** the hypotheses are satisfiable by a non-trivial record *)
Example rec_ok_example : rec_ok (mkRec 300 7 [1; 2; 255]) /\ rec_nonempty (mkRec 300 7 [1; 2; 255]).
Proof.
  split.
  - unfold rec_ok. cbn [r_index r_term r_value length].
    repeat split; try (vm_compute; reflexivity).
    repeat constructor; vm_compute; reflexivity.
  - left. cbn [r_index]. discriminate.
Qed.

(** * varint helpers *)
Lemma pow62 : 2 ^ 62 = 4611686018427387904. Proof. reflexivity. Qed.
Lemma pow63 : 2 ^ 63 = 9223372036854775808. Proof. reflexivity. Qed.
Lemma pow64 : 2 ^ 64 = 18446744073709551616. Proof. reflexivity. Qed.

Lemma write_varint_fuel_length f v :
  (1 <= length (write_varint_fuel f v) <= S f)%nat.
Proof.
  revert v. induction f as [|f IH]; intros v; cbn [write_varint_fuel].
  - cbn [length]. lia.
  - destruct (127 <? v) eqn:E.
    + cbn [length]. specialize (IH (N.shiftr v 7)). lia.
    + cbn [length]. lia.
Qed.

Lemma write_varint_length v : (1 <= length (write_varint v) <= 10)%nat.
Proof. unfold write_varint. apply write_varint_fuel_length. Qed.

Lemma rd_write v rest :
  v < 2 ^ 64 -> all_bytes rest -> rd (write_varint v ++ rest) = Ok v.
Proof. intros Hv Hr. unfold rd. rewrite varint_roundtrip_list by assumption. reflexivity. Qed.

Lemma skipn_write v rest :
  v < 2 ^ 64 -> skipn (sizeof_varint v) (write_varint v ++ rest) = rest.
Proof.
  intros Hv. rewrite <- (varint_sizeof v Hv).
  rewrite skipn_app, skipn_all, Nat.sub_diag. reflexivity.
Qed.

Lemma tag8 : write_varint 8 = [8]. Proof. vm_compute. reflexivity. Qed.
Lemma tag16 : write_varint 16 = [16]. Proof. vm_compute. reflexivity. Qed.
Lemma tag42 : write_varint 42 = [42]. Proof. vm_compute. reflexivity. Qed.

Lemma rd_tag t xs :
  write_varint t = [t] -> t < 2 ^ 64 -> all_bytes xs ->
  rd (t :: xs) = Ok t /\ skipn (sizeof_varint t) (t :: xs) = xs.
Proof.
  intros Ht Hlt Hxs.
  change (t :: xs) with ([t] ++ xs). rewrite <- Ht.
  split; [apply rd_write; assumption|apply skipn_write; assumption].
Qed.

(** * one decoding step per field *)
Lemma dec_step_index f v rest acc :
  v < 2 ^ 64 -> all_bytes rest ->
  dec_fields (S f) (8 :: write_varint v ++ rest) acc
  = dec_fields f rest (mkRec v (r_term acc) (r_value acc)).
Proof.
  intros Hv Hr.
  assert (Hxs : all_bytes (write_varint v ++ rest))
    by (apply Forall_app; split; [apply write_varint_all_bytes|exact Hr]).
  destruct (rd_tag 8 _ tag8 ltac:(rewrite pow64; lia) Hxs) as [H1 H2].
  cbn [dec_fields]. rewrite H1. cbn [res_bind]. rewrite H2.
  change (8 =? 8) with true. cbv iota.
  rewrite rd_write by assumption. cbn [res_bind].
  rewrite skipn_write by assumption. reflexivity.
Qed.

Lemma dec_step_term f v rest acc :
  v < 2 ^ 64 -> all_bytes rest ->
  dec_fields (S f) (16 :: write_varint v ++ rest) acc
  = dec_fields f rest (mkRec (r_index acc) v (r_value acc)).
Proof.
  intros Hv Hr.
  assert (Hxs : all_bytes (write_varint v ++ rest))
    by (apply Forall_app; split; [apply write_varint_all_bytes|exact Hr]).
  destruct (rd_tag 16 _ tag16 ltac:(rewrite pow64; lia) Hxs) as [H1 H2].
  cbn [dec_fields]. rewrite H1. cbn [res_bind]. rewrite H2.
  change (16 =? 8) with false. change (16 =? 16) with true. cbv iota.
  rewrite rd_write by assumption. cbn [res_bind].
  rewrite skipn_write by assumption. reflexivity.
Qed.

Lemma dec_step_value f b rest acc :
  N.of_nat (length b) < 2 ^ 64 -> all_bytes b -> all_bytes rest ->
  dec_fields (S f) (42 :: write_varint (N.of_nat (length b)) ++ b ++ rest) acc
  = dec_fields f rest (mkRec (r_index acc) (r_term acc) b).
Proof.
  intros Hv Hb Hr.
  assert (Hbr : all_bytes (b ++ rest)) by (apply Forall_app; split; assumption).
  assert (Hxs : all_bytes (write_varint (N.of_nat (length b)) ++ b ++ rest))
    by (apply Forall_app; split; [apply write_varint_all_bytes|exact Hbr]).
  destruct (rd_tag 42 _ tag42 ltac:(rewrite pow64; lia) Hxs) as [H1 H2].
  cbn [dec_fields]. rewrite H1. cbn [res_bind]. rewrite H2.
  change (42 =? 8) with false. change (42 =? 16) with false. change (42 =? 42) with true.
  cbv iota.
  rewrite rd_write by assumption. cbn [res_bind].
  rewrite skipn_write by assumption.
  destruct (N.of_nat (length (b ++ rest)) <? N.of_nat (length b)) eqn:E.
  - rewrite app_length in E. lia.
  - rewrite Nnat.Nat2N.id.
    rewrite skipn_app, skipn_all, Nat.sub_diag. cbn [skipn app].
    rewrite firstn_app, firstn_all, Nat.sub_diag. cbn [firstn]. rewrite app_nil_r.
    reflexivity.
Qed.

(** * bytes and sizes of a body *)
Lemma rec_body_all_bytes : forall r, rec_ok r -> all_bytes (rec_body r).
Proof.
  intros [i t v] (Hi & Ht & Hv & Hl). cbn [r_index r_term r_value] in *.
  unfold rec_body, enc_uint, enc_bytes. cbn [r_index r_term r_value].
  apply Forall_app. split; [|apply Forall_app; split].
  - destruct (i =? 0) eqn:E; [constructor|].
    constructor; [unfold is_byte; lia|apply write_varint_all_bytes].
  - destruct (t =? 0) eqn:E; [constructor|].
    constructor; [unfold is_byte; lia|apply write_varint_all_bytes].
  - destruct v as [|x v]; [constructor|].
    constructor; [unfold is_byte; lia|].
    apply Forall_app. split; [apply write_varint_all_bytes|exact Hv].
Qed.

Lemma enc_uint_length tag v : (length (enc_uint tag v) <= 11)%nat.
Proof.
  unfold enc_uint. destruct (v =? 0) eqn:E; cbn [length]; [lia|].
  pose proof (write_varint_length v). lia.
Qed.

Lemma enc_bytes_length tag b : (length (enc_bytes tag b) <= 11 + length b)%nat.
Proof.
  unfold enc_bytes. destruct b as [|x b]; [cbn [length]; lia|].
  cbn [length]. rewrite app_length. cbn [length].
  pose proof (write_varint_length (N.of_nat (S (length b)))). lia.
Qed.

Lemma rec_body_length_bound : forall r, rec_ok r -> N.of_nat (length (rec_body r)) < 2 ^ 63.
Proof.
  intros r (_ & _ & _ & Hl). unfold rec_body. rewrite !app_length.
  pose proof (enc_uint_length 8 (r_index r)).
  pose proof (enc_uint_length 16 (r_term r)).
  pose proof (enc_bytes_length 42 (r_value r)).
  rewrite pow62 in Hl. rewrite pow63. lia.
Qed.

Lemma rec_body_empty_iff : forall r, rec_body r = [] <-> (r_index r = 0 /\ r_term r = 0 /\ r_value r = []).
Proof.
  intros [i t v]. unfold rec_body, enc_uint, enc_bytes. cbn [r_index r_term r_value].
  split.
  - intros H. destruct (i =? 0) eqn:Ei; [|discriminate H].
    destruct (t =? 0) eqn:Et; [|discriminate H].
    destruct v as [|x v]; [|discriminate H].
    repeat split; lia.
  - intros (Hi & Ht & Hv). subst i t v. reflexivity.
Qed.

Lemma rec_body_nonempty : forall r, rec_nonempty r -> rec_body r <> [].
Proof.
  intros r Hn Hb. apply rec_body_empty_iff in Hb. destruct Hb as (Hi & Ht & Hv).
  destruct Hn as [H|[H|H]]; contradiction.
Qed.

(** number of fields the writer emits for [r] *)
Definition nfields (r : lrec) : nat :=
  Nat.add (Nat.add (if r_index r =? 0 then 0%nat else 1%nat) (if r_term r =? 0 then 0%nat else 1%nat))
          (match r_value r with [] => 0%nat | _ => 1%nat end).

Lemma nfields_le3 r : (nfields r <= 3)%nat.
Proof.
  unfold nfields. destruct (r_index r =? 0) eqn:E1; destruct (r_term r =? 0) eqn:E2;
    destruct (r_value r); lia.
Qed.

Lemma nfields_pos r : rec_nonempty r -> (1 <= nfields r)%nat.
Proof.
  unfold nfields, rec_nonempty. intros Hn.
  destruct (r_index r =? 0) eqn:E1; destruct (r_term r =? 0) eqn:E2;
    destruct (r_value r) as [|x v]; try lia.
  destruct Hn as [H|[H|H]]; [lia|lia|contradiction].
Qed.

(** every emitted field has at least two bytes *)
Lemma nfields_body_length r : (2 * nfields r <= length (rec_body r))%nat.
Proof.
  destruct r as [i t v]. unfold nfields, rec_body, enc_uint, enc_bytes.
  cbn [r_index r_term r_value]. rewrite !app_length.
  assert (Hi : le (if i =? 0 then 0%nat else 2%nat) (length (if i =? 0 then [] else 8 :: write_varint i))).
  { destruct (i =? 0) eqn:E; cbn [length]; [lia|]. pose proof (write_varint_length i). lia. }
  assert (Ht : le (if t =? 0 then 0%nat else 2%nat) (length (if t =? 0 then [] else 16 :: write_varint t))).
  { destruct (t =? 0) eqn:E; cbn [length]; [lia|]. pose proof (write_varint_length t). lia. }
  destruct v as [|x v].
  - cbn [length]. destruct (i =? 0) eqn:E1; destruct (t =? 0) eqn:E2; lia.
  - cbn [length]. rewrite app_length. cbn [length].
    pose proof (write_varint_length (N.of_nat (S (length v)))).
    destruct (i =? 0) eqn:E1; destruct (t =? 0) eqn:E2; lia.
Qed.

(** a non-empty body has at least two bytes (tag + value), hence a frame has at least three *)
Lemma rec_body_length_ge2 : forall r, rec_ok r -> rec_nonempty r -> (2 <= length (rec_body r))%nat.
Proof.
  intros r _ Hn. pose proof (nfields_pos r Hn). pose proof (nfields_body_length r). lia.
Qed.

Lemma rec_frame_length_ge3 : forall r, rec_ok r -> rec_nonempty r -> (3 <= length (rec_frame r))%nat.
Proof.
  intros r Hok Hn. unfold rec_frame, frame. rewrite app_length.
  pose proof (rec_body_length_ge2 r Hok Hn).
  pose proof (write_varint_length (N.of_nat (length (rec_body r)))). lia.
Qed.

(** * decoding a body: one unit of fuel per emitted field is enough *)
Theorem dec_fields_body_fuel : forall r, rec_ok r ->
  forall fuel, (nfields r <= fuel)%nat -> dec_fields fuel (rec_body r) (mkRec 0 0 []) = Ok r.
Proof.
  intros [i t v] (Hi & Ht & Hv & Hl) fuel Hf.
  unfold nfields in Hf. unfold rec_body, enc_uint, enc_bytes.
  cbn [r_index r_term r_value] in *.
  assert (Hl64 : N.of_nat (length v) < 2 ^ 64) by (rewrite pow62 in Hl; rewrite pow64; lia).
  assert (Hnil : all_bytes []) by constructor.
  assert (Hvb : forall x v', v = x :: v' ->
            all_bytes (42 :: write_varint (N.of_nat (length v)) ++ v)).
  { intros x v' _. constructor; [unfold is_byte; lia|].
    apply Forall_app. split; [apply write_varint_all_bytes|exact Hv]. }
  assert (Hend : forall f acc, dec_fields f [] acc = Ok acc) by (intros [|f] acc; reflexivity).
  destruct (i =? 0) eqn:Ei; destruct (t =? 0) eqn:Et; destruct v as [|x v'];
    cbn [app]; try (remember (x :: v') as v eqn:Ev; specialize (Hvb _ _ Ev)).
  - (* nothing *) rewrite Hend. f_equal. f_equal; lia.
  - (* value *)
    destruct fuel as [|f]; [lia|].
    rewrite <- (app_nil_r v) at 2. rewrite dec_step_value by assumption.
    rewrite Hend. cbn [r_index r_term]. f_equal. f_equal; lia.
  - (* term *)
    destruct fuel as [|f]; [lia|].
    rewrite dec_step_term by assumption.
    rewrite Hend. cbn [r_index r_value]. f_equal. f_equal; lia.
  - (* term, value *)
    destruct fuel as [|[|f]]; [lia|lia|].
    rewrite dec_step_term by assumption.
    rewrite <- (app_nil_r v) at 2. rewrite dec_step_value by assumption.
    rewrite Hend. cbn [r_index r_term r_value]. f_equal. f_equal; lia.
  - (* index *)
    destruct fuel as [|f]; [lia|].
    rewrite dec_step_index by assumption.
    rewrite Hend. cbn [r_term r_value]. f_equal. f_equal; lia.
  - (* index, value *)
    destruct fuel as [|[|f]]; [lia|lia|].
    rewrite dec_step_index by assumption.
    rewrite <- (app_nil_r v) at 2. rewrite dec_step_value by assumption.
    rewrite Hend. cbn [r_index r_term r_value]. f_equal. f_equal; lia.
  - (* index, term *)
    destruct fuel as [|[|f]]; [lia|lia|].
    rewrite app_nil_r.
    assert (Hrest : all_bytes (16 :: write_varint t))
      by (constructor; [unfold is_byte; lia|apply write_varint_all_bytes]).
    rewrite dec_step_index by assumption.
    rewrite <- (app_nil_r (write_varint t)). rewrite dec_step_term by assumption.
    rewrite Hend. cbn [r_index r_term r_value]. reflexivity.
  - (* index, term, value *)
    destruct fuel as [|[|[|f]]]; [lia|lia|lia|].
    assert (Hrest : all_bytes (16 :: write_varint t ++ 42 :: write_varint (N.of_nat (length v)) ++ v)).
    { constructor; [unfold is_byte; lia|].
      apply Forall_app. split; [apply write_varint_all_bytes|exact Hvb]. }
    rewrite dec_step_index by assumption.
    rewrite dec_step_term by assumption.
    rewrite <- (app_nil_r v) at 2. rewrite dec_step_value by assumption.
    rewrite Hend. cbn [r_index r_term r_value]. reflexivity.
Qed.

Theorem dec_fields_body : forall r, rec_ok r ->
  forall fuel, (3 < fuel)%nat -> dec_fields fuel (rec_body r) (mkRec 0 0 []) = Ok r.
Proof.
  intros r Hok fuel Hf. apply dec_fields_body_fuel; [exact Hok|].
  pose proof (nfields_le3 r). lia.
Qed.

Theorem dec_frame_roundtrip : forall r, rec_ok r -> dec_frame (rec_frame r) = Ok r.
Proof.
  intros r Hok. unfold dec_frame, rec_frame, frame.
  pose proof (rec_body_length_bound r Hok) as Hb.
  assert (Hb64 : N.of_nat (length (rec_body r)) < 2 ^ 64) by (rewrite pow63 in Hb; rewrite pow64; lia).
  rewrite rd_write by (auto using rec_body_all_bytes). cbn [res_bind].
  rewrite skipn_write by assumption.
  destruct (N.of_nat (length (rec_body r)) <? N.of_nat (length (rec_body r))) eqn:E; [lia|].
  rewrite Nnat.Nat2N.id, firstn_all.
  apply dec_fields_body_fuel; [exact Hok|].
  pose proof (nfields_body_length r). lia.
Qed.

Corollary rec_frame_inj : forall r1 r2, rec_ok r1 -> rec_ok r2 -> rec_frame r1 = rec_frame r2 -> r1 = r2.
Proof.
  intros r1 r2 H1 H2 E.
  pose proof (dec_frame_roundtrip r1 H1) as D1.
  pose proof (dec_frame_roundtrip r2 H2) as D2.
  rewrite E in D1. rewrite D1 in D2. injection D2. auto.
Qed.
