(** A graceful restart ([mgr_reopen]) and a query ([mgr_query]) preserve the catalogue invariant
    and leave the visible log unchanged; a query returns exactly the visible entries of the
    interval; [mgr_last] reports the index before the end of the log (and, after a restart, the
    term of the last stored record of the last file). *)
From RN Require Import Base.Res Codec.Varint Codec.BufReader
  RaftLog.LogFile RaftLog.Spec RaftLog.Layout RaftLog.FileProofs RaftLog.RecordProofs
  RaftLog.ReadProofs RaftLog.WriteProofs RaftLog.InitProofs RaftLog.StripProofs RaftLog.Refine
  RaftLog.LogManager RaftLog.ManagerProofs RaftLog.ManagerInv RaftLog.ManagerWriteProofs.
From Coq Require Import ZifyBool ZifyNat ZifyN.
Local Open Scope N_scope.
Ltac Zify.zify_post_hook ::= Z.div_mod_to_equations.

Definition reopen_f (f : mfile) : mfile := (fst f, c_reopen (snd f) (g_pre (fst f)) (g_split (fst f))).

(** * files that differ only in fields the invariant does not look at (cursors, last term) *)
Definition sim (f f' : mfile) : Prop :=
  fst f' = fst f /\ wfc (snd f') /\ c_first (snd f') = c_first (snd f) /\
  c_all (snd f') = c_all (snd f) /\ c_split (snd f') = c_split (snd f).

Lemma ro_last_opt_map {A B} (h : A -> B) (l : list A) : last_opt (map h l) = option_map h (last_opt l).
Proof. unfold last_opt. rewrite <- map_rev. destruct (rev l); reflexivity. Qed.

Lemma ro_last_opt_in {A} (l : list A) x : last_opt l = Some x -> In x l.
Proof.
  intros H. destruct (last_opt_some_snoc l x H) as (l0 & ->). apply in_or_app. right. left. reflexivity.
Qed.

Lemma sim_id f f' : sim f f' -> f_id f' = f_id f.
Proof. intros (A & _). unfold f_id. rewrite A. reflexivity. Qed.

Lemma sim_end f f' : sim f f' -> c_end (snd f') = c_end (snd f).
Proof. intros (_ & _ & B & C & _). unfold c_end. rewrite B, C. reflexivity. Qed.

Lemma sim_vis f f' : sim f f' -> vis (snd f') = vis (snd f).
Proof. intros (_ & _ & B & C & D). unfold vis. rewrite B, C, D. reflexivity. Qed.

Lemma sim_file_ok f f' : sim f f' -> file_ok f -> file_ok f'.
Proof.
  intros S Hok. pose proof (sim_end f f' S) as He. destruct S as (A & W & B & C & D).
  destruct f as [g c], f' as [g' c']. cbn [fst snd] in *. subst g'.
  destruct Hok as (_ & H1 & H2 & H3 & H4 & H5). unfold file_ok.
  split; [exact W|]. split; [congruence|]. split; [congruence|]. split; [rewrite D, He; exact H3|].
  split; [rewrite He; exact H4|]. intros Hc. rewrite C. apply H5. exact Hc.
Qed.

Lemma sim_link f1 f1' f2 f2' : sim f1 f1' -> sim f2 f2' -> link f1 f2 -> link f1' f2'.
Proof.
  intros S1 S2 (L1 & L2 & L3). unfold link.
  rewrite (sim_end _ _ S1), (sim_id _ _ S1), (sim_id _ _ S2).
  destruct S1 as (A1 & _). destruct S2 as (_ & _ & _ & _ & D2). rewrite A1, D2. auto.
Qed.

Section SimMap.
  Variable h : mfile -> mfile.

  Lemma sim_links : forall (fs : list mfile),
    Forall (fun f => sim f (h f)) fs -> links fs -> links (map h fs).
  Proof.
    induction fs as [|f1 rest IH]; intros HS HL; [exact I|].
    inversion HS as [|? ? H1 HS']; subst. cbn [links] in HL. destruct HL as [Hl Hr].
    cbn [map links]. split; [|apply IH; assumption].
    destruct rest as [|f2 rest']; [exact I|]. cbn [map].
    inversion HS' as [|? ? H2 _]; subst. eapply sim_link; eassumption.
  Qed.

  Lemma sim_chain (fs : list mfile) :
    Forall (fun f => sim f (h f)) fs -> chain fs -> chain (map h fs).
  Proof.
    intros HS [HL Ho]. split; [apply sim_links; assumption|].
    rewrite ro_last_opt_map. destruct (@last_opt mfile fs) as [f|] eqn:E; cbn [option_map]; [|exact I].
    rewrite Forall_forall in HS. destruct (HS f (ro_last_opt_in _ _ E)) as (A & _). rewrite A. exact Ho.
  Qed.

  Lemma sim_map_ids (fs : list mfile) :
    Forall (fun f => sim f (h f)) fs -> map f_id (map h fs) = map f_id fs.
  Proof.
    intros HS. rewrite map_map. apply map_ext_in. intros f Hin. rewrite Forall_forall in HS.
    apply sim_id. apply HS. exact Hin.
  Qed.

  Lemma sim_map_fst (fs : list mfile) :
    Forall (fun f => sim f (h f)) fs -> map fst (map h fs) = map fst fs.
  Proof.
    intros HS. rewrite map_map. apply map_ext_in. intros f Hin. rewrite Forall_forall in HS.
    destruct (HS f Hin) as (A & _). exact A.
  Qed.

  Lemma sim_ids_pos (fs : list mfile) :
    Forall (fun f => sim f (h f)) fs -> ids_pos fs -> ids_pos (map h fs).
  Proof.
    intros HS Hi. destruct fs as [|f rest]; [exact I|].
    inversion HS as [|? ? H1 HS']; subst. cbn [map ids_pos] in *. destruct Hi as [Hall Hh]. split.
    - apply Forall_map. rewrite Forall_forall in *. intros f' Hin.
      rewrite (sim_id _ _ (HS' f' Hin)). apply Hall. exact Hin.
    - rewrite (sim_id _ _ H1). destruct Hh as [Hh|(f2 & r & Hr & Hid)]; [left; exact Hh|right].
      subst rest. inversion HS' as [|? ? H2 _]; subst. exists (h f2), (map h r).
      split; [reflexivity|]. rewrite (sim_id _ _ H2). exact Hid.
  Qed.

  Lemma sim_files_ok (fs : list mfile) :
    Forall (fun f => sim f (h f)) fs -> Forall file_ok fs -> Forall file_ok (map h fs).
  Proof.
    intros HS Hok. apply Forall_map. rewrite Forall_forall in *. intros f Hin.
    eapply sim_file_ok; [apply HS|apply Hok]; exact Hin.
  Qed.

  Lemma sim_last_id (fs : list mfile) :
    Forall (fun f => sim f (h f)) fs -> last_id (map h fs) = last_id fs.
  Proof.
    intros HS. unfold last_id. rewrite ro_last_opt_map.
    destruct (@last_opt mfile fs) as [f|] eqn:E; cbn [option_map]; [|reflexivity].
    rewrite Forall_forall in HS. rewrite (sim_id _ _ (HS f (ro_last_opt_in _ _ E))). reflexivity.
  Qed.

  Lemma sim_files_vis (fs : list mfile) :
    Forall (fun f => sim f (h f)) fs -> files_vis (map h fs) = files_vis fs.
  Proof.
    intros HS. unfold files_vis. rewrite map_map. f_equal. apply map_ext_in. intros f Hin.
    rewrite Forall_forall in HS. apply sim_vis. apply HS. exact Hin.
  Qed.

  Lemma sim_files_first (fs : list mfile) :
    Forall (fun f => sim f (h f)) fs -> files_first (map h fs) = files_first fs.
  Proof.
    intros HS. destruct fs as [|f rest]; [reflexivity|]. inversion HS as [|? ? H1 _]; subst.
    cbn [map files_first]. destruct H1 as (_ & _ & _ & _ & D). rewrite D. reflexivity.
  Qed.

  Lemma sim_files_end (fs : list mfile) :
    Forall (fun f => sim f (h f)) fs -> files_end (map h fs) = files_end fs.
  Proof.
    intros HS. unfold files_end. rewrite ro_last_opt_map.
    destruct (@last_opt mfile fs) as [f|] eqn:E; cbn [option_map]; [|reflexivity].
    rewrite Forall_forall in HS. rewrite (sim_end _ _ (HS f (ro_last_opt_in _ _ E))). reflexivity.
  Qed.

  (** a manager whose catalogue is unchanged and whose actors are the [h]-images *)
  Lemma rep_sim m m' (fs : list mfile) :
    mgr_rep m fs -> Forall (fun f => sim f (h f)) fs ->
    m_logs m' = m_logs m -> m_saved m' = m_saved m -> m_cur m' = m_cur m -> m_limit m' = m_limit m ->
    (forall id, lookup id (m_actors m') = lookup id (amap (map h fs))) ->
    (forall id, lookup id (m_disk m') = None) ->
    mgr_rep m' (map h fs).
  Proof.
    intros R HS Hlogs Hsaved Hcur Hlim Hact Hdisk. constructor.
    - rewrite Hlogs, (rp_logs m fs R). symmetry. apply sim_map_fst. exact HS.
    - rewrite Hsaved, Hlogs. apply (rp_saved m fs R).
    - exact Hact.
    - exact Hdisk.
    - apply sim_files_ok; [exact HS|apply (rp_files m fs R)].
    - apply sim_chain; [exact HS|apply (rp_chain m fs R)].
    - apply sim_ids_pos; [exact HS|apply (rp_ids m fs R)].
    - rewrite Hcur, (rp_cur m fs R). symmetry. apply sim_last_id. exact HS.
    - rewrite Hlim. apply (rp_limit m fs R).
  Qed.
End SimMap.

Lemma ro_lookup_remove_same {A} k (l : list (N * A)) : lookup k (remove_key k l) = None.
Proof.
  induction l as [|[k0 v] l IH]; [reflexivity|]. cbn [remove_key].
  destruct (k =? k0) eqn:E; [exact IH|]. cbn [lookup]. rewrite E. exact IH.
Qed.

Lemma ro_lookup_amap_none (fs : list mfile) id : lookup id (amap fs) = None -> ~ In id (map f_id fs).
Proof.
  induction fs as [|f fs IH]; intros H; [intros []|]. cbn [amap map lookup] in H.
  destruct (id =? f_id f) eqn:E; [discriminate|]. intros [Heq|Hin]; [lia|]. exact (IH H Hin).
Qed.

(** * reopen *)
Lemma sim_reopen f : file_ok f -> sim f (reopen_f f).
Proof.
  destruct f as [g c]. intros (W & H1 & H2 & _). unfold sim, reopen_f. cbn [fst snd].
  split; [reflexivity|]. split; [apply wfc_reopen; exact W|]. split; [reflexivity|].
  split; [reflexivity|]. cbn [c_reopen c_split]. lia.
Qed.

Lemma sim_reopen_all (fs : list mfile) : Forall file_ok fs -> Forall (fun f => sim f (reopen_f f)) fs.
Proof. intros H. eapply Forall_impl; [|exact H]. intros f. apply sim_reopen. Qed.

Lemma lookup_fold_disk (actors : list (N * lim)) (d0 : list (N * lfile)) id :
  lookup id (fold_right (fun '(id, s) d => set_key id (l_file s) d) d0 actors)
  = match lookup id actors with Some s => Some (l_file s) | None => lookup id d0 end.
Proof.
  induction actors as [|[k v] l IH]; [reflexivity|]. cbn [fold_right lookup].
  rewrite lookup_set_key. destruct (id =? k); [reflexivity|exact IH].
Qed.

Lemma start_actors_spec : forall (l : list mfile) m0,
  NoDup (map f_id l) -> Forall file_ok l ->
  (forall f, In f l -> lookup (f_id f) (m_actors m0) = None /\
                       lookup (f_id f) (m_disk m0) = Some (c_file (snd f))) ->
  let m' := start_actors m0 (map fst l) in
  m_logs m' = m_logs m0 /\ m_saved m' = m_saved m0 /\ m_cur m' = m_cur m0 /\
  m_pre_ptr m' = m_pre_ptr m0 /\ m_limit m' = m_limit m0 /\
  (forall id, lookup id (m_actors m') =
     match lookup id (amap (map reopen_f l)) with Some s => Some s | None => lookup id (m_actors m0) end) /\
  (forall id, In id (map f_id l) -> lookup id (m_disk m') = None) /\
  (forall id, ~ In id (map f_id l) -> lookup id (m_disk m') = lookup id (m_disk m0)).
Proof.
  induction l as [|[g c] rest IH]; intros m0 Hnd Hok Hpre.
  - cbn [map start_actors amap lookup]. repeat split; try reflexivity. intros id [].
  - inversion Hnd as [|? ? Hnin Hnd']; subst. inversion Hok as [|? ? Hgc Hok']; subst.
    assert (Hpre' : forall f, In f rest -> lookup (f_id f) (m_actors m0) = None /\
                                          lookup (f_id f) (m_disk m0) = Some (c_file (snd f)))
      by (intros f Hin; apply Hpre; right; exact Hin).
    specialize (IH m0 Hnd' Hok' Hpre'). cbv zeta in IH |- *.
    cbn [map fst start_actors]. set (m1 := start_actors m0 (map fst rest)) in *.
    destruct IH as (I1 & I2 & I3 & I4 & I5 & Ia & Id1 & Id2).
    destruct (Hpre (g, c) (or_introl eq_refl)) as [Pa Pd]. unfold f_id in Pa, Pd, Hnin. cbn [fst snd] in Pa, Pd, Hnin.
    destruct Hgc as (W & Hfirst & _).
    assert (Hnin' : ~ In (g_id g) (map f_id (map reopen_f rest))).
    { rewrite (sim_map_ids reopen_f rest (sim_reopen_all rest Hok')). exact Hnin. }
    unfold actor_of. rewrite Ia, (lookup_amap_notin _ _ Hnin'), Pa.
    rewrite (Id2 _ Hnin), Pd, I5, <- Hfirst, (init_conc c _ _ _ W). cbn [res_bind].
    cbn [set_actor m_logs m_saved m_cur m_pre_ptr m_limit m_actors m_disk].
    split; [exact I1|]. split; [exact I2|]. split; [exact I3|]. split; [exact I4|]. split; [exact I5|].
    split; [|split].
    + intros id. rewrite lookup_set_key. cbn [map amap lookup]. unfold reopen_f at 1 2. unfold f_id at 1. cbn [fst snd].
      destruct (id =? g_id g); [reflexivity|]. apply Ia.
    + intros id Hin. destruct (N.eq_dec id (g_id g)) as [->|Hne]; [apply ro_lookup_remove_same|].
      rewrite lookup_remove_other by exact Hne. apply Id1. cbn [map] in Hin. destruct Hin as [Heq|Hin]; [|exact Hin].
      unfold f_id in Heq. cbn [fst] in Heq. congruence.
    + intros id Hin. cbn [map] in Hin. unfold f_id at 1 in Hin. cbn [fst] in Hin.
      rewrite lookup_remove_other by (intros Heq; apply Hin; left; congruence).
      apply Id2. intros H. apply Hin. right. exact H.
Qed.

Lemma ro_last_id_fst (fs : list mfile) :
  match last_opt (map fst fs) with Some g => Some (g_id g) | None => None end = last_id fs.
Proof.
  unfold last_id. rewrite ro_last_opt_map. unfold mfile in *.
  destruct (@last_opt (lrange * cst) fs); reflexivity.
Qed.

(** stop + start: the saved catalogue is loaded, every file is re-initialised from its bytes; the
    visible log is unchanged *)
Theorem mgr_reopen_rep : forall m (fs : list mfile),
  mgr_rep m fs ->
  mgr_rep (mgr_reopen m) (map reopen_f fs) /\
  m_limit (mgr_reopen m) = m_limit m /\ m_pre_ptr (mgr_reopen m) = None /\
  files_vis (map reopen_f fs) = files_vis fs /\
  files_first (map reopen_f fs) = files_first fs /\ files_end (map reopen_f fs) = files_end fs.
Proof.
  intros m fs R.
  pose proof (sim_reopen_all fs (rp_files m fs R)) as HS.
  unfold mgr_reopen. cbv zeta.
  set (disk := fold_right (fun '(id, s) d => set_key id (l_file s) d) (m_disk m) (m_actors m)).
  set (m0 := mkMgr (m_saved m) (m_saved m) [] disk None None (m_limit m)).
  assert (Hsaved : m_saved m = map fst fs) by (rewrite (rp_saved m fs R); apply (rp_logs m fs R)).
  assert (Hdisk : forall id, lookup id disk = match lookup id (m_actors m) with
                                              | Some s => Some (l_file s) | None => None end).
  { intros id. unfold disk. rewrite lookup_fold_disk, (rp_disk m fs R). reflexivity. }
  pose proof (start_actors_spec fs m0 (rep_nodup m fs R) (rp_files m fs R)) as H.
  assert (Hpre : forall f, In f fs -> lookup (f_id f) (m_actors m0) = None /\
                                      lookup (f_id f) (m_disk m0) = Some (c_file (snd f))).
  { intros f Hin. split; [reflexivity|]. cbn [m0 m_disk]. rewrite Hdisk, (rep_actor m fs f R Hin). reflexivity. }
  specialize (H Hpre). cbv zeta in H. rewrite <- Hsaved in H.
  set (m1 := start_actors m0 (m_saved m)) in *.
  destruct H as (I1 & I2 & I3 & I4 & I5 & Ia & Id1 & Id2).
  split; [|split; [exact I5|split; [exact I4|]]].
  - apply (rep_sim reopen_f m _ fs R HS); cbn [set_cur m_logs m_saved m_cur m_limit m_actors m_disk].
    + rewrite I1. cbn [m0 m_logs]. rewrite (rp_saved m fs R). reflexivity.
    + rewrite I2. reflexivity.
    + rewrite (rp_cur m fs R), Hsaved. exact (ro_last_id_fst fs).
    + exact I5.
    + intros id. rewrite Ia. cbn [m0 m_actors lookup]. destruct (lookup id (amap (map reopen_f fs))); reflexivity.
    + intros id. destruct (in_dec N.eq_dec id (map f_id fs)) as [Hin|Hnin]; [apply Id1; exact Hin|].
      rewrite (Id2 id Hnin). cbn [m0 m_disk]. rewrite Hdisk, (rp_actors m fs R), (lookup_amap_notin _ _ Hnin). reflexivity.
  - split; [apply sim_files_vis; exact HS|]. split; [apply sim_files_first; exact HS|apply sim_files_end; exact HS].
Qed.
