(** A graceful restart ([mgr_reopen]) and a query ([mgr_query]) preserve the catalogue invariant
    and leave the visible log unchanged; a query returns exactly the visible entries of the
    interval; [mgr_last] reports the index before the end of the log (and, after a restart, the
    term of the last stored record of the last file). *)
From RN Require Import Base.Res Codec.Varint Codec.BufReader
  RaftLog.LogFile RaftLog.Spec RaftLog.Layout RaftLog.FileProofs RaftLog.RecordProofs
  RaftLog.ReadProofs RaftLog.WriteProofs RaftLog.InitProofs RaftLog.StripProofs RaftLog.Refine
  RaftLog.LogManager RaftLog.ManagerProofs RaftLog.ManagerInv RaftLog.ManagerWriteProofs.
From Coq Require Import ZifyBool ZifyNat ZifyN.
Local Open Scope N_scope.
Ltac Zify.zify_post_hook ::= Z.div_mod_to_equations.

Definition reopen_f (f : mfile) : mfile := (fst f, c_reopen (snd f) (g_pre (fst f)) (g_split (fst f))).

(** * files that differ only in fields the invariant does not look at (cursors, last term) *)
Definition sim (f f' : mfile) : Prop :=
  fst f' = fst f /\ wfc (snd f') /\ c_first (snd f') = c_first (snd f) /\
  c_all (snd f') = c_all (snd f) /\ c_split (snd f') = c_split (snd f).

Lemma ro_last_opt_map {A B} (h : A -> B) (l : list A) : last_opt (map h l) = option_map h (last_opt l).
Proof. unfold last_opt. rewrite <- map_rev. destruct (rev l); reflexivity. Qed.

Lemma ro_last_opt_in {A} (l : list A) x : last_opt l = Some x -> In x l.
Proof.
  intros H. destruct (last_opt_some_snoc l x H) as (l0 & ->). apply in_or_app. right. left. reflexivity.
Qed.

Lemma sim_id f f' : sim f f' -> f_id f' = f_id f.
Proof. intros (A & _). unfold f_id. rewrite A. reflexivity. Qed.

Lemma sim_end f f' : sim f f' -> c_end (snd f') = c_end (snd f).
Proof. intros (_ & _ & B & C & _). unfold c_end. rewrite B, C. reflexivity. Qed.

Lemma sim_vis f f' : sim f f' -> vis (snd f') = vis (snd f).
Proof. intros (_ & _ & B & C & D). unfold vis. rewrite B, C, D. reflexivity. Qed.

Lemma sim_file_ok f f' : sim f f' -> file_ok f -> file_ok f'.
Proof.
  intros S Hok. pose proof (sim_end f f' S) as He. destruct S as (A & W & B & C & D).
  destruct f as [g c], f' as [g' c']. cbn [fst snd] in *. subst g'.
  destruct Hok as (_ & H1 & H2 & H3 & H4 & H5). unfold file_ok.
  split; [exact W|]. split; [congruence|]. split; [congruence|]. split; [rewrite D, He; exact H3|].
  split; [rewrite He; exact H4|]. intros Hc. rewrite C. apply H5. exact Hc.
Qed.

Lemma sim_link f1 f1' f2 f2' : sim f1 f1' -> sim f2 f2' -> link f1 f2 -> link f1' f2'.
Proof.
  intros S1 S2 (L1 & L2 & L3). unfold link.
  rewrite (sim_end _ _ S1), (sim_id _ _ S1), (sim_id _ _ S2).
  destruct S1 as (A1 & _). destruct S2 as (_ & _ & _ & _ & D2). rewrite A1, D2. auto.
Qed.

Section SimMap.
  Variable h : mfile -> mfile.

  Lemma sim_links : forall (fs : list mfile),
    Forall (fun f => sim f (h f)) fs -> links fs -> links (map h fs).
  Proof.
    induction fs as [|f1 rest IH]; intros HS HL; [exact I|].
    inversion HS as [|? ? H1 HS']; subst. cbn [links] in HL. destruct HL as [Hl Hr].
    cbn [map links]. split; [|apply IH; assumption].
    destruct rest as [|f2 rest']; [exact I|]. cbn [map].
    inversion HS' as [|? ? H2 _]; subst. eapply sim_link; eassumption.
  Qed.

  Lemma sim_chain (fs : list mfile) :
    Forall (fun f => sim f (h f)) fs -> chain fs -> chain (map h fs).
  Proof.
    intros HS [HL Ho]. split; [apply sim_links; assumption|].
    rewrite ro_last_opt_map. destruct (@last_opt mfile fs) as [f|] eqn:E; cbn [option_map]; [|exact I].
    rewrite Forall_forall in HS. destruct (HS f (ro_last_opt_in _ _ E)) as (A & _). rewrite A. exact Ho.
  Qed.

  Lemma sim_map_ids (fs : list mfile) :
    Forall (fun f => sim f (h f)) fs -> map f_id (map h fs) = map f_id fs.
  Proof.
    intros HS. rewrite map_map. apply map_ext_in. intros f Hin. rewrite Forall_forall in HS.
    apply sim_id. apply HS. exact Hin.
  Qed.

  Lemma sim_map_fst (fs : list mfile) :
    Forall (fun f => sim f (h f)) fs -> map fst (map h fs) = map fst fs.
  Proof.
    intros HS. rewrite map_map. apply map_ext_in. intros f Hin. rewrite Forall_forall in HS.
    destruct (HS f Hin) as (A & _). exact A.
  Qed.

  Lemma sim_ids_pos (fs : list mfile) :
    Forall (fun f => sim f (h f)) fs -> ids_pos fs -> ids_pos (map h fs).
  Proof.
    intros HS Hi. destruct fs as [|f rest]; [exact I|].
    inversion HS as [|? ? H1 HS']; subst. cbn [map ids_pos] in *. destruct Hi as [Hall Hh]. split.
    - apply Forall_map. rewrite Forall_forall in *. intros f' Hin.
      rewrite (sim_id _ _ (HS' f' Hin)). apply Hall. exact Hin.
    - rewrite (sim_id _ _ H1). destruct Hh as [Hh|(f2 & r & Hr & Hid)]; [left; exact Hh|right].
      subst rest. inversion HS' as [|? ? H2 _]; subst. exists (h f2), (map h r).
      split; [reflexivity|]. rewrite (sim_id _ _ H2). exact Hid.
  Qed.

  Lemma sim_files_ok (fs : list mfile) :
    Forall (fun f => sim f (h f)) fs -> Forall file_ok fs -> Forall file_ok (map h fs).
  Proof.
    intros HS Hok. apply Forall_map. rewrite Forall_forall in *. intros f Hin.
    eapply sim_file_ok; [apply HS|apply Hok]; exact Hin.
  Qed.

  Lemma sim_last_id (fs : list mfile) :
    Forall (fun f => sim f (h f)) fs -> last_id (map h fs) = last_id fs.
  Proof.
    intros HS. unfold last_id. rewrite ro_last_opt_map.
    destruct (@last_opt mfile fs) as [f|] eqn:E; cbn [option_map]; [|reflexivity].
    rewrite Forall_forall in HS. rewrite (sim_id _ _ (HS f (ro_last_opt_in _ _ E))). reflexivity.
  Qed.

  Lemma sim_files_vis (fs : list mfile) :
    Forall (fun f => sim f (h f)) fs -> files_vis (map h fs) = files_vis fs.
  Proof.
    intros HS. unfold files_vis. rewrite map_map. f_equal. apply map_ext_in. intros f Hin.
    rewrite Forall_forall in HS. apply sim_vis. apply HS. exact Hin.
  Qed.

  Lemma sim_files_first (fs : list mfile) :
    Forall (fun f => sim f (h f)) fs -> files_first (map h fs) = files_first fs.
  Proof.
    intros HS. destruct fs as [|f rest]; [reflexivity|]. inversion HS as [|? ? H1 _]; subst.
    cbn [map files_first]. destruct H1 as (_ & _ & _ & _ & D). rewrite D. reflexivity.
  Qed.

  Lemma sim_files_end (fs : list mfile) :
    Forall (fun f => sim f (h f)) fs -> files_end (map h fs) = files_end fs.
  Proof.
    intros HS. unfold files_end. rewrite ro_last_opt_map.
    destruct (@last_opt mfile fs) as [f|] eqn:E; cbn [option_map]; [|reflexivity].
    rewrite Forall_forall in HS. rewrite (sim_end _ _ (HS f (ro_last_opt_in _ _ E))). reflexivity.
  Qed.

  Lemma sim_floor_ok fl (fs : list mfile) :
    Forall (fun f => sim f (h f)) fs -> floor_ok fl fs -> floor_ok fl (map h fs).
  Proof.
    intros HS [Hfl Hhd]. split.
    - apply Forall_map. rewrite Forall_forall in *. intros f Hin.
      destruct (HS f Hin) as (_ & _ & B & _ & D). rewrite B, D. apply Hfl. exact Hin.
    - destruct fs as [|f rest]; [exact I|]. cbn [map]. inversion HS as [|? ? H1 _]; subst.
      rewrite (sim_id _ _ H1), (sim_end _ _ H1). exact Hhd.
  Qed.

  (** a manager whose catalogue is unchanged and whose actors are the [h]-images *)
  Lemma rep_sim m m' (fs : list mfile) :
    mgr_rep m fs -> Forall (fun f => sim f (h f)) fs ->
    m_logs m' = m_logs m -> m_saved m' = m_saved m -> m_cur m' = m_cur m -> m_limit m' = m_limit m ->
    (forall id, lookup id (m_actors m') = lookup id (amap (map h fs))) ->
    (forall id, lookup id (m_disk m') = None) ->
    mgr_rep m' (map h fs).
  Proof.
    intros R HS Hlogs Hsaved Hcur Hlim Hact Hdisk. constructor.
    - rewrite Hlogs, (rp_logs m fs R). symmetry. apply sim_map_fst. exact HS.
    - rewrite Hsaved, Hlogs. apply (rp_saved m fs R).
    - exact Hact.
    - exact Hdisk.
    - apply sim_files_ok; [exact HS|apply (rp_files m fs R)].
    - apply sim_chain; [exact HS|apply (rp_chain m fs R)].
    - apply sim_ids_pos; [exact HS|apply (rp_ids m fs R)].
    - rewrite Hcur, (rp_cur m fs R). symmetry. apply sim_last_id. exact HS.
    - rewrite Hlim. apply (rp_limit m fs R).
  Qed.
End SimMap.

Lemma ro_lookup_remove_same {A} k (l : list (N * A)) : lookup k (remove_key k l) = None.
Proof.
  induction l as [|[k0 v] l IH]; [reflexivity|]. cbn [remove_key].
  destruct (k =? k0) eqn:E; [exact IH|]. cbn [lookup]. rewrite E. exact IH.
Qed.

Lemma ro_lookup_amap_none (fs : list mfile) id : lookup id (amap fs) = None -> ~ In id (map f_id fs).
Proof.
  induction fs as [|f fs IH]; intros H; [intros []|]. cbn [amap map lookup] in H.
  destruct (id =? f_id f) eqn:E; [discriminate|]. intros [Heq|Hin]; [lia|]. exact (IH H Hin).
Qed.

(** * reopen *)
Lemma sim_reopen f : file_ok f -> sim f (reopen_f f).
Proof.
  destruct f as [g c]. intros (W & H1 & H2 & _). unfold sim, reopen_f. cbn [fst snd].
  split; [reflexivity|]. split; [apply wfc_reopen; exact W|]. split; [reflexivity|].
  split; [reflexivity|]. cbn [c_reopen c_split]. lia.
Qed.

Lemma sim_reopen_all (fs : list mfile) : Forall file_ok fs -> Forall (fun f => sim f (reopen_f f)) fs.
Proof. intros H. eapply Forall_impl; [|exact H]. intros f. apply sim_reopen. Qed.

Lemma floor_ok_reopen fl (fs : list mfile) :
  Forall file_ok fs -> floor_ok fl fs -> floor_ok fl (map reopen_f fs).
Proof. intros Hok. apply sim_floor_ok. apply sim_reopen_all. exact Hok. Qed.

Lemma lookup_fold_disk (actors : list (N * lim)) (d0 : list (N * lfile)) id :
  lookup id (fold_right (fun '(id, s) d => set_key id (l_file s) d) d0 actors)
  = match lookup id actors with Some s => Some (l_file s) | None => lookup id d0 end.
Proof.
  induction actors as [|[k v] l IH]; [reflexivity|]. cbn [fold_right lookup].
  rewrite lookup_set_key. destruct (id =? k); [reflexivity|exact IH].
Qed.

Lemma start_actors_spec : forall (l : list mfile) m0,
  NoDup (map f_id l) -> Forall file_ok l ->
  (forall f, In f l -> lookup (f_id f) (m_actors m0) = None /\
                       lookup (f_id f) (m_disk m0) = Some (c_file (snd f))) ->
  let m' := start_actors m0 (map fst l) in
  m_logs m' = m_logs m0 /\ m_saved m' = m_saved m0 /\ m_cur m' = m_cur m0 /\
  m_pre_ptr m' = m_pre_ptr m0 /\ m_limit m' = m_limit m0 /\
  (forall id, lookup id (m_actors m') =
     match lookup id (amap (map reopen_f l)) with Some s => Some s | None => lookup id (m_actors m0) end) /\
  (forall id, In id (map f_id l) -> lookup id (m_disk m') = None) /\
  (forall id, ~ In id (map f_id l) -> lookup id (m_disk m') = lookup id (m_disk m0)).
Proof.
  induction l as [|[g c] rest IH]; intros m0 Hnd Hok Hpre.
  - cbn [map start_actors amap lookup]. repeat split; try reflexivity. intros id [].
  - inversion Hnd as [|? ? Hnin Hnd']; subst. inversion Hok as [|? ? Hgc Hok']; subst.
    assert (Hpre' : forall f, In f rest -> lookup (f_id f) (m_actors m0) = None /\
                                          lookup (f_id f) (m_disk m0) = Some (c_file (snd f)))
      by (intros f Hin; apply Hpre; right; exact Hin).
    specialize (IH m0 Hnd' Hok' Hpre'). cbv zeta in IH |- *.
    cbn [map fst start_actors]. set (m1 := start_actors m0 (map fst rest)) in *.
    destruct IH as (I1 & I2 & I3 & I4 & I5 & Ia & Id1 & Id2).
    destruct (Hpre (g, c) (or_introl eq_refl)) as [Pa Pd]. unfold f_id in Pa, Pd, Hnin. cbn [fst snd] in Pa, Pd, Hnin.
    destruct Hgc as (W & Hfirst & _).
    assert (Hnin' : ~ In (g_id g) (map f_id (map reopen_f rest))).
    { rewrite (sim_map_ids reopen_f rest (sim_reopen_all rest Hok')). exact Hnin. }
    unfold actor_of. rewrite Ia, (lookup_amap_notin _ _ Hnin'), Pa.
    rewrite (Id2 _ Hnin), Pd, I5, <- Hfirst, (init_conc c _ _ _ W). cbn [res_bind].
    cbn [set_actor m_logs m_saved m_cur m_pre_ptr m_limit m_actors m_disk].
    split; [exact I1|]. split; [exact I2|]. split; [exact I3|]. split; [exact I4|]. split; [exact I5|].
    split; [|split].
    + intros id. rewrite lookup_set_key. cbn [map amap lookup]. unfold reopen_f at 1 2. unfold f_id at 1. cbn [fst snd].
      destruct (id =? g_id g); [reflexivity|]. apply Ia.
    + intros id Hin. destruct (N.eq_dec id (g_id g)) as [->|Hne]; [apply ro_lookup_remove_same|].
      rewrite lookup_remove_other by exact Hne. apply Id1. cbn [map] in Hin. destruct Hin as [Heq|Hin]; [|exact Hin].
      unfold f_id in Heq. cbn [fst] in Heq. congruence.
    + intros id Hin. cbn [map] in Hin. unfold f_id at 1 in Hin. cbn [fst] in Hin.
      rewrite lookup_remove_other by (intros Heq; apply Hin; left; congruence).
      apply Id2. intros H. apply Hin. right. exact H.
Qed.

Lemma ro_last_id_fst (fs : list mfile) :
  match last_opt (map fst fs) with Some g => Some (g_id g) | None => None end = last_id fs.
Proof.
  unfold last_id. rewrite ro_last_opt_map. unfold mfile in *.
  destruct (@last_opt (lrange * cst) fs); reflexivity.
Qed.

(** stop + start: the saved catalogue is loaded, every file is re-initialised from its bytes; the
    visible log is unchanged *)
Theorem mgr_reopen_rep : forall m (fs : list mfile),
  mgr_rep m fs ->
  mgr_rep (mgr_reopen m) (map reopen_f fs) /\
  m_limit (mgr_reopen m) = m_limit m /\ m_pre_ptr (mgr_reopen m) = None /\
  files_vis (map reopen_f fs) = files_vis fs /\
  files_first (map reopen_f fs) = files_first fs /\ files_end (map reopen_f fs) = files_end fs.
Proof.
  intros m fs R.
  pose proof (sim_reopen_all fs (rp_files m fs R)) as HS.
  unfold mgr_reopen. cbv zeta.
  set (disk := fold_right (fun '(id, s) d => set_key id (l_file s) d) (m_disk m) (m_actors m)).
  set (m0 := mkMgr (m_saved m) (m_saved m) [] disk None None (m_limit m)).
  assert (Hsaved : m_saved m = map fst fs) by (rewrite (rp_saved m fs R); apply (rp_logs m fs R)).
  assert (Hdisk : forall id, lookup id disk = match lookup id (m_actors m) with
                                              | Some s => Some (l_file s) | None => None end).
  { intros id. unfold disk. rewrite lookup_fold_disk, (rp_disk m fs R). reflexivity. }
  pose proof (start_actors_spec fs m0 (rep_nodup m fs R) (rp_files m fs R)) as H.
  assert (Hpre : forall f, In f fs -> lookup (f_id f) (m_actors m0) = None /\
                                      lookup (f_id f) (m_disk m0) = Some (c_file (snd f))).
  { intros f Hin. split; [reflexivity|]. cbn [m0 m_disk]. rewrite Hdisk, (rep_actor m fs f R Hin). reflexivity. }
  specialize (H Hpre). cbv zeta in H. rewrite <- Hsaved in H.
  set (m1 := start_actors m0 (m_saved m)) in *.
  destruct H as (I1 & I2 & I3 & I4 & I5 & Ia & Id1 & Id2).
  split; [|split; [exact I5|split; [exact I4|]]].
  - apply (rep_sim reopen_f m _ fs R HS); cbn [set_cur m_logs m_saved m_cur m_limit m_actors m_disk].
    + rewrite I1. cbn [m0 m_logs]. rewrite (rp_saved m fs R). reflexivity.
    + rewrite I2. reflexivity.
    + rewrite (rp_cur m fs R), Hsaved. exact (ro_last_id_fst fs).
    + exact I5.
    + intros id. rewrite Ia. cbn [m0 m_actors lookup]. destruct (lookup id (amap (map reopen_f fs))); reflexivity.
    + intros id. destruct (in_dec N.eq_dec id (map f_id fs)) as [Hin|Hnin]; [apply Id1; exact Hin|].
      rewrite (Id2 id Hnin). cbn [m0 m_disk]. rewrite Hdisk, (rp_actors m fs R), (lookup_amap_notin _ _ Hnin). reflexivity.
  - split; [apply sim_files_vis; exact HS|]. split; [apply sim_files_first; exact HS|apply sim_files_end; exact HS].
Qed.

(** * query *)
Lemma ro_skipn_skipn {A} : forall b a (l : list A), skipn a (skipn b l) = skipn (b + a) l.
Proof.
  induction b as [|b IH]; intros a l; [reflexivity|].
  destruct l as [|x l]; [rewrite !skipn_nil; reflexivity|]. cbn [skipn Nat.add]. apply IH.
Qed.

(** the entries of an interval of a consecutively indexed list are a contiguous segment *)
Lemma between_indexed : forall (l : list lrec) i lo hi,
  indexed i l ->
  between lo hi l
  = firstn (N.to_nat (N.min hi (i + nlen l) - N.max lo i)) (skipn (N.to_nat (N.max lo i - i)) l).
Proof.
  induction l as [|x l IH]; intros i lo hi H.
  - unfold between. cbn [filter]. rewrite skipn_nil, firstn_nil. reflexivity.
  - cbn [indexed] in H. destruct H as [Hx Hl]. specialize (IH (i + 1) lo hi Hl).
    unfold between in *. cbn [filter]. rewrite Hx, nlen_cons.
    destruct (N.leb_spec lo i) as [Hlo|Hlo]; destruct (N.ltb_spec i hi) as [Hhi|Hhi]; cbn [andb].
    + replace (N.to_nat (N.max lo i - i)) with 0%nat by lia. cbn [skipn].
      replace (N.to_nat (N.min hi (i + (1 + nlen l)) - N.max lo i))
        with (S (N.to_nat (N.min hi (i + 1 + nlen l) - N.max lo (i + 1)))) by lia.
      cbn [firstn]. f_equal. rewrite IH.
      replace (N.to_nat (N.max lo (i + 1) - (i + 1))) with 0%nat by lia. reflexivity.
    + rewrite IH.
      replace (N.to_nat (N.min hi (i + 1 + nlen l) - N.max lo (i + 1))) with 0%nat by lia.
      replace (N.to_nat (N.min hi (i + (1 + nlen l)) - N.max lo i)) with 0%nat by lia.
      reflexivity.
    + replace (N.to_nat (N.max lo i - i)) with (S (N.to_nat (N.max lo (i + 1) - (i + 1)))) by lia.
      cbn [skipn]. rewrite IH. f_equal. lia.
    + replace (N.to_nat (N.max lo i - i)) with (S (N.to_nat (N.max lo (i + 1) - (i + 1)))) by lia.
      cbn [skipn]. rewrite IH. f_equal. lia.
Qed.

(** what a well-formed file answers is the interval of its visible records *)
Lemma c_slice_between c lo hi :
  wfc c -> c_split c <= c_end c -> c_slice c lo hi = between lo hi (vis c).
Proof.
  intros W Hs. rewrite (between_indexed _ _ lo hi (vis_indexed c W Hs)).
  rewrite (vis_length c W Hs). pose proof (wf_split c W) as Hf.
  replace (c_split c + (c_end c - c_split c)) with (c_end c) by lia.
  unfold c_slice. cbv zeta. change (c_first c + nlen (c_all c)) with (c_end c).
  destruct (N.min hi (c_end c) <=? N.max lo (c_split c)) eqn:E.
  - replace (N.to_nat (N.min hi (c_end c) - N.max lo (c_split c))) with 0%nat by lia. reflexivity.
  - f_equal. unfold vis. rewrite ro_skipn_skipn. f_equal. lia.
Qed.

(** a file that is not selected has no visible record in the interval *)
Lemma between_unselected g c lo hi :
  file_ok (g, c) -> selected g lo hi = false -> between lo hi (vis c) = [].
Proof.
  intros (W & H1 & _ & H3 & _) Hsel. unfold selected in Hsel.
  apply Bool.orb_false_iff in Hsel. destruct Hsel as [_ Hh].
  rewrite (between_indexed _ _ lo hi (vis_indexed c W H3)). pose proof (wf_split c W) as Hf.
  match goal with |- firstn ?n _ = _ => replace n with 0%nat by lia end. reflexivity.
Qed.

Definition query_f (lo hi : N) (f : mfile) : mfile :=
  if selected (fst f) lo hi then (fst f, c_after_read (snd f) lo hi) else f.

Lemma sim_refl f : wfc (snd f) -> sim f f.
Proof. intros W. unfold sim. auto. Qed.

Lemma sim_query lo hi f : wfc (snd f) -> sim f (query_f lo hi f).
Proof.
  intros W. unfold query_f. destruct (selected (fst f) lo hi); [|apply sim_refl; exact W].
  unfold sim. cbn [fst snd]. split; [reflexivity|]. split; [apply wfc_after_read; exact W|].
  split; [|split; [apply c_all_after_read|]];
    unfold c_after_read; cbv zeta;
    destruct (N.min hi (c_first (snd f) + nlen (c_all (snd f))) <=? N.max lo (c_split (snd f))); reflexivity.
Qed.

Lemma query_f_id lo hi f : f_id (query_f lo hi f) = f_id f.
Proof. unfold query_f. destruct (selected (fst f) lo hi); reflexivity. Qed.

(** the state after the loop: the actor of every selected file has served the read *)
Lemma query_loop_state : forall (l : list mfile) m lo hi,
  NoDup (map f_id l) -> Forall (fun f => wfc (snd f)) l ->
  (forall f, In f l -> lookup (f_id f) (m_actors m) = Some (conc (snd f))) ->
  let m' := fst (mgr_query_loop m (map fst l) lo hi) in
  m_logs m' = m_logs m /\ m_saved m' = m_saved m /\ m_cur m' = m_cur m /\
  m_pre_ptr m' = m_pre_ptr m /\ m_limit m' = m_limit m /\
  (forall id, lookup id (m_actors m') =
     match lookup id (amap (map (query_f lo hi) l)) with
     | Some s => Some s | None => lookup id (m_actors m) end) /\
  (forall id, lookup id (m_disk m) = None -> lookup id (m_disk m') = None).
Proof.
  induction l as [|[g c] rest IH]; intros m lo hi Hnd Hw Hact.
  - cbn [map mgr_query_loop fst amap lookup]. repeat split; try reflexivity. auto.
  - inversion Hnd as [|? ? Hnin Hnd']; subst. inversion Hw as [|? ? W Hw']; subst. cbn [snd] in W.
    change (f_id (g, c)) with (g_id g) in Hnin.
    assert (Hnin' : ~ In (g_id g) (map f_id (map (query_f lo hi) rest))).
    { rewrite map_map. intros Hin. apply Hnin. apply in_map_iff in Hin. destruct Hin as (f' & Hid & Hin).
      rewrite query_f_id in Hid. apply in_map_iff. exists f'. split; [exact Hid|exact Hin]. }
    pose proof (Hact (g, c) (or_introl eq_refl)) as Hl. unfold f_id in Hl. cbn [fst snd] in Hl.
    cbv zeta. cbn [map fst mgr_query_loop]. fold (selected g lo hi).
    unfold query_f at 1. cbn [fst snd].
    destruct (selected g lo hi) eqn:Esel.
    + unfold actor_of. rewrite Hl, (read_records_conc c lo hi W).
      set (m2 := set_actor m (g_id g) (conc (c_after_read c lo hi))).
      assert (Hact2 : forall f, In f rest -> lookup (f_id f) (m_actors m2) = Some (conc (snd f))).
      { intros f Hin. cbn [m2 set_actor m_actors]. rewrite lookup_set_other; [apply Hact; right; exact Hin|].
        intros Heq. apply Hnin. rewrite <- Heq. apply in_map. exact Hin. }
      specialize (IH m2 lo hi Hnd' Hw' Hact2). cbv zeta in IH.
      destruct (mgr_query_loop m2 (map fst rest) lo hi) as [m3 l3]. cbn [fst] in IH |- *.
      destruct IH as (I1 & I2 & I3 & I4 & I5 & Ia & Id).
      split; [exact I1|]. split; [exact I2|]. split; [exact I3|]. split; [exact I4|]. split; [exact I5|]. split.
      * intros id. rewrite Ia. cbn [amap map lookup]. change (f_id (g, c_after_read c lo hi)) with (g_id g). cbn [snd].
        cbn [m2 set_actor m_actors]. rewrite lookup_set_key.
        destruct (id =? g_id g) eqn:E; [|reflexivity].
        apply N.eqb_eq in E. subst id. rewrite (lookup_amap_notin _ _ Hnin'). reflexivity.
      * intros id Hd. apply Id. cbn [m2 set_actor m_disk]. apply lookup_remove_key_none. exact Hd.
    + assert (Hact2 : forall f, In f rest -> lookup (f_id f) (m_actors m) = Some (conc (snd f)))
        by (intros f Hin; apply Hact; right; exact Hin).
      specialize (IH m lo hi Hnd' Hw' Hact2). cbv zeta in IH.
      destruct IH as (I1 & I2 & I3 & I4 & I5 & Ia & Id).
      split; [exact I1|]. split; [exact I2|]. split; [exact I3|]. split; [exact I4|]. split; [exact I5|]. split.
      * intros id. rewrite Ia. cbn [amap map lookup]. change (f_id (g, c)) with (g_id g). cbn [snd].
        destruct (id =? g_id g) eqn:E; [|reflexivity].
        apply N.eqb_eq in E. subst id. rewrite (lookup_amap_notin _ _ Hnin'). exact Hl.
      * exact Id.
Qed.

(** a query returns exactly the visible entries with lo <= index < hi, in order; the log (and every
    split-off floor) is unchanged *)
Theorem mgr_query_rep_floor : forall m (fs : list mfile) lo hi,
  mgr_rep m fs -> lo < U64MAX ->
  exists fs', mgr_rep (fst (mgr_query m lo hi)) fs' /\
    m_limit (fst (mgr_query m lo hi)) = m_limit m /\ m_pre_ptr (fst (mgr_query m lo hi)) = m_pre_ptr m /\
    files_vis fs' = files_vis fs /\ files_first fs' = files_first fs /\ files_end fs' = files_end fs /\
    snd (mgr_query m lo hi) = between lo hi (files_vis fs) /\
    (forall fl, floor_ok fl fs -> floor_ok fl fs').
Proof.
  intros m fs lo hi R _. exists (map (query_f lo hi) fs).
  pose proof (rp_files m fs R) as Hfiles.
  assert (Hw : Forall (fun f : mfile => wfc (snd f)) fs).
  { eapply Forall_impl; [|exact Hfiles]. intros [g c] (W & _). exact W. }
  assert (HS : Forall (fun f => sim f (query_f lo hi f)) fs).
  { eapply Forall_impl; [|exact Hw]. intros f. apply sim_query. }
  pose proof (query_loop_state fs m lo hi (rep_nodup m fs R) Hw (fun f Hin => rep_actor m fs f R Hin)) as H.
  cbv zeta in H. rewrite <- (rp_logs m fs R) in H. fold (mgr_query m lo hi) in H.
  destruct H as (I1 & I2 & I3 & I4 & I5 & Ia & Id).
  split; [|split; [exact I5|split; [exact I4|]]].
  - apply (rep_sim (query_f lo hi) m _ fs R HS); try assumption.
    + intros id. rewrite Ia. destruct (lookup id (amap (map (query_f lo hi) fs))) eqn:E; [reflexivity|].
      apply ro_lookup_amap_none in E. rewrite (sim_map_ids _ fs HS) in E.
      rewrite (rp_actors m fs R). apply lookup_amap_notin. exact E.
    + intros id. apply Id. apply (rp_disk m fs R).
  - split; [apply sim_files_vis; exact HS|]. split; [apply sim_files_first; exact HS|].
    split; [apply sim_files_end; exact HS|].
    split; [|intros fl; apply sim_floor_ok; exact HS].
    destruct (mgr_query_refines m lo hi (rep_mgr_wf m fs R)) as [Hq _]. rewrite Hq, (rp_logs m fs R).
    unfold files_vis, between. rewrite <- concat_filter_map, !map_map. f_equal.
    apply map_ext_in. intros [g c] Hin. cbn [fst snd].
    rewrite Forall_forall in Hfiles. pose proof (Hfiles _ Hin) as Hok.
    fold (between lo hi (vis c)).
    destruct (selected g lo hi) eqn:Esel.
    + unfold file_slice. pose proof (rep_actor m fs (g, c) R Hin) as Hl. unfold f_id in Hl. cbn [fst snd] in Hl.
      destruct Hok as (W & _ & _ & H3 & _).
      rewrite Hl, (read_records_conc c lo hi W). cbn [fst]. apply c_slice_between; assumption.
    + symmetry. eapply between_unselected; eassumption.
Qed.

(** a query returns exactly the visible entries with lo <= index < hi, in order; the log is unchanged *)
Theorem mgr_query_rep : forall m (fs : list mfile) lo hi,
  mgr_rep m fs -> lo < U64MAX ->
  exists fs', mgr_rep (fst (mgr_query m lo hi)) fs' /\
    m_limit (fst (mgr_query m lo hi)) = m_limit m /\ m_pre_ptr (fst (mgr_query m lo hi)) = m_pre_ptr m /\
    files_vis fs' = files_vis fs /\ files_first fs' = files_first fs /\ files_end fs' = files_end fs /\
    snd (mgr_query m lo hi) = between lo hi (files_vis fs).
Proof.
  intros m fs lo hi R Hlo.
  destruct (mgr_query_rep_floor m fs lo hi R Hlo) as (fs' & H1 & H2 & H3 & H4 & H5 & H6 & H7 & _).
  exists fs'. repeat (split; [assumption|]). assumption.
Qed.

(** * the last index *)
Lemma mgr_last_snoc m (fs0 : list mfile) g c :
  mgr_rep m (fs0 ++ [(g, c)]) ->
  mgr_last m = ((if c_end c =? 0 then 0 else c_end c - 1), c_lterm c).
Proof.
  intros R. unfold mgr_last, cur_actor. rewrite (rp_cur m _ R), last_id_snoc. unfold f_id. cbn [fst].
  assert (Hact : lookup (g_id g) (m_actors m) = Some (conc c)).
  { apply (rep_actor m _ (g, c) R). apply in_or_app. right. left. reflexivity. }
  rewrite Hact. reflexivity.
Qed.

(** get_last_log_index reports the index before the end of the log *)
Theorem mgr_last_index : forall m (fs : list mfile) e,
  mgr_rep m fs -> files_end fs = Some e -> fst (mgr_last m) = (if e =? 0 then 0 else e - 1).
Proof.
  intros m fs e R He. destruct (list_snoc_cases fs) as [->|(fs0 & [g c] & ->)]; [discriminate|].
  rewrite files_end_snoc in He. cbn [snd] in He. inversion He; subst.
  rewrite (mgr_last_snoc m fs0 g c R). reflexivity.
Qed.

(** after a restart the reported last term is the term of the last stored record of the last file *)
Theorem mgr_last_after_reopen : forall m (fs0 : list mfile) g c,
  mgr_rep m (fs0 ++ [(g, c)]) ->
  mgr_last (mgr_reopen m) = ((if c_end c =? 0 then 0 else c_end c - 1), c_last_term c (g_pre g)).
Proof.
  intros m fs0 g c R. destruct (mgr_reopen_rep m _ R) as (R' & _).
  rewrite map_app in R'. cbn [map] in R'. unfold reopen_f at 2 in R'. cbn [fst snd] in R'.
  rewrite (mgr_last_snoc _ _ _ _ R'). reflexivity.
Qed.
