(** Model of the OLD RaftIndexInnerManager::init (before the two fix: commits in /repo), kept to
    document why the repairs matter:
      - the file was treated as fresh iff its length was <= 20 bytes;
      - the fresh image was written with Writer::write_bytes(header), which prefixes the length
        byte 8: 08 00 00 00 00 00 00 00 | 00 | 00, so the header read back was 2^59;
      - a zero length byte at offset 8 in a file longer than 20 bytes made read_next fail.
    Each witness was replayed on the real (old) code through the harness suite `indexfile`. *)
From RN Require Import Base.Res Codec.Varint Codec.PbWire Codec.BufReader RaftLog.IndexFile.
Local Open Scope N_scope.

Definition fresh_image_old : list N := [8] ++ be8 0 ++ frame (enc_index ri_default).

Definition read_index_record_old (f : list N) : res raft_index :=
  res_bind (fmr_read_next (mkFmr f 8 8)) (fun '(buf, _) =>
  res_bind (rdv 10 buf) (fun '(len, r1) =>
  res_bind (take_n len r1) (fun '(body, _) => decode_index body))).

Definition init_old (n0 : nat) (f : list N) : res ist :=
  if (length f <=? 20)%nat then
    Ok (mkIst (write_at f 0 fresh_image_old) ri_default 0 n0)
  else
    res_map (fun r => mkIst f r (of_be (firstn 8 f)) n0) (read_index_record_old f).

Definition step_old (sh : nat -> addr_map -> addr_map) (st : ist) (op : iop) : res ist :=
  match op with
  | OpReopen => init_old (i_wcount st) (i_file st)
  | _ => step sh st op
  end.

Fixpoint run_from_old (sh : nat -> addr_map -> addr_map) (st : ist) (ops : list iop) : res ist :=
  match ops with
  | [] => Ok st
  | op :: ops' => res_bind (step_old sh st op) (fun st' => run_from_old sh st' ops')
  end.

Definition run_old (sh : nat -> addr_map -> addr_map) (ops : list iop) : res ist :=
  res_bind (init_old 0 []) (fun st => run_from_old sh st ops).

Ltac conj_compute :=
  repeat first [apply Forall_nil | apply Forall_cons | split | exact I];
  try (vm_compute; reflexivity).

(** defect 5: save_hard_state(3,2) gives a 13-byte file, discarded as fresh on reopen *)
Definition w_hard_state : list iop := [OpHardState 3 2; OpReopen].

Lemma hard_state_durable_refuted :
  exists ops, Forall wf_op ops /\ fits (ri_default, 0) ops /\
    exists st, run_old (fun _ l => l) ops = Ok st /\
      (ri_current_term (i_index st), ri_voted_for (i_index st)) <> last_hard_state ops (0, 0).
Proof.
  exists w_hard_state. split; [unfold w_hard_state; conj_compute|].
  split; [cbn [fits w_hard_state]; conj_compute|].
  eexists. split; [vm_compute; reflexivity|]. vm_compute. discriminate.
Qed.

(** the length-prefixed header: last_applied reads back as 2^59 although nothing was applied *)
Definition w_members : list N := [1;2;3;4;5;6;7;8;9;10;11;12;13;14;15;16;17;18;19;20;21;22].
Definition w_last_applied : list iop := [OpMember w_members None None; OpReopen].

Lemma last_applied_refuted :
  exists ops, Forall wf_op ops /\ fits (ri_default, 0) ops /\
    exists st, run_old (fun _ l => l) ops = Ok st /\ i_applied st <> last_applied ops 0.
Proof.
  exists w_last_applied. split; [unfold w_last_applied, w_members; conj_compute|].
  split; [cbn [fits w_last_applied]; conj_compute|].
  eexists. split; [vm_compute; reflexivity|]. vm_compute. discriminate.
Qed.

Example last_applied_old_value :
  res_map i_applied (run_old (fun _ l => l) w_last_applied) = Ok (2 ^ 59).
Proof. vm_compute. reflexivity. Qed.

(** an all-default record after a longer one: the old init fails, the store cannot start *)
Definition w_reopen_fails : list iop :=
  [OpMember w_members None None; OpMember [] None None; OpReopen].

Lemma reopen_fails_refuted :
  exists ops, Forall wf_op ops /\ fits (ri_default, 0) ops /\ run_old (fun _ l => l) ops = Err.
Proof.
  exists w_reopen_fails. split; [unfold w_reopen_fails, w_members; conj_compute|].
  split; [cbn [fits w_reopen_fails]; conj_compute|]. vm_compute. reflexivity.
Qed.

(** the repaired model on the same witnesses *)
Example witnesses_repaired :
  res_map (fun st => (ri_current_term (i_index st), ri_voted_for (i_index st))) (run (fun _ l => l) w_hard_state) = Ok (3, 2) /\
  res_map i_applied (run (fun _ l => l) w_last_applied) = Ok 0 /\
  res_map (fun st => ri_member (i_index st)) (run (fun _ l => l) w_reopen_fails) = Ok [].
Proof. repeat split; vm_compute; reflexivity. Qed.
