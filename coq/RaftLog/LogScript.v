(** Executable glue for the correspondence of C02/C03: op scripts run against the models
    (one log file; the manager scripts are in ManagerScript.v).  No proofs depend on this file. *)
From RN Require Import Base.Res Codec.Varint Codec.BufReader Codec.Script RaftLog.LogFile.
Local Open Scope N_scope.

(** the value generator and the digest of Codec/Script.v with the divisions by powers of two
    written as bit operations (vm_compute is ~6x faster on them); [gen_fast_eq], [msum_fast_eq]
    below show that they are the same functions *)
Fixpoint gen_fast (n : nat) (x : N) : list N :=
  match n with
  | O => []
  | S n' => let x' := N.land (x * 1103515245 + 12345) 2147483647 in
            N.land (N.shiftr x' 16) 255 :: gen_fast n' x'
  end.
Definition msum_fast (m : list N) : N := fold_left (fun a b => N.land (a * 31 + b) 4294967295) m 7.
Definition digest_fast (m : list N) : N * N := (N.of_nat (length m), msum_fast m).

Lemma land_mod_pow2 a k : N.land a (N.ones k) = a mod 2 ^ k.
Proof. apply N.land_ones. Qed.

Lemma gen_fast_eq n : forall x, gen_fast n x = gen_bytes n x.
Proof.
  induction n as [|n IH]; intros x; [reflexivity|].
  cbn [gen_fast gen_bytes]. cbv zeta.
  change 2147483647 with (N.ones 31). change 255 with (N.ones 8).
  rewrite !land_mod_pow2, N.shiftr_div_pow2, IH. reflexivity.
Qed.

Lemma msum_fast_eq m : msum_fast m = msum m.
Proof.
  unfold msum_fast, msum. generalize 7. induction m as [|b m IH]; intros a; [reflexivity|].
  cbn [fold_left]. change 4294967295 with (N.ones 32). rewrite land_mod_pow2. apply IH.
Qed.

(** ops of the [logfile] harness suite *)
Inductive lop :=
| LW (index term : N) (vlen : nat) (vseed : N)       (* write *)
| LS (k : N)                                          (* strip_log_to *)
| LR (a b : N)                                        (* read_records *)
| LO                                                  (* drop + init on the same file *)
| LO3 (start pre split : N)                           (* the same with other catalogue values *)
| LI.                                                 (* end index, last index info, last term *)

Inductive lout :=
| OW (m : wmark)
| OS (ok : bool)
| OR (l : list (N * N * (N * N)))
| ORErr
| OO (ok : bool)
| OI (e li lt t : N)
| OClosed.

Definition rec_digest (x : lrec) : N * N * (N * N) := (r_index x, r_term x, digest_fast (r_value x)).

(** state of a script: the open manager, or (after a failed init) the file left on disk *)
Inductive sst := SOpen (s : lim) | SClosed.

Fixpoint run_lops (limit start pre split : N) (s : sst) (ops : list lop) : list lout :=
  match ops with
  | [] => []
  | op :: ops' =>
      match s with
      | SClosed => OClosed :: run_lops limit start pre split s ops'
      | SOpen st =>
          match op with
          | LW i t vl vs =>
              let '(st', m) := write st (mkRec i t (gen_fast vl vs)) in
              OW m :: run_lops limit start pre split (SOpen st') ops'
          | LS k =>
              match strip_log_to st k with
              | Ok st' => OS true :: run_lops limit start pre split (SOpen st') ops'
              | _ => OS false :: run_lops limit start pre split (SOpen st) ops'
              end
          | LR a b =>
              match read_records st a b with
              | (Ok l, st') => OR (map rec_digest l) :: run_lops limit start pre split (SOpen st') ops'
              | (_, st') => ORErr :: run_lops limit start pre split (SOpen st') ops'
              end
          | LO =>
              match init (Some (l_file st)) limit start pre split with
              | Ok st' => OO true :: run_lops limit start pre split (SOpen st') ops'
              | _ => OO false :: run_lops limit start pre split SClosed ops'
              end
          | LO3 s2 p2 sp2 =>
              match init (Some (l_file st)) limit s2 p2 sp2 with
              | Ok st' => OO true :: run_lops limit s2 p2 sp2 (SOpen st') ops'
              | _ => OO false :: run_lops limit s2 p2 sp2 SClosed ops'
              end
          | LI =>
              let '(li, lt) := get_last_index_info st in
              OI (end_index st) li lt (l_lterm st) :: run_lops limit start pre split (SOpen st) ops'
          end
      end
  end.

Definition run_logfile (limit start pre split : N) (ops : list lop) : list lout :=
  match init None limit start pre split with
  | Ok st => run_lops limit start pre split (SOpen st) ops
  | _ => [OO false]
  end.

(** the frame exactly as [write] puts it into the file *)
Definition enc_record (i t : N) (vl : nat) (vs : N) : list N := rec_frame (mkRec i t (gen_fast vl vs)).

(** diagnostics (not compared) *)
Definition diag (s : lim) := (l_indexs s, l_icur s, l_dcur s, l_cnt s, l_flen s, l_cic s, l_split s).
