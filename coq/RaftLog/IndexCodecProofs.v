(** Round trip of the RaftIndex message: decoding the bytes written for a record gives the
    record back (for every iteration order of the address HashMap), and sizes/byte-ness of the
    encoding.  Only [decode_index_enc], [enc_index_all_bytes] and [rec_size_perm] are used by the
    file-level proofs. *)
From RN Require Import Base.Res Codec.Varint Codec.VarintBits Codec.VarintProofs
  Codec.PbWire Codec.PbWireProofs RaftLog.IndexFile.
From Coq Require Import ZifyBool ZifyNat ZifyN Permutation Sorting.Sorted.
Local Open Scope N_scope.
Ltac Zify.zify_post_hook ::= Z.div_mod_to_equations.

(** * field lists decode to the message (no bytes involved) *)
Ltac eqb_subst :=
  repeat match goal with
  | H : (_ =? 0) = true |- _ => apply N.eqb_eq in H; subst
  end.

Lemma dec_lr_fields l : dec_lr (lr_fields l) = l.
Proof.
  destruct l as [a b c d e f g]. unfold dec_lr, lr_fields, opt_var, opt_bool.
  cbn [lr_id lr_pre_term lr_start_index lr_record_count lr_split_off_index lr_is_close lr_mark_remove].
  destruct (a =? 0) eqn:Ea; destruct (b =? 0) eqn:Eb; destruct (c =? 0) eqn:Ec;
  destruct (d =? 0) eqn:Ed; destruct (e =? 0) eqn:Ee; destruct f; destruct g;
  eqb_subst; reflexivity.
Qed.

Lemma dec_sr_fields s : dec_sr (sr_fields s) = s.
Proof.
  destruct s as [a b]. unfold dec_sr, sr_fields, opt_var. cbn [sr_id sr_end_index].
  destruct (a =? 0) eqn:Ea; destruct (b =? 0) eqn:Eb; eqb_subst; reflexivity.
Qed.

Lemma dec_na_fields a : dec_na (na_fields a) = a.
Proof.
  destruct a as [k v]. unfold dec_na, na_fields, opt_var, opt_len. cbn [fst snd].
  destruct (k =? 0) eqn:Ek; destruct v; eqb_subst; reflexivity.
Qed.

(** * well-formed field lists *)
Definition wf_field_pre (f : wfield) : Prop :=
  fst f < 2 ^ 29 /\ match snd f with WVar v => u64 v | WLen bs => all_bytes bs end.

Definition fsize (fs : list wfield) : N := N.of_nat (length (enc_fields fs)).

Lemma enc_field_len_payload n bs : (length bs <= length (enc_field (n, WLen bs)))%nat.
Proof. cbn [enc_field]. rewrite !app_length. lia. Qed.

Lemma enc_field_le_fields f fs : In f fs -> (length (enc_field f) <= length (enc_fields fs))%nat.
Proof.
  induction fs as [|g fs IH]; intros Hin; [destruct Hin|].
  rewrite enc_fields_cons, app_length. destruct Hin as [->|Hin]; [lia|].
  specialize (IH Hin). lia.
Qed.

Lemma wf_fields_of_pre fs :
  Forall wf_field_pre fs -> fsize fs < 2 ^ 64 -> Forall wf_field fs.
Proof.
  intros Hpre Hsz. apply Forall_forall. intros f Hin.
  rewrite Forall_forall in Hpre. destruct (Hpre f Hin) as [Hn Hv].
  split; [exact Hn|]. destruct f as [n [v|bs]]; cbn [snd wf_wval] in *; [exact Hv|].
  split; [|exact Hv].
  pose proof (enc_field_le_fields _ _ Hin) as H1.
  pose proof (enc_field_len_payload n bs) as H2. unfold fsize in Hsz. lia.
Qed.

(** a sub-message inside a field list is smaller than the whole *)
Lemma sub_size_le n sfs fs : In (sub n sfs) fs -> fsize sfs <= fsize fs.
Proof.
  intros Hin. pose proof (enc_field_le_fields _ _ Hin) as H1.
  pose proof (enc_field_len_payload n (enc_fields sfs)) as H2. unfold sub in H1. unfold fsize. lia.
Qed.

Lemma pre_opt_var n v : n < 2 ^ 29 -> u64 v -> Forall wf_field_pre (opt_var n v).
Proof.
  intros Hn Hv. unfold opt_var. destruct (v =? 0); constructor; [|constructor].
  split; [exact Hn|exact Hv].
Qed.

Lemma pre_opt_bool n b : n < 2 ^ 29 -> Forall wf_field_pre (opt_bool n b).
Proof.
  intros Hn. unfold opt_bool. destruct b; constructor; [|constructor].
  split; [exact Hn|]. cbn [snd]. unfold u64. change (2 ^ 64) with 18446744073709551616. lia.
Qed.

Lemma pre_opt_len n bs : n < 2 ^ 29 -> all_bytes bs -> Forall wf_field_pre (opt_len n bs).
Proof.
  intros Hn Hb. unfold opt_len. destruct bs; constructor; [|constructor]. split; [exact Hn|exact Hb].
Qed.

Lemma pre_packed n vs : n < 2 ^ 29 -> Forall wf_field_pre (packed n vs).
Proof.
  intros Hn. unfold packed. destruct vs; constructor; [|constructor].
  split; [exact Hn|]. cbn [snd]. apply enc_packed_all_bytes.
Qed.

Ltac small29 := change (2 ^ 29) with 536870912; lia.

Lemma pre_lr_fields l : wf_lr l -> Forall wf_field_pre (lr_fields l).
Proof.
  intros (H1 & H2 & H3 & H4 & H5). unfold lr_fields.
  repeat (apply Forall_app; split);
    first [apply pre_opt_var; [small29|assumption] | apply pre_opt_bool; small29].
Qed.

Lemma pre_sr_fields s : wf_sr s -> Forall wf_field_pre (sr_fields s).
Proof.
  intros (H1 & H2). unfold sr_fields.
  repeat (apply Forall_app; split); apply pre_opt_var; [small29|assumption|small29|assumption].
Qed.

Lemma pre_na_fields a : wf_na a -> Forall wf_field_pre (na_fields a).
Proof.
  intros (H1 & H2 & H3). unfold na_fields. apply Forall_app. split.
  - apply pre_opt_var; [small29|exact H1].
  - apply pre_opt_len; [small29|exact H2].
Qed.

(** componentwise well-formedness of a record (what the Rust types guarantee) *)
Definition wf_index (r : raft_index) : Prop :=
  Forall wf_lr (ri_logs r) /\ u64 (ri_current_log r) /\ Forall wf_sr (ri_snapshots r) /\
  u64 (ri_last_snapshot r) /\ u64 (ri_last_snapshot_index r) /\ u64 (ri_last_snapshot_term r) /\
  u64 (ri_current_term r) /\ u64 (ri_voted_for r) /\ Forall u64 (ri_member r) /\ Forall u64 (ri_mac r) /\
  Forall wf_na (ri_node_addrs r).

(** all encodings are byte strings as soon as the payloads are (no size condition needed) *)
Lemma enc_field_all_bytes_pre f : wf_field_pre f -> all_bytes (enc_field f).
Proof.
  destruct f as [n [v|b]]; intros [Hn Hw]; cbn [enc_field snd] in *.
  - apply Forall_app. split; apply write_varint_all_bytes.
  - apply Forall_app. split; [apply write_varint_all_bytes|].
    apply Forall_app. split; [apply write_varint_all_bytes|exact Hw].
Qed.

Lemma enc_fields_all_bytes_pre fs : Forall wf_field_pre fs -> all_bytes (enc_fields fs).
Proof.
  induction 1 as [|f fs Hf Hfs IH]; [constructor|].
  rewrite enc_fields_cons. apply Forall_app. split; [apply enc_field_all_bytes_pre, Hf|exact IH].
Qed.

Lemma pre_sub_map {A} (g : A -> list wfield) (P : A -> Prop) n xs :
  n < 2 ^ 29 -> (forall x, P x -> Forall wf_field_pre (g x)) -> Forall P xs ->
  Forall wf_field_pre (map (fun x => sub n (g x)) xs).
Proof.
  intros Hn Hg H. induction H as [|x xs Hx Hxs IH]; [constructor|]. cbn [map]. constructor; [|exact IH].
  split; [exact Hn|]. cbn [snd sub]. apply enc_fields_all_bytes_pre, Hg, Hx.
Qed.

Lemma pre_ri_fields r : wf_index r -> Forall wf_field_pre (ri_fields r).
Proof.
  intros (H1 & H2 & H3 & H4 & H5 & H6 & H7 & H8 & H9 & H10 & H11). unfold ri_fields.
  repeat (apply Forall_app; split).
  - apply (pre_sub_map lr_fields wf_lr); [small29|apply pre_lr_fields|exact H1].
  - apply pre_opt_var; [small29|exact H2].
  - apply (pre_sub_map sr_fields wf_sr); [small29|apply pre_sr_fields|exact H3].
  - apply pre_opt_var; [small29|exact H4].
  - apply pre_opt_var; [small29|exact H5].
  - apply pre_opt_var; [small29|exact H6].
  - apply pre_opt_var; [small29|exact H7].
  - apply pre_opt_var; [small29|exact H8].
  - apply pre_packed; small29.
  - apply pre_packed; small29.
  - apply (pre_sub_map na_fields wf_na); [small29|apply pre_na_fields|exact H11].
Qed.

Lemma enc_index_all_bytes r : wf_index r -> all_bytes (enc_index r).
Proof. intros H. apply enc_fields_all_bytes_pre, pre_ri_fields, H. Qed.

(** * decoding the field list of a record *)
Lemma dec_ri_fold_app a b m :
  dec_ri_fold (a ++ b) m = res_bind (dec_ri_fold a m) (dec_ri_fold b).
Proof.
  revert m. induction a as [|f a IH]; intros m; [reflexivity|].
  cbn [app dec_ri_fold]. destruct (dec_ri_step m f) as [m'| |]; cbn [res_bind]; [apply IH|reflexivity|reflexivity].
Qed.

Lemma seg_logs ls : forall m,
  (forall l, In l ls -> Forall wf_field (lr_fields l)) ->
  dec_ri_fold (map (fun l => sub 1 (lr_fields l)) ls) m = Ok (set_logs m (ri_logs m ++ ls)).
Proof.
  induction ls as [|l ls IH]; intros m Hwf.
  - cbn [map dec_ri_fold]. unfold set_logs. rewrite app_nil_r. destruct m; reflexivity.
  - cbn [map dec_ri_fold]. unfold sub at 1. cbn [dec_ri_step].
    rewrite parse_enc_fields by (apply Hwf; left; reflexivity). cbn [res_bind].
    rewrite dec_lr_fields. rewrite IH by (intros l' Hl'; apply Hwf; right; exact Hl').
    unfold set_logs. cbn [ri_logs ri_current_log ri_snapshots ri_last_snapshot ri_last_snapshot_index
      ri_last_snapshot_term ri_current_term ri_voted_for ri_member ri_mac ri_node_addrs].
    rewrite <- app_assoc. reflexivity.
Qed.

Lemma seg_snaps ls : forall m,
  (forall l, In l ls -> Forall wf_field (sr_fields l)) ->
  dec_ri_fold (map (fun l => sub 3 (sr_fields l)) ls) m = Ok (set_snapshots m (ri_snapshots m ++ ls)).
Proof.
  induction ls as [|l ls IH]; intros m Hwf.
  - cbn [map dec_ri_fold]. unfold set_snapshots. rewrite app_nil_r. destruct m; reflexivity.
  - cbn [map dec_ri_fold]. unfold sub at 1. cbn [dec_ri_step].
    rewrite parse_enc_fields by (apply Hwf; left; reflexivity). cbn [res_bind].
    rewrite dec_sr_fields. rewrite IH by (intros l' Hl'; apply Hwf; right; exact Hl').
    unfold set_snapshots. cbn [ri_logs ri_current_log ri_snapshots ri_last_snapshot ri_last_snapshot_index
      ri_last_snapshot_term ri_current_term ri_voted_for ri_member ri_mac ri_node_addrs].
    rewrite <- app_assoc. reflexivity.
Qed.

Lemma seg_addrs ls : forall m,
  (forall l, In l ls -> Forall wf_field (na_fields l)) ->
  dec_ri_fold (map (fun l => sub 11 (na_fields l)) ls) m = Ok (set_node_addrs m (ri_node_addrs m ++ ls)).
Proof.
  induction ls as [|l ls IH]; intros m Hwf.
  - cbn [map dec_ri_fold]. unfold set_node_addrs. rewrite app_nil_r. destruct m; reflexivity.
  - cbn [map dec_ri_fold]. unfold sub at 1. cbn [dec_ri_step].
    rewrite parse_enc_fields by (apply Hwf; left; reflexivity). cbn [res_bind].
    rewrite dec_na_fields. rewrite IH by (intros l' Hl'; apply Hwf; right; exact Hl').
    unfold set_node_addrs. cbn [ri_logs ri_current_log ri_snapshots ri_last_snapshot ri_last_snapshot_index
      ri_last_snapshot_term ri_current_term ri_voted_for ri_member ri_mac ri_node_addrs].
    rewrite <- app_assoc. reflexivity.
Qed.

Ltac seg_var fld mm :=
  let E := fresh "E" in
  intros H0; unfold opt_var; match goal with |- context [?v =? 0] => destruct (v =? 0) eqn:E end;
  [apply N.eqb_eq in E; subst; cbn [dec_ri_fold]; destruct mm as [a1 a2 a3 a4 a5 a6 a7 a8 a9 a10 a11]; cbn [fld] in H0; subst; reflexivity
  |reflexivity].

Lemma seg_current_log m v : ri_current_log m = 0 -> dec_ri_fold (opt_var 2 v) m = Ok (set_current_log m v).
Proof. seg_var ri_current_log m. Qed.
Lemma seg_last_snapshot m v : ri_last_snapshot m = 0 -> dec_ri_fold (opt_var 4 v) m = Ok (set_last_snapshot m v).
Proof. seg_var ri_last_snapshot m. Qed.
Lemma seg_last_snapshot_index m v : ri_last_snapshot_index m = 0 -> dec_ri_fold (opt_var 5 v) m = Ok (set_last_snapshot_index m v).
Proof. seg_var ri_last_snapshot_index m. Qed.
Lemma seg_last_snapshot_term m v : ri_last_snapshot_term m = 0 -> dec_ri_fold (opt_var 6 v) m = Ok (set_last_snapshot_term m v).
Proof. seg_var ri_last_snapshot_term m. Qed.
Lemma seg_current_term m v : ri_current_term m = 0 -> dec_ri_fold (opt_var 7 v) m = Ok (set_current_term m v).
Proof. seg_var ri_current_term m. Qed.
Lemma seg_voted_for m v : ri_voted_for m = 0 -> dec_ri_fold (opt_var 8 v) m = Ok (set_voted_for m v).
Proof. seg_var ri_voted_for m. Qed.

Lemma seg_member m vs : ri_member m = [] -> Forall u64 vs -> dec_ri_fold (packed 9 vs) m = Ok (set_member m vs).
Proof.
  intros H0 Hv. unfold packed. destruct vs as [|v vs].
  - cbn [dec_ri_fold]. destruct m as [a1 a2 a3 a4 a5 a6 a7 a8 a9 a10 a11]; cbn [ri_member] in H0; subst; reflexivity.
  - cbn [dec_ri_fold dec_ri_step]. rewrite unpack_enc_packed by exact Hv. reflexivity.
Qed.

Lemma seg_mac m vs : ri_mac m = [] -> Forall u64 vs -> dec_ri_fold (packed 10 vs) m = Ok (set_mac m vs).
Proof.
  intros H0 Hv. unfold packed. destruct vs as [|v vs].
  - cbn [dec_ri_fold]. destruct m as [a1 a2 a3 a4 a5 a6 a7 a8 a9 a10 a11]; cbn [ri_mac] in H0; subst; reflexivity.
  - cbn [dec_ri_fold dec_ri_step]. rewrite unpack_enc_packed by exact Hv. reflexivity.
Qed.

(** every sub-message of a record whose total size fits has well-formed fields *)
Lemma sub_fields_wf {A} (g : A -> list wfield) (P : A -> Prop) n xs fs x :
  (forall y, P y -> Forall wf_field_pre (g y)) -> Forall P xs ->
  (forall f, In f (map (fun y => sub n (g y)) xs) -> In f fs) ->
  fsize fs < 2 ^ 64 -> In x xs -> Forall wf_field (g x).
Proof.
  intros Hg HP Hsubset Hsz Hin. apply wf_fields_of_pre.
  - apply Hg. rewrite Forall_forall in HP. apply HP, Hin.
  - assert (Hi : In (sub n (g x)) fs).
    { apply Hsubset. apply in_map_iff. exists x. split; [reflexivity|exact Hin]. }
    pose proof (sub_size_le _ _ _ Hi). lia.
Qed.

Theorem dec_ri_fields r :
  wf_index r -> fsize (ri_fields r) < 2 ^ 64 -> dec_ri (ri_fields r) = Ok r.
Proof.
  intros Hwf Hsz.
  pose proof Hwf as (H1 & H2 & H3 & H4 & H5 & H6 & H7 & H8 & H9 & H10 & H11).
  unfold dec_ri, ri_fields.
  rewrite dec_ri_fold_app, seg_logs; cycle 1.
  { intros l Hl. apply (sub_fields_wf lr_fields wf_lr 1 (ri_logs r) (ri_fields r));
      [apply pre_lr_fields|exact H1| |exact Hsz|exact Hl].
    intros f Hf. unfold ri_fields. apply in_or_app. left. exact Hf. }
  cbn [res_bind]. rewrite dec_ri_fold_app, seg_current_log by reflexivity. cbn [res_bind].
  rewrite dec_ri_fold_app, seg_snaps; cycle 1.
  { intros l Hl. apply (sub_fields_wf sr_fields wf_sr 3 (ri_snapshots r) (ri_fields r));
      [apply pre_sr_fields|exact H3| |exact Hsz|exact Hl].
    intros f Hf. unfold ri_fields. apply in_or_app. right. apply in_or_app. right.
    apply in_or_app. left. exact Hf. }
  cbn [res_bind]. rewrite dec_ri_fold_app, seg_last_snapshot by reflexivity. cbn [res_bind].
  rewrite dec_ri_fold_app, seg_last_snapshot_index by reflexivity. cbn [res_bind].
  rewrite dec_ri_fold_app, seg_last_snapshot_term by reflexivity. cbn [res_bind].
  rewrite dec_ri_fold_app, seg_current_term by reflexivity. cbn [res_bind].
  rewrite dec_ri_fold_app, seg_voted_for by reflexivity. cbn [res_bind].
  rewrite dec_ri_fold_app, seg_member by (first [reflexivity|assumption]). cbn [res_bind].
  rewrite dec_ri_fold_app, seg_mac by (first [reflexivity|assumption]). cbn [res_bind].
  rewrite seg_addrs; cycle 1.
  { intros l Hl. apply (sub_fields_wf na_fields wf_na 11 (ri_node_addrs r) (ri_fields r));
      [apply pre_na_fields|exact H11| |exact Hsz|exact Hl].
    intros f Hf. unfold ri_fields. do 10 (apply in_or_app; right). exact Hf. }
  destruct r; reflexivity.
Qed.

(** * the record round trip, for every iteration order of the address map *)
From RN Require Import RaftLog.AddrMapProofs.

Definition permutes (s : addr_map -> addr_map) : Prop := forall l, Permutation (s l) l.

Lemma enc_fields_perm_length l1 l2 :
  Permutation l1 l2 -> length (enc_fields l1) = length (enc_fields l2).
Proof.
  induction 1 as [|x l1 l2 Hp IH|x y l|l1 l2 l3 H1 IH1 H2 IH2].
  - reflexivity.
  - rewrite !enc_fields_cons, !app_length. lia.
  - rewrite !enc_fields_cons, !app_length. lia.
  - lia.
Qed.

Lemma ri_fields_perm s r : permutes s -> Permutation (ri_fields (to_do s r)) (ri_fields r).
Proof.
  intros Hs. destruct r as [a1 a2 a3 a4 a5 a6 a7 a8 a9 a10 a11].
  unfold ri_fields, to_do, set_node_addrs.
  cbn [ri_logs ri_current_log ri_snapshots ri_last_snapshot ri_last_snapshot_index
       ri_last_snapshot_term ri_current_term ri_voted_for ri_member ri_mac ri_node_addrs].
  repeat apply Permutation_app_head. apply Permutation_map, Hs.
Qed.

Lemma rec_size_perm s r : permutes s -> rec_size (to_do s r) = rec_size r.
Proof.
  intros Hs. unfold rec_size, enc_index. f_equal. apply enc_fields_perm_length, ri_fields_perm, Hs.
Qed.

Lemma wf_index_to_do s r : permutes s -> wf_index r -> wf_index (to_do s r).
Proof.
  intros Hs (H1 & H2 & H3 & H4 & H5 & H6 & H7 & H8 & H9 & H10 & H11).
  destruct r as [a1 a2 a3 a4 a5 a6 a7 a8 a9 a10 a11]. unfold wf_index, to_do, set_node_addrs.
  cbn [ri_logs ri_current_log ri_snapshots ri_last_snapshot ri_last_snapshot_index
       ri_last_snapshot_term ri_current_term ri_voted_for ri_member ri_mac ri_node_addrs] in *.
  repeat split; try assumption.
  eapply Permutation_Forall; [apply Permutation_sym, Hs|exact H11].
Qed.

Lemma to_dto_to_do s r : permutes s -> amap_sorted (ri_node_addrs r) -> to_dto (to_do s r) = r.
Proof.
  intros Hs Hsorted. destruct r as [a1 a2 a3 a4 a5 a6 a7 a8 a9 a10 a11].
  unfold to_dto, to_do, set_node_addrs.
  cbn [ri_logs ri_current_log ri_snapshots ri_last_snapshot ri_last_snapshot_index
       ri_last_snapshot_term ri_current_term ri_voted_for ri_member ri_mac ri_node_addrs] in *.
  f_equal. apply amap_of_list_perm; [exact Hsorted|apply Hs].
Qed.

Theorem decode_index_record s r :
  permutes s -> wf_index r -> amap_sorted (ri_node_addrs r) -> rec_size r < 2 ^ 64 ->
  decode_index (enc_index (to_do s r)) = Ok r.
Proof.
  intros Hs Hwf Hsorted Hsz. unfold decode_index, enc_index.
  pose proof (wf_index_to_do s r Hs Hwf) as Hwf'.
  assert (Hsz' : fsize (ri_fields (to_do s r)) < 2 ^ 64).
  { pose proof (rec_size_perm s r Hs) as H. unfold rec_size, enc_index in H, Hsz. unfold fsize. lia. }
  rewrite parse_enc_fields by (apply wf_fields_of_pre; [apply pre_ri_fields, Hwf'|exact Hsz']).
  cbn [res_bind]. rewrite dec_ri_fields by assumption. cbn [res_map].
  f_equal. apply to_dto_to_do; assumption.
Qed.
