(** The catalogue invariant of the manager model ([mgr_inv]) and the abstraction of a manager
    state to ONE abstract log ([mgr_vis], [mgr_alog]).

    A well-formed manager is described by a list of files (range, canonical state):
      - every range has a started actor in canonical state [conc c] with [wfc c], starting at the
        range's start index, with the split-off the range records; nothing else is started, the
        disk holds no unopened log file;
      - ids strictly increase; all ranges but the last are closed, with [g_count] = number of
        stored records; the last one is open and is the current actor;
      - CONTIGUITY: the visible part of a file (records from its split-off on) starts exactly
        where the previous file ends (for plain files split-off = start; for the file behind a
        snapshot-pointer file split-off = pointer index + 1);
      - the catalogue saved in the index file is the in-memory one. *)
From RN Require Import Base.Res Codec.Varint Codec.BufReader
  RaftLog.LogFile RaftLog.Spec RaftLog.Layout RaftLog.FileProofs RaftLog.RecordProofs
  RaftLog.ReadProofs RaftLog.WriteProofs RaftLog.InitProofs RaftLog.StripProofs RaftLog.Refine
  RaftLog.LogManager RaftLog.ManagerProofs.
From Coq Require Import ZifyBool ZifyNat ZifyN.
Local Open Scope N_scope.
Ltac Zify.zify_post_hook ::= Z.div_mod_to_equations.

Definition mfile : Type := (lrange * cst)%type.
Definition f_id (f : mfile) : N := g_id (fst f).
Definition c_end (c : cst) : N := c_first c + nlen (c_all c).

(** the actor map described by a file list *)
Definition amap (fs : list mfile) : list (N * lim) := map (fun f => (f_id f, conc (snd f))) fs.

(** records a reader sees: from the split-off on *)
Definition vis (c : cst) : list lrec := skipn (N.to_nat (c_split c - c_first c)) (c_all c).

Definition file_ok (f : mfile) : Prop :=
  let '(g, c) := f in
  wfc c /\ c_first c = g_start g /\ c_split c = N.max (g_split g) (g_start g) /\
  c_split c <= c_end c /\ c_end c < U64MAX /\
  (g_close g = true -> g_count g = nlen (c_all c)).

(** consecutive files *)
Definition link (f1 f2 : mfile) : Prop :=
  c_split (snd f2) = c_end (snd f1) /\ f_id f1 < f_id f2 /\ g_close (fst f1) = true.

Fixpoint links (fs : list mfile) : Prop :=
  match fs with
  | [] => True
  | f1 :: rest => match rest with [] => True | f2 :: _ => link f1 f2 end /\ links rest
  end.

(** all consecutive files are linked and the last file is open *)
Definition chain (fs : list mfile) : Prop :=
  links fs /\ match last_opt fs with Some f => g_close (fst f) = false | None => True end.

(** the head may be a snapshot-pointer file (id = next id - 1, possibly 0); all other files were
    created by rollover and have ids >= 1 *)
Definition ids_pos (fs : list mfile) : Prop :=
  match fs with
  | [] => True
  | f :: rest => Forall (fun f' => 1 <= f_id f') rest /\
                 (1 <= f_id f \/ exists f2 rest', rest = f2 :: rest' /\ f_id f + 1 = f_id f2)
  end.

Definition last_id (fs : list mfile) : option N :=
  match last_opt fs with Some f => Some (f_id f) | None => None end.

Record mgr_rep (m : mgr) (fs : list mfile) : Prop := mkRep {
  rp_logs : m_logs m = map fst fs;
  rp_saved : m_saved m = m_logs m;
  rp_actors : forall id, lookup id (m_actors m) = lookup id (amap fs);
  rp_disk : forall id, lookup id (m_disk m) = None;
  rp_files : Forall file_ok fs;
  rp_chain : chain fs;
  rp_ids : ids_pos fs;
  rp_cur : m_cur m = last_id fs;
  rp_limit : HDR_LEN + 10 < m_limit m <= 4096
}.

Definition mgr_inv (m : mgr) : Prop := exists fs, mgr_rep m fs.

(** * abstraction: what a full read of every file returns, in catalogue order *)
Definition lim_vis (s : lim) : list lrec :=
  match fst (read_records s 0 U64MAX) with Ok l => l | _ => [] end.

Definition mgr_vis (m : mgr) : list lrec :=
  concat (map (fun g => match lookup (g_id g) (m_actors m) with Some s => lim_vis s | None => [] end)
              (m_logs m)).

(** index of the first visible position (where the abstract log starts) *)
Definition mgr_first_vis (m : mgr) : option N :=
  match m_logs m with
  | [] => None
  | g :: _ => match lookup (g_id g) (m_actors m) with Some s => Some (l_split s) | None => None end
  end.

Definition mgr_alog (m : mgr) : option alog :=
  match mgr_first_vis m with
  | Some first => Some (mkAlog first (map ent_of (mgr_vis m)))
  | None => None
  end.

(** * basic facts *)
Lemma lookup_amap_in fs f :
  NoDup (map f_id fs) -> In f fs -> lookup (f_id f) (amap fs) = Some (conc (snd f)).
Proof.
  induction fs as [|f0 fs IH]; intros Hnd Hin; [contradiction|].
  inversion Hnd as [|? ? Hnin Hnd']; subst. cbn [amap map lookup].
  destruct Hin as [->|Hin]; [rewrite N.eqb_refl; reflexivity|].
  destruct (f_id f =? f_id f0) eqn:E.
  - exfalso. apply Hnin. apply N.eqb_eq in E. rewrite <- E. apply in_map. exact Hin.
  - apply IH; assumption.
Qed.

Lemma lookup_amap_notin fs id : ~ In id (map f_id fs) -> lookup id (amap fs) = None.
Proof.
  induction fs as [|f0 fs IH]; intros H; [reflexivity|]. cbn [amap map lookup].
  destruct (id =? f_id f0) eqn:E; [exfalso; apply H; left; lia|]. apply IH. intros Hin. apply H. right. exact Hin.
Qed.

Lemma lookup_amap_some fs id s : lookup id (amap fs) = Some s -> exists f, In f fs /\ f_id f = id /\ s = conc (snd f).
Proof.
  induction fs as [|f0 fs IH]; intros H; [discriminate|]. cbn [amap map lookup] in H.
  destruct (id =? f_id f0) eqn:E.
  - inversion H; subst. exists f0. split; [left; reflexivity|]. split; [lia|reflexivity].
  - destruct (IH H) as (f & Hin & Hid & Hs). exists f. split; [right; exact Hin|auto].
Qed.

(** ids increase along linked files *)
Lemma links_ids_lt : forall fs f, links (f :: fs) -> Forall (fun f' => f_id f < f_id f') fs.
Proof.
  induction fs as [|f2 fs IH]; intros f H; [constructor|].
  cbn [links] in H. destruct H as [(_ & Hlt & _) Hc]. constructor; [exact Hlt|].
  specialize (IH f2 Hc). eapply Forall_impl; [|exact IH]. cbn. intros a Ha. lia.
Qed.

Lemma links_tail f fs : links (f :: fs) -> links fs.
Proof. cbn [links]. tauto. Qed.

Lemma links_nodup : forall fs, links fs -> NoDup (map f_id fs).
Proof.
  induction fs as [|f fs IH]; intros H; [constructor|]. cbn [map]. constructor.
  - pose proof (links_ids_lt fs f H) as Hlt. intros Hin. apply in_map_iff in Hin.
    destruct Hin as (f' & Heq & Hin). rewrite Forall_forall in Hlt. specialize (Hlt f' Hin). lia.
  - apply IH. eapply links_tail. exact H.
Qed.

Lemma chain_nodup fs : chain fs -> NoDup (map f_id fs).
Proof. intros [H _]. apply links_nodup. exact H. Qed.

Lemma last_opt_snoc {A} (l : list A) x : last_opt (l ++ [x]) = Some x.
Proof. unfold last_opt. rewrite rev_app_distr. reflexivity. Qed.

Lemma last_opt_nil {A} : last_opt (@nil A) = None.
Proof. reflexivity. Qed.

Lemma last_opt_some_snoc {A} (l : list A) x : last_opt l = Some x -> exists l0, l = l0 ++ [x].
Proof.
  unfold last_opt. intros H. destruct (rev l) as [|y r] eqn:E; [discriminate|]. inversion H; subst.
  exists (rev r). rewrite <- (rev_involutive l), E. reflexivity.
Qed.

Lemma list_snoc_cases {A} (l : list A) : l = [] \/ exists l0 x, l = l0 ++ [x].
Proof. destruct l as [|a l] using rev_ind; [left; reflexivity|right; eauto]. Qed.

Lemma last_opt_cons2 {A} (x y : A) l : last_opt (x :: y :: l) = last_opt (y :: l).
Proof.
  destruct (list_snoc_cases (y :: l)) as [H|(l0 & z & H)]; [discriminate|].
  rewrite H. rewrite app_comm_cons, !last_opt_snoc. reflexivity.
Qed.

(** links of a concatenation *)
Lemma links_app : forall a b,
  links (a ++ b) <->
  links a /\ links b /\ match last_opt a, b with Some x, y :: _ => link x y | _, _ => True end.
Proof.
  induction a as [|x a IH]; intros b.
  - cbn [app links]. rewrite last_opt_nil. tauto.
  - cbn [app links]. rewrite IH. destruct a as [|x2 a].
    + cbn [app links]. change (last_opt [x]) with (Some x). rewrite last_opt_nil.
      destruct b; tauto.
    + cbn [app]. assert (Hl : last_opt (x :: x2 :: a) = last_opt (x2 :: a)).
      { unfold last_opt. cbn [rev]. destruct (rev a ++ [x2]) as [|z r] eqn:E.
        - destruct (rev a); discriminate.
        - reflexivity. }
      rewrite Hl. tauto.
Qed.

(** a full read of a well-formed file returns its visible records *)
Lemma lim_vis_conc c : wfc c -> c_end c < U64MAX -> lim_vis (conc c) = vis c.
Proof.
  intros W He. unfold lim_vis. rewrite (read_records_conc c 0 U64MAX W). cbn [fst].
  unfold c_slice, vis. cbv zeta. unfold c_end in He. pose proof (wf_split c W) as Hs.
  replace (N.max 0 (c_split c)) with (c_split c) by lia.
  replace (N.min U64MAX (c_first c + nlen (c_all c))) with (c_first c + nlen (c_all c)) by lia.
  destruct (c_first c + nlen (c_all c) <=? c_split c) eqn:E.
  - rewrite skipn_all2; [reflexivity|]. unfold nlen in *. lia.
  - apply firstn_all2. rewrite skipn_length. unfold nlen in *. lia.
Qed.

Lemma rep_nodup m fs : mgr_rep m fs -> NoDup (map f_id fs).
Proof. intros R. apply chain_nodup, (rp_chain m fs R). Qed.

Lemma rep_actor m fs f : mgr_rep m fs -> In f fs -> lookup (f_id f) (m_actors m) = Some (conc (snd f)).
Proof. intros R Hin. rewrite (rp_actors m fs R). apply lookup_amap_in; [eapply rep_nodup; eassumption|exact Hin]. Qed.

Theorem mgr_vis_rep m fs : mgr_rep m fs -> mgr_vis m = concat (map (fun f => vis (snd f)) fs).
Proof.
  intros R. unfold mgr_vis. rewrite (rp_logs m fs R), map_map. f_equal.
  apply map_ext_in. intros f Hin. change (g_id (fst f)) with (f_id f).
  rewrite (rep_actor m fs f R Hin).
  pose proof (rp_files m fs R) as Hf. rewrite Forall_forall in Hf. specialize (Hf f Hin).
  destruct f as [g c]. cbn [snd]. destruct Hf as (W & _ & _ & _ & He & _). apply lim_vis_conc; assumption.
Qed.

(** * the empty manager *)
Theorem mgr_inv_init limit : HDR_LEN + 10 < limit <= 4096 -> mgr_inv (mgr_init limit).
Proof.
  intros Hl. exists []. constructor; cbn; auto. split; exact I.
Qed.

(** * visible records are consecutively indexed *)
Lemma vis_indexed c : wfc c -> c_split c <= c_end c -> indexed (c_split c) (vis c).
Proof.
  intros W Hs. unfold vis. pose proof (wf_split c W) as Hf.
  pose proof (indexed_skipn (c_first c) (N.to_nat (c_split c - c_first c)) (c_all c) (wf_indexed c W)) as Hi.
  rewrite Nat.min_l in Hi by (unfold c_end, nlen in Hs; lia).
  replace (c_first c + N.of_nat (N.to_nat (c_split c - c_first c))) with (c_split c) in Hi by lia. exact Hi.
Qed.

Lemma vis_length c : wfc c -> c_split c <= c_end c -> nlen (vis c) = c_end c - c_split c.
Proof.
  intros W Hs. unfold vis, nlen. rewrite skipn_length. pose proof (wf_split c W). unfold c_end, nlen in *. lia.
Qed.

Definition files_vis (fs : list mfile) : list lrec := concat (map (fun f => vis (snd f)) fs).
Definition files_end (fs : list mfile) : option N :=
  match last_opt fs with Some f => Some (c_end (snd f)) | None => None end.
Definition files_first (fs : list mfile) : option N :=
  match fs with f :: _ => Some (c_split (snd f)) | [] => None end.

Lemma files_vis_indexed : forall fs,
  Forall file_ok fs -> links fs ->
  match fs with
  | [] => True
  | f :: _ => indexed (c_split (snd f)) (files_vis fs) /\
              forall e, files_end fs = Some e -> c_split (snd f) + nlen (files_vis fs) = e
  end.
Proof.
  induction fs as [|f fs IH]; intros Hok Hl; [exact I|].
  inversion Hok as [|? ? Hf Hok']; subst. destruct f as [g c]. destruct Hf as (W & Hfirst & Hsp & Hle & Hmax & Hcnt).
  unfold files_vis. cbn [map concat snd]. fold (files_vis fs).
  specialize (IH Hok' (links_tail _ _ Hl)).
  destruct fs as [|f2 fs].
  - cbn [files_vis map concat]. rewrite app_nil_r. split; [apply vis_indexed; assumption|].
    intros e He. unfold files_end in He. change (last_opt [(g, c)]) with (Some (g, c)) in He. cbn [snd] in He.
    inversion He; subst. rewrite vis_length by assumption. lia.
  - cbn [links] in Hl. destruct Hl as [(Hlk & _ & _) _]. cbn [snd] in Hlk. destruct IH as [Hi He].
    split.
    + apply indexed_app. split; [apply vis_indexed; assumption|].
      rewrite vis_length by assumption. replace (c_split c + (c_end c - c_split c)) with (c_end c) by lia.
      rewrite <- Hlk. exact Hi.
    + intros e Hee. rewrite nlen_app, vis_length by assumption.
      assert (Hee' : files_end (f2 :: fs) = Some e).
      { unfold files_end in *. rewrite last_opt_cons2 in Hee. exact Hee. }
      specialize (He e Hee'). lia.
Qed.

(** * updating one actor *)
Lemma lookup_set_key {A} id k (v : A) l : lookup id (set_key k v l) = if id =? k then Some v else lookup id l.
Proof.
  destruct (id =? k) eqn:E.
  - apply N.eqb_eq in E. subst. apply lookup_set_same.
  - apply lookup_set_other. lia.
Qed.

Lemma lookup_amap_app a b id :
  lookup id (amap (a ++ b)) = match lookup id (amap a) with Some s => Some s | None => lookup id (amap b) end.
Proof.
  induction a as [|f a IH]; [reflexivity|]. cbn [app amap map lookup].
  destruct (id =? f_id f); [reflexivity|]. exact IH.
Qed.

Lemma lookup_amap_replace a f f' b id :
  f_id f' = f_id f -> ~ In (f_id f) (map f_id a) ->
  lookup id (amap (a ++ f' :: b)) = if id =? f_id f then Some (conc (snd f')) else lookup id (amap (a ++ f :: b)).
Proof.
  intros Hid Hnin. rewrite !lookup_amap_app. cbn [amap map lookup]. rewrite Hid.
  destruct (id =? f_id f) eqn:E.
  - apply N.eqb_eq in E. subst id. rewrite lookup_amap_notin by exact Hnin. reflexivity.
  - reflexivity.
Qed.

Lemma last_id_snoc fs f : last_id (fs ++ [f]) = Some (f_id f).
Proof. unfold last_id. rewrite last_opt_snoc. reflexivity. Qed.

Lemma files_vis_app a b : files_vis (a ++ b) = files_vis a ++ files_vis b.
Proof. unfold files_vis. rewrite map_app, concat_app. reflexivity. Qed.

Lemma files_vis_one f : files_vis [f] = vis (snd f).
Proof. unfold files_vis. cbn [map concat]. apply app_nil_r. Qed.

Lemma nodup_snoc_notin {A B} (g : A -> B) l x : NoDup (map g (l ++ [x])) -> ~ In (g x) (map g l).
Proof.
  rewrite map_app. cbn [map]. intros H Hin. apply NoDup_remove_2 in H. apply H. rewrite app_nil_r. exact Hin.
Qed.

(** * vocabulary of the per-operation theorems (ManagerWriteProofs, ManagerBatchProofs,
      ManagerCutProofs, ManagerPointerProofs, ManagerReopenProofs) *)
Definition below (k : N) (l : list lrec) : list lrec := filter (fun x => r_index x <? k) l.
Definition above (p : N) (l : list lrec) : list lrec := filter (fun x => p <? r_index x) l.
Definition between (lo hi : N) (l : list lrec) : list lrec :=
  filter (fun x => (lo <=? r_index x) && (r_index x <? hi)) l.

(** a delete-from k is in scope when k is not below the first visible index and no kept file would
    be cut below its split-off (i.e. k is above the newest snapshot pointer) *)
Definition cut_ok (fs : list mfile) (k : N) : Prop :=
  (exists a, files_first fs = Some a /\ a <= k) /\ k < U64MAX /\
  Forall (fun f => g_start (fst f) <= k -> c_split (snd f) <= k) fs.

(** a snapshot pointer for an index the log holds *)
Definition ptr_ok (fs : list mfile) (ptr : lrec) : Prop :=
  rec_ok ptr /\ rec_nonempty ptr /\
  exists a e, files_first fs = Some a /\ files_end fs = Some e /\ a <= r_index ptr < e.

Lemma rep_mgr_wf m fs : mgr_rep m fs -> mgr_wf m.
Proof.
  intros R. split.
  - rewrite (rp_logs m fs R), map_map. apply (rep_nodup m fs R).
  - rewrite (rp_logs m fs R). apply Forall_forall. intros g Hin. apply in_map_iff in Hin.
    destruct Hin as ([g' c] & Hg & Hin). cbn [fst] in Hg. subst g'.
    pose proof (rp_files m fs R) as Hf. rewrite Forall_forall in Hf. destruct (Hf _ Hin) as (W & Hfirst & _).
    exists c. split; [|split; assumption]. apply (rep_actor m fs (g, c) R Hin).
Qed.

(** upper bound [fl] of everything a snapshot pointer protects: the split-offs that lie INSIDE a file
    (raised by a pointer), and the end of a head file with id 0 (a pointer file in front of file 1).
    A delete-from at or above [fl] never cuts a file below its split-off nor empties a pointer file. *)
Definition floor_ok (fl : N) (fs : list mfile) : Prop :=
  Forall (fun f => c_first (snd f) < c_split (snd f) -> c_split (snd f) <= fl) fs /\
  match fs with f :: _ => f_id f = 0 -> c_end (snd f) <= fl | [] => True end.

(** side condition found by the proof of mgr_strip_rep: the head file has id >= 1 or is wholly kept *)
Definition cut_head_ok (fs : list mfile) (k : N) : Prop :=
  match fs with f :: _ :: _ => 1 <= f_id f \/ c_end (snd f) <= k | _ => True end.

Lemma floor_ok_cut (fs : list mfile) fl k a :
  Forall file_ok fs -> floor_ok fl fs -> files_first fs = Some a -> a <= k -> fl <= k -> k < U64MAX ->
  cut_ok fs k /\ cut_head_ok fs k.
Proof.
  intros Hok [Hfl Hhd] Ha Hak Hflk Hk. split.
  - split; [exists a; auto|]. split; [exact Hk|].
    apply Forall_forall. intros [g c] Hin Hs. cbn [fst snd] in *.
    rewrite Forall_forall in Hok, Hfl. destruct (Hok _ Hin) as (W & Hfirst & _). specialize (Hfl _ Hin). cbn [snd] in Hfl.
    pose proof (wf_split c W). destruct (N.eq_dec (c_first c) (c_split c)) as [E|E]; [lia|].
    assert (c_first c < c_split c) by lia. specialize (Hfl H0). lia.
  - unfold cut_head_ok. destruct fs as [|f [|f2 rest]]; try exact I.
    destruct (N.eq_dec (f_id f) 0) as [E|E]; [right; specialize (Hhd E); lia|left; lia].
Qed.
