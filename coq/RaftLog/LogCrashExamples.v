(** Non-vacuity of the hypotheses of the log-file crash theorems, the lagging-index image on a
    concrete history, and the (finitely many) crash images of one delete-from, by computation. *)
From RN Require Import Base.Res Codec.Varint Codec.BufReader RaftLog.LogFile RaftLog.Spec RaftLog.Layout
  RaftLog.InitProofs RaftLog.LogCrash RaftLog.LogCrashProofs RaftLog.StoreCrash RaftLog.StoreCrashProofs.
Local Open Scope N_scope.

Definition ex_rec (i : N) : lrec := mkRec i 1 [i mod 256; 7].
Definition ex_recs (n : nat) : list lrec := map (fun k => ex_rec (N.of_nat (S k))) (seq 0 n).

Ltac writable_compute :=
  repeat first
    [ exact I
    | split
    | apply Forall_nil | apply Forall_cons
    | (left; discriminate)
    | (vm_compute; reflexivity) ].

(** three appends and two last_applied saves: the hypotheses of crash_safe_log_append /
    crash_safe_store hold *)
Example ex_appendable : appendable (c_fresh 4096 1 0 0) (ex_recs 3).
Proof. cbn [ex_recs seq map appendable]. unfold writable, rec_ok, rec_nonempty. writable_compute. Qed.

Definition ex_store_ops : list sop :=
  [SAppend (ex_rec 1); SAppend (ex_rec 2); SApplied 1; SAppend (ex_rec 3); SApplied 3].

Example ex_store_hyps :
  appendable (c_fresh 4096 1 0 0) (appends ex_store_ops) /\ applied_ok 1 ex_store_ops.
Proof.
  split; [exact ex_appendable|]. cbn [ex_store_ops applied_ok]. writable_compute.
Qed.

(** the journal of the 3 appends: create, header, set_len, three data writes; the image after
    the second data write holds two records *)
Example ex_journal_shape :
  length (log_journal 4096 1 0 0 (ex_recs 3)) = 6%nat /\
  res_map end_index (init (crash_log (log_journal 4096 1 0 0 (ex_recs 3)) 5) 4096 1 0 0) = Ok 3.
Proof. split; vm_compute; reflexivity. Qed.

(** the block boundary: 128 appends issue 3 + 128 + 1 mutations; the image WITHOUT the last one
    (the index entry) reopens with all 128 records AND with the index entry rebuilt *)
Example ex_lagging_index :
  length (log_journal 4096 1 0 0 (ex_recs 128)) = 132%nat /\
  res_map (fun s => (end_index s, length (l_indexs s), l_icur s))
          (init (crash_log (log_journal 4096 1 0 0 (ex_recs 128)) 131) 4096 1 0 0) = Ok (129, 2%nat, 34) /\
  res_map l_file (init (crash_log (log_journal 4096 1 0 0 (ex_recs 128)) 131) 4096 1 0 0) =
  res_map l_file (init (crash_log (log_journal 4096 1 0 0 (ex_recs 128)) 132) 4096 1 0 0).
Proof. repeat split; vm_compute; reflexivity. Qed.

(** delete-from 5 of 10 records: the journal is [set_len cursor; set_len file_len]; each of its
    prefixes reopens to the full log (nothing cut yet) or to the kept prefix.  A FINITE
    enumeration for this history, not a theorem over all histories (see the C04 check for the
    exhaustive replay on the real code). *)
Definition ex_before_strip : res lim :=
  match init None 4096 1 0 0 with
  | Ok s => Ok (fold_left (fun st x => fst (write st x)) (ex_recs 10) s)
  | _ => Err
  end.

Example ex_strip_images :
  match ex_before_strip with
  | Ok s =>
      let j := strip_journal s 5 in
      length j = 2%nat /\
      map (fun k => res_map end_index
                      (init (apply_lmuts (Some (l_file s)) (firstn k j)) 4096 1 0 0))
          [0; 1; 2]%nat = [Ok 11; Ok 5; Ok 5]
  | _ => False
  end.
Proof. vm_compute. split; reflexivity. Qed.
