(** Reopening a well-formed log file ([init] on an existing file) reconstructs exactly the state
    that wrote it: index list, cursors, record count, last term. *)
From RN Require Import Base.Res Codec.Varint Codec.BufReader Codec.VarintProofs Codec.ScanProofs
  RaftLog.LogFile RaftLog.Spec RaftLog.Layout RaftLog.FileProofs RaftLog.RecordProofs
  RaftLog.ScanFileProofs RaftLog.ReadProofs.
From Coq Require Import ZifyBool ZifyNat ZifyN.
Local Open Scope N_scope.
Ltac Zify.zify_post_hook ::= Z.div_mod_to_equations.

(** * the index area *)
Lemma repeat_app' {A} (x : A) a b : repeat x a ++ repeat x b = repeat x (a + b).
Proof. symmetry. apply repeat_app. Qed.

Lemma idx_buf_conc c :
  wfc c -> idx_buf (c_file c) = ienc (c_blocks c) ++ repeat 0 (IDX_AREA - length (ienc (c_blocks c))).
Proof.
  intros W. pose proof (wf_idx_len c W) as Hl. unfold idx_buf. cbn [c_file f_idx].
  rewrite firstn_all2 by (rewrite app_length, repeat_length; lia).
  rewrite <- app_assoc, repeat_app', app_length, repeat_length. f_equal. f_equal. lia.
Qed.

Lemma ienc_all_bytes bs : all_bytes (ienc bs).
Proof.
  unfold ienc. induction bs as [|b bs IH]; [constructor|].
  cbn [map concat]. apply Forall_app. split; [apply write_varint_all_bytes|exact IH].
Qed.

Lemma read_varint_zeros pre n :
  all_bytes pre -> (1 <= n)%nat -> read_varint (pre ++ repeat 0 n) (length pre) = Ok 0.
Proof.
  intros Hp Hn. destruct n as [|n]; [lia|].
  change (repeat 0 (S n)) with (write_varint 0 ++ repeat 0 n).
  apply varint_roundtrip; [vm_compute; reflexivity|exact Hp|apply all_bytes_repeat0].
Qed.

Lemma read_indexs_loop_zero fuel B off lli lfi iv acc :
  read_indexs_loop fuel B 0 off lli lfi iv acc = (rev acc, off).
Proof. destruct fuel; reflexivity. Qed.

Definition block_ok (b : list lrec) : Prop := frl b < 2 ^ 64 /\ frl b <> 0.

Lemma read_indexs_loop_conc da zp : forall post pre b0 fuel lli lfi acc,
  da <= 4096 ->
  (length (ienc (pre ++ b0 :: post)) + zp = IDX_AREA)%nat ->
  idx_fits da (HDR_LEN + nlen (ienc pre)) (b0 :: post) ->
  Forall block_ok (b0 :: post) ->
  (length post < fuel)%nat ->
  read_indexs_loop fuel (ienc (pre ++ b0 :: post) ++ repeat 0 zp) (frl b0) (length (ienc pre)) lli lfi 128 acc
  = (rev acc ++ ixs_from lli lfi (b0 :: post), length (ienc (pre ++ b0 :: post))).
Proof.
  induction post as [|b1 post IH]; intros pre b0 fuel lli lfi acc Hda Hlen Hfits Hbok Hfuel;
    (destruct fuel as [|f]; [cbn [length] in Hfuel; lia|]); cbn [read_indexs_loop].
  - inversion Hbok as [|? ? [Hb64 Hb0] _]; subst.
    destruct (frl b0 =? 0) eqn:E0; [lia|].
    rewrite <- (varint_sizeof (frl b0) Hb64).
    assert (Hoff : (length (ienc pre) + length (write_varint (frl b0)))%nat = length (ienc (pre ++ [b0]))).
    { rewrite ienc_app, ienc_one, app_length. reflexivity. }
    rewrite Hoff. rewrite app_length, repeat_length.
    destruct (length (ienc (pre ++ [b0])) + zp - 10 <? length (ienc (pre ++ [b0])))%nat eqn:Ebr.
    + cbn [rev ixs_from]. reflexivity.
    + rewrite read_varint_zeros; [|apply ienc_all_bytes|unfold IDX_AREA in Hlen; lia].
      rewrite read_indexs_loop_zero. cbn [rev ixs_from]. reflexivity.
  - inversion Hbok as [|? ? [Hb64 Hb0] Hbok']; subst.
    destruct (frl b0 =? 0) eqn:E0; [lia|].
    rewrite <- (varint_sizeof (frl b0) Hb64).
    assert (Hoff : (length (ienc pre) + length (write_varint (frl b0)))%nat = length (ienc (pre ++ [b0]))).
    { rewrite ienc_app, ienc_one, app_length. reflexivity. }
    rewrite Hoff.
    cbn [idx_fits] in Hfits. destruct Hfits as [Hf0 [Hf1 Hf2]].
    assert (Hoff1 : HDR_LEN + nlen (ienc pre) + nlen (write_varint (frl b0)) = HDR_LEN + nlen (ienc (pre ++ [b0]))).
    { unfold nlen. rewrite <- Hoff. lia. }
    rewrite Hoff1 in Hf1, Hf2.
    assert (Hsplit : pre ++ b0 :: b1 :: post = (pre ++ [b0]) ++ b1 :: post) by (rewrite <- app_assoc; reflexivity).
    rewrite app_length, repeat_length.
    destruct (length (ienc (pre ++ b0 :: b1 :: post)) + zp - 10 <? length (ienc (pre ++ [b0])))%nat eqn:Ebr.
    { unfold IDX_AREA, HDR_LEN, nlen in *. lia. }
    inversion Hbok' as [|? ? [Hb164 _] _]; subst.
    assert (Hrd : read_varint (ienc (pre ++ b0 :: b1 :: post) ++ repeat 0 zp) (length (ienc (pre ++ [b0])))
                  = Ok (frl b1)).
    { rewrite Hsplit, ienc_app. cbn [ienc map concat]. fold (ienc post). rewrite <- !app_assoc.
      apply varint_roundtrip; [exact Hb164|apply ienc_all_bytes|].
      apply Forall_app. split; [apply ienc_all_bytes|apply all_bytes_repeat0]. }
    rewrite Hrd. rewrite Hsplit.
    cbn [length] in Hfuel.
    rewrite (IH (pre ++ [b0]) b1 f (lli + 128) (lfi + frl b0) ((lli + 128, lfi + frl b0) :: acc));
      try assumption; try lia.
    + cbn [rev ixs_from]. rewrite <- !app_assoc. reflexivity.
    + rewrite <- Hsplit. exact Hlen.
    + cbn [idx_fits]. split; assumption.
Qed.

Lemma read_indexs_loop_conc0 da zp post b0 fuel lli lfi acc :
  da <= 4096 ->
  (length (ienc (b0 :: post)) + zp = IDX_AREA)%nat ->
  idx_fits da HDR_LEN (b0 :: post) ->
  Forall block_ok (b0 :: post) ->
  (length post < fuel)%nat ->
  read_indexs_loop fuel (ienc (b0 :: post) ++ repeat 0 zp) (frl b0) 0 lli lfi 128 acc
  = (rev acc ++ ixs_from lli lfi (b0 :: post), length (ienc (b0 :: post))).
Proof.
  intros Hda Hlen Hfits Hbok Hfuel.
  apply (read_indexs_loop_conc da zp post [] b0 fuel lli lfi acc); assumption.
Qed.

Lemma blocks_ok c : wfc c -> Forall block_ok (c_blocks c).
Proof.
  intros W. pose proof (wf_small c W) as Hs. pose proof (wf_blocks c W) as Hb.
  pose proof (wf_ok c W) as Hok. pose proof (wf_nonempty c W) as Hne.
  unfold c_dcur, c_all in *. rewrite frl_app in Hs.
  apply Forall_app in Hok. destruct Hok as [Hok _]. apply Forall_app in Hne. destruct Hne as [Hne _].
  revert Hs Hb Hok Hne. generalize (c_blocks c) as bs. induction bs as [|b bs IH]; intros Hs Hb Hok Hne; [constructor|].
  cbn [concat] in *. rewrite frl_app in Hs. inversion Hb; subst.
  apply Forall_app in Hok. apply Forall_app in Hne.
  constructor; [|apply IH; try tauto; lia].
  split; [assert (2 ^ 63 < 2 ^ 64) by (vm_compute; reflexivity); lia|].
  destruct b as [|x b]; [cbn [length] in *; lia|].
  unfold frl. rewrite fr_cons, nlen_app.
  destruct Hok as [Hok _]. destruct Hne as [Hne' _].
  apply Forall_cons_iff in Hok. apply Forall_cons_iff in Hne'.
  pose proof (rec_frame_length_ge3 x (proj1 Hok) (proj1 Hne')). unfold nlen. lia.
Qed.

Theorem read_indexs_conc c :
  wfc c ->
  read_indexs (idx_buf (c_file c)) (c_first c, DATA0) 128
  = Ok (ixs_of (c_first c) (c_blocks c), nlen (ienc (c_blocks c))).
Proof.
  intros W. rewrite (idx_buf_conc c W). pose proof (wf_idx_len c W) as Hl.
  unfold read_indexs.
  destruct (c_blocks c) as [|b0 post] eqn:Eb.
  - cbn [ienc map concat app length]. rewrite Nat.sub_0_r.
    change (read_varint (repeat 0 IDX_AREA) 0) with (read_varint ([] ++ repeat 0 IDX_AREA) (length (@nil N))).
    rewrite read_varint_zeros; [|constructor|unfold IDX_AREA; lia].
    rewrite read_indexs_loop_zero. reflexivity.
  - pose proof (blocks_ok c W) as Hbok. rewrite Eb in Hbok.
    inversion Hbok as [|? ? [Hb64 _] _]; subst.
    assert (Hrd : read_varint (ienc (b0 :: post) ++ repeat 0 (IDX_AREA - length (ienc (b0 :: post)))) 0 = Ok (frl b0)).
    { cbn [ienc map concat]. fold (ienc post). rewrite <- app_assoc.
      apply (varint_roundtrip (frl b0) []); [exact Hb64|constructor|].
      apply Forall_app. split; [apply ienc_all_bytes|apply all_bytes_repeat0]. }
    rewrite Hrd.
    cbn [fst snd].
    rewrite (read_indexs_loop_conc0 (c_da c)).
    + cbn [rev app]. unfold ixs_of, nlen. reflexivity.
    + apply (wf_da c W).
    + lia.
    + pose proof (wf_fits c W) as Hf. rewrite Eb in Hf. exact Hf.
    + exact Hbok.
    + rewrite app_length, repeat_length.
      assert (Hle : (length post <= length (ienc post))%nat).
      { clear. unfold ienc. induction post as [|b bs IH]; [cbn; lia|].
        cbn [map concat length]. rewrite app_length. pose proof (write_varint_length (frl b)). lia. }
      cbn [ienc map concat] in Hl |- *. fold (ienc post) in Hl |- *. rewrite app_length in Hl |- *.
      pose proof (write_varint_length (frl b0)). lia.
Qed.

(** * the reopened state *)
Definition c_last_term (c : cst) (pre : N) : N :=
  match rev (c_all c) with x :: _ => r_term x | [] => pre end.

Definition c_reopen (c : cst) (pre split : N) : cst :=
  let nonempty := 0 <? nlen (c_all c) in
  mkCst (c_first c) (c_blocks c) (c_part c) (c_z c) (c_flen c) (c_hterm c) (c_da c)
        (c_last_term c pre) nonempty (if nonempty then 0 else c_dcur c) (N.max split (c_first c)).

Lemma wfc_reopen c pre split : wfc c -> wfc (c_reopen c pre split).
Proof.
  intros W. destruct W. constructor;
    cbn [c_reopen c_blocks c_part c_first c_z c_flen c_da c_seek c_dpos c_split]; try assumption.
  - intros H. rewrite H. reflexivity.
  - lia.
Qed.

Lemma c_all_reopen c pre split : c_all (c_reopen c pre split) = c_all c.
Proof. reflexivity. Qed.

(** on a file whose index is complete the repaired init writes nothing *)
Lemma rebuild_index_noop fu f ixs icur start cnt :
  start + cnt < fst (last_ix ixs) + h_interval (f_hdr f) ->
  rebuild_index (S fu) f ixs icur start cnt = Ok (f, ixs, icur).
Proof.
  intros H. cbn [rebuild_index].
  destruct (start + cnt <? fst (last_ix ixs) + h_interval (f_hdr f)) eqn:E; [|lia].
  rewrite Bool.orb_true_r. reflexivity.
Qed.

Theorem init_conc c limit pre split :
  wfc c ->
  init (Some (c_file c)) limit (c_first c) pre split = Ok (conc (c_reopen c pre split)).
Proof.
  intros W. unfold init. cbn [c_file f_hdr h_interval].
  fold (c_file c). rewrite (read_indexs_conc c W). cbn [res_bind f_len c_file].
  fold (c_file c).
  unfold move_to_end, move_to_index_by_count, last_ix. rewrite last_ixs_of. cbn [fst snd].
  pose proof (concat_blocks_length _ (wf_blocks c W)) as Hcb.
  destruct (c_first c + 128 * nlen (c_blocks c) <? c_first c) eqn:E1; [lia|].
  replace (65535 =? 0) with false by reflexivity.
  pose proof (wf_part c W) as Hpart.
  rewrite (scan_file_to_end c (concat (c_blocks c)) (c_part c) 65535); [|exact W|reflexivity|unfold nlen; lia].
  cbn [res_bind].
  rewrite rebuild_index_noop
    by (unfold last_ix; rewrite last_ixs_of; cbn [fst c_file f_hdr h_interval]; unfold nlen in *; lia).
  cbn [res_bind]. unfold init_finish. cbn [f_hdr c_file h_interval].
  replace (128 =? 0) with false by reflexivity.
  (* the state before last_term is recovered *)
  set (c0 := mkCst (c_first c) (c_blocks c) (c_part c) (c_z c) (c_flen c) (c_hterm c) (c_da c)
                   pre false (c_dcur c) (c_first c)).
  assert (W0 : wfc c0).
  { destruct W. constructor; subst c0;
      cbn [c_blocks c_part c_first c_z c_flen c_da c_seek c_dpos c_split]; try assumption.
    - reflexivity.
    - lia. }
  assert (Hcnt : c_first c + 128 * nlen (c_blocks c) - c_first c + nlen (c_part c) = nlen (c_all c)).
  { unfold c_all. rewrite nlen_app, Hcb. lia. }
  rewrite Hcnt.
  assert (Hmod : nlen (c_all c) mod 128 = nlen (c_part c)).
  { unfold c_all. rewrite nlen_app, Hcb. unfold nlen in *. lia. }
  rewrite Hmod.
  match goal with
  | |- context [mkLim ?f ?ix ?st ?ic ?fl ?dc ?cn ?lt ?ci ?sk ?dp ?sp] =>
      replace (mkLim f ix st ic fl dc cn lt ci sk dp sp) with (conc c0)
        by (unfold conc, c0, c_file, c_dcur, c_all; cbn [c_first c_blocks c_part c_z c_flen c_hterm c_da
              c_lterm c_seek c_dpos c_split]; f_equal; lia)
  end.
  unfold c_reopen.
  destruct (0 <? nlen (c_all c)) eqn:Ene.
  - unfold end_index. cbn [conc l_start l_cnt].
    change (c_all c0) with (c_all c). change (c_first c0) with (c_first c).
    rewrite (read_records_conc c0 _ _ W0).
    (* the slice is the last record *)
    destruct (exists_last (l := c_all c)) as (l & x & Hlx).
    { intros H. rewrite H in Ene. unfold nlen in Ene. cbn [length] in Ene. lia. }
    assert (Hslice : c_slice c0 (c_first c + nlen (c_all c) - 1) (c_first c + nlen (c_all c)) = [x]).
    { unfold c_slice. change (c_all c0) with (c_all c). change (c_first c0) with (c_first c).
      change (c_split c0) with (c_first c). cbv zeta.
      destruct (N.min (c_first c + nlen (c_all c)) (c_first c + nlen (c_all c))
                <=? N.max (c_first c + nlen (c_all c) - 1) (c_first c)) eqn:E; [lia|].
      rewrite Hlx. rewrite nlen_app. unfold nlen. cbn [length].
      rewrite skipn_app. rewrite skipn_all2 by lia.
      replace (N.to_nat (N.max (c_first c + (N.of_nat (length l) + N.of_nat 1) - 1) (c_first c) - c_first c) - length l)%nat
        with 0%nat by lia.
      cbn [app skipn]. 
      replace (N.to_nat (N.min (c_first c + (N.of_nat (length l) + N.of_nat 1)) (c_first c + (N.of_nat (length l) + N.of_nat 1)) -
                 N.max (c_first c + (N.of_nat (length l) + N.of_nat 1) - 1) (c_first c))) with 1%nat by lia.
      reflexivity. }
    assert (Hafter : c_after_read c0 (c_first c + nlen (c_all c) - 1) (c_first c + nlen (c_all c)) =
                     mkCst (c_first c) (c_blocks c) (c_part c) (c_z c) (c_flen c) (c_hterm c) (c_da c)
                           pre true 0 (c_first c)).
    { unfold c_after_read. change (c_all c0) with (c_all c). change (c_first c0) with (c_first c).
      change (c_split c0) with (c_first c). cbv zeta.
      destruct (N.min (c_first c + nlen (c_all c)) (c_first c + nlen (c_all c))
                <=? N.max (c_first c + nlen (c_all c) - 1) (c_first c)) eqn:E; [lia|]. reflexivity. }
    assert (Hlt : c_last_term c pre = r_term x).
    { unfold c_last_term. rewrite Hlx, rev_app_distr. reflexivity. }
    rewrite Hslice, Hafter, Hlt. cbn [rev app].
    unfold set_split, conc. cbn [l_file l_indexs l_start l_icur l_flen l_dcur l_cnt l_lterm l_cic l_seek l_dpos l_split
                                 c_first c_blocks c_part c_z c_flen c_hterm c_da c_lterm c_seek c_dpos c_split].
    reflexivity.
  - unfold c_last_term.
    assert (Hnil : c_all c = []).
    { destruct (c_all c); [reflexivity|unfold nlen in Ene; cbn [length] in Ene; lia]. }
    rewrite Hnil. cbn [rev].
    unfold set_split, conc. cbn [l_file l_indexs l_start l_icur l_flen l_dcur l_cnt l_lterm l_cic l_seek l_dpos l_split
                                 c_first c_blocks c_part c_z c_flen c_hterm c_da c_lterm c_seek c_dpos c_split c0].
    reflexivity.
Qed.

(** * a fresh file *)
Definition c_fresh (limit start pre split : N) : cst :=
  mkCst start [] [] 0 BUF_SIZE pre limit pre false DATA0 (N.max split start).

Lemma wfc_fresh limit start pre split : limit <= 4096 -> wfc (c_fresh limit start pre split).
Proof.
  intros Hl. constructor; unfold c_fresh, c_dcur, c_all;
    cbn [c_blocks c_part c_first c_z c_flen c_da c_seek c_dpos c_split concat app].
  - constructor.
  - cbn [length]. lia.
  - exact I.
  - constructor.
  - constructor.
  - rewrite frl_nil. unfold DATA0, BUF_SIZE. lia.
  - rewrite frl_nil. unfold DATA0. assert (2 ^ 63 = 9223372036854775808) by (vm_compute; reflexivity). lia.
  - exact Hl.
  - exact I.
  - cbn [ienc map concat length]. unfold IDX_AREA. lia.
  - intros _. rewrite frl_nil. lia.
  - lia.
  - reflexivity.
Qed.

Theorem init_fresh limit start pre split :
  limit <= 4096 -> init None limit start pre split = Ok (conc (c_fresh limit start pre split)).
Proof.
  intros Hl. pose proof (wfc_fresh limit start pre split Hl) as W.
  unfold init. cbn [res_bind].
  change (mkFile (mkHdr pre start limit 128) [] [] BUF_SIZE) with (c_file (c_fresh limit start pre split)).
  unfold move_to_end, move_to_index_by_count, last_ix. cbn [last fst snd].
  destruct (start <? start) eqn:E; [lia|].
  replace (65535 =? 0) with false by reflexivity.
  pose proof (scan_file_to_end (c_fresh limit start pre split) [] [] 65535 (start - start) W eq_refl) as Hs.
  rewrite frl_nil, N.add_0_r in Hs. rewrite Hs by (unfold nlen; cbn [length]; lia).
  cbn [res_bind].
  rewrite rebuild_index_noop
    by (unfold last_ix; cbn [last fst c_file f_hdr h_interval]; unfold nlen; cbn [length]; lia).
  cbn [res_bind]. unfold init_finish. cbn [c_file f_hdr h_interval]. replace (128 =? 0) with false by reflexivity.
  replace (start - start + nlen []) with 0 by (unfold nlen; cbn [length]; lia).
  replace (0 <? 0) with false by reflexivity.
  unfold set_split, conc, c_fresh, c_dcur, c_all.
  cbn [l_file l_indexs l_start l_icur l_flen l_dcur l_cnt l_lterm l_cic l_seek l_dpos l_split
       c_first c_blocks c_part c_z c_flen c_hterm c_da c_lterm c_seek c_dpos c_split concat app].
  rewrite frl_nil. reflexivity.
Qed.
