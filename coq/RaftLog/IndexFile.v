(** Model of src/raft/filestore/raftindex.rs (RaftIndexInnerManager / RaftIndexManager), of the
    RaftIndex message of src/raft/filestore/log.rs and of RaftIndexDto (model.rs).

    index file  =  8-byte big-endian last_applied  ++  frame(RaftIndex body)  ++  stale tail
    - [init]               the REPAIRED fresh-file rule (fix commits in /repo): a file shorter than
                           9 bytes is fresh; otherwise the header and ONE length-prefixed record
                           are read; a zero length byte is the all-default record
    - [write_index]        in-place rewrite at offset 8, no truncation
    - [write_last_applied] 8 bytes at offset 0
    - the writers of RaftIndexManager are read-modify-write on the shared in-memory record.

    RaftIndexDto.node_addrs is a HashMap: modelled as an association list in strictly increasing
    key order ([amap_*]); [to_record_do] iterates the HashMap in an unspecified order, modelled by
    an arbitrary reordering [sh k] of the k-th write (the theorems quantify over every [sh] that
    permutes).  Model only, no proofs in this file. *)
From RN Require Export Base.Res Base.Fs Codec.Varint Codec.PbWire Codec.BufReader.
Local Open Scope N_scope.

(** * messages *)
Record log_range : Type := mkLR {
  lr_id : N; lr_pre_term : N; lr_start_index : N; lr_record_count : N; lr_split_off_index : N;
  lr_is_close : bool; lr_mark_remove : bool }.

Record snap_range : Type := mkSR { sr_id : N; sr_end_index : N }.

Definition addr_map : Type := list (N * list N).    (* id -> address (UTF-8 bytes) *)

Record raft_index : Type := mkRI {
  ri_logs : list log_range;
  ri_current_log : N;
  ri_snapshots : list snap_range;
  ri_last_snapshot : N;
  ri_last_snapshot_index : N;
  ri_last_snapshot_term : N;
  ri_current_term : N;
  ri_voted_for : N;
  ri_member : list N;
  ri_mac : list N;                 (* member_after_consensus *)
  ri_node_addrs : addr_map }.

Definition lr_default : log_range := mkLR 0 0 0 0 0 false false.
Definition sr_default : snap_range := mkSR 0 0.
Definition ri_default : raft_index := mkRI [] 0 [] 0 0 0 0 0 [] [] [].

(** * HashMap<u64, Arc<String>> as a strictly sorted association list *)
Fixpoint amap_insert (k : N) (v : list N) (m : addr_map) : addr_map :=
  match m with
  | [] => [(k, v)]
  | (k', v') :: m' =>
      if k <? k' then (k, v) :: m
      else if k =? k' then (k, v) :: m'
      else (k', v') :: amap_insert k v m'
  end.

Fixpoint amap_get (k : N) (m : addr_map) : option (list N) :=
  match m with
  | [] => None
  | (k', v') :: m' => if k =? k' then Some v' else amap_get k m'
  end.

(** HashMap::new + insert of every item in order (later items win) *)
Definition amap_of_list (l : list (N * list N)) : addr_map :=
  fold_left (fun m kv => amap_insert (fst kv) (snd kv) m) l [].

(** * write side (MessageWrite impls of log.rs): a message is a list of wire fields *)
Definition opt_var (n v : N) : list wfield := if v =? 0 then [] else [(n, WVar v)].
Definition opt_bool (n : N) (b : bool) : list wfield := if b then [(n, WVar 1)] else [].
Definition opt_len (n : N) (bs : list N) : list wfield :=
  match bs with [] => [] | _ :: _ => [(n, WLen bs)] end.
Definition packed (n : N) (vs : list N) : list wfield :=
  match vs with [] => [] | _ :: _ => [(n, WLen (enc_packed vs))] end.
Definition sub (n : N) (fs : list wfield) : wfield := (n, WLen (enc_fields fs)).

Definition lr_fields (l : log_range) : list wfield :=
  opt_var 1 (lr_id l) ++ opt_var 2 (lr_pre_term l) ++ opt_var 3 (lr_start_index l) ++
  opt_var 4 (lr_record_count l) ++ opt_var 5 (lr_split_off_index l) ++
  opt_bool 6 (lr_is_close l) ++ opt_bool 7 (lr_mark_remove l).

Definition sr_fields (s : snap_range) : list wfield :=
  opt_var 1 (sr_id s) ++ opt_var 2 (sr_end_index s).

Definition na_fields (a : N * list N) : list wfield :=
  opt_var 1 (fst a) ++ opt_len 2 (snd a).

(** RaftIndex::write_message; [ri_node_addrs] here is the Vec built by to_record_do *)
Definition ri_fields (r : raft_index) : list wfield :=
  map (fun l => sub 1 (lr_fields l)) (ri_logs r) ++
  opt_var 2 (ri_current_log r) ++
  map (fun s => sub 3 (sr_fields s)) (ri_snapshots r) ++
  opt_var 4 (ri_last_snapshot r) ++
  opt_var 5 (ri_last_snapshot_index r) ++
  opt_var 6 (ri_last_snapshot_term r) ++
  opt_var 7 (ri_current_term r) ++
  opt_var 8 (ri_voted_for r) ++
  packed 9 (ri_member r) ++
  packed 10 (ri_mac r) ++
  map (fun a => sub 11 (na_fields a)) (ri_node_addrs r).

Definition enc_index (r : raft_index) : list N := enc_fields (ri_fields r).

(** * read side (MessageRead impls): folds over the parsed field list; unknown tags are skipped *)
Definition dec_lr_step (m : log_range) (f : wfield) : log_range :=
  match f with
  | (1, WVar v) => mkLR v (lr_pre_term m) (lr_start_index m) (lr_record_count m) (lr_split_off_index m) (lr_is_close m) (lr_mark_remove m)
  | (2, WVar v) => mkLR (lr_id m) v (lr_start_index m) (lr_record_count m) (lr_split_off_index m) (lr_is_close m) (lr_mark_remove m)
  | (3, WVar v) => mkLR (lr_id m) (lr_pre_term m) v (lr_record_count m) (lr_split_off_index m) (lr_is_close m) (lr_mark_remove m)
  | (4, WVar v) => mkLR (lr_id m) (lr_pre_term m) (lr_start_index m) v (lr_split_off_index m) (lr_is_close m) (lr_mark_remove m)
  | (5, WVar v) => mkLR (lr_id m) (lr_pre_term m) (lr_start_index m) (lr_record_count m) v (lr_is_close m) (lr_mark_remove m)
  | (6, WVar v) => mkLR (lr_id m) (lr_pre_term m) (lr_start_index m) (lr_record_count m) (lr_split_off_index m) (negb (v =? 0)) (lr_mark_remove m)
  | (7, WVar v) => mkLR (lr_id m) (lr_pre_term m) (lr_start_index m) (lr_record_count m) (lr_split_off_index m) (lr_is_close m) (negb (v =? 0))
  | _ => m
  end.
Definition dec_lr (fs : list wfield) : log_range := fold_left dec_lr_step fs lr_default.

Definition dec_sr_step (m : snap_range) (f : wfield) : snap_range :=
  match f with
  | (1, WVar v) => mkSR v (sr_end_index m)
  | (2, WVar v) => mkSR (sr_id m) v
  | _ => m
  end.
Definition dec_sr (fs : list wfield) : snap_range := fold_left dec_sr_step fs sr_default.

Definition dec_na_step (m : N * list N) (f : wfield) : N * list N :=
  match f with
  | (1, WVar v) => (v, snd m)
  | (2, WLen bs) => (fst m, bs)
  | _ => m
  end.
Definition dec_na (fs : list wfield) : N * list N := fold_left dec_na_step fs (0, []).

Definition set_logs (r : raft_index) (x : list log_range) : raft_index :=
  mkRI x (ri_current_log r) (ri_snapshots r) (ri_last_snapshot r) (ri_last_snapshot_index r)
       (ri_last_snapshot_term r) (ri_current_term r) (ri_voted_for r) (ri_member r) (ri_mac r) (ri_node_addrs r).
Definition set_current_log (r : raft_index) (x : N) : raft_index :=
  mkRI (ri_logs r) x (ri_snapshots r) (ri_last_snapshot r) (ri_last_snapshot_index r)
       (ri_last_snapshot_term r) (ri_current_term r) (ri_voted_for r) (ri_member r) (ri_mac r) (ri_node_addrs r).
Definition set_snapshots (r : raft_index) (x : list snap_range) : raft_index :=
  mkRI (ri_logs r) (ri_current_log r) x (ri_last_snapshot r) (ri_last_snapshot_index r)
       (ri_last_snapshot_term r) (ri_current_term r) (ri_voted_for r) (ri_member r) (ri_mac r) (ri_node_addrs r).
Definition set_last_snapshot (r : raft_index) (x : N) : raft_index :=
  mkRI (ri_logs r) (ri_current_log r) (ri_snapshots r) x (ri_last_snapshot_index r)
       (ri_last_snapshot_term r) (ri_current_term r) (ri_voted_for r) (ri_member r) (ri_mac r) (ri_node_addrs r).
Definition set_last_snapshot_index (r : raft_index) (x : N) : raft_index :=
  mkRI (ri_logs r) (ri_current_log r) (ri_snapshots r) (ri_last_snapshot r) x
       (ri_last_snapshot_term r) (ri_current_term r) (ri_voted_for r) (ri_member r) (ri_mac r) (ri_node_addrs r).
Definition set_last_snapshot_term (r : raft_index) (x : N) : raft_index :=
  mkRI (ri_logs r) (ri_current_log r) (ri_snapshots r) (ri_last_snapshot r) (ri_last_snapshot_index r)
       x (ri_current_term r) (ri_voted_for r) (ri_member r) (ri_mac r) (ri_node_addrs r).
Definition set_current_term (r : raft_index) (x : N) : raft_index :=
  mkRI (ri_logs r) (ri_current_log r) (ri_snapshots r) (ri_last_snapshot r) (ri_last_snapshot_index r)
       (ri_last_snapshot_term r) x (ri_voted_for r) (ri_member r) (ri_mac r) (ri_node_addrs r).
Definition set_voted_for (r : raft_index) (x : N) : raft_index :=
  mkRI (ri_logs r) (ri_current_log r) (ri_snapshots r) (ri_last_snapshot r) (ri_last_snapshot_index r)
       (ri_last_snapshot_term r) (ri_current_term r) x (ri_member r) (ri_mac r) (ri_node_addrs r).
Definition set_member (r : raft_index) (x : list N) : raft_index :=
  mkRI (ri_logs r) (ri_current_log r) (ri_snapshots r) (ri_last_snapshot r) (ri_last_snapshot_index r)
       (ri_last_snapshot_term r) (ri_current_term r) (ri_voted_for r) x (ri_mac r) (ri_node_addrs r).
Definition set_mac (r : raft_index) (x : list N) : raft_index :=
  mkRI (ri_logs r) (ri_current_log r) (ri_snapshots r) (ri_last_snapshot r) (ri_last_snapshot_index r)
       (ri_last_snapshot_term r) (ri_current_term r) (ri_voted_for r) (ri_member r) x (ri_node_addrs r).
Definition set_node_addrs (r : raft_index) (x : addr_map) : raft_index :=
  mkRI (ri_logs r) (ri_current_log r) (ri_snapshots r) (ri_last_snapshot r) (ri_last_snapshot_index r)
       (ri_last_snapshot_term r) (ri_current_term r) (ri_voted_for r) (ri_member r) (ri_mac r) x.

(** RaftIndex::from_reader: tags 10/26/90 push a sub-message, 74/82 replace by read_packed *)
Definition dec_ri_step (m : raft_index) (f : wfield) : res raft_index :=
  match f with
  | (1, WLen bs) => res_bind (parse bs) (fun fs => Ok (set_logs m (ri_logs m ++ [dec_lr fs])))
  | (2, WVar v) => Ok (set_current_log m v)
  | (3, WLen bs) => res_bind (parse bs) (fun fs => Ok (set_snapshots m (ri_snapshots m ++ [dec_sr fs])))
  | (4, WVar v) => Ok (set_last_snapshot m v)
  | (5, WVar v) => Ok (set_last_snapshot_index m v)
  | (6, WVar v) => Ok (set_last_snapshot_term m v)
  | (7, WVar v) => Ok (set_current_term m v)
  | (8, WVar v) => Ok (set_voted_for m v)
  | (9, WLen bs) => res_bind (unpack bs) (fun vs => Ok (set_member m vs))
  | (10, WLen bs) => res_bind (unpack bs) (fun vs => Ok (set_mac m vs))
  | (11, WLen bs) => res_bind (parse bs) (fun fs => Ok (set_node_addrs m (ri_node_addrs m ++ [dec_na fs])))
  | _ => Ok m
  end.

Fixpoint dec_ri_fold (fs : list wfield) (m : raft_index) : res raft_index :=
  match fs with
  | [] => Ok m
  | f :: fs' => res_bind (dec_ri_step m f) (dec_ri_fold fs')
  end.

Definition dec_ri (fs : list wfield) : res raft_index := dec_ri_fold fs ri_default.

(** impl From<RaftIndex> for RaftIndexDto: the address Vec is inserted into a HashMap *)
Definition to_dto (r : raft_index) : raft_index := set_node_addrs r (amap_of_list (ri_node_addrs r)).
(** RaftIndexDto::to_record_do: the HashMap is iterated in some order [s] *)
Definition to_do (s : addr_map -> addr_map) (r : raft_index) : raft_index :=
  set_node_addrs r (s (ri_node_addrs r)).

Definition decode_index (body : list N) : res raft_index :=
  res_bind (parse body) (fun fs => res_map to_dto (dec_ri fs)).

(** * bytes of the file *)
(** id_to_bin / bin_to_id: u64 big endian *)
Fixpoint be_bytes (n : nat) (v : N) : list N :=
  match n with
  | O => []
  | S n' => be_bytes n' (v / 256) ++ [v mod 256]
  end.
Definition be8 (v : N) : list N := be_bytes 8 v.
Definition of_be (bs : list N) : N := fold_left (fun a b => a * 256 + b) bs 0.

(** [write_at] (seek + write_all without truncation) is in Base/Fs.v *)

(** the record is written by Writer::write_message: varint(get_size) ++ body *)
Definition index_record (s : addr_map -> addr_map) (r : raft_index) : list N :=
  frame (enc_index (to_do s r)).

(** * RaftIndexInnerManager *)
Record ist : Type := mkIst {
  i_file : list N;          (* content of <dir>/index *)
  i_index : raft_index;     (* raft_index: RaftIndexDto *)
  i_applied : N;            (* last_applied_log *)
  i_wcount : nat }.         (* number of record writes so far (selects the HashMap order) *)

(** the read branch of init, after the 8 header bytes: one byte is peeked at offset 8;
    0 = all-default record; otherwise FileMessageReader::read_next at 8 returns the whole frame,
    and BytesReader::read_message reads the length again and then exactly that many bytes *)
Definition read_index_record (f : list N) : res raft_index :=
  match nth_error f 8 with
  | None => Err
  | Some b0 =>
      if b0 =? 0 then Ok ri_default
      else
        res_bind (fmr_read_next (mkFmr f 8 8)) (fun '(buf, _) =>
        res_bind (rdv 10 buf) (fun '(len, r1) =>
        res_bind (take_n len r1) (fun '(body, _) => decode_index body)))
  end.

(** id_to_bin(0) ++ write_message(RaftIndex::default()) = eight zero bytes and a zero length *)
Definition fresh_image : list N := be8 0 ++ frame (enc_index ri_default).

Definition init (sh : nat -> addr_map -> addr_map) (n0 : nat) (f : list N) : res ist :=
  if (length f <? 9)%nat then
    Ok (mkIst (write_at f 0 fresh_image) ri_default 0 n0)
  else
    res_map (fun r => mkIst f r (of_be (firstn 8 f)) n0) (read_index_record f).

Definition write_last_applied (st : ist) (v : N) : ist :=
  mkIst (write_at (i_file st) 0 (be8 v)) (i_index st) v (i_wcount st).

Definition write_index (sh : nat -> addr_map -> addr_map) (st : ist) (r : raft_index) : ist :=
  mkIst (write_at (i_file st) 8 (index_record (sh (i_wcount st)) r)) r (i_applied st) (S (i_wcount st)).

(** * RaftIndexManager: the writers (RaftIndexRequest handlers) *)
Inductive iop : Type :=
| OpHardState (term vote : N)
| OpMember (member : list N) (mac : option (list N)) (addrs : option (list (N * list N)))
| OpAddAddr (id : N) (addr : list N)
| OpLogs (logs : list log_range)
| OpSnaps (snaps : list snap_range)
| OpApplied (v : N)
| OpReopen.

(** the in-memory read-modify-write part of each handler *)
Definition upd_index (r : raft_index) (op : iop) : raft_index :=
  match op with
  | OpHardState t v => set_voted_for (set_current_term r t) v
  | OpMember m mac na =>
      let r1 := set_member r m in
      let r2 := match mac with Some x => set_mac r1 x | None => r1 end in
      match na with Some l => set_node_addrs r2 (amap_of_list l) | None => r2 end
  | OpAddAddr id a => set_node_addrs r (amap_insert id a (ri_node_addrs r))
  | OpLogs ls => set_logs r ls
  | OpSnaps ss => set_snapshots r ss
  | OpApplied _ => r
  | OpReopen => r
  end.

Definition step (sh : nat -> addr_map -> addr_map) (st : ist) (op : iop) : res ist :=
  match op with
  | OpApplied v => Ok (write_last_applied st v)
  | OpReopen => init sh (i_wcount st) (i_file st)
  | _ => Ok (write_index sh st (upd_index (i_index st) op))
  end.

Fixpoint run_from (sh : nat -> addr_map -> addr_map) (st : ist) (ops : list iop) : res ist :=
  match ops with
  | [] => Ok st
  | op :: ops' => res_bind (step sh st op) (fun st' => run_from sh st' ops')
  end.

(** a node started in an empty directory (the file is created empty, then initialised) *)
Definition run (sh : nat -> addr_map -> addr_map) (ops : list iop) : res ist :=
  res_bind (init sh 0 []) (fun st => run_from sh st ops).

(** * what the property talks about: the last saved value of each field *)
Definition astate : Type := (raft_index * N)%type.
Definition astep (a : astate) (op : iop) : astate :=
  match op with
  | OpApplied v => (fst a, v)
  | _ => (upd_index (fst a) op, snd a)
  end.
Definition arun (ops : list iop) : astate := fold_left astep ops (ri_default, 0).

Fixpoint last_hard_state (ops : list iop) (acc : N * N) : N * N :=
  match ops with
  | [] => acc
  | OpHardState t v :: r => last_hard_state r (t, v)
  | _ :: r => last_hard_state r acc
  end.

Fixpoint last_membership (ops : list iop) (acc : list N * list N) : list N * list N :=
  match ops with
  | [] => acc
  | OpMember m mac _ :: r =>
      last_membership r (m, match mac with Some x => x | None => snd acc end)
  | _ :: r => last_membership r acc
  end.

Fixpoint last_addrs (ops : list iop) (acc : addr_map) : addr_map :=
  match ops with
  | [] => acc
  | OpAddAddr id a :: r => last_addrs r (amap_insert id a acc)
  | OpMember _ _ (Some l) :: r => last_addrs r (amap_of_list l)
  | _ :: r => last_addrs r acc
  end.

Fixpoint last_logs (ops : list iop) (acc : list log_range) : list log_range :=
  match ops with [] => acc | OpLogs l :: r => last_logs r l | _ :: r => last_logs r acc end.
Fixpoint last_snaps (ops : list iop) (acc : list snap_range) : list snap_range :=
  match ops with [] => acc | OpSnaps l :: r => last_snaps r l | _ :: r => last_snaps r acc end.
Fixpoint last_applied (ops : list iop) (acc : N) : N :=
  match ops with [] => acc | OpApplied v :: r => last_applied r v | _ :: r => last_applied r acc end.

(** * well-formedness: what the Rust types guarantee (u64 values, byte strings) *)
Definition u64 (v : N) : Prop := v < 2 ^ 64.
Definition wf_lr (l : log_range) : Prop :=
  u64 (lr_id l) /\ u64 (lr_pre_term l) /\ u64 (lr_start_index l) /\ u64 (lr_record_count l) /\
  u64 (lr_split_off_index l).
Definition wf_sr (s : snap_range) : Prop := u64 (sr_id s) /\ u64 (sr_end_index s).
Definition wf_na (a : N * list N) : Prop := u64 (fst a) /\ all_bytes (snd a) /\ N.of_nat (length (snd a)) < 2 ^ 64.

Definition wf_op (op : iop) : Prop :=
  match op with
  | OpHardState t v => u64 t /\ u64 v
  | OpMember m mac na =>
      Forall u64 m /\ match mac with Some x => Forall u64 x | None => True end /\
      match na with Some l => Forall wf_na l | None => True end
  | OpAddAddr id a => wf_na (id, a)
  | OpLogs ls => Forall wf_lr ls
  | OpSnaps ss => Forall wf_sr ss
  | OpApplied v => u64 v
  | OpReopen => True
  end.

(** quick-protobuf reads a message length with read_varint32: records stay below 2^32 bytes.
    [fits] says so for every record the history writes (sizes do not depend on the order) *)
Definition rec_limit : N := 2 ^ 32.
Definition rec_size (r : raft_index) : N := N.of_nat (length (enc_index r)).
Fixpoint fits (a : astate) (ops : list iop) : Prop :=
  match ops with
  | [] => True
  | op :: ops' => rec_size (fst (astep a op)) < rec_limit /\ fits (astep a op) ops'
  end.
