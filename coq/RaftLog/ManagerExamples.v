(** Non-vacuity of the manager refinement: a concrete history through rollover (two log files with
    the hooked limit 43 = 128 records per file), a snapshot pointer, a delete-from, a re-append and
    a restart stays in scope ([mops_ok]) and ends in a represented state with the expected log. *)
From RN Require Import Base.Res Codec.Varint Codec.BufReader
  RaftLog.LogFile RaftLog.Spec RaftLog.Layout RaftLog.RecordProofs RaftLog.Refine
  RaftLog.LogManager RaftLog.ManagerInv RaftLog.ManagerSpec RaftLog.ManagerRefine.
From Coq Require Import ZifyBool ZifyNat ZifyN.
Local Open Scope N_scope.

Definition mx_rec (term : N) (i : nat) : lrec := mkRec (1 + N.of_nat i) term [7; N.of_nat i mod 256; 0].
Definition mx_batch : list lrec := map (mx_rec 1) (seq 0 130).
Definition mx_ptr : lrec := mkRec 5 1 [112; 116; 114].
Definition mx_ops : list mop :=
  [OBatch mx_batch; OPointer mx_ptr; OTruncate 100; OAppend (mx_rec 2 99); OReopen].

Lemma U64MAX_val : U64MAX = 18446744073709551615. Proof. reflexivity. Qed.

Lemma mx_rec_in t i : t < 2 ^ 64 -> (i < 1000)%nat -> rec_in (mx_rec t i).
Proof.
  intros Ht Hi. assert (P62 : 2 ^ 62 = 4611686018427387904) by (vm_compute; reflexivity).
  assert (P64 : 2 ^ 64 = 18446744073709551616) by (vm_compute; reflexivity).
  pose proof U64MAX_val as HU.
  split; [|split].
  - unfold rec_ok, mx_rec. cbn [r_index r_term r_value length]. repeat split; try lia.
    repeat constructor; unfold is_byte; lia.
  - left. unfold mx_rec. cbn [r_index]. lia.
  - unfold mx_rec. cbn [r_index]. lia.
Qed.

Lemma mx_batch_in : Forall rec_in mx_batch.
Proof.
  assert (H64 : 1 < 2 ^ 64) by (vm_compute; reflexivity).
  apply Forall_forall. intros x Hin. apply in_map_iff in Hin. destruct Hin as (i & <- & Hi).
  apply in_seq in Hi. apply mx_rec_in; lia.
Qed.

Lemma mx_ptr_ok : rec_ok mx_ptr /\ rec_nonempty mx_ptr.
Proof.
  assert (P62 : 2 ^ 62 = 4611686018427387904) by (vm_compute; reflexivity).
  assert (P64 : 2 ^ 64 = 18446744073709551616) by (vm_compute; reflexivity).
  split.
  - unfold rec_ok, mx_ptr. cbn [r_index r_term r_value length]. repeat split; try lia.
    repeat constructor; unfold is_byte; lia.
  - left. cbn. lia.
Qed.

Definition mx_outs : list mout := [MAck true; MDone; MAck true; MAck true; MDone].

Lemma mx_run_outs : snd (mrun (mgr_init 43) mx_ops) = mx_outs.
Proof. vm_compute. reflexivity. Qed.

Lemma mx_scope : mops_ok (mkMst None 0 None) mx_ops mx_outs.
Proof.
  pose proof U64MAX_val as HU. destruct mx_ptr_ok as [Hpo Hpn].
  unfold mx_ops, mx_outs. cbn [mops_ok mop_ok]. split; [exact mx_batch_in|].
  intros st1 H1. cbn [mspec ms_log ms_floor ms_pend] in H1. destruct H1 as [_ ->].
  cbn [ms_log ms_floor ms_pend log_app mx_batch]. 
  split.
  { change (map (mx_rec 1) (seq 0 130)) with mx_batch. cbn [log_app].
    unfold ptr_in. split; [exact Hpo|]. split; [exact Hpn|]. vm_compute. split; [split; [discriminate|reflexivity]|discriminate]. }
  intros st2 H2. cbn [mspec] in H2. subst st2. unfold install_ptr. cbn [ms_log ms_floor ms_pend].
  split.
  { split; [lia|]. split; [vm_compute; discriminate|]. vm_compute. discriminate. }
  intros st3 H3. cbn [mspec ms_log ms_floor ms_pend] in H3. subst st3.
  cbn [ms_log ms_floor ms_pend]. split; [apply mx_rec_in; [vm_compute; reflexivity|lia]|].
  intros st4 H4. cbn [mops_ok mop_ok]. split; [exact I|]. intros st5 _. exact I.
Qed.

(** the history is in scope, every answer is the one the abstract log demands, and the final state
    is represented: log = pointer entry at 5, entries 6..99 of term 1, entry 100 of term 2 *)
Example manager_example : exists m st,
  MRep m st /\ mspecs (mkMst None 0 None) mx_ops mx_outs st /\
  ms_floor st = 6 /\
  match ms_log st with
  | Some a => a_first a = 5 /\ a_len a = 96 /\ a_last a 0 = (100, 2)
  | None => False
  end.
Proof.
  assert (Hl : HDR_LEN + 10 < 43 <= 4096) by (unfold HDR_LEN; lia).
  pose proof (mgr_refines_alog mx_ops (mgr_init 43) _ (MRep_init 43 Hl)) as H.
  pose proof mx_run_outs as Ho.
  destruct (mrun (mgr_init 43) mx_ops) as [m outs]. cbn [snd] in Ho. subst outs.
  destruct (H mx_scope) as (st & Hs & HR). exists m, st. split; [exact HR|]. split; [exact Hs|].
  (* the specification relation determines the final abstract state *)
  unfold mx_ops, mx_outs in Hs. cbn [mspecs] in Hs.
  destruct Hs as (s1 & H1 & s2 & H2 & s3 & H3 & s4 & H4 & s5 & H5 & ->).
  cbn [mspec] in H1, H2, H3, H4, H5.
  destruct H1 as [_ ->]. subst s2. subst s3. destruct H4 as [_ ->]. subst s5.
  vm_compute. auto.
Qed.
