(** Executable glue for the correspondence of C02/C03: op scripts run against the models
    (one log file; the manager scripts are in ManagerScript.v).  No proofs depend on this file. *)
From RN Require Import Base.Res Codec.Varint Codec.BufReader Codec.Script RaftLog.LogFile.
Local Open Scope N_scope.

(** ops of the [logfile] harness suite *)
Inductive lop :=
| LW (index term : N) (vlen : nat) (vseed : N)       (* write *)
| LS (k : N)                                          (* strip_log_to *)
| LR (a b : N)                                        (* read_records *)
| LO                                                  (* drop + init on the same file *)
| LO3 (start pre split : N)                           (* the same with other catalogue values *)
| LI.                                                 (* end index, last index info, last term *)

Inductive lout :=
| OW (m : wmark)
| OS (ok : bool)
| OR (l : list (N * N * (N * N)))
| ORErr
| OO (ok : bool)
| OI (e li lt t : N)
| OClosed.

Definition rec_digest (x : lrec) : N * N * (N * N) := (r_index x, r_term x, digest (r_value x)).

(** state of a script: the open manager, or (after a failed init) the file left on disk *)
Inductive sst := SOpen (s : lim) | SClosed.

Fixpoint run_lops (limit start pre split : N) (s : sst) (ops : list lop) : list lout :=
  match ops with
  | [] => []
  | op :: ops' =>
      match s with
      | SClosed => OClosed :: run_lops limit start pre split s ops'
      | SOpen st =>
          match op with
          | LW i t vl vs =>
              let '(st', m) := write st (mkRec i t (gen_bytes vl vs)) in
              OW m :: run_lops limit start pre split (SOpen st') ops'
          | LS k =>
              match strip_log_to st k with
              | Ok st' => OS true :: run_lops limit start pre split (SOpen st') ops'
              | _ => OS false :: run_lops limit start pre split (SOpen st) ops'
              end
          | LR a b =>
              match read_records st a b with
              | (Ok l, st') => OR (map rec_digest l) :: run_lops limit start pre split (SOpen st') ops'
              | (_, st') => ORErr :: run_lops limit start pre split (SOpen st') ops'
              end
          | LO =>
              match init (Some (l_file st)) limit start pre split with
              | Ok st' => OO true :: run_lops limit start pre split (SOpen st') ops'
              | _ => OO false :: run_lops limit start pre split SClosed ops'
              end
          | LO3 s2 p2 sp2 =>
              match init (Some (l_file st)) limit s2 p2 sp2 with
              | Ok st' => OO true :: run_lops limit s2 p2 sp2 (SOpen st') ops'
              | _ => OO false :: run_lops limit s2 p2 sp2 SClosed ops'
              end
          | LI =>
              let '(li, lt) := get_last_index_info st in
              OI (end_index st) li lt (l_lterm st) :: run_lops limit start pre split (SOpen st) ops'
          end
      end
  end.

Definition run_logfile (limit start pre split : N) (ops : list lop) : list lout :=
  match init None limit start pre split with
  | Ok st => run_lops limit start pre split (SOpen st) ops
  | _ => [OO false]
  end.

(** the frame exactly as [write] puts it into the file *)
Definition enc_record (i t : N) (vl : nat) (vs : N) : list N := rec_frame (mkRec i t (gen_bytes vl vs)).

(** diagnostics (not compared) *)
Definition diag (s : lim) := (l_indexs s, l_icur s, l_dcur s, l_cnt s, l_flen s, l_cic s, l_split s).
