(** Executable glue for the correspondence checks of C05 / C04 (index file): scripts of writer
    ops with observation points, evaluated by vm_compute.  No proof depends on this file.
    The address HashMap is written in key order here; the implementation's order is arbitrary,
    so the runner compares decoded records and file lengths (and bytes when <= 1 address). *)
From RN Require Import Base.Res Codec.Varint Codec.PbWire RaftLog.IndexFile RaftLog.Regression.
Local Open Scope N_scope.

Definition id_sh : nat -> addr_map -> addr_map := fun _ l => l.

Inductive sop : Type := SOp (op : iop) | SRead.
Inductive sout : Type := SObs (r : raft_index) (applied : N) (file : list N) | SFail.

Definition obs_of (st : ist) : sout := SObs (i_index st) (i_applied st) (i_file st).

(** observation points: every SRead, after every reopen, and at the end (as the harness) *)
Fixpoint run_script (reopen : ist -> res ist) (st : ist) (ops : list sop) : list sout :=
  match ops with
  | [] => [obs_of st]
  | SRead :: ops' => obs_of st :: run_script reopen st ops'
  | SOp OpReopen :: ops' =>
      match reopen st with
      | Ok st' => obs_of st' :: run_script reopen st' ops'
      | _ => [SFail]
      end
  | SOp op :: ops' =>
      match step id_sh st op with
      | Ok st' => run_script reopen st' ops'
      | _ => [SFail]
      end
  end.

Definition script (ops : list sop) : list sout :=
  match init id_sh 0 [] with
  | Ok st => run_script (fun st => init id_sh (i_wcount st) (i_file st)) st ops
  | _ => [SFail]
  end.

(** the model of the OLD init on the same script (used to label a returned defect) *)
Definition script_old (ops : list sop) : list sout :=
  match init_old 0 [] with
  | Ok st => run_script (fun st => init_old (i_wcount st) (i_file st)) st ops
  | _ => [SFail]
  end.

(** recovery of an arbitrary file image (C04: crash images) *)
Definition open_image (f : list N) : sout :=
  match init id_sh 0 f with
  | Ok st => obs_of st
  | _ => SFail
  end.

(** * C04: the journal of a script (index file), as (kind, offset, bytes): 0 = write, 1 = create *)
From RN Require Import RaftLog.Crash.

Definition mut_view (m : mut) : N * N * list N :=
  match m with
  | MWrite _ off d => (0, N.of_nat off, d)
  | MCreate _ => (1, 0, [])
  | _ => (2, 0, [])
  end.

Fixpoint sops_ops (ops : list sop) : list iop :=
  match ops with
  | [] => []
  | SOp op :: r => op :: sops_ops r
  | SRead :: r => sops_ops r
  end.

Definition journal_of_script (ops : list sop) : list (N * N * list N) :=
  map mut_view (journal id_sh (sops_ops ops)).
