(** The HashMap of node addresses as a strictly sorted association list: inserting the items
    of ANY reordering of a map into an empty map gives the map back.  This is what makes the
    record round trip independent of the HashMap iteration order used by to_record_do. *)
From RN Require Import Base.Res RaftLog.IndexFile.
From Coq Require Import ZifyBool ZifyNat ZifyN Permutation Sorting.Sorted.
Local Open Scope N_scope.

Definition key_lt (a b : N * list N) : Prop := fst a < fst b.
Definition amap_sorted (m : addr_map) : Prop := StronglySorted key_lt m.

Definition ins (m : addr_map) (kv : N * list N) : addr_map := amap_insert (fst kv) (snd kv) m.

Lemma amap_of_list_fold l : amap_of_list l = fold_left ins l [].
Proof. reflexivity. Qed.

Lemma amap_get_insert k v m k' :
  amap_get k' (amap_insert k v m) = if k' =? k then Some v else amap_get k' m.
Proof.
  induction m as [|[k1 v1] m IH]; cbn [amap_insert amap_get]; [reflexivity|].
  destruct (k <? k1) eqn:E1; [reflexivity|].
  destruct (k =? k1) eqn:E2.
  - cbn [amap_get]. destruct (k' =? k) eqn:E3; [reflexivity|].
    destruct (k' =? k1) eqn:E4; [lia|reflexivity].
  - cbn [amap_get]. rewrite IH. destruct (k' =? k1) eqn:E4; [|reflexivity].
    destruct (k' =? k) eqn:E3; [lia|reflexivity].
Qed.

Lemma amap_insert_Forall (P : N * list N -> Prop) k v m :
  P (k, v) -> Forall P m -> Forall P (amap_insert k v m).
Proof.
  intros Hk Hm. induction Hm as [|[k1 v1] m H1 Hm IH]; cbn [amap_insert]; [repeat constructor; exact Hk|].
  destruct (k <? k1); [constructor; [exact Hk|constructor; assumption]|].
  destruct (k =? k1); constructor; assumption.
Qed.

Lemma amap_insert_sorted k v m : amap_sorted m -> amap_sorted (amap_insert k v m).
Proof.
  unfold amap_sorted. induction 1 as [|[k1 v1] m Hs IH Hall]; cbn [amap_insert].
  - constructor; constructor.
  - destruct (k <? k1) eqn:E1.
    + constructor; [constructor; assumption|].
      constructor; [unfold key_lt; cbn [fst]; lia|].
      eapply Forall_impl; [|exact Hall]. intros a Ha. unfold key_lt in *. cbn [fst] in *. lia.
    + destruct (k =? k1) eqn:E2.
      * constructor; [exact Hs|].
        eapply Forall_impl; [|exact Hall]. intros a Ha. unfold key_lt in *. cbn [fst] in *. lia.
      * constructor; [exact IH|]. apply amap_insert_Forall; [unfold key_lt; cbn [fst]; lia|exact Hall].
Qed.

Lemma fold_ins_sorted l acc : amap_sorted acc -> amap_sorted (fold_left ins l acc).
Proof.
  revert acc. induction l as [|a l IH]; intros acc H; [exact H|].
  cbn [fold_left]. apply IH. apply amap_insert_sorted, H.
Qed.

Lemma amap_of_list_sorted l : amap_sorted (amap_of_list l).
Proof. apply fold_ins_sorted. constructor. Qed.

Lemma amap_get_above k0 k m : Forall (fun b => k0 < fst b) m -> k <= k0 -> amap_get k m = None.
Proof.
  induction 1 as [|[k1 v1] m H1 Hm IH]; intros Hle; cbn [amap_get]; [reflexivity|].
  cbn [fst] in H1. destruct (k =? k1) eqn:E; [lia|]. apply IH, Hle.
Qed.

Lemma amap_ext m1 : forall m2,
  amap_sorted m1 -> amap_sorted m2 -> (forall k, amap_get k m1 = amap_get k m2) -> m1 = m2.
Proof.
  unfold amap_sorted.
  induction m1 as [|[k1 v1] m1 IH]; intros m2 S1 S2 Hget.
  - destruct m2 as [|[k2 v2] m2]; [reflexivity|].
    specialize (Hget k2). cbn [amap_get] in Hget. rewrite N.eqb_refl in Hget. discriminate.
  - destruct m2 as [|[k2 v2] m2].
    + specialize (Hget k1). cbn [amap_get] in Hget. rewrite N.eqb_refl in Hget. discriminate.
    + inversion S1 as [|? ? S1' A1]; subst. inversion S2 as [|? ? S2' A2]; subst.
      assert (A1' : Forall (fun b => k1 < fst b) m1) by exact A1.
      assert (A2' : Forall (fun b => k2 < fst b) m2) by exact A2.
      destruct (N.lt_trichotomy k1 k2) as [Hlt|[Heq|Hgt]].
      * pose proof (Hget k1) as H. cbn [amap_get] in H. rewrite N.eqb_refl in H.
        destruct (k1 =? k2) eqn:E; [lia|].
        rewrite (amap_get_above k2 k1 m2 A2') in H by lia. discriminate.
      * subst k2. pose proof (Hget k1) as H. cbn [amap_get] in H. rewrite N.eqb_refl in H.
        injection H as ->. f_equal. apply IH; [exact S1'|exact S2'|].
        intros k. destruct (N.eq_dec k k1) as [->|Hne].
        -- rewrite (amap_get_above k1 k1 m1 A1'), (amap_get_above k1 k1 m2 A2') by lia. reflexivity.
        -- specialize (Hget k). cbn [amap_get] in Hget.
           destruct (k =? k1) eqn:E; [lia|exact Hget].
      * pose proof (Hget k2) as H. cbn [amap_get] in H. rewrite N.eqb_refl in H.
        destruct (k2 =? k1) eqn:E; [lia|].
        rewrite (amap_get_above k1 k2 m1 A1') in H by lia. discriminate.
Qed.

(** lookup of the last occurrence in a list of items *)
Fixpoint alist_get_last (k : N) (l : list (N * list N)) (d : option (list N)) : option (list N) :=
  match l with
  | [] => d
  | (k', v) :: l' => alist_get_last k l' (if k =? k' then Some v else d)
  end.

Lemma amap_get_fold k l acc :
  amap_get k (fold_left ins l acc) = alist_get_last k l (amap_get k acc).
Proof.
  revert acc. induction l as [|[k1 v1] l IH]; intros acc; [reflexivity|].
  cbn [fold_left alist_get_last]. rewrite IH. unfold ins. cbn [fst snd].
  rewrite amap_get_insert. reflexivity.
Qed.

Lemma alist_get_last_notin k l d : ~ In k (map fst l) -> alist_get_last k l d = d.
Proof.
  revert d. induction l as [|[k1 v1] l IH]; intros d Hn; [reflexivity|].
  cbn [alist_get_last]. cbn [map fst] in Hn.
  rewrite IH by (intros H; apply Hn; right; exact H).
  destruct (k =? k1) eqn:E; [|reflexivity]. exfalso. apply Hn. left. lia.
Qed.

Lemma alist_get_last_in k v l d :
  NoDup (map fst l) -> In (k, v) l -> alist_get_last k l d = Some v.
Proof.
  revert d. induction l as [|[k1 v1] l IH]; intros d Hnd Hin; [destruct Hin|].
  cbn [map fst] in Hnd. inversion Hnd as [|? ? Hnot Hnd']; subst.
  cbn [alist_get_last]. destruct Hin as [Heq|Hin].
  - injection Heq as -> ->. rewrite N.eqb_refl. apply alist_get_last_notin, Hnot.
  - apply IH; assumption.
Qed.

Lemma amap_get_notin k m : ~ In k (map fst m) -> amap_get k m = None.
Proof.
  induction m as [|[k1 v1] m IH]; intros Hn; [reflexivity|].
  cbn [amap_get]. cbn [map fst] in Hn. destruct (k =? k1) eqn:E; [exfalso; apply Hn; left; lia|].
  apply IH. intros H; apply Hn; right; exact H.
Qed.

Lemma amap_get_in k v m : NoDup (map fst m) -> In (k, v) m -> amap_get k m = Some v.
Proof.
  induction m as [|[k1 v1] m IH]; intros Hnd Hin; [destruct Hin|].
  cbn [map fst] in Hnd. inversion Hnd as [|? ? Hnot Hnd']; subst.
  cbn [amap_get]. destruct Hin as [Heq|Hin].
  - injection Heq as -> ->. rewrite N.eqb_refl. reflexivity.
  - destruct (k =? k1) eqn:E; [|apply IH; assumption].
    exfalso. apply Hnot. apply N.eqb_eq in E. subst k1.
    apply in_map_iff. exists (k, v). split; [reflexivity|exact Hin].
Qed.

Lemma sorted_nodup m : amap_sorted m -> NoDup (map fst m).
Proof.
  unfold amap_sorted. induction 1 as [|[k1 v1] m Hs IH Hall]; cbn [map fst]; constructor; [|exact IH].
  intros Hin. apply in_map_iff in Hin. destruct Hin as ([k2 v2] & Hk & Hin). cbn [fst] in Hk. subst k2.
  rewrite Forall_forall in Hall. specialize (Hall _ Hin). unfold key_lt in Hall. cbn [fst] in Hall. lia.
Qed.

Theorem amap_of_list_perm l m : amap_sorted m -> Permutation l m -> amap_of_list l = m.
Proof.
  intros Hs Hp. apply amap_ext; [apply amap_of_list_sorted|exact Hs|]. intros k.
  rewrite amap_of_list_fold, amap_get_fold. cbn [amap_get].
  pose proof (sorted_nodup m Hs) as Hnd.
  assert (Hndl : NoDup (map fst l)).
  { eapply Permutation_NoDup; [|exact Hnd]. apply Permutation_map, Permutation_sym, Hp. }
  destruct (in_dec N.eq_dec k (map fst m)) as [Hin|Hnin].
  - apply in_map_iff in Hin. destruct Hin as ([k' v] & Hk & Hin). cbn [fst] in Hk. subst k'.
    rewrite (amap_get_in k v m Hnd Hin).
    apply alist_get_last_in; [exact Hndl|]. eapply Permutation_in; [apply Permutation_sym, Hp|exact Hin].
  - rewrite (amap_get_notin k m Hnin). apply alist_get_last_notin.
    intros Hin. apply Hnin. eapply Permutation_in; [apply Permutation_map, Hp|exact Hin].
Qed.
