(** Snapshot file round trip (through the framing layer of C20) and the effect of a leftover
    file of the same name. *)
From RN Require Import RaftLog.SnapFile Codec.BufReaderProofs.
From Coq Require Import Lia.
Local Open Scope nat_scope.

Lemma blocks_concat fuel f : length f <= fuel -> concat (blocks fuel f) = f.
Proof.
  revert f. induction fuel as [| fuel IH]; intros f H.
  - destruct f; [reflexivity | simpl in H; lia].
  - destruct f as [| x f']; [reflexivity |].
    cbn [blocks concat]. rewrite IH.
    + apply firstn_skipn.
    + rewrite skipn_length. simpl in *. lia.
Qed.

Lemma blocks1024_concat f : concat (blocks1024 f) = f.
Proof. apply blocks_concat. lia. Qed.

Lemma hd_blocks1024 f : hd [] (blocks1024 f) = firstn 1024 f.
Proof. unfold blocks1024. destruct f; reflexivity. Qed.

Lemma write_truncate_ignores_old old new : write_truncate old new = new.
Proof. reflexivity. Qed.

Lemma write_in_place_same_length old new :
  length old <= length new -> write_in_place old new = new.
Proof. intros H. unfold write_in_place. rewrite skipn_all2 by lia. apply app_nil_r. Qed.

(** The framing theorem of C20 (Codec/BufReaderProofs.chunking_invariance) in the instance used
    here: the 1024-byte blocks of a well-formed stream without padding. *)
Lemma framing_1024 : forall bodies : list (list N),
  Forall rec_ok bodies ->
  feed_drain (blocks1024 (concat (map frame bodies))) mbr_new = Ok (map frame bodies).
Proof.
  intros bodies Hb. apply (chunking_invariance bodies []).
  - exact Hb.
  - split; [constructor | now left].
  - rewrite blocks1024_concat. unfold stream. now rewrite app_nil_r.
Qed.

Lemma snap_image_as_stream h recs : snap_image h recs = concat (map frame (h :: recs)).
Proof. reflexivity. Qed.

(** what the writer wrote is what the reader returns *)
Theorem snap_roundtrip h recs :
  rec_ok h -> Forall rec_ok recs -> length (frame h) <= 1024 ->
  snap_read (snap_image h recs) = Ok (frame h, map frame recs).
Proof.
  intros Hh Hr Hl. unfold snap_read. rewrite snap_image_as_stream.
  rewrite framing_1024 by (constructor; assumption).
  cbn [map]. rewrite hd_blocks1024.
  assert (E : length (frame h) <= length (firstn 1024 (concat (frame h :: map frame recs)))).
  { cbn [concat]. rewrite firstn_length, app_length. lia. }
  apply Nat.leb_le in E. now rewrite E.
Qed.

(** the repaired writer: a leftover file of the same name has no effect at all *)
Theorem snap_roundtrip_over_leftover old h recs :
  rec_ok h -> Forall rec_ok recs -> length (frame h) <= 1024 ->
  snap_read (write_truncate old (snap_image h recs)) = Ok (frame h, map frame recs).
Proof. intros. rewrite write_truncate_ignores_old. now apply snap_roundtrip. Qed.

(** ** Regression: the writer without truncate.  Records a, b, c left behind by an earlier
    attempt, the new attempt (same id, same header) writes a, b: the reader returns a, b, c. *)
Local Open Scope N_scope.
Definition w_hdr : list N := [8; 5].
Definition w_a : list N := [10; 1; 97].
Definition w_b : list N := [10; 1; 98].
Definition w_c : list N := [10; 1; 99].

Lemma in_place_keeps_stale_tail :
  snap_read (write_in_place (snap_image w_hdr [w_a; w_b; w_c]) (snap_image w_hdr [w_a; w_b]))
  = Ok (frame w_hdr, [frame w_a; frame w_b; frame w_c]).
Proof. vm_compute. reflexivity. Qed.

Lemma truncate_drops_stale_tail :
  snap_read (write_truncate (snap_image w_hdr [w_a; w_b; w_c]) (snap_image w_hdr [w_a; w_b]))
  = Ok (frame w_hdr, [frame w_a; frame w_b]).
Proof. vm_compute. reflexivity. Qed.

