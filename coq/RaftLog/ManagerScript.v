(** Executable glue for the correspondence with the [filestore] harness suite: scripts of
    RaftStorage-level operations run against the manager model.  No proofs depend on this file. *)
From RN Require Import Base.Res Codec.Varint Codec.BufReader Codec.Script RaftLog.LogFile
  RaftLog.LogScript RaftLog.LogManager.
Local Open Scope N_scope.

(** record values as FileStore produces them: serde_json of EntryPayload<ClientRequest> *)
Definition J_PRE : list N := [123;34;78;111;114;109;97;108;34;58;123;34;100;97;116;97;34;58;123;34;67;111;110;102;105;103;82;101;109;111;118;101;34;58;123;34;107;101;121;34;58;34].
Definition J_SUF : list N := [34;125;125;125;125].
Definition V_BLANK : list N := [34;66;108;97;110;107;34].
Definition P_PRE : list N := [123;34;83;110;97;112;115;104;111;116;80;111;105;110;116;101;114;34;58;123;34;105;100;34;58;34].
Definition P_SUF : list N := [34;44;34;109;101;109;98;101;114;115;104;105;112;34;58;123;34;109;101;109;98;101;114;115;34;58;91;49;93;44;34;109;101;109;98;101;114;115;95;97;102;116;101;114;95;99;111;110;115;101;110;115;117;115;34;58;110;117;108;108;125;125;125].
Definition ALPHA : list N := [97;98;99;100;101;102;103;104;105;106;107;108;109;110;111;112;113;114;115;116;117;118;119;120;121;122;48;49;50;51;52;53;54;55;56;57].

Definition alpha (b : N) : N := nth (N.to_nat (b mod 36)) ALPHA 0.

Fixpoint dec_digits (fuel : nat) (v : N) (acc : list N) : list N :=
  match fuel with
  | O => acc
  | S f => let acc' := (48 + v mod 10) :: acc in if v / 10 =? 0 then acc' else dec_digits f (v / 10) acc'
  end.

Inductive vspec := VJ (n : nat) (x : N) | VBlank.
Definition value_of (v : vspec) : list N :=
  match v with
  | VJ n x => J_PRE ++ map alpha (gen_fast n x) ++ J_SUF
  | VBlank => V_BLANK
  end.
Definition ptr_value (id : N) : list N := P_PRE ++ dec_digits 20 id [] ++ P_SUF.

Inductive mop :=
| MA (i t : N) (v : vspec)                 (* append_entry_to_log *)
| MB (l : list (N * N * vspec))            (* replicate_to_log *)
| MD (k : N)                               (* delete_logs_from *)
| MG (a b : N)                             (* get_log_entries *)
| ML                                       (* get_last_log_index *)
| MPtr (i t id : N)                        (* InstallSnapshotPointerLog *)
| MBPtr (i t id : N)                       (* BuildSnapshotPointerLog *)
| MSo (k : N)                              (* SplitOff *)
| MReopen.

Inductive mout :=
| OAck (ok : bool)
| OEnts (l : list (N * N * (N * N)))
| OLast (i t : N)
| ODone.

Definition wres_ok (r : wres) : bool := match r with WOk => true | _ => false end.
Definition mk_rec (e : N * N * vspec) : lrec := let '(i, t, v) := e in mkRec i t (value_of v).

Fixpoint run_mops (m : mgr) (ops : list mop) : list mout :=
  match ops with
  | [] => []
  | op :: ops' =>
      match op with
      | MA i t v =>
          let '(m', r) := mgr_write 3 m (mkRec i t (value_of v)) true in
          OAck (wres_ok r) :: run_mops m' ops'
      | MB l =>
          let xs := map mk_rec l in
          let '(m', r) := mgr_write_batch (S (S (length xs))) m xs 0 in
          OAck (wres_ok r) :: run_mops m' ops'
      | MD k => OAck true :: run_mops (mgr_strip m k) ops'
      | MG a b =>
          let '(m', l) := mgr_query m a b in
          OEnts (map rec_digest l) :: run_mops m' ops'
      | ML => let '(i, t) := mgr_last m in OLast i t :: run_mops m ops'
      | MPtr i t id => ODone :: run_mops (mgr_save_pointer m (mkRec i t (ptr_value id))) ops'
      | MBPtr i t id => ODone :: run_mops (mgr_build_pointer m (mkRec i t (ptr_value id))) ops'
      | MSo k => ODone :: run_mops (mgr_split_off m k) ops'
      | MReopen => ODone :: run_mops (mgr_reopen m) ops'
      end
  end.

Definition run_filestore (limit : N) (ops : list mop) : list mout := run_mops (mgr_init limit) ops.

(** value digests, to check the python-side construction of the JSON values *)
Definition value_digest (v : vspec) : N * N := digest_fast (value_of v).
Definition ptr_digest (id : N) : N * N := digest_fast (ptr_value id).
