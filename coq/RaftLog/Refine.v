(** Refinement of the log-file model to the abstract log, for every operation history over
    {append, batch, delete-from, reopen, read}: each concrete step returns what the abstract log
    demands and re-establishes the representation invariant. *)
From RN Require Import Base.Res Codec.Varint Codec.BufReader Codec.VarintProofs Codec.ScanProofs
  RaftLog.LogFile RaftLog.Spec RaftLog.Layout RaftLog.FileProofs RaftLog.RecordProofs
  RaftLog.ScanFileProofs RaftLog.ReadProofs RaftLog.InitProofs RaftLog.WriteProofs RaftLog.StripProofs.
From Coq Require Import ZifyBool ZifyNat ZifyN.
Local Open Scope N_scope.
Ltac Zify.zify_post_hook ::= Z.div_mod_to_equations.

(** * operations of one log file (RaftLogRequest handled by LogInnerManager) and their answers *)
Inductive fop :=
| FAppend (x : lrec)                 (* Write *)
| FBatch (xs : list lrec)            (* WriteBatch *)
| FTruncate (k : N)                  (* StripLogToIndex *)
| FReopen (pre split : N)            (* close, then init on the same file *)
| FRead (lo hi : N).                 (* Query *)

Inductive fout :=
| RMark (m : wmark)
| RBatch (m : wmark) (n : nat)       (* mark of the last write, number of records written *)
| RUnit
| RInfo (last : N * N)               (* last index and term reported after init *)
| RRecs (l : list lrec)
| RFail.

(** WriteBatch: write until the first Failure / IndexEqualError *)
Fixpoint write_batch (s : lim) (xs : list lrec) (mark : wmark) (n : nat) : lim * wmark * nat :=
  match xs with
  | [] => (s, mark, n)
  | x :: xs' =>
      let '(s', m) := write s x in
      match m with
      | WFailure | WIndexEqualError => (s', m, n)
      | _ => write_batch s' xs' m (S n)
      end
  end.

Definition fstep (s : lim) (op : fop) : lim * fout :=
  match op with
  | FAppend x => let '(s', m) := write s x in (s', RMark m)
  | FBatch xs => let '(s', m, n) := write_batch s xs WSuccess 0 in (s', RBatch m n)
  | FTruncate k => match strip_log_to s k with Ok s' => (s', RUnit) | _ => (s, RFail) end
  | FReopen pre split =>
      match init (Some (l_file s)) 4096 (l_start s) pre split with
      | Ok s' => (s', RInfo (get_last_index_info s'))
      | _ => (s, RFail)
      end
  | FRead lo hi =>
      match read_records s lo hi with
      | (Ok l, s') => (s', RRecs l)
      | (_, s') => (s', RFail)
      end
  end.

Fixpoint frun (s : lim) (ops : list fop) : lim * list fout :=
  match ops with
  | [] => (s, [])
  | op :: ops' => let '(s1, o) := fstep s op in let '(s2, os) := frun s1 ops' in (s2, o :: os)
  end.

(** * the abstract side: what an observer who only sees the acknowledgements knows *)
Definition to_ent (x : lrec) : aent := mkEnt (r_index x) (r_term x) (r_value x).

(** abstract state: the log and the split-off position (reads are clamped to it) *)
Definition astate : Type := alog * N.

Definition accepted (m : wmark) : bool :=
  match m with WSuccess | WSuccessToEnd => true | _ => false end.

(** the log after an operation, given only its acknowledgement: acknowledged entries are added,
    removed ones dropped, everything else leaves the log alone *)
Definition apply_out (st : astate) (op : fop) (out : fout) : astate :=
  let '(a, sp) := st in
  match op, out with
  | FAppend x, RMark m =>
      if accepted m then (mkAlog (a_first a) (a_ents a ++ [ent_of x]), sp) else st
  | FBatch xs, RBatch _ n => (mkAlog (a_first a) (a_ents a ++ map ent_of (firstn n xs)), sp)
  | FTruncate k, RUnit => (a_truncate a k, sp)
  | FReopen _ split, RInfo _ => (a, N.max split (a_first a))
  | _, _ => st
  end.

(** the answer is the one the abstract log demands *)
Definition out_ok (st : astate) (op : fop) (out : fout) : Prop :=
  let '(a, sp) := st in
  match op, out with
  | FAppend x, RMark m =>
      match m with
      | WSuccess | WSuccessToEnd => r_index x = a_end a       (* accepted only at the end *)
      | WIndexEqualError => r_index x <> a_end a              (* refused only when not contiguous *)
      | WFailure => True                                      (* file full: see [full_only_at_block_end] *)
      end
  | FBatch xs, RBatch m n =>
      (n <= length xs)%nat /\ indexed (a_end a) (firstn n xs) /\
      match m with
      | WSuccess | WSuccessToEnd => n = length xs
      | WIndexEqualError => (n < length xs)%nat /\ r_index (nth n xs (mkRec 0 0 [])) <> a_end a + N.of_nat n
      | WFailure => (n < length xs)%nat
      end
  | FTruncate k, RUnit => True
  | FReopen pre _, RInfo last => last = a_last a pre
  | FRead lo hi, RRecs l => map to_ent l = a_get a (N.max lo sp) hi
  | _, _ => False
  end.

(** inputs the theorems are about: well-formed records, cuts not below the first index *)
Definition fop_ok (first : N) (op : fop) : Prop :=
  match op with
  | FAppend x => rec_ok x /\ rec_nonempty x
  | FBatch xs => Forall rec_ok xs /\ Forall rec_nonempty xs
  | FTruncate k => first <= k
  | _ => True
  end.

Definition RepS (s : lim) (st : astate) : Prop :=
  exists c, s = conc c /\ wfc c /\ abs c = fst st /\ c_split c = snd st.

(** * single steps *)
Lemma abs_end c : a_end (abs c) = c_first c + nlen (c_all c).
Proof. unfold a_end, a_len, abs. cbn [a_first a_ents]. rewrite map_length. reflexivity. Qed.

Lemma write_step c x :
  wfc c -> rec_ok x -> rec_nonempty x ->
  exists c' m, write (conc c) x = (conc c', m) /\ wfc c' /\ c_split c' = c_split c /\
    c_first c' = c_first c /\
    match m with
    | WSuccess | WSuccessToEnd => r_index x = a_end (abs c) /\ c_all c' = c_all c ++ [x]
    | WIndexEqualError => r_index x <> a_end (abs c) /\ c' = c
    | WFailure => c' = c /\ is_full (conc c) = true
    end.
Proof.
  intros W Hok Hne. destruct (is_full (conc c)) eqn:Ef.
  - exists c, WFailure. unfold write. rewrite Ef. split; [reflexivity|split; [exact W|repeat split; auto]].
  - destruct (N.eqb_spec (r_index x) (c_first c + nlen (c_all c))) as [Heq|Hneq].
    + destruct (write_conc c x W Ef Heq Hok Hne) as [Hw W'].
      exists (c_push c x). eexists. split; [exact Hw|]. split; [exact W'|].
      split; [reflexivity|]. split; [reflexivity|].
      rewrite abs_end, c_all_push. destruct (is_full (conc (c_push c x))); auto.
    + exists c, WIndexEqualError. unfold write. rewrite Ef.
      assert (E : (end_index (conc c) =? r_index x) = false).
      { unfold end_index. cbn [conc l_start l_cnt]. lia. }
      rewrite E. cbn [negb]. rewrite abs_end. split; [reflexivity|split; [exact W|repeat split; auto]].
Qed.

Lemma abs_push_all c c' x :
  c_first c' = c_first c -> c_all c' = c_all c ++ [x] ->
  abs c' = mkAlog (a_first (abs c)) (a_ents (abs c) ++ [ent_of x]).
Proof. intros H1 H2. unfold abs. rewrite H1, H2, map_app. reflexivity. Qed.

Lemma write_batch_step : forall xs c mark n0,
  wfc c -> Forall rec_ok xs -> Forall rec_nonempty xs ->
  exists c' m n, write_batch (conc c) xs mark n0 = (conc c', m, (n0 + n)%nat) /\ wfc c' /\
    c_split c' = c_split c /\ c_first c' = c_first c /\
    (n <= length xs)%nat /\ indexed (a_end (abs c)) (firstn n xs) /\
    c_all c' = c_all c ++ firstn n xs /\
    (xs = [] -> m = mark) /\
    (xs <> [] ->
     match m with
     | WSuccess | WSuccessToEnd => n = length xs
     | WIndexEqualError => (n < length xs)%nat /\ r_index (nth n xs (mkRec 0 0 [])) <> a_end (abs c) + N.of_nat n
     | WFailure => (n < length xs)%nat
     end).
Proof.
  induction xs as [|x xs IH]; intros c mark n0 W Hok Hne.
  - exists c, mark, 0%nat. cbn [write_batch firstn length]. rewrite Nat.add_0_r, app_nil_r.
    split; [reflexivity|]. split; [exact W|]. split; [reflexivity|]. split; [reflexivity|].
    split; [lia|]. split; [exact I|]. split; [reflexivity|]. split; [reflexivity|]. intros H. congruence.
  - inversion Hok as [|? ? Hx Hok']; subst. inversion Hne as [|? ? Hxn Hne']; subst.
    destruct (write_step c x W Hx Hxn) as (c1 & m1 & Hw & W1 & Hsp1 & Hf1 & Hm1).
    cbn [write_batch]. rewrite Hw.
    destruct m1.
    + (* Success: continue *)
      destruct Hm1 as [Hidx Hall1].
      destruct (IH c1 WSuccess (S n0) W1 Hok' Hne') as (c' & m & n & Hb & W' & Hsp & Hf & Hn & Hix & Hall & Hnil & Hcons).
      exists c', m, (S n). split; [rewrite Hb; f_equal; lia|]. split; [exact W'|].
      split; [congruence|]. split; [congruence|]. split; [cbn [length]; lia|].
      assert (Hend1 : a_end (abs c1) = a_end (abs c) + 1).
      { rewrite !abs_end, Hf1, Hall1, nlen_app. unfold nlen. cbn [length]. lia. }
      split; [cbn [firstn indexed]; split; [exact Hidx|rewrite <- Hend1; exact Hix]|].
      split; [rewrite Hall, Hall1; cbn [firstn]; rewrite <- app_assoc; reflexivity|].
      split; [discriminate|]. intros _.
      destruct xs as [|y ys].
      * rewrite (Hnil eq_refl). destruct n; [reflexivity|cbn [length] in Hn; lia].
      * specialize (Hcons ltac:(discriminate)). destruct m; cbn [length nth] in *; try lia.
        all: try (destruct Hcons as [H1 H2]; split; [lia|]; rewrite Hend1 in H2;
          replace (a_end (abs c) + N.of_nat (S n)) with (a_end (abs c) + 1 + N.of_nat n) by lia; exact H2).
    + (* SuccessToEnd: continue (the next write answers Failure) *)
      destruct Hm1 as [Hidx Hall1].
      destruct (IH c1 WSuccessToEnd (S n0) W1 Hok' Hne') as (c' & m & n & Hb & W' & Hsp & Hf & Hn & Hix & Hall & Hnil & Hcons).
      exists c', m, (S n). split; [rewrite Hb; f_equal; lia|]. split; [exact W'|].
      split; [congruence|]. split; [congruence|]. split; [cbn [length]; lia|].
      assert (Hend1 : a_end (abs c1) = a_end (abs c) + 1).
      { rewrite !abs_end, Hf1, Hall1, nlen_app. unfold nlen. cbn [length]. lia. }
      split; [cbn [firstn indexed]; split; [exact Hidx|rewrite <- Hend1; exact Hix]|].
      split; [rewrite Hall, Hall1; cbn [firstn]; rewrite <- app_assoc; reflexivity|].
      split; [discriminate|]. intros _.
      destruct xs as [|y ys].
      * rewrite (Hnil eq_refl). destruct n; [reflexivity|cbn [length] in Hn; lia].
      * specialize (Hcons ltac:(discriminate)). destruct m; cbn [length nth] in *; try lia.
        all: try (destruct Hcons as [H1 H2]; split; [lia|]; rewrite Hend1 in H2;
          replace (a_end (abs c) + N.of_nat (S n)) with (a_end (abs c) + 1 + N.of_nat n) by lia; exact H2).
    + (* Failure *)
      destruct Hm1 as [-> _]. exists c, WFailure, 0%nat. rewrite Nat.add_0_r, app_nil_r.
      cbn [firstn indexed length].
      split; [reflexivity|]. split; [exact W|]. split; [reflexivity|]. split; [reflexivity|].
      split; [lia|]. split; [exact I|]. split; [reflexivity|]. split; [discriminate|]. intros _. lia.
    + (* IndexEqualError *)
      destruct Hm1 as [Hneq ->]. exists c, WIndexEqualError, 0%nat. rewrite Nat.add_0_r, app_nil_r.
      cbn [firstn indexed length nth].
      split; [reflexivity|]. split; [exact W|]. split; [reflexivity|]. split; [reflexivity|].
      split; [lia|]. split; [exact I|]. split; [reflexivity|]. split; [discriminate|]. intros _.
      split; [lia|]. rewrite N.add_0_r. exact Hneq.
Qed.

Lemma indexed_map_number i l : indexed i l -> map to_ent l = number i (map ent_of l).
Proof.
  revert i. induction l as [|x l IH]; intros i H; [reflexivity|].
  cbn [indexed] in H. destruct H as [Hx Hl]. cbn [map number ent_of]. rewrite <- (IH _ Hl).
  unfold to_ent at 1. rewrite Hx. reflexivity.
Qed.

Lemma indexed_skipn i n l : indexed i l -> indexed (i + N.of_nat (Nat.min n (length l))) (skipn n l).
Proof.
  intros H. rewrite <- (firstn_skipn n l) in H. apply indexed_app in H. destruct H as [_ H].
  unfold nlen in H. rewrite firstn_length in H. exact H.
Qed.

Lemma slice_get c lo hi :
  wfc c -> map to_ent (c_slice c lo hi) = a_get (abs c) (N.max lo (c_split c)) hi.
Proof.
  intros W. unfold c_slice, a_get. cbv zeta. rewrite abs_end.
  change (a_first (abs c)) with (c_first c). change (a_ents (abs c)) with (map ent_of (c_all c)).
  pose proof (wf_split c W) as Hsp.
  replace (N.max (N.max lo (c_split c)) (c_first c)) with (N.max lo (c_split c)) by lia.
  destruct (N.min hi (c_first c + nlen (c_all c)) <=? N.max lo (c_split c)) eqn:E; [reflexivity|].
  set (s0 := N.max lo (c_split c)) in *. set (e0 := N.min hi (c_first c + nlen (c_all c))) in *.
  rewrite skipn_map, firstn_map.
  apply indexed_map_number.
  assert (Hk : (N.to_nat (s0 - c_first c) <= length (c_all c))%nat) by (unfold nlen in *; lia).
  pose proof (indexed_skipn (c_first c) (N.to_nat (s0 - c_first c)) (c_all c) (wf_indexed c W)) as Hi.
  rewrite Nat.min_l in Hi by exact Hk.
  replace (c_first c + N.of_nat (N.to_nat (s0 - c_first c))) with s0 in Hi by lia.
  apply indexed_firstn. exact Hi.
Qed.

Lemma abs_truncate c k :
  wfc c -> c_first c <= k < c_first c + nlen (c_all c) ->
  abs (c_truncate c k) = a_truncate (abs c) k.
Proof.
  intros W Hk. unfold a_truncate. rewrite abs_end.
  destruct (c_first c + nlen (c_all c) <=? k) eqn:E; [lia|].
  unfold abs. rewrite (strip_kept c k W Hk). cbn [a_first a_ents c_truncate c_first].
  rewrite firstn_map. reflexivity.
Qed.

Lemma last_info_reopen c pre split :
  get_last_index_info (conc (c_reopen c pre split)) = a_last (abs c) pre.
Proof.
  unfold get_last_index_info, end_index, a_last. cbn [conc l_start l_cnt l_lterm c_reopen c_lterm c_first].
  change (c_all (c_reopen c pre split)) with (c_all c).
  rewrite abs_end. unfold c_last_term, abs. cbn [a_ents]. rewrite <- map_rev.
  destruct (rev (c_all c)) as [|x l] eqn:Er.
  - reflexivity.
  - cbn [map ent_of]. f_equal.
    assert (length (c_all c) <> 0)%nat.
    { intros H. apply length_zero_iff_nil in H. rewrite H in Er. discriminate. }
    destruct (c_first c + nlen (c_all c) =? 0) eqn:E; [unfold nlen in E; lia|reflexivity].
Qed.

(** * the simulation *)
Theorem fstep_refines s st op :
  RepS s st -> fop_ok (a_first (fst st)) op ->
  let '(s', out) := fstep s op in out_ok st op out /\ RepS s' (apply_out st op out).
Proof.
  intros (c & -> & W & Habs & Hsplit) Hop. destruct st as [a sp]. cbn [fst snd] in *. subst a sp.
  destruct op as [x|xs|k|pre split|lo hi]; cbn [fstep fop_ok] in *.
  - (* append *)
    destruct Hop as [Hok Hne].
    destruct (write_step c x W Hok Hne) as (c' & m & Hw & W' & Hsp & Hf & Hm). rewrite Hw.
    destruct m; cbn [out_ok apply_out accepted].
    + destruct Hm as [Hidx Hall]. split; [exact Hidx|].
      exists c'. split; [reflexivity|]. split; [exact W'|]. split; [apply abs_push_all; assumption|exact Hsp].
    + destruct Hm as [Hidx Hall]. split; [exact Hidx|].
      exists c'. split; [reflexivity|]. split; [exact W'|]. split; [apply abs_push_all; assumption|exact Hsp].
    + destruct Hm as [-> _]. split; [exact I|]. exists c. auto.
    + destruct Hm as [Hneq ->]. split; [exact Hneq|]. exists c. auto.
  - (* batch *)
    destruct Hop as [Hok Hne].
    destruct (write_batch_step xs c WSuccess 0 W Hok Hne)
      as (c' & m & n & Hb & W' & Hsp & Hf & Hn & Hix & Hall & Hnil & Hcons).
    rewrite Hb. cbn [plus out_ok apply_out].
    split.
    + split; [exact Hn|]. split; [exact Hix|].
      destruct xs as [|y ys].
      * rewrite (Hnil eq_refl). cbn [length] in *. lia.
      * apply Hcons. discriminate.
    + exists c'. split; [reflexivity|]. split; [exact W'|]. split; [|exact Hsp].
      unfold abs. rewrite Hf, Hall, map_app. reflexivity.
  - (* delete-from *)
    destruct (N.ltb_spec k (c_first c + nlen (c_all c))) as [Hlt|Hge].
    + cbn [abs a_first] in Hop.
      rewrite (strip_conc c k W (conj Hop Hlt)). cbn [out_ok apply_out]. split; [exact I|].
      exists (c_truncate c k). split; [reflexivity|]. split; [apply strip_wfc; auto|].
      split; [apply abs_truncate; auto|reflexivity].
    + rewrite (strip_noop c k Hge). cbn [out_ok apply_out]. split; [exact I|].
      exists c. split; [reflexivity|]. split; [exact W|]. split; [|reflexivity].
      unfold a_truncate. rewrite abs_end. destruct (c_first c + nlen (c_all c) <=? k) eqn:E; [reflexivity|lia].
  - (* reopen *)
    cbn [conc l_file l_start]. rewrite (init_conc c 4096 pre split W).
    cbn [out_ok apply_out]. split; [apply last_info_reopen|].
    exists (c_reopen c pre split). split; [reflexivity|]. split; [apply wfc_reopen; exact W|].
    split; reflexivity.
  - (* read *)
    rewrite (read_records_conc c lo hi W). cbn [out_ok apply_out].
    split; [apply slice_get; exact W|].
    exists (c_after_read c lo hi). split; [reflexivity|]. split; [apply wfc_after_read; exact W|].
    unfold abs, c_after_read. cbv zeta.
    destruct (N.min hi (c_first c + nlen (c_all c)) <=? N.max lo (c_split c)); split; reflexivity.
Qed.

(** the first index never changes *)
Lemma apply_out_first st op out : a_first (fst (apply_out st op out)) = a_first (fst st).
Proof.
  destruct st as [a sp]. destruct op, out; cbn [apply_out fst a_first]; try reflexivity.
  - destruct (accepted m); reflexivity.
  - unfold a_truncate. destruct (a_end a <=? k); reflexivity.
Qed.

Fixpoint aruns (st : astate) (ops : list fop) (outs : list fout) : astate :=
  match ops, outs with
  | op :: ops', o :: outs' => aruns (apply_out st op o) ops' outs'
  | _, _ => st
  end.

Fixpoint outs_ok (st : astate) (ops : list fop) (outs : list fout) : Prop :=
  match ops, outs with
  | [], [] => True
  | op :: ops', o :: outs' => out_ok st op o /\ outs_ok (apply_out st op o) ops' outs'
  | _, _ => False
  end.

(** the forward simulation over every operation history *)
Theorem logfile_refines_alog : forall ops s st,
  RepS s st -> Forall (fop_ok (a_first (fst st))) ops ->
  let '(s', outs) := frun s ops in
  outs_ok st ops outs /\ RepS s' (aruns st ops outs).
Proof.
  induction ops as [|op ops IH]; intros s st HR Hops; cbn [frun].
  - split; [exact I|exact HR].
  - inversion Hops as [|? ? Hop Hops']; subst.
    pose proof (fstep_refines s st op HR Hop) as Hs.
    destruct (fstep s op) as [s1 o] eqn:E1.
    destruct Hs as [Ho HR1].
    assert (Hops1 : Forall (fop_ok (a_first (fst (apply_out st op o)))) ops).
    { rewrite apply_out_first. exact Hops'. }
    specialize (IH s1 (apply_out st op o) HR1 Hops1).
    destruct (frun s1 ops) as [s2 os] eqn:E2. destruct IH as [Hos HR2].
    cbn [outs_ok aruns]. auto.
Qed.
