(** Model of one Raft log file: [LogInnerManager] of src/raft/filestore/raftlog/mod.rs
    (after the repairs of DESIGN section 5: end-marker test, count = 0, file-offset delta,
    no stale bytes after truncation), the [LogRecord] encoding of src/raft/filestore/log.rs
    and the sparse file it lives in.  Model only: no proofs in this file.

    The file is NOT a byte list: the 1 MiB (and more) of zero padding is never materialised.
      offset 0..31      header (binrw, big endian)  -> the record [lhdr] (fields, not bytes)
      offset 32..4095   index area                  -> [f_idx]  (bytes written so far; rest is zero)
      offset 4096..     data area                   -> [f_data] (bytes written so far; rest is zero
                                                        up to the file length [f_len])
    Not modelled: [last_flush_index]/flush (no crash in C02/C03), disk errors, the magic number. *)
From RN Require Export Base.Res Codec.Varint Codec.BufReader.
Local Open Scope N_scope.

(** * LogRecord (quick-protobuf): index = field 1 (tag 8), term = field 2 (tag 16), value = field 5
      (tag 42, length delimited); default values are omitted by the writer *)
Record lrec : Type := mkRec { r_index : N; r_term : N; r_value : list N }.

Definition enc_uint (tag v : N) : list N := if v =? 0 then [] else tag :: write_varint v.
Definition enc_bytes (tag : N) (b : list N) : list N :=
  match b with [] => [] | _ => tag :: write_varint (N.of_nat (length b)) ++ b end.
Definition rec_body (r : lrec) : list N :=
  enc_uint 8 (r_index r) ++ enc_uint 16 (r_term r) ++ enc_bytes 42 (r_value r).
(** Writer::write_message = varint(len) ++ body *)
Definition rec_frame (r : lrec) : list N := frame (rec_body r).

Definition rd (bs : list N) : res N :=
  match read_varint bs 0 with Ok v => Ok v | _ => Err end.   (* eof inside a varint = Err *)

(** MessageRead::from_reader: loop over tags until eof.  Unknown tags are a decode error in the
    model (the real reader skips them by wire type); never reached on files the writer produced. *)
Fixpoint dec_fields (fuel : nat) (bs : list N) (acc : lrec) : res lrec :=
  match bs with
  | [] => Ok acc
  | _ :: _ =>
      match fuel with
      | O => Err
      | S f =>
          res_bind (rd bs) (fun tag =>
          let bs1 := skipn (sizeof_varint tag) bs in
          if tag =? 8 then
            res_bind (rd bs1) (fun v =>
              dec_fields f (skipn (sizeof_varint v) bs1) (mkRec v (r_term acc) (r_value acc)))
          else if tag =? 16 then
            res_bind (rd bs1) (fun v =>
              dec_fields f (skipn (sizeof_varint v) bs1) (mkRec (r_index acc) v (r_value acc)))
          else if tag =? 42 then
            res_bind (rd bs1) (fun l =>
              let bs2 := skipn (sizeof_varint l) bs1 in
              if N.of_nat (length bs2) <? l then Err
              else dec_fields f (skipn (N.to_nat l) bs2)
                              (mkRec (r_index acc) (r_term acc) (firstn (N.to_nat l) bs2)))
          else Err)
      end
  end.

(** BytesReader::read_message on a frame (length prefix included) *)
Definition dec_frame (fr : list N) : res lrec :=
  res_bind (rd fr) (fun l =>
    let body := skipn (sizeof_varint l) fr in
    if N.of_nat (length body) <? l then Err
    else let b := firstn (N.to_nat l) body in dec_fields (S (length b)) b (mkRec 0 0 [])).

(** * the sparse file *)
Record lhdr : Type := mkHdr { h_last_term : N; h_first_index : N; h_data_area : N; h_interval : N }.
Record lfile : Type := mkFile { f_hdr : lhdr; f_idx : list N; f_data : list N; f_len : N }.

Definition DATA0 : N := 4096.            (* first_index.file_index: hard coded in the source *)
Definition HDR_LEN : N := 32.            (* LOG_INDEX_HEADER_LEN *)
Definition BUF_SIZE : N := 1048576.      (* LOG_DATA_BUF_SIZE *)
Definition DATA_MAX : N := 2000000000.
Definition IDX_AREA : nat := 4064.       (* 4096 - 32 *)

(** file.read(&mut [0; n]) at absolute offset [off] >= 4096: min(n, len - off) bytes *)
Definition data_read (f : lfile) (off : N) (n : nat) : list N :=
  let k := N.to_nat (N.min (N.of_nat n) (f_len f - off)) in
  let got := firstn k (skipn (N.to_nat (off - DATA0)) (f_data f)) in
  got ++ repeat 0 (k - length got).

(** A forward reader over the data area (what a seek followed by successive reads sees): the
    written bytes not yet consumed and the number of zero bytes behind them up to the end of the
    file.  [rdr_open] costs O(offset) once; every read costs O(bytes read).
    (ScanFileProofs.rdr_read_spec: it returns exactly [data_read] at the successive positions.) *)
Record rdr : Type := mkRdr { rd_bytes : list N; rd_zeros : N }.

Definition rdr_open (f : lfile) (pos : N) : rdr :=
  let rel := pos - DATA0 in
  let dl := N.of_nat (length (f_data f)) in
  if rel <? dl then mkRdr (skipn (N.to_nat rel) (f_data f)) (f_len f - DATA0 - dl)
  else mkRdr [] (f_len f - pos).

(** file.read(&mut [0; n]): min(n, remaining) bytes *)
Definition rdr_read (r : rdr) (n : nat) : list N * rdr :=
  let got := firstn n (rd_bytes r) in
  if (length got =? n)%nat then (got, mkRdr (skipn n (rd_bytes r)) (rd_zeros r))
  else
    let z := N.min (N.of_nat (n - length got)) (rd_zeros r) in
    (got ++ repeat 0 (N.to_nat z), mkRdr [] (rd_zeros r - z)).

(** seek forward by k bytes *)
Definition rdr_skip (r : rdr) (k : nat) : rdr := snd (rdr_read r k).

(** in-place write into a "rest is zero" byte list *)
Fixpoint write_at (l : list N) (off : nat) (bs : list N) : list N :=
  match off with
  | O => bs ++ skipn (length bs) l
  | S o =>
      match l with
      | [] => 0 :: write_at [] o bs
      | x :: l' => x :: write_at l' o bs
      end
  end.

Definition data_write (f : lfile) (off : N) (bs : list N) : lfile :=
  mkFile (f_hdr f) (f_idx f) (write_at (f_data f) (N.to_nat (off - DATA0)) bs)
         (N.max (f_len f) (off + N.of_nat (length bs))).
Definition idx_write (f : lfile) (off : N) (bs : list N) : lfile :=
  mkFile (f_hdr f) (write_at (f_idx f) (N.to_nat (off - HDR_LEN)) bs) (f_data f) (f_len f).
(** set_len (n >= 4096 always): shrinking drops bytes, growing adds zeros *)
Definition file_set_len (f : lfile) (n : N) : lfile :=
  mkFile (f_hdr f) (f_idx f)
         (if n - DATA0 <? N.of_nat (length (f_data f)) then firstn (N.to_nat (n - DATA0)) (f_data f)
          else f_data f) n.

(** the first 4096 bytes as read by init, minus the header: index bytes then zeros *)
Definition idx_buf (f : lfile) : list N :=
  firstn IDX_AREA (f_idx f) ++ repeat 0 (IDX_AREA - length (f_idx f)).

(** * LogInnerManager *)
Record lim : Type := mkLim {
  l_file : lfile;
  l_indexs : list (N * N);      (* (log_index, file_index) *)
  l_start : N;                  (* start_index (from the catalogue, not from the header) *)
  l_icur : N;                   (* index_cursor *)
  l_flen : N;                   (* file_len *)
  l_dcur : N;                   (* data_cursor *)
  l_cnt : N;                    (* msg_count *)
  l_lterm : N;                  (* last_term *)
  l_cic : N;                    (* current_index_count *)
  l_seek : bool;                (* need_seek_at_write *)
  l_dpos : N;                   (* OS position of the data_file handle *)
  l_split : N                   (* split_off_index *)
}.

Definition set_file (s : lim) (f : lfile) : lim :=
  mkLim f (l_indexs s) (l_start s) (l_icur s) (l_flen s) (l_dcur s) (l_cnt s) (l_lterm s)
        (l_cic s) (l_seek s) (l_dpos s) (l_split s).

Definition end_index (s : lim) : N := l_start s + l_cnt s.
Definition last_ix (ixs : list (N * N)) : N * N := last ixs (0, DATA0).

(** read_indexs: varint deltas of file offsets until a zero *)
Fixpoint read_indexs_loop (fuel : nat) (b : list N) (next : N) (off : nat) (lli lfi interval : N)
         (acc : list (N * N)) : list (N * N) * nat :=
  match fuel with
  | O => (rev acc, off)
  | S f =>
      if next =? 0 then (rev acc, off)
      else
        let lli' := lli + interval in
        let lfi' := lfi + next in
        let acc' := (lli', lfi') :: acc in
        let off' := (off + sizeof_varint next)%nat in
        if (length b - 10 <? off')%nat then (rev acc', off')
        else
          let next' := match read_varint b off' with Ok v => v | _ => 0 end in
          read_indexs_loop f b next' off' lli' lfi' interval acc'
  end.

Definition read_indexs (b : list N) (first : N * N) (interval : N) : res (list (N * N) * N) :=
  match read_varint b 0 with
  | Ok next =>
      let '(ixs, off) := read_indexs_loop (length b) b next 0 (fst first) (snd first) interval [first] in
      Ok (ixs, N.of_nat off)
  | Err => Err
  | Panic => Panic
  end.

(** move_to_index_by_count: the loop over successive 1024-byte reads.  At read_len = 0 (end of file
    before an end marker: a file cut exactly behind its last record) the repaired source returns the
    records counted so far as well (before the repair it returned [base] alone, with a cursor that had
    already moved past them). *)
Fixpoint scan_file (fuel : nat) (rd : rdr) (r : mbr) (c count cursor base : N)
  : res (N * N) :=
  match fuel with
  | O => Err
  | S fu =>
      match rdr_read rd 1024 with
      | ([], _) => Ok (cursor, base + c)
      | (ch, rd') =>
          res_bind (mbr_append r ch) (fun r1 =>
          res_bind (drain_count (S (S (en r1 - st r1))) r1 c count cursor) (fun '(hit, c', cur', r2) =>
          if hit then Ok (cur', base + c')
          else if mbr_at_end_marker r2 then Ok (cur', base + c')
          else scan_file fu rd' r2 c' count cur' base))
      end
  end.

Definition scan_fuel (f : lfile) (pos : N) : nat := S (S (N.to_nat ((f_len f - pos) / 1024))).

Definition move_to_index_by_count (f : lfile) (ix : N * N) (start count : N) : res (N * N) :=
  let data_cursor := snd ix in
  if fst ix <? start then Panic
  else
    let msg_count := fst ix - start in
    if count =? 0 then Ok (data_cursor, msg_count)        (* repair of defect 2 *)
    else scan_file (scan_fuel f data_cursor) (rdr_open f data_cursor) mbr_new 0 count data_cursor msg_count.

Definition move_to_end (f : lfile) (ix : N * N) (start : N) : res (N * N) :=
  move_to_index_by_count f ix start 65535.

(** FileMessageReader over the sparse file: read_len / read_index_position.  [read_len] reads 10
    bytes at the current position and seeks back; [read_next_position] then seeks forward by the
    frame length. *)
Definition pos_read_len (rd : rdr) : res N :=
  let got := fst (rdr_read rd 10) in
  if (length got =? 0)%nat then Err
  else
    match read_varint (got ++ repeat 0 (10 - length got)) 0 with
    | Ok len => if len =? 0 then Err else Ok (len + N.of_nat (sizeof_varint len))
    | Err => Err
    | Panic => Panic
    end.

Fixpoint pos_skip (k : nat) (rd : rdr) (pos : N) : res (N * N * rdr) :=
  res_bind (pos_read_len rd) (fun len =>
    match k with
    | O => Ok (pos, len, rd)
    | S k' => pos_skip k' (rdr_skip rd (N.to_nat len)) (pos + len)
    end).

(** get_start_index: binary search by log_index over a strictly increasing list = the last
    entry whose log_index <= start, or the first entry *)
Fixpoint find_start (ixs : list (N * N)) (start : N) (cur : N * N) : N * N :=
  match ixs with
  | [] => cur
  | e :: rest => if fst e <=? start then find_start rest start e else cur
  end.
Definition get_start_index (s : lim) (start : N) : N * N :=
  match l_indexs s with
  | [] => (0, DATA0)
  | e :: rest => find_start rest start e
  end.

(** inner loop of read_records: take buffered messages, at most c *)
Fixpoint drain_dec (fuel : nat) (r : mbr) (c : N) (acc : list lrec) : res (N * list lrec * mbr) :=
  match fuel with
  | O => Err
  | S f =>
      match mbr_next r with
      | (None, r') => Ok (c, acc, r')
      | (Some m, r') =>
          match dec_frame m with
          | Ok x => if c - 1 =? 0 then Ok (0, x :: acc, r') else drain_dec f r' (c - 1) (x :: acc)
          | _ => Err
          end
      end
  end.

Fixpoint read_loop (fuel : nat) (rd : rdr) (r : mbr) (c : N) (acc : list lrec)
  : res (list lrec) :=
  match fuel with
  | O => Err
  | S fu =>
      if c =? 0 then Ok (rev acc)
      else
        res_bind (drain_dec (S (S (en r - st r))) r c acc) (fun '(c', acc', r1) =>
        match rdr_read rd 1024 with
        | ([], _) => Ok (rev acc')
        | (ch, rd') => res_bind (mbr_append r1 ch) (fun r2 => read_loop fu rd' r2 c' acc')
        end)
  end.

Definition read_records (s : lim) (start end_ : N) : res (list lrec) * lim :=
  let start := N.max start (l_split s) in
  let end_ := N.min end_ (end_index s) in
  if end_ <=? start then (Ok [], s)
  else
    let ix := get_start_index s start in
    match pos_skip (N.to_nat (start - fst ix)) (rdr_open (l_file s) (snd ix)) (snd ix) with
    | Ok (p, _, rd) =>
        let s' := mkLim (l_file s) (l_indexs s) (l_start s) (l_icur s) (l_flen s) (l_dcur s) (l_cnt s)
                        (l_lterm s) (l_cic s) true 0 (l_split s) in
        (read_loop (S (scan_fuel (l_file s) p)) rd mbr_new (end_ - start) [], s')
    | Err => (Err, s)
    | Panic => (Panic, s)
    end.

Definition set_split (s : lim) (k : N) : lim :=
  mkLim (l_file s) (l_indexs s) (l_start s) (l_icur s) (l_flen s) (l_dcur s) (l_cnt s) (l_lterm s)
        (l_cic s) (l_seek s) (l_dpos s) (N.max k (l_start s)).

(** the tail of init, once the file, its index list, the cursors and the record count are known *)
Definition init_finish (f : lfile) (ixs : list (N * N)) (icur flen dcur cnt start pre_term split : N) : res lim :=
  if h_interval (f_hdr f) =? 0 then Panic
  else
    (* repaired (defect 8c): last_term is recovered BEFORE split-off is applied, so that a last
       record hidden by split-off still yields its term *)
    let s := mkLim f ixs start icur flen dcur cnt pre_term (cnt mod h_interval (f_hdr f)) false dcur
                   start in
    let s1 :=
      if 0 <? cnt then
        let e := end_index s in
        match read_records s (e - 1) e with
        | (Ok logs, s') =>
            match rev logs with
            | x :: _ => mkLim (l_file s') (l_indexs s') (l_start s') (l_icur s') (l_flen s') (l_dcur s')
                              (l_cnt s') (r_term x) (l_cic s') (l_seek s') (l_dpos s') (l_split s')
            | [] => s'
            end
        | (_, s') => s'
        end
      else s in
    Ok (set_split s1 split).

(** repaired (C04): a kill between the data write that completes an index block and the write of
    its index entry leaves the entry missing; read_indexs counts [interval] records per entry, so
    init writes the missing entries (one per complete block behind the last entry) *)
Fixpoint rebuild_index (fuel : nat) (f : lfile) (ixs : list (N * N)) (icur start cnt : N)
  : res (lfile * list (N * N) * N) :=
  match fuel with
  | O => Ok (f, ixs, icur)
  | S fu =>
      let last := last_ix ixs in
      let iv := h_interval (f_hdr f) in
      if (iv =? 0) || (start + cnt <? fst last + iv) || (h_data_area (f_hdr f) <=? icur + 10)
      then Ok (f, ixs, icur)
      else
        res_bind (move_to_index_by_count f last start iv) (fun '(cur, _) =>
        let idata := write_varint (cur - snd last) in
        rebuild_index fu (idx_write f icur idata) (ixs ++ [(fst last + iv, cur)])
                      (icur + N.of_nat (length idata)) start cnt)
  end.

(** init: [file] = None for a file of length 0.  [limit] = header.data_area_index of a fresh file
    (4096 in the source; the verification hook can lower it to reach rollover quickly). *)
Definition init (file : option lfile) (limit start pre_term split : N) : res lim :=
  let first := (start, DATA0) in
  res_bind
    (match file with
     | None =>
         let h := mkHdr pre_term start limit 128 in
         Ok (mkFile h [] [] BUF_SIZE, [first], HDR_LEN, BUF_SIZE)
     | Some f =>
         res_bind (read_indexs (idx_buf f) first (h_interval (f_hdr f))) (fun '(ixs, off) =>
           Ok (f, ixs, off + HDR_LEN, f_len f))
     end) (fun '(f, ixs, icur, flen) =>
  res_bind (move_to_end f (last_ix ixs) start) (fun '(dcur, cnt) =>
  res_bind (rebuild_index (S (N.to_nat cnt)) f ixs icur start cnt) (fun '(f', ixs', icur') =>
  init_finish f' ixs' icur' flen dcur cnt start pre_term split))).

Inductive wmark := WSuccess | WSuccessToEnd | WFailure | WIndexEqualError.

Definition is_full (s : lim) : bool :=
  (h_data_area (f_hdr (l_file s)) <=? l_icur s + 10) || (DATA_MAX <=? l_dcur s).

Definition write (s : lim) (x : lrec) : lim * wmark :=
  if is_full s then (s, WFailure)
  else if negb (end_index s =? r_index x) then (s, WIndexEqualError)
  else
    let buf := rec_frame x in
    let blen := N.of_nat (length buf) in
    let '(f1, flen1) :=
      if l_flen s <=? l_dcur s + blen
      then let fl := l_flen s + N.max blen BUF_SIZE in (file_set_len (l_file s) fl, fl)
      else (l_file s, l_flen s) in
    let pos := if l_seek s then l_dcur s else l_dpos s in
    let f2 := data_write f1 pos buf in
    let dcur := l_dcur s + blen in
    let cic := l_cic s + 1 in
    let cnt := l_cnt s + 1 in
    let h := f_hdr (l_file s) in
    let '(f3, ixs, icur, cic') :=
      if cic =? h_interval h then
        let idata := write_varint (dcur - snd (last_ix (l_indexs s))) in
        (idx_write f2 (l_icur s) idata, l_indexs s ++ [(cnt + h_first_index h, dcur)],
         l_icur s + N.of_nat (length idata), 0)
      else (f2, l_indexs s, l_icur s, cic) in
    let s' := mkLim f3 ixs (l_start s) icur flen1 dcur cnt (r_term x) cic' false (pos + blen) (l_split s) in
    (s', if is_full s' then WSuccessToEnd else WSuccess).

(** get_file_index_by_log_index (repaired: the popped bytes are sized by the FILE-offset delta) *)
Fixpoint gfi_loop (rixs : list (N * N)) (k : N) (lastix : N * N) (flen pops : N)
  : res ((N * N) * N * N) :=
  match rixs with
  | [] => Err
  | item :: rest =>
      let '(lastix', flen', pops') :=
        if negb (fst item =? fst lastix)
        then (item, flen + N.of_nat (sizeof_varint (snd lastix - snd item)), pops + 1)
        else (lastix, flen, pops) in
      if fst item <=? k then Ok (item, flen', pops')
      else gfi_loop rest k lastix' flen' pops'
  end.
Definition get_file_index_by_log_index (s : lim) (k : N) : res ((N * N) * N * N) :=
  gfi_loop (rev (l_indexs s)) k (last_ix (l_indexs s)) 0 0.

Definition pop_n {A} (n : nat) (l : list A) : list A := firstn (length l - n) l.

Definition strip_log_to (s : lim) (k : N) : res lim :=
  if end_index s <=? k then Ok s
  else
    res_bind (get_file_index_by_log_index s k) (fun '(ix, fil, pops) =>
    let '(f1, ixs, icur) :=
      if 0 <? pops then
        let icur := l_icur s - fil in
        (* repaired: zeros over all popped index bytes (was: the two bytes [0;1]) *)
        (idx_write (l_file s) icur (repeat 0 (N.to_nat fil)), pop_n (N.to_nat pops) (l_indexs s), icur)
      else (l_file s, l_indexs s, l_icur s) in
    let cic := k - fst ix in
    res_bind (move_to_index_by_count f1 ix (l_start s) cic) (fun '(dcur, cnt) =>
    (* repaired: shrink to data_cursor, grow back: nothing of the removed suffix stays; no [0;1]
       marker is written first (C04: a kill behind the marker left the suffix in place) *)
    let f3 := file_set_len (file_set_len f1 dcur) (l_flen s) in
    Ok (mkLim f3 ixs (l_start s) icur (l_flen s) dcur cnt (l_lterm s) cic (l_seek s) dcur (l_split s)))).

Definition get_last_index_info (s : lim) : N * N :=
  ((if end_index s =? 0 then 0 else end_index s - 1), l_lterm s).

