(** The byte layout of a well-formed log file as a function of its records: the canonical
    state [conc c] of the LogInnerManager model.  Definitions used by the statements and proofs of
    C02/C03 (the well-formedness invariant WF of DESIGN section 3).  The records are kept in
    blocks of 128 (= index_interval): one index entry per complete block. *)
From RN Require Import Base.Res Codec.Varint Codec.BufReader RaftLog.LogFile RaftLog.Spec.
Local Open Scope N_scope.

Definition nlen {A} (l : list A) : N := N.of_nat (length l).

(** bytes of the data area *)
Definition fr (rs : list lrec) : list N := concat (map rec_frame rs).
Definition frl (rs : list lrec) : N := nlen (fr rs).

(** index entries behind the first one: (log index, file offset) after each complete block *)
Fixpoint ixs_from (li fi : N) (blocks : list (list lrec)) : list (N * N) :=
  match blocks with
  | [] => []
  | b :: bs => (li + 128, fi + frl b) :: ixs_from (li + 128) (fi + frl b) bs
  end.
Definition ixs_of (first : N) (blocks : list (list lrec)) : list (N * N) :=
  (first, DATA0) :: ixs_from first DATA0 blocks.
(** bytes of the index area: varint of the byte length of each complete block *)
Definition ienc (blocks : list (list lrec)) : list N :=
  concat (map (fun b => write_varint (frl b)) blocks).

Record cst : Type := mkCst {
  c_first : N;                    (* start index *)
  c_blocks : list (list lrec);    (* complete blocks of 128 records *)
  c_part : list lrec;             (* the records after the last complete block (< 128) *)
  c_z : nat;                      (* zero bytes written behind the index entries (by truncations) *)
  c_flen : N;                     (* file length *)
  c_hterm : N;                    (* header.last_term *)
  c_da : N;                       (* header.data_area_index *)
  c_lterm : N;                    (* in-memory last_term *)
  c_seek : bool;
  c_dpos : N;
  c_split : N
}.

Definition c_all (c : cst) : list lrec := concat (c_blocks c) ++ c_part c.
Definition c_dcur (c : cst) : N := DATA0 + frl (c_all c).

Definition c_file (c : cst) : lfile :=
  mkFile (mkHdr (c_hterm c) (c_first c) (c_da c) 128)
         (ienc (c_blocks c) ++ repeat 0 (c_z c)) (fr (c_all c)) (c_flen c).

Definition conc (c : cst) : lim :=
  mkLim (c_file c) (ixs_of (c_first c) (c_blocks c)) (c_first c)
        (HDR_LEN + nlen (ienc (c_blocks c))) (c_flen c) (c_dcur c) (nlen (c_all c)) (c_lterm c)
        (nlen (c_part c)) (c_seek c) (c_dpos c) (c_split c).

(** * well-formedness *)
Definition rec_ok (r : lrec) : Prop :=
  r_index r < 2 ^ 64 /\ r_term r < 2 ^ 64 /\ all_bytes (r_value r) /\ N.of_nat (length (r_value r)) < 2 ^ 62.
Definition rec_nonempty (r : lrec) : Prop := r_index r <> 0 \/ r_term r <> 0 \/ r_value r <> [].

(** record number i carries index first + i *)
Fixpoint indexed (i : N) (rs : list lrec) : Prop :=
  match rs with
  | [] => True
  | r :: rs' => r_index r = i /\ indexed (i + 1) rs'
  end.

(** every index entry was written while the file was not full: its first byte lies at an
    offset o with o + 10 < data_area_index *)
Fixpoint idx_fits (da : N) (off : N) (blocks : list (list lrec)) : Prop :=
  match blocks with
  | [] => True
  | b :: bs => off + 10 < da /\ idx_fits da (off + nlen (write_varint (frl b))) bs
  end.

Record wfc (c : cst) : Prop := mkWfc {
  wf_blocks : Forall (fun b => length b = 128%nat) (c_blocks c);
  wf_part : (length (c_part c) < 128)%nat;
  wf_indexed : indexed (c_first c) (c_all c);
  wf_ok : Forall rec_ok (c_all c);
  wf_nonempty : Forall rec_nonempty (c_all c);
  wf_flen : c_dcur c < c_flen c;
  wf_small : c_dcur c < 2 ^ 63;
  wf_da : c_da c <= 4096;
  wf_fits : idx_fits (c_da c) HDR_LEN (c_blocks c);
  wf_idx_len : (length (ienc (c_blocks c)) + c_z c <= IDX_AREA)%nat;
  wf_pos : c_seek c = false -> c_dpos c = c_dcur c;
  wf_split : c_first c <= c_split c;
  (* the index area fills up exactly when a block is completed *)
  wf_full : c_da c <= HDR_LEN + nlen (ienc (c_blocks c)) + 10 -> c_part c = []
}.

(** * abstraction *)
Definition ent_of (r : lrec) : N * list N := (r_term r, r_value r).
Definition abs (c : cst) : alog := mkAlog (c_first c) (map ent_of (c_all c)).

(** the representation relation between a model state and an abstract log *)
Definition Rep (s : lim) (a : alog) : Prop := exists c, s = conc c /\ wfc c /\ abs c = a.
