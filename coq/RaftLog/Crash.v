(** C04, index file: every modelled operation of RaftIndexInnerManager emits the file mutations
    it issues (its journal); a crash state is the directory after a prefix of the journal;
    [recover] is what a restarted process does with that directory.  Model only. *)
From RN Require Export Base.Res Base.Fs RaftLog.IndexFile.
Local Open Scope N_scope.

Definition IDX : fname := fn_index.

(** OpenOptions::create(true).open: creates the file when it is missing; then the fresh-file
    rule of init decides whether the initial image is written *)
Definition init_journal (existing : option (list N)) : list mut :=
  match existing with
  | None => [MCreate IDX; MWrite IDX 0 fresh_image]
  | Some f => if (length f <? 9)%nat then [MWrite IDX 0 fresh_image] else []
  end.

Definition op_journal (sh : nat -> addr_map -> addr_map) (st : ist) (op : iop) : list mut :=
  match op with
  | OpApplied v => [MWrite IDX 0 (be8 v)]
  | OpReopen => init_journal (Some (i_file st))
  | _ => [MWrite IDX 8 (index_record (sh (i_wcount st)) (upd_index (i_index st) op))]
  end.

Fixpoint journal_from (sh : nat -> addr_map -> addr_map) (st : ist) (ops : list iop) : list mut :=
  match ops with
  | [] => []
  | op :: ops' =>
      op_journal sh st op ++
      match step sh st op with
      | Ok st' => journal_from sh st' ops'
      | _ => []
      end
  end.

(** the journal of a node started in an empty directory and driven through [ops] *)
Definition journal (sh : nat -> addr_map -> addr_map) (ops : list iop) : list mut :=
  init_journal None ++
  match init sh 0 [] with
  | Ok st => journal_from sh st ops
  | _ => []
  end.

(** restart on a directory image: the index file is opened (created empty when missing) *)
Definition recover (sh : nat -> addr_map -> addr_map) (s : fs) : res ist :=
  init sh 0 (match fs_get IDX s with Some f => f | None => [] end).

(** * composition with the other files of the store, over an abstract interface.
    [reproducible s] = the highest index the snapshot + log files of directory [s] can
    reproduce (the log model is built separately; nothing of it is used here). *)
Definition other_file (m : mut) : Prop := mut_touches m IDX = false.

(** the header write of last_applied = v *)
Definition is_applied_write (m : mut) (v : N) : Prop := m = MWrite IDX 0 (be8 v).
