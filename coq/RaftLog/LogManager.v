(** Model of RaftLogManager (src/raft/filestore/raftlog/mod.rs): the catalogue of log files
    ([LogRange]), one LogInnerManager per open file, rollover ([switch_new_log]), batch
    re-submission, query routing, delete-from ([strip_log_to_index], after the repairs of defects 4
    and 7), split-off and snapshot-pointer logs.  The actor mailboxes are modelled as immediate
    calls (every request of the scripts is awaited before the next one is sent); the catalogue
    saved in the index file ([m_saved], what a restart sees) is kept apart from the in-memory one.
    Model only: no proofs in this file. *)
From RN Require Export Base.Res Codec.Varint Codec.BufReader RaftLog.LogFile.
Local Open Scope N_scope.

Record lrange : Type := mkRange {
  g_id : N; g_pre : N; g_start : N; g_count : N; g_split : N; g_close : bool }.

(** get_log_range_end_index: u64::MAX for the open range *)
Definition U64MAX : N := 18446744073709551615.
Definition g_end (g : lrange) : N := if g_close g then g_start g + g_count g else U64MAX.
Definition lt_end (k : N) (g : lrange) : bool := k <? g_end g.
Definition ge_end (k : N) (g : lrange) : bool := negb (lt_end k g).

Record mgr : Type := mkMgr {
  m_logs : list lrange;            (* self.logs *)
  m_saved : list lrange;           (* RaftIndex.logs as last saved (SaveLogs) *)
  m_actors : list (N * lim);       (* started RaftLogActors, by range id *)
  m_disk : list (N * lfile);       (* log_<id> files without a started actor *)
  m_cur : option N;                (* current_log_actor *)
  m_pre_ptr : option lrec;         (* pre_ready_snapshot_pointer *)
  m_limit : N                      (* data_area_index of fresh files (4096; hook: smaller) *)
}.

Fixpoint lookup {A} (k : N) (l : list (N * A)) : option A :=
  match l with
  | [] => None
  | (k', v) :: l' => if k =? k' then Some v else lookup k l'
  end.
Fixpoint remove_key {A} (k : N) (l : list (N * A)) : list (N * A) :=
  match l with
  | [] => []
  | (k', v) :: l' => if k =? k' then remove_key k l' else (k', v) :: remove_key k l'
  end.
Definition set_key {A} (k : N) (v : A) (l : list (N * A)) : list (N * A) := (k, v) :: remove_key k l.

Definition set_actor (m : mgr) (id : N) (s : lim) : mgr :=
  mkMgr (m_logs m) (m_saved m) (set_key id s (m_actors m)) (remove_key id (m_disk m)) (m_cur m)
        (m_pre_ptr m) (m_limit m).
Definition set_logs (m : mgr) (logs : list lrange) : mgr :=
  mkMgr logs (m_saved m) (m_actors m) (m_disk m) (m_cur m) (m_pre_ptr m) (m_limit m).
Definition save_logs (m : mgr) : mgr :=
  mkMgr (m_logs m) (m_logs m) (m_actors m) (m_disk m) (m_cur m) (m_pre_ptr m) (m_limit m).
Definition set_cur (m : mgr) (c : option N) : mgr :=
  mkMgr (m_logs m) (m_saved m) (m_actors m) (m_disk m) c (m_pre_ptr m) (m_limit m).

(** create_log_actor / the actor's lazy init: the existing one, or init on the file on disk *)
Definition actor_of (m : mgr) (g : lrange) : res (lim * mgr) :=
  match lookup (g_id g) (m_actors m) with
  | Some s => Ok (s, m)
  | None =>
      res_bind (init (lookup (g_id g) (m_disk m)) (m_limit m) (g_start g) (g_pre g) (g_split g))
               (fun s => Ok (s, set_actor m (g_id g) s))
  end.

(** RaftLogCmd::Close + remove_file *)
Definition drop_file (m : mgr) (id : N) : mgr :=
  mkMgr (m_logs m) (m_saved m) (remove_key id (m_actors m)) (remove_key id (m_disk m)) (m_cur m)
        (m_pre_ptr m) (m_limit m).

Definition last_opt {A} (l : list A) : option A := match rev l with x :: _ => Some x | [] => None end.
Fixpoint close_last (logs : list lrange) (next_index : N) : list lrange :=
  match logs with
  | [] => []
  | [g] => [mkRange (g_id g) (g_pre g) (g_start g) (next_index - g_start g) (g_split g) true]
  | g :: rest => g :: close_last rest next_index
  end.

(** switch_new_log *)
Definition switch_new_log (m : mgr) (next_index last_term : N) : res mgr :=
  let id := match last_opt (m_logs m) with Some g => g_id g + 1 | None => 1 end in
  let g := mkRange id last_term next_index 0 next_index false in
  let m1 := save_logs (set_logs m (close_last (m_logs m) next_index ++ [g])) in
  res_bind (actor_of m1 g) (fun '(_, m2) => Ok (set_cur m2 (Some id))).

Definition cur_range (m : mgr) : option lrange :=
  match m_cur m with
  | Some id => find (fun g => g_id g =? id) (m_logs m)
  | None => None
  end.
Definition cur_actor (m : mgr) : option (N * lim) :=
  match m_cur m with
  | Some id => match lookup id (m_actors m) with Some s => Some (id, s) | None => None end
  | None => None
  end.

Inductive wres := WOk | WErrIndex | WErr.

(** write (Write request): the record goes to the current file; a full file is closed and a new one
    started *)
Fixpoint mgr_write (fuel : nat) (m : mgr) (x : lrec) (can_rewrite : bool) : mgr * wres :=
  match fuel with
  | O => (m, WErr)
  | S f =>
      match (match m_cur m with
             | Some _ => Ok m
             | None => switch_new_log m (r_index x) (r_term x)
             end) with
      | Ok m1 =>
          match cur_actor m1 with
          | None => (m1, WErr)
          | Some (id, s) =>
              let '(s', mark) := write s x in
              let m2 := set_actor m1 id s' in
              match mark with
              | WSuccess => (m2, WOk)
              | WSuccessToEnd =>
                  match switch_new_log m2 (end_index s') (l_lterm s') with
                  | Ok m3 => (m3, WOk)
                  | _ => (m2, WOk)
                  end
              | WIndexEqualError => (m2, WErrIndex)
              | WFailure =>
                  match switch_new_log m2 (end_index s') (l_lterm s') with
                  | Ok m3 => if can_rewrite then mgr_write f m3 x false else (m3, WErr)
                  | _ => (m2, WErr)
                  end
              end
          end
      | _ => (m, WErr)
      end
  end.

(** the WriteBatch handler of one file: writes from position [i] on; (mark, last_index) *)
Fixpoint file_write_batch (s : lim) (xs : list lrec) (mark : wmark) (n : nat) : lim * wmark * nat :=
  match xs with
  | [] => (s, mark, n)
  | x :: xs' =>
      let '(s', mk) := write s x in
      match mk with
      | WFailure | WIndexEqualError => (s', mk, n)
      | _ => file_write_batch s' xs' mk (S n)
      end
  end.

Fixpoint mgr_write_batch (fuel : nat) (m : mgr) (xs : list lrec) (i : nat) : mgr * wres :=
  match fuel with
  | O => (m, WErr)
  | S f =>
      match xs with
      | [] => (m, WOk)       (* Ignore *)
      | x0 :: _ =>
          match (match m_cur m with
                 | Some _ => Ok m
                 | None => switch_new_log m (r_index x0) (r_term x0)
                 end) with
          | Ok m1 =>
              match cur_actor m1 with
              | None => (m1, WErr)
              | Some (id, s) =>
                  let '(s', mark, last) := file_write_batch s (skipn i xs) WSuccess i in
                  let m2 := set_actor m1 id s' in
                  match mark with
                  | WSuccess => (m2, WOk)
                  | WSuccessToEnd =>
                      (* repaired (defect 8a): last = length xs here *)
                      match switch_new_log m2 (end_index s') (l_lterm s') with
                      | Ok m3 => if (last =? length xs)%nat then (m3, WOk) else mgr_write_batch f m3 xs (S last)
                      | _ => (m2, WOk)
                      end
                  | WIndexEqualError => (m2, WErrIndex)
                  | WFailure =>
                      match switch_new_log m2 (end_index s') (l_lterm s') with
                      | Ok m3 => mgr_write_batch f m3 xs last
                      | _ => (m2, WErr)
                      end
                  end
              end
          | _ => (m, WErr)
          end
      end
  end.

(** get_query_log_actors + query_record_by_log_actors: every selected file answers for the same
    interval; the [||] of the source selects (almost) every file and is kept *)
Fixpoint mgr_query_loop (m : mgr) (logs : list lrange) (lo hi : N) : mgr * list lrec :=
  match logs with
  | [] => (m, [])
  | g :: rest =>
      if lt_end lo g || (g_start g <=? hi) then
        match actor_of m g with
        | Ok (s, m1) =>
            let '(r, s') := read_records s lo hi in
            let m2 := set_actor m1 (g_id g) s' in
            let '(m3, l) := mgr_query_loop m2 rest lo hi in
            (m3, match r with Ok l0 => l0 ++ l | _ => l end)
        | _ => mgr_query_loop m rest lo hi
        end
      else mgr_query_loop m rest lo hi
  end.
Definition mgr_query (m : mgr) (lo hi : N) : mgr * list lrec := mgr_query_loop m (m_logs m) lo hi.

Definition mgr_last (m : mgr) : N * N :=
  match cur_actor m with
  | Some (_, s) => get_last_index_info s
  | None => (0, 0)
  end.

(** strip_log_to_index (repaired: defects 4 and 7) *)
Fixpoint strip_loop (m : mgr) (logs : list lrange) (k : N) (pops : nat) : mgr * nat :=
  match logs with
  | [] => (m, pops)
  | g :: rest =>
      if lt_end k g then
        if k <? g_start g then strip_loop (drop_file m (g_id g)) rest k (S pops)
        else
          match actor_of m g with
          | Ok (s, m1) =>
              let m2 := match strip_log_to s k with
                        | Ok s' => set_actor m1 (g_id g) s'
                        | _ => m1
                        end in
              strip_loop m2 rest k pops
          | _ => strip_loop m rest k pops
          end
      else strip_loop m rest k pops
  end.

Fixpoint reopen_last (logs : list lrange) : list lrange :=
  match logs with
  | [] => []
  | [g] => [mkRange (g_id g) (g_pre g) (g_start g) 0 (g_split g) false]
  | g :: rest => g :: reopen_last rest
  end.

Definition mgr_strip (m : mgr) (k : N) : mgr :=
  let '(m1, pops) := strip_loop m (m_logs m) k 0 in
  if (0 <? pops)%nat then
    let logs := reopen_last (firstn (length (m_logs m1) - pops) (m_logs m1)) in
    let m2 := set_logs m1 logs in
    match last_opt logs with
    | Some g =>
        match actor_of m2 g with
        | Ok (_, m3) => save_logs (set_cur m3 (Some (g_id g)))
        | _ => save_logs m2
        end
    | None => save_logs m2
    end
  else m1.

(** split_off *)
Fixpoint split_loop (m : mgr) (logs : list lrange) (k : N) (i : nat) : mgr * list lrange * nat :=
  match logs with
  | [] => (m, [], i)
  | g :: rest =>
      if ge_end k g then
        let '(m1, rest', i') := split_loop (drop_file m (g_id g)) rest k (S i) in (m1, g :: rest', i')
      else if g_split g <? k then
        let g' := mkRange (g_id g) (g_pre g) (g_start g) (g_count g) k (g_close g) in
        let m1 := match lookup (g_id g) (m_actors m) with
                  | Some s => set_actor m (g_id g) (set_split s k)
                  | None => m
                  end in
        (m1, g' :: rest, i)
      else
        let '(m1, rest', i') := split_loop m rest k i in (m1, g :: rest', i')
  end.

Definition mgr_split_off (m : mgr) (k : N) : mgr :=
  let '(m1, logs, i) := split_loop m (m_logs m) k 0 in
  let m2 := set_logs m1 logs in
  if (0 <? i)%nat then
    let rest := skipn i logs in
    (* repaired (lead's fix b4420c3): when every file was removed the next write starts a new log *)
    let m3 := match rest with [] => set_cur m2 None | _ => m2 end in
    save_logs (set_logs m3 rest)
  else m2.

(** save_new_snapshot_pointer *)
Definition mgr_save_pointer (m : mgr) (ptr : lrec) : mgr :=
  let m1 := mgr_split_off m (r_index ptr + 1) in
  match m_logs m1 with
  | [] => fst (mgr_write 3 m1 ptr true)
  | first :: _ =>
      let g := mkRange (g_id first - 1) (r_term ptr) (r_index ptr) 1 (r_index ptr) true in
      let m2 := save_logs (set_logs m1 (g :: m_logs m1)) in
      match actor_of (set_logs m2 (m_logs m1)) g with      (* the actor is created before the insert *)
      | Ok (s, m3) =>
          let '(s', _) := write s ptr in
          set_logs (set_actor m3 (g_id g) s') (g :: m_logs m1)
      | _ => m2
      end
  end.

(** begin_ready_to_load: the pointer of the previous snapshot is installed *)
Definition mgr_build_pointer (m : mgr) (ptr : lrec) : mgr :=
  match m_pre_ptr m with
  | Some prev =>
      let m1 := mkMgr (m_logs m) (m_saved m) (m_actors m) (m_disk m) (m_cur m) (Some ptr) (m_limit m) in
      mgr_save_pointer m1 prev
  | None => mkMgr (m_logs m) (m_saved m) (m_actors m) (m_disk m) (m_cur m) (Some ptr) (m_limit m)
  end.

(** graceful stop + start: files of started actors go back to disk, the saved catalogue is
    loaded, actors are started for the ranges (build_log_actor; no snapshot range is recorded by
    the scripts, so every range gets one), the last one is current *)
Fixpoint start_actors (m : mgr) (logs : list lrange) : mgr :=
  match logs with
  | [] => m
  | g :: rest =>
      let m1 := start_actors m rest in
      match actor_of m1 g with Ok (_, m2) => m2 | _ => m1 end
  end.

Definition mgr_reopen (m : mgr) : mgr :=
  let disk := fold_right (fun '(id, s) d => set_key id (l_file s) d) (m_disk m) (m_actors m) in
  let m0 := mkMgr (m_saved m) (m_saved m) [] disk None None (m_limit m) in
  let m1 := start_actors m0 (m_saved m) in
  set_cur m1 (match last_opt (m_saved m) with Some g => Some (g_id g) | None => None end).

Definition mgr_init (limit : N) : mgr := mkMgr [] [] [] [] None None limit.
