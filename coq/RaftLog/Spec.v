(** Abstract Raft log: the first index and the list of (term, payload); the operations the
    properties C02/C03 talk about.  Specification only. *)
From RN Require Export Base.Res.
Local Open Scope N_scope.

Record aent : Type := mkEnt { e_index : N; e_term : N; e_value : list N }.
Record alog : Type := mkAlog { a_first : N; a_ents : list (N * list N) }.

Definition a_len (a : alog) : N := N.of_nat (length (a_ents a)).
Definition a_end (a : alog) : N := a_first a + a_len a.
Definition a_empty (first : N) : alog := mkAlog first [].

(** append is accepted only at the end (contiguity) *)
Definition a_append (a : alog) (index term : N) (value : list N) : option alog :=
  if index =? a_end a then Some (mkAlog (a_first a) (a_ents a ++ [(term, value)])) else None.

(** delete-from k (k >= first): keep exactly the entries below k *)
Definition a_truncate (a : alog) (k : N) : alog :=
  if a_end a <=? k then a else mkAlog (a_first a) (firstn (N.to_nat (k - a_first a)) (a_ents a)).

Fixpoint number (i : N) (l : list (N * list N)) : list aent :=
  match l with
  | [] => []
  | (t, v) :: l' => mkEnt i t v :: number (i + 1) l'
  end.
Definition a_all (a : alog) : list aent := number (a_first a) (a_ents a).

(** entries with lo <= index < hi *)
Definition a_get (a : alog) (lo hi : N) : list aent :=
  let lo' := N.max lo (a_first a) in
  let hi' := N.min hi (a_end a) in
  if hi' <=? lo' then []
  else number lo' (firstn (N.to_nat (hi' - lo')) (skipn (N.to_nat (lo' - a_first a)) (a_ents a))).

(** last index and term; an empty log reports the entry before its first index with the
    term [pre] recorded when the log was started *)
Definition a_last (a : alog) (pre : N) : N * N :=
  match rev (a_ents a) with
  | (t, _) :: _ => (a_end a - 1, t)
  | [] => ((if a_end a =? 0 then 0 else a_end a - 1), pre)
  end.
