From RN Require Import Base.Res Cluster.CommitRule.
From Coq Require Import Sorting.Permutation ZifyBool ZifyNat ZifyN.
Local Open Scope N_scope.

Inductive sorted : list ent -> Prop :=
| s_nil : sorted []
| s_one e : sorted [e]
| s_cons e x l : fst e <= fst x -> sorted (x :: l) -> sorted (e :: x :: l).

Lemma insert_perm e l : Permutation (e :: l) (insert e l).
Proof.
  induction l as [|x l IH]; cbn [insert]; [reflexivity|].
  destruct (fst e <=? fst x); [reflexivity|].
  rewrite perm_swap. apply perm_skip. exact IH.
Qed.

Lemma isort_perm l : Permutation l (isort l).
Proof.
  induction l as [|e l IH]; cbn [isort]; [reflexivity|].
  rewrite <- insert_perm. apply perm_skip. exact IH.
Qed.

Lemma insert_sorted e l : sorted l -> sorted (insert e l).
Proof.
  induction 1 as [|x|a x l Hax Hs IH]; cbn [insert].
  - constructor.
  - destruct (fst e <=? fst x) eqn:E; constructor; try constructor; lia.
  - destruct (fst e <=? fst a) eqn:E.
    + constructor; [lia|]. constructor; assumption.
    + cbn [insert] in IH. destruct (fst e <=? fst x) eqn:E2.
      * constructor; [lia|]. exact IH.
      * constructor; [exact Hax|]. exact IH.
Qed.

Lemma isort_sorted l : sorted (isort l).
Proof. induction l as [|e l IH]; cbn [isort]; [constructor|]. apply insert_sorted, IH. Qed.

Lemma sorted_tail e l : sorted (e :: l) -> sorted l.
Proof. inversion 1; subst; [constructor|assumption]. Qed.

Lemma sorted_head_le e l x : sorted (e :: l) -> In x l -> fst e <= fst x.
Proof.
  revert e. induction l as [|a l IH]; intros e Hs Hin; [destruct Hin|].
  inversion Hs; subst. destruct Hin as [<-|Hin]; [assumption|].
  assert (fst a <= fst x) by (apply IH; assumption). lia.
Qed.

(** in a sorted list every element from position k on is >= the k-th element *)
Lemma sorted_skipn_ge l : sorted l -> forall k d x, (k < length l)%nat -> In x (skipn k l) -> fst (nth k l d) <= fst x.
Proof.
  induction l as [|e l IH]; intros Hs k d x Hk Hin; [cbn in Hk; lia|].
  destruct k as [|k].
  - cbn [skipn nth] in *. destruct Hin as [<-|Hin]; [lia|]. apply (sorted_head_le e l x Hs Hin).
  - cbn [skipn nth length] in *. apply IH; [eapply sorted_tail; exact Hs|lia|exact Hin].
Qed.

Lemma matched_by_perm c a b : Permutation a b -> matched_by c a = matched_by c b.
Proof.
  unfold matched_by. induction 1 as [|x a b _ IH|x y a|a b d _ IH1 _ IH2]; cbn [filter].
  - reflexivity.
  - destruct (c <=? fst x); cbn [length]; lia.
  - destruct (c <=? fst y), (c <=? fst x); reflexivity.
  - lia.
Qed.

Lemma filter_all_length {A} (f : A -> bool) l : (forall x, In x l -> f x = true) -> length (filter f l) = length l.
Proof.
  induction l as [|a l IH]; intros H; [reflexivity|]. cbn [filter].
  rewrite (H a (or_introl eq_refl)). cbn [length]. rewrite IH; [reflexivity|].
  intros x Hx. apply H. right. exact Hx.
Qed.

Lemma matched_by_ge_suffix c l k : (forall x, In x (skipn k l) -> c <= fst x) -> (length l - k <= matched_by c l)%nat.
Proof.
  intros H. unfold matched_by. rewrite <- (firstn_skipn k l) at 2. rewrite filter_app, app_length.
  rewrite (filter_all_length _ (skipn k l)); [rewrite skipn_length; lia|].
  intros x Hx. specialize (H x Hx). lia.
Qed.

(** a commit index chosen by [calculate_new_commit_index] is matched by a strict majority of the
    entries it was computed from *)
Theorem new_commit_majority es cur t :
  cur < new_commit es cur t -> (length es < 2 * matched_by (new_commit es cur t) es)%nat.
Proof.
  unfold new_commit. destruct es as [|e0 es0] eqn:Ees; [lia|]. rewrite <- Ees.
  set (off := ((length es + 1) / 2 - 1)%nat).
  set (nv := nth off (isort es) (cur, t)).
  destruct ((cur <? fst nv) && (snd nv =? t)) eqn:E; [|lia].
  intros _.
  assert (Hlen : length (isort es) = length es) by (symmetry; apply Permutation_length, isort_perm).
  assert (Hpos : (0 < length es)%nat) by (rewrite Ees; cbn [length]; lia).
  assert (Hoff : (off < length es)%nat).
  { unfold off. pose proof (Nat.div_mod (length es + 1) 2). lia. }
  rewrite (matched_by_perm (fst nv) es (isort es) (isort_perm es)).
  assert (Hsuf : (length (isort es) - off <= matched_by (fst nv) (isort es))%nat).
  { apply matched_by_ge_suffix. intros x Hx. unfold nv.
    apply (sorted_skipn_ge (isort es) (isort_sorted es) off (cur, t) x); [lia|exact Hx]. }
  rewrite Hlen in Hsuf. unfold off in *. pose proof (Nat.div_mod (length es + 1) 2). lia.
Qed.

(** when every voting member other than the leader is tracked in [nodes] (what an ELECTED leader
    sets up), the entries are one per member, hence the majority above is a majority of the cluster *)
Lemma leader_entries_length nodes members self_last :
  (forall p, In p nodes -> mem (fst p) members = true) ->
  length (leader_entries nodes members self_last) = S (length nodes).
Proof.
  intros H. unfold leader_entries. rewrite app_length, map_length.
  rewrite filter_all_length by exact H. cbn [length]. lia.
Qed.

Theorem commit_needs_majority_when_tracked nodes members self_last cur t :
  nodes <> [] ->
  (forall p, In p nodes -> mem (fst p) members = true) ->
  length members = S (length nodes) ->
  cur < commit_of_write nodes members self_last cur t ->
  (length members < 2 * matched_by (commit_of_write nodes members self_last cur t)
                                    (leader_entries nodes members self_last))%nat.
Proof.
  intros Hne Hall Hlen Hlt. unfold commit_of_write in *.
  destruct nodes as [|n0 ns]; [congruence|].
  rewrite Hlen, <- (leader_entries_length (n0 :: ns) members self_last Hall).
  apply new_commit_majority. exact Hlt.
Qed.

(** the recorded finding: the first leader of a cluster formed by joins tracks the joined voters as
    non-voters, [nodes] is empty, and a write is committed although only 1 of 3 members holds it *)
Theorem commit_without_majority_refuted : exists members self_last cur t,
  length members = 3%nat /\
  commit_of_write [] members self_last cur t = fst self_last /\ cur < fst self_last /\
  matched_by (fst self_last) [self_last] = 1%nat.
Proof. exists [1; 2; 3], (15, 1), 14, 1. vm_compute. repeat split; reflexivity. Qed.

Example tracked_example :
  let nodes := [(2, (14, 1)); (3, (15, 1))] in
  commit_of_write nodes [1; 2; 3] (15, 1) 14 1 = 15 /\
  commit_of_write [(2, (14, 1)); (3, (14, 1))] [1; 2; 3] (15, 1) 14 1 = 14.
Proof. vm_compute. split; reflexivity. Qed.
