(** C06 — the answer chain of a config publish/remove:
      HTTP/gRPC handler -> ConfigRoute::{set_config,del_config}
        -> Local : ConfigActor <- ConfigAsyncCmd -> raft.client_write
        -> Remote: RaftRouteRequest to the leader -> handle_route -> ConfigAsyncCmd -> client_write
                   (error travels back as an "ErrorResponse" payload) ; then SetTmpValue
    as result-propagating functions.  Every awaited step whose outcome the code does not
    control (mailbox delivery, leader lookup, rpc transport, client_write) is an input
    ([world]).  Raft itself (async-raft-ext) is NOT modelled: [w_client_write] is its answer.
    Model only; proofs in AckProofs.v. *)
From RN Require Export Base.Res.

Inductive route := RLocal | RRemote | RUnknown.
Inductive outcome := Succ | Fail.

Record world : Type := mkWorld {
  w_route : option route;       (* raft_addr_route.get_route_addr(): None = Err *)
  w_mailbox : bool;             (* actix delivery of ConfigAsyncCmd on the node that runs it *)
  w_seq : bool;                 (* sequence.next_state() returned Ok (only used by Add) *)
  w_raft_present : bool;        (* Option<Weak<NacosRaft>> is Some and upgrades *)
  w_client_write : outcome;     (* answer of raft.client_write on the leader *)
  w_rpc : bool;                 (* cluster_sender.send_request reached the leader and got a payload *)
  w_resp_parse : bool           (* the RouterResponse JSON parses *)
}.

(** result of the ConfigAsyncCmd handler: (answer, a client_write was issued and returned Ok) *)
Definition async_cmd (is_add : bool) (w : world) : outcome * bool :=
  if is_add && negb (w_seq w) then (Fail, false)
  else if w_raft_present w then
         match w_client_write w with Succ => (Succ, true) | Fail => (Fail, false) end
       else (Succ, false).

(** the code before the repair: `.ok()` on the client_write result, no error for a missing id *)
Definition async_cmd_old (is_add : bool) (w : world) : outcome * bool :=
  if is_add && negb (w_seq w) then (Succ, false)
  else if w_raft_present w then
         match w_client_write w with Succ => (Succ, true) | Fail => (Succ, false) end
       else (Succ, false).

Definition via_mailbox (w : world) (r : outcome * bool) : outcome * bool :=
  if w_mailbox w then r else (Fail, false).

(** ConfigRoute::set_config / del_config; third component: SetTmpValue sent to the local actor *)
Definition route_cmd (cmd : bool -> world -> outcome * bool) (discard : bool)
           (is_add : bool) (w : world) : outcome * bool * bool :=
  match w_route w with
  | None => (Fail, false, false)
  | Some RUnknown => (Fail, false, false)
  | Some RLocal =>
      let '(a, c) := via_mailbox w (cmd is_add w) in
      (* old code: `.await?.ok()` keeps only the mailbox error *)
      if discard then ((if w_mailbox w then Succ else Fail), c, false) else (a, c, false)
  | Some RRemote =>
      if w_rpc w then
        let '(a, c) := via_mailbox w (cmd is_add w) in      (* on the leader: `.await??` *)
        match a with
        | Fail => (Fail, c, false)                            (* ErrorResponse payload *)
        | Succ => if w_resp_parse w then (Succ, c, is_add) else (Fail, c, false)
        end
      else (Fail, false, false)
  end.

Definition answer (is_add : bool) (w : world) : outcome * bool * bool :=
  route_cmd async_cmd false is_add w.

Definition answer_old (is_add : bool) (w : world) : outcome * bool * bool :=
  route_cmd async_cmd_old true is_add w.

(** what the client sees: HTTP 200 "true" / gRPC success response iff the route call is Ok *)
Definition acked (r : outcome * bool * bool) : bool :=
  match r with (Succ, _, _) => true | _ => false end.
Definition committed (r : outcome * bool * bool) : bool :=
  match r with (_, c, _) => c end.
