(** C06 — the leader's commit decision in async-raft-ext 0.6.3 (core/replication.rs
    [calculate_new_commit_index], [handle_update_match_index]; core/client.rs
    [replicate_client_request]), modelled to state exactly which premise of the Raft interface
    the recorded finding `ack-without-majority:first-leader` breaks.
    An entry is (match_index, match_term). *)
From RN Require Export Base.Res.
From Coq Require Import Sorting.Permutation.
Local Open Scope N_scope.

Definition ent := (N * N)%type.

(** entries.sort_unstable_by(|a, b| a.0.cmp(&b.0)) — insertion sort on the index *)
Fixpoint insert (e : ent) (l : list ent) : list ent :=
  match l with
  | [] => [e]
  | x :: l' => if fst e <=? fst x then e :: l else x :: insert e l'
  end.
Fixpoint isort (l : list ent) : list ent :=
  match l with [] => [] | e :: l' => insert e (isort l') end.

(** calculate_new_commit_index *)
Definition new_commit (entries : list ent) (current_commit leader_term : N) : N :=
  match entries with
  | [] => current_commit
  | _ =>
      let sorted := isort entries in
      let offset := ((length entries + 1) / 2 - 1)%nat in
      let nv := nth offset sorted (current_commit, leader_term) in
      if (current_commit <? fst nv) && (snd nv =? leader_term) then fst nv else current_commit
  end.

(** handle_update_match_index: entries of the voters tracked in [nodes] that are members, plus the
    leader itself (not stepping down) *)
Definition mem (x : N) (l : list N) : bool := existsb (N.eqb x) l.
Definition leader_entries (nodes : list (N * ent)) (members : list N) (self_last : ent) : list ent :=
  map snd (filter (fun p => mem (fst p) members) nodes) ++ [self_last].

(** replicate_client_request + the next match-index update: with no tracked voter the entry is
    committed at once *)
Definition commit_of_write (nodes : list (N * ent)) (members : list N) (self_last : ent)
           (current_commit leader_term : N) : N :=
  match nodes with
  | [] => fst self_last
  | _ => new_commit (leader_entries nodes members self_last) current_commit leader_term
  end.

Definition matched_by (c : N) (es : list ent) : nat := length (filter (fun e => c <=? fst e) es).
