(** C06 — convergence on top of the Raft interface: every node applies the committed log in
    order (state-machine safety, assumed of async-raft-ext); a follower that routed a write
    additionally applies a temporary value (SetTmpValue) outside the log.
    Keys and values are numbers; a node state maps a key to (content, tmp flag). *)
From RN Require Export Base.Res.
Local Open Scope N_scope.

Inductive req := WSet (k v : N) | WDel (k : N).
Definition rkey (r : req) : N := match r with WSet k _ => k | WDel k => k end.

Definition kv := N -> option (N * bool).
Definition kv_init : kv := fun _ => None.
Definition upd (s : kv) (k : N) (x : option (N * bool)) : kv :=
  fun k' => if k' =? k then x else s k'.

(** ConfigRaftCmd::ConfigAdd / ConfigRemove as far as the served content is concerned *)
Definition apply (s : kv) (r : req) : kv :=
  match r with
  | WSet k v => upd s k (Some (v, false))
  | WDel k => upd s k None
  end.

(** ConfigCmd::SetTmpValue: content replaced, tmp flag set *)
Definition set_tmp (s : kv) (k v : N) : kv := upd s k (Some (v, true)).

Definition serve (s : kv) (k : N) : option N := option_map fst (s k).

Definition run (log : list req) : kv := fold_left apply log kv_init.

(** follower events *)
Inductive fev := FApply (r : req) | FTmp (k v : N).
Definition fstep (s : kv) (e : fev) : kv :=
  match e with FApply r => apply s r | FTmp k v => set_tmp s k v end.
Definition run_f (tr : list fev) : kv := fold_left fstep tr kv_init.
Fixpoint applies (tr : list fev) : list req :=
  match tr with
  | [] => []
  | FApply r :: t => r :: applies t
  | FTmp _ _ :: t => applies t
  end.

(** the value a key has after a log: None = never written, Some None = removed *)
Fixpoint last_write (log : list req) (k : N) : option (option N) :=
  match log with
  | [] => None
  | r :: t =>
      match last_write t k with
      | Some x => Some x
      | None => if rkey r =? k then Some (match r with WSet _ v => Some v | WDel _ => None end) else None
      end
  end.

Definition served_of (x : option (option N)) : option N :=
  match x with Some y => y | None => None end.
