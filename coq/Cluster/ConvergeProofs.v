From RN Require Import Base.Res Cluster.Converge.
From Coq Require Import ZifyBool ZifyN.
Local Open Scope N_scope.

Definition rval (r : req) : option N := match r with WSet _ v => Some v | WDel _ => None end.

Lemma serve_apply s r k :
  serve (apply s r) k = if rkey r =? k then rval r else serve s k.
Proof.
  destruct r as [k0 v|k0]; unfold serve, apply, upd; cbn [rkey rval];
    rewrite (N.eqb_sym k k0); destruct (k0 =? k); reflexivity.
Qed.

Lemma last_write_app a b k :
  last_write (a ++ b) k = match last_write b k with Some x => Some x | None => last_write a k end.
Proof.
  induction a as [|r a IH]; cbn [app last_write].
  - destruct (last_write b k); reflexivity.
  - rewrite IH. destruct (last_write b k); reflexivity.
Qed.

Lemma last_write_single r k :
  last_write [r] k = if rkey r =? k then Some (rval r) else None.
Proof. cbn [last_write]. destruct r; reflexivity. Qed.

Lemma serve_fold log : forall s k,
  serve (fold_left apply log s) k =
  match last_write log k with Some x => x | None => serve s k end.
Proof.
  induction log as [|r t IH]; intros s k; cbn [fold_left last_write]; [reflexivity|].
  rewrite IH. destruct (last_write t k) as [x|]; [reflexivity|].
  rewrite serve_apply. destruct r; cbn [rkey rval]; destruct (_ =? k); reflexivity.
Qed.

(** a node that has applied the whole committed log serves, for every key, the last write *)
Theorem served_is_last_write log k : serve (run log) k = served_of (last_write log k).
Proof.
  unfold run. rewrite serve_fold. destruct (last_write log k); reflexivity.
Qed.

(** an acknowledged (hence committed, hence logged) publish is served, unless a LATER entry
    of the log wrote the same key *)
Theorem acked_set_served_or_overwritten pre post k v :
  serve (run (pre ++ WSet k v :: post)) k =
  match last_write post k with Some x => x | None => Some v end.
Proof.
  rewrite served_is_last_write, last_write_app. cbn [last_write].
  destruct (last_write post k); [reflexivity|]. cbn [rkey]. rewrite N.eqb_refl. reflexivity.
Qed.

Theorem acked_del_served_or_overwritten pre post k :
  serve (run (pre ++ WDel k :: post)) k =
  match last_write post k with Some x => x | None => None end.
Proof.
  rewrite served_is_last_write, last_write_app. cbn [last_write].
  destruct (last_write post k); [reflexivity|]. cbn [rkey]. rewrite N.eqb_refl. reflexivity.
Qed.

(** any two nodes that have applied the same committed log serve the same content *)
Theorem same_log_same_content log1 log2 k :
  log1 = log2 -> serve (run log1) k = serve (run log2) k.
Proof. intros ->. reflexivity. Qed.

(** * followers with temporary values *)
Definition settled_from (pre : list req) (tr : list fev) : Prop :=
  forall a k v b, tr = a ++ FTmp k v :: b ->
    last_write (applies b) k <> None \/ last_write (pre ++ applies a) k = Some (Some v).

Lemma serve_set_tmp s k0 v0 k :
  serve (set_tmp s k0 v0) k = if k0 =? k then Some v0 else serve s k.
Proof.
  unfold serve, set_tmp, upd. rewrite (N.eqb_sym k k0). destruct (k0 =? k); reflexivity.
Qed.

Lemma follower_settles_gen tr : forall pre s,
  settled_from pre tr ->
  (forall k, last_write (applies tr) k = None -> serve s k = served_of (last_write pre k)) ->
  forall k, serve (fold_left fstep tr s) k = served_of (last_write (pre ++ applies tr) k).
Proof.
  induction tr as [|e t IH]; intros pre s Hset Hagree k.
  - cbn [fold_left applies]. rewrite app_nil_r. apply Hagree. reflexivity.
  - destruct e as [r|k0 v0]; cbn [fold_left fstep applies].
    + replace (pre ++ r :: applies t) with ((pre ++ [r]) ++ applies t)
        by (rewrite <- app_assoc; reflexivity).
      apply IH.
      * intros a k1 v1 b Ht. destruct (Hset (FApply r :: a) k1 v1 b) as [H|H].
        { rewrite Ht. reflexivity. }
        { left. exact H. }
        { right. cbn [applies] in H. rewrite <- app_assoc. exact H. }
      * intros k1 Hk1. rewrite serve_apply, last_write_app, last_write_single.
        destruct (rkey r =? k1) eqn:E; [reflexivity|].
        apply Hagree. cbn [applies last_write]. rewrite Hk1, E. reflexivity.
    + apply IH.
      * intros a k1 v1 b Ht. destruct (Hset (FTmp k0 v0 :: a) k1 v1 b) as [H|H].
        { rewrite Ht. reflexivity. }
        { left. exact H. }
        { right. exact H. }
      * intros k1 Hk1. rewrite serve_set_tmp. destruct (k0 =? k1) eqn:E.
        -- apply N.eqb_eq in E. subst k1.
           destruct (Hset [] k0 v0 t eq_refl) as [H|H]; [congruence|].
           cbn [applies] in H. rewrite app_nil_r in H. rewrite H. reflexivity.
        -- apply Hagree. exact Hk1.
Qed.

(** A follower whose temporary values are each either overwritten later by an applied entry
    or equal to what the log says at that moment serves exactly what the log says *)
Theorem follower_settles tr :
  settled_from [] tr -> forall k, serve (run_f tr) k = serve (run (applies tr)) k.
Proof.
  intros Hs k. unfold run_f. rewrite (follower_settles_gen tr [] kv_init Hs).
  - rewrite served_is_last_write. reflexivity.
  - intros k1 _. reflexivity.
Qed.

(** without temporary values the follower is exactly the log *)
Lemma no_tmp_settled tr : (forall k v, ~ In (FTmp k v) tr) -> settled_from [] tr.
Proof.
  intros H a k v b Ht. exfalso. apply (H k v). rewrite Ht. apply in_or_app. right. left. reflexivity.
Qed.

(** the overtake schedule: two replicated writes, then the temporary value of the first *)
Theorem tmp_overtake_refuted : exists tr k,
  serve (run_f tr) k <> serve (run (applies tr)) k.
Proof.
  exists [FApply (WSet 1 10); FApply (WSet 1 20); FTmp 1 10], 1.
  vm_compute. discriminate.
Qed.

Example settled_example :
  settled_from [] [FApply (WSet 1 10); FTmp 1 10; FTmp 2 7; FApply (WSet 2 7); FApply (WDel 3)].
Proof.
  intros a k v b Ht.
  destruct a as [|e1 a]; [discriminate|]. inversion Ht as [[He1 Ht1]]. clear Ht.
  destruct a as [|e2 a].
  - inversion Ht1; subst. right. reflexivity.
  - inversion Ht1 as [[He2 Ht2]]. clear Ht1. destruct a as [|e3 a].
    + inversion Ht2; subst. left. cbn. discriminate.
    + inversion Ht2 as [[He3 Ht3]]. destruct a as [|e4 a]; [discriminate|].
      inversion Ht3 as [[He4 Ht4]]. destruct a as [|e5 a]; [discriminate|].
      inversion Ht4 as [[He5 Ht5]]. destruct a; discriminate.
Qed.
