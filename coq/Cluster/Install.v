(** C08 — snapshot installation on a follower.
    finalize_snapshot_installation = catalogue update + SaveMember(header) + apply_snapshot
    (SaveMember(header) again, then — after the repair — load every record into the live
    components) + SplitOff + snapshot-pointer log.  A later restart loads the installed
    snapshot into FRESH components and replays the log suffix.
    State: key -> option value (per component record key); snapshot = list of records. *)
From RN Require Export Base.Res.
Local Open Scope N_scope.

Definition st := N -> option N.
Definition st_init : st := fun _ => None.
Definition st_set (s : st) (k v : N) : st := fun k' => if k' =? k then Some v else s k'.

(** RaftDataHandler::load_snapshot is a per-key set for every component *)
Definition load_records (recs : list (N * N)) (s : st) : st :=
  fold_left (fun s '(k, v) => st_set s k v) recs s.

(** last record for a key (later records overwrite earlier ones) *)
Fixpoint find_last (recs : list (N * N)) (k : N) : option N :=
  match recs with
  | [] => None
  | (k', v) :: t =>
      match find_last t k with
      | Some x => Some x
      | None => if k' =? k then Some v else None
      end
  end.

(** repaired code: records are loaded over the LIVE state *)
Definition install (recs : list (N * N)) (live : st) : st := load_records recs live.
(** code before the repair: only the header was read *)
Definition install_old (recs : list (N * N)) (live : st) : st := live.
(** restart after the install: fresh components, then the records *)
Definition restart_after_install (recs : list (N * N)) : st := load_records recs st_init.

(** membership: RaftSnapshotManager::install_snapshot sends SaveMember with the header it
    has cached (possibly the PREVIOUS snapshot's, or none), then apply_snapshot sends
    SaveMember with the installed file's header; the index manager handles them FIFO *)
Definition members := list N.
Definition save_member (cur : members) (m : members) : members := m.
Definition install_membership (cur : members) (cached : option members) (header : members) : members :=
  let cur1 := match cached with Some m => save_member cur m | None => cur end in
  save_member cur1 header.
