From RN Require Import Base.Res Cluster.Install.
From Coq Require Import ZifyBool ZifyN.
Local Open Scope N_scope.

Lemma load_records_spec recs : forall s k,
  load_records recs s k = match find_last recs k with Some v => Some v | None => s k end.
Proof.
  unfold load_records. induction recs as [|[k0 v0] t IH]; intros s k; cbn [fold_left find_last]; [reflexivity|].
  rewrite IH. destruct (find_last t k); [reflexivity|].
  unfold st_set. rewrite (N.eqb_sym k k0). destruct (k0 =? k); reflexivity.
Qed.

Section Install.
  (** the leader's state at the snapshot point and the record list its builder wrote;
      faithfulness of the builder is the snapshot round-trip law of C01 *)
  Variable leader : st.
  Variable recs : list (N * N).
  Hypothesis faithful : forall k, find_last recs k = leader k.

  (** what a live follower serves after the install: the leader's value where the leader has
      one, its own old value elsewhere *)
  Lemma install_live_state_exact live k :
    install recs live k = match leader k with Some v => Some v | None => live k end.
  Proof. unfold install. rewrite load_records_spec, faithful. reflexivity. Qed.

  (** a node that joins late (fresh components) serves exactly the leader's data *)
  Lemma install_fresh_state k : install recs st_init k = leader k.
  Proof. rewrite install_live_state_exact. destruct (leader k); reflexivity. Qed.

  (** a live follower without keys the leader has dropped serves exactly the leader's data *)
  Lemma install_live_state_partial live :
    (forall k, live k <> None -> leader k <> None) -> forall k, install recs live k = leader k.
  Proof.
    intros H k. rewrite install_live_state_exact. destruct (leader k) eqn:E; [reflexivity|].
    destruct (live k) eqn:E2; [|reflexivity]. exfalso. apply (H k); [congruence|exact E].
  Qed.

  (** whatever the follower held before, after a restart it serves the leader's data *)
  Lemma install_then_restart_serves k : restart_after_install recs k = leader k.
  Proof. unfold restart_after_install. rewrite load_records_spec, faithful. destruct (leader k); reflexivity. Qed.
End Install.

(** the full statement "for ANY live state the follower serves the leader's data" is false
    of the repaired code: records are overlaid, components are never cleared *)
Lemma install_live_state_refuted : exists leader recs live k,
  (forall k, find_last recs k = leader k) /\ install recs live k <> leader k.
Proof.
  exists st_init, [], (st_set st_init 5 1), 5. split; [reflexivity|]. vm_compute. discriminate.
Qed.

(** the code before the repair served none of the snapshot's data *)
Lemma install_old_refuted : exists leader recs k,
  (forall k, find_last recs k = leader k) /\ install_old recs st_init k <> leader k.
Proof.
  exists (st_set st_init 5 1), [(5, 1)], 5. split.
  - intros k. cbn [find_last]. unfold st_set, st_init. rewrite (N.eqb_sym k 5). reflexivity.
  - vm_compute. discriminate.
Qed.

(** membership recorded after an install is the one in the installed snapshot's header *)
Lemma install_membership_from_header cur cached header :
  install_membership cur cached header = header.
Proof. unfold install_membership, save_member. reflexivity. Qed.

(** ---- after the install (round 7) ---- *)

(** installing the same snapshot a second time (a retried InstallSnapshot RPC, or the cached
    header path followed by the file path) changes nothing *)
Lemma install_idempotent recs live k : install recs (install recs live) k = install recs live k.
Proof. unfold install. rewrite !load_records_spec. destruct (find_last recs k); reflexivity. Qed.

(** two successive installs (the node fell behind twice): the newer snapshot wins wherever it
    has a value, the older one shows through elsewhere, the follower's own value last *)
Lemma install_twice_exact leader1 recs1 leader2 recs2 :
  (forall k, find_last recs1 k = leader1 k) -> (forall k, find_last recs2 k = leader2 k) ->
  forall live k,
  install recs2 (install recs1 live) k =
  match leader2 k with
  | Some v => Some v
  | None => match leader1 k with Some v => Some v | None => live k end
  end.
Proof.
  intros F1 F2 live k. rewrite (install_live_state_exact leader2 recs2 F2).
  rewrite (install_live_state_exact leader1 recs1 F1). reflexivity.
Qed.

(** hence, when the leader never dropped a key between the two snapshots, the second install
    leaves exactly the leader's data on a node that started fresh *)
Lemma install_twice_serves leader1 recs1 leader2 recs2 :
  (forall k, find_last recs1 k = leader1 k) -> (forall k, find_last recs2 k = leader2 k) ->
  (forall k, leader1 k <> None -> leader2 k <> None) ->
  forall k, install recs2 (install recs1 st_init) k = leader2 k.
Proof.
  intros F1 F2 Hmono k. rewrite (install_twice_exact _ _ _ _ F1 F2).
  destruct (leader2 k) eqn:E2; [reflexivity|]. destruct (leader1 k) eqn:E1; [|reflexivity].
  exfalso. apply (Hmono k); [congruence|exact E2].
Qed.

(** the log suffix after the snapshot: applying the same committed writes to the leader's state
    and to a follower that agrees with it keeps them equal — the node "keeps doing so" *)
Definition apply_writes (ws : list (N * N)) (s : st) : st := load_records ws s.

Lemma apply_writes_agree ws : forall s1 s2,
  (forall k, s1 k = s2 k) -> forall k, apply_writes ws s1 k = apply_writes ws s2 k.
Proof. intros s1 s2 H k. unfold apply_writes. rewrite !load_records_spec, H. reflexivity. Qed.

Lemma install_then_follow leader recs ws live :
  (forall k, find_last recs k = leader k) ->
  (forall k, live k <> None -> leader k <> None) ->
  forall k, apply_writes ws (install recs live) k = apply_writes ws leader k.
Proof.
  intros F H. apply apply_writes_agree. exact (install_live_state_partial leader recs F live H).
Qed.

(** ... and after a restart at any later time (snapshot into fresh components, then the suffix) *)
Lemma restart_then_follow leader recs ws :
  (forall k, find_last recs k = leader k) ->
  forall k, apply_writes ws (restart_after_install recs) k = apply_writes ws leader k.
Proof. intros F. apply apply_writes_agree. exact (install_then_restart_serves leader recs F). Qed.

(** a stale key (the recorded finding) is healed by the restart, and only the keys the leader
    dropped can be stale at all *)
Lemma install_stale_only_dropped leader recs live k :
  (forall k, find_last recs k = leader k) ->
  install recs live k <> leader k -> leader k = None /\ live k <> None /\ restart_after_install recs k = None.
Proof.
  intros F Hne. rewrite (install_live_state_exact leader recs F) in Hne.
  destruct (leader k) eqn:E; [congruence|]. split; [reflexivity|]. split; [exact Hne|].
  rewrite (install_then_restart_serves leader recs F). exact E.
Qed.

Example install_twice_example :
  let recs1 := [(1, 10); (2, 20)] in let recs2 := [(1, 11); (2, 20); (3, 30)] in
  install recs2 (install recs1 st_init) 1 = Some 11 /\ install recs2 (install recs1 st_init) 3 = Some 30 /\
  install recs1 (install recs1 (st_set st_init 7 70)) 7 = Some 70.
Proof. vm_compute. repeat split. Qed.

Example install_example :
  let leader := st_set (st_set st_init 1 10) 2 20 in
  let recs := [(1, 10); (2, 20)] in
  (forall k, find_last recs k = leader k) /\ install recs st_init 2 = Some 20.
Proof.
  cbv zeta. split; [|reflexivity]. intros k. cbn [find_last]. unfold st_set, st_init.
  rewrite (N.eqb_sym k 2), (N.eqb_sym k 1). destruct (2 =? k); [reflexivity|]. destruct (1 =? k); reflexivity.
Qed.
