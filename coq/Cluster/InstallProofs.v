From RN Require Import Base.Res Cluster.Install.
From Coq Require Import ZifyBool ZifyN.
Local Open Scope N_scope.

Lemma load_records_spec recs : forall s k,
  load_records recs s k = match find_last recs k with Some v => Some v | None => s k end.
Proof.
  unfold load_records. induction recs as [|[k0 v0] t IH]; intros s k; cbn [fold_left find_last]; [reflexivity|].
  rewrite IH. destruct (find_last t k); [reflexivity|].
  unfold st_set. rewrite (N.eqb_sym k k0). destruct (k0 =? k); reflexivity.
Qed.

Section Install.
  (** the leader's state at the snapshot point and the record list its builder wrote;
      faithfulness of the builder is the snapshot round-trip law of C01 *)
  Variable leader : st.
  Variable recs : list (N * N).
  Hypothesis faithful : forall k, find_last recs k = leader k.

  (** what a live follower serves after the install: the leader's value where the leader has
      one, its own old value elsewhere *)
  Lemma install_live_state_exact live k :
    install recs live k = match leader k with Some v => Some v | None => live k end.
  Proof. unfold install. rewrite load_records_spec, faithful. reflexivity. Qed.

  (** a node that joins late (fresh components) serves exactly the leader's data *)
  Lemma install_fresh_state k : install recs st_init k = leader k.
  Proof. rewrite install_live_state_exact. destruct (leader k); reflexivity. Qed.

  (** a live follower without keys the leader has dropped serves exactly the leader's data *)
  Lemma install_live_state_partial live :
    (forall k, live k <> None -> leader k <> None) -> forall k, install recs live k = leader k.
  Proof.
    intros H k. rewrite install_live_state_exact. destruct (leader k) eqn:E; [reflexivity|].
    destruct (live k) eqn:E2; [|reflexivity]. exfalso. apply (H k); [congruence|exact E].
  Qed.

  (** whatever the follower held before, after a restart it serves the leader's data *)
  Lemma install_then_restart_serves k : restart_after_install recs k = leader k.
  Proof. unfold restart_after_install. rewrite load_records_spec, faithful. destruct (leader k); reflexivity. Qed.
End Install.

(** the full statement "for ANY live state the follower serves the leader's data" is false
    of the repaired code: records are overlaid, components are never cleared *)
Lemma install_live_state_refuted : exists leader recs live k,
  (forall k, find_last recs k = leader k) /\ install recs live k <> leader k.
Proof.
  exists st_init, [], (st_set st_init 5 1), 5. split; [reflexivity|]. vm_compute. discriminate.
Qed.

(** the code before the repair served none of the snapshot's data *)
Lemma install_old_refuted : exists leader recs k,
  (forall k, find_last recs k = leader k) /\ install_old recs st_init k <> leader k.
Proof.
  exists (st_set st_init 5 1), [(5, 1)], 5. split.
  - intros k. cbn [find_last]. unfold st_set, st_init. rewrite (N.eqb_sym k 5). reflexivity.
  - vm_compute. discriminate.
Qed.

(** membership recorded after an install is the one in the installed snapshot's header *)
Lemma install_membership_from_header cur cached header :
  install_membership cur cached header = header.
Proof. unfold install_membership, save_member. reflexivity. Qed.

Example install_example :
  let leader := st_set (st_set st_init 1 10) 2 20 in
  let recs := [(1, 10); (2, 20)] in
  (forall k, find_last recs k = leader k) /\ install recs st_init 2 = Some 20.
Proof.
  cbv zeta. split; [|reflexivity]. intros k. cbn [find_last]. unfold st_set, st_init.
  rewrite (N.eqb_sym k 2), (N.eqb_sym k 1). destruct (2 =? k); [reflexivity|]. destruct (1 =? k); reflexivity.
Qed.
