From RN Require Import Base.Res Cluster.Ack.

Ltac cases_world w :=
  destruct w as [[[| |]|] [] [] [] [] [] []].

(** an acknowledged publish/remove was written through raft.client_write with an Ok answer *)
Lemma ack_implies_committed : forall is_add w,
  w_raft_present w = true -> acked (answer is_add w) = true -> committed (answer is_add w) = true.
Proof.
  intros is_add w. cases_world w; destruct is_add; cbn; intros; try discriminate; reflexivity.
Qed.

(** conversely a write that client_write refused, or that was never issued, is answered
    with an error *)
Lemma not_committed_is_error : forall is_add w,
  w_raft_present w = true -> committed (answer is_add w) = false -> acked (answer is_add w) = false.
Proof.
  intros is_add w Hp Hc. destruct (acked (answer is_add w)) eqn:E; [|reflexivity].
  rewrite (ack_implies_committed is_add w Hp E) in Hc. discriminate.
Qed.

(** the follower's temporary value is only recorded for an acknowledged, committed publish *)
Lemma tmp_only_after_commit : forall is_add w,
  w_raft_present w = true ->
  (match answer is_add w with (_, _, t) => t end) = true ->
  acked (answer is_add w) = true /\ committed (answer is_add w) = true /\ is_add = true.
Proof.
  intros is_add w. cases_world w; destruct is_add; cbn; intros; try discriminate; repeat split.
Qed.

(** the unrepaired chain acknowledged writes that Raft had refused *)
Lemma ack_refuted_old : exists is_add w,
  w_raft_present w = true /\ acked (answer_old is_add w) = true /\ committed (answer_old is_add w) = false.
Proof.
  exists true, (mkWorld (Some RLocal) true true true Fail true true). cbn. repeat split.
Qed.

(** non-vacuity: worlds in which a write is acknowledged exist, for both routes *)
Example ack_possible :
  acked (answer true (mkWorld (Some RLocal) true true true Succ true true)) = true /\
  acked (answer false (mkWorld (Some RRemote) true true true Succ true true)) = true.
Proof. split; reflexivity. Qed.
