(** Executable glue for the C06/C08 correspondence: evaluate the models on the concrete
    histories that the multi-process harness ran on the real binary. *)
From RN Require Import Base.Res Cluster.Ack Cluster.Converge Cluster.Install.
Local Open Scope N_scope.

Definition eval_log (log : list req) (keys : list N) : list (option N) :=
  map (serve (run log)) keys.

Definition eval_follower (tr : list fev) (keys : list N) : list (option N) :=
  map (serve (run_f tr)) keys.

Definition st_of (l : list (N * N)) : st := load_records l st_init.

Definition eval_install (live recs : list (N * N)) (keys : list N) : list (option N) :=
  map (install recs (st_of live)) keys.

Definition eval_install_restart (recs : list (N * N)) (keys : list N) : list (option N) :=
  map (restart_after_install recs) keys.

(** answer of the chain in a world: (acked, committed) *)
Definition eval_answer (is_add : bool) (w : world) : bool * bool :=
  (acked (answer is_add w), committed (answer is_add w)).
