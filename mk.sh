#!/bin/sh
# usage: ./mk.sh Area/File.vo ...   (regenerates _CoqProject/Makefile, builds the targets)
cd "$(dirname "$0")"
python3 -c "import sys;sys.path.insert(0,'runner');import lib;lib.coq_makefile()"
cd coq && timeout ${MK_TIMEOUT:-900} make -j16 "$@" 2>&1 | tail -${MK_TAIL:-40}
