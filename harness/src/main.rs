//! Correspondence harness: runs the REAL r-nacos code on cases supplied as JSON lines.
//! usage: rnverif <suite> <cases.jsonl> <out.jsonl>
//! Every suite maps one input JSON value to one output JSON value (canonicalised).
mod suites;

use std::io::{BufRead, BufReader, BufWriter, Write};

fn main() {
    let args: Vec<String> = std::env::args().collect();
    if args.len() >= 2 && args[1] == "restart-child" {
        // hidden mode: one phase of the `restart` suite (a real node over a data dir), see suites/restart.rs
        suites::restart::child_main(&args[2..]);
    }
    if args.len() < 4 {
        eprintln!("usage: rnverif <suite> <cases.jsonl> <out.jsonl>");
        std::process::exit(2);
    }
    let suite = args[1].as_str();
    let input = BufReader::new(std::fs::File::open(&args[2]).expect("open cases"));
    let mut out = BufWriter::new(std::fs::File::create(&args[3]).expect("create out"));
    if std::env::var_os("RNVERIF_PANIC").is_none() {
        // silent by default; RNVERIF_PANIC=1 keeps the default hook (panic messages of actor tasks)
        std::panic::set_hook(Box::new(|_| {}));
    }
    let mut runner = suites::make(suite).unwrap_or_else(|| {
        eprintln!("unknown suite {}", suite);
        std::process::exit(2);
    });
    for line in input.lines() {
        let line = line.expect("read line");
        if line.trim().is_empty() {
            continue;
        }
        let case: serde_json::Value = serde_json::from_str(&line).expect("case json");
        let res = runner.run(&case);
        serde_json::to_writer(&mut out, &res).unwrap();
        out.write_all(b"\n").unwrap();
        out.flush().unwrap();
    }
    out.flush().unwrap();
}
