//! C01: what a node serves before it stops it serves again after it restarts from its data directory.
//!
//! A case runs a REAL full in-process node (the real `starter::config_factory`: every actor, FileStore,
//! async-raft single-node cluster with auto-init; no HTTP/gRPC server) several times over ONE data
//! directory.  Every run ("phase") is a separate CHILD PROCESS (`rnverif restart-child <D> <phase.json>
//! <out.json>`), so a stop is a real process end and a start is the real start-up path
//! (RaftIndexManager/RaftLogManager/RaftSnapshotManager init, StateApplyManager load_index ->
//! load_snapshot -> load_log, raft initial state).
//!
//! case = {"threshold": n, "phases":[{"reqs":[R..]},..], "plants":[{"before_phase":i,"kind":"copy_last_plus"|"raw",
//!         "extra":[[tree,keyhex,valuehex]..], "pad_to":n?, "raw":[bytes]}], "keep":false, "timeout_s":60,
//!         "pace":false}   (pace=true: after every write wait for a due compaction to finish, see `pace_wait`)
//! out  = {"r":"ok","phases":[{"start_dump","results","end_dump","files","index","metrics","start_metrics",
//!         "secs","restart_diff","log_growth_since_prev_end"},..],"plants_done":[..]}
//!
//! Comparison rules: `restart_diff` = first difference between phases[i-1].end_dump and phases[i].start_dump
//! with `namespace.order` removed (a restart from a snapshot reloads namespaces in HashMap order; "sorted"
//! is compared).  Everything else is the smutil dump (see its normalisation rules).
use super::smutil::{self, MiniNode, Occur};
use super::Suite;
use async_raft_ext::raft::ClientWriteRequest;
use rnacos::common::constant::USER_TREE_NAME;
use rnacos::common::AppSysConfig;
use rnacos::raft::db::table::{TableManagerQueryReq, TableManagerResult};
use rnacos::raft::filestore::model::SnapshotHeaderDto;
use rnacos::raft::filestore::raftindex::{RaftIndexRequest, RaftIndexResponse};
use rnacos::raft::store::ClientRequest;
use rnacos::raft::NacosRaft;
use serde_json::{json, Value};
use std::panic::{catch_unwind, AssertUnwindSafe};
use std::path::{Path, PathBuf};
use std::sync::Arc;
use std::time::{Duration, Instant};

const NODE_ADDR: &str = "127.0.0.1:19848"; // never listened on; must be the same in every phase

pub struct Restart {
    tmp_base: PathBuf,
}

impl Restart {
    pub fn new() -> Self {
        let tmp_base = std::env::var("RNVERIF_TMP")
            .map(PathBuf::from)
            .unwrap_or_else(|_| std::env::temp_dir());
        Restart { tmp_base }
    }
}

fn listing(dir: &Path) -> Vec<(String, u64)> {
    let mut out = vec![];
    fn walk(base: &Path, dir: &Path, out: &mut Vec<(String, u64)>) {
        if let Ok(rd) = std::fs::read_dir(dir) {
            for e in rd.flatten() {
                let p = e.path();
                if p.is_dir() {
                    walk(base, &p, out);
                } else {
                    let rel = p
                        .strip_prefix(base)
                        .unwrap_or(&p)
                        .to_string_lossy()
                        .to_string();
                    out.push((rel, e.metadata().map(|m| m.len()).unwrap_or(0)));
                }
            }
        }
    }
    walk(dir, dir, &mut out);
    out.sort();
    out
}

// ------------------------------------------------------------------------------------------------
// child
// ------------------------------------------------------------------------------------------------

async fn index_info(node: &MiniNode) -> anyhow::Result<Value> {
    match node.index.send(RaftIndexRequest::LoadIndexInfo).await?? {
        RaftIndexResponse::RaftIndexInfo {
            raft_index,
            last_applied_log,
        } => {
            let snaps: Vec<Value> = raft_index
                .snapshots
                .iter()
                .map(|s| json!([s.id, s.end_index]))
                .collect();
            let logs: Vec<Value> = raft_index
                .logs
                .iter()
                .map(|l| {
                    json!({"id": l.id, "pre_term": l.pre_term, "start_index": l.start_index,
                           "record_count": l.record_count, "split_off_index": l.split_off_index,
                           "is_close": l.is_close, "mark_remove": l.mark_remove})
                })
                .collect();
            Ok(
                json!({"snapshots": snaps, "logs": logs, "last_applied_log": last_applied_log,
                      "current_term": raft_index.current_term, "voted_for": raft_index.voted_for}),
            )
        }
        _ => Ok(Value::Null),
    }
}

fn metrics_json(raft: &NacosRaft) -> Value {
    let m = raft.metrics().borrow().clone();
    json!({"state": format!("{:?}", m.state), "current_term": m.current_term,
           "last_log_index": m.last_log_index, "last_applied": m.last_applied,
           "current_leader": m.current_leader})
}

async fn user_rows(node: &MiniNode) -> anyhow::Result<usize> {
    let q = TableManagerQueryReq::QueryPageList {
        table_name: USER_TREE_NAME.clone(),
        like_key: None,
        offset: None,
        limit: Some(1),
        is_rev: false,
    };
    match node.table.send(q).await?? {
        TableManagerResult::PageListResult(n, _) => Ok(n),
        _ => Ok(0),
    }
}

/// raft applied everything, and (metrics, index catalogue, directory listing) unchanged for `stable_ms`
async fn quiesce(
    raft: &NacosRaft,
    node: &MiniNode,
    dir: &Path,
    stable_ms: u64,
    max_ms: u64,
) -> anyhow::Result<bool> {
    let t0 = Instant::now();
    let mut last: Option<(String, Instant)> = None;
    loop {
        let m = raft.metrics().borrow().clone();
        let idx = index_info(node).await?;
        let sig = format!(
            "{}|{}|{}|{:?}",
            m.last_log_index,
            m.last_applied,
            idx,
            listing(dir)
        );
        let applied = m.last_applied == m.last_log_index;
        match &last {
            Some((s, since)) if *s == sig && applied => {
                if since.elapsed() >= Duration::from_millis(stable_ms) {
                    return Ok(true);
                }
            }
            _ => last = Some((sig, Instant::now())),
        }
        if t0.elapsed() >= Duration::from_millis(max_ms) {
            return Ok(false);
        }
        tokio::time::sleep(Duration::from_millis(15)).await;
    }
}

fn last_snapshot_end(idx: &Value) -> (u64, u64) {
    idx["snapshots"]
        .as_array()
        .and_then(|a| a.last())
        .map(|s| (s[0].as_u64().unwrap_or(0), s[1].as_u64().unwrap_or(0)))
        .unwrap_or((0, 0))
}

/// `pace`: no write while a compaction runs.  If async-raft's LogsSinceLast trigger has fired
/// (`last_applied - end_index of the last catalogued snapshot >= threshold`), wait until the catalogue's
/// last snapshot has changed (to an end_index >= last_applied - (threshold-1)) and the data dir listing has
/// been stable for 30 ms.  None = nothing due, Some(true) = waited, Some(false) = gave up after 5 s.
async fn pace_wait(
    raft: &NacosRaft,
    node: &MiniNode,
    dir: &Path,
    threshold: u64,
) -> anyhow::Result<Option<bool>> {
    let applied = raft.metrics().borrow().last_applied;
    let before = last_snapshot_end(&index_info(node).await?);
    if applied.saturating_sub(before.1) < threshold {
        return Ok(None);
    }
    let t0 = Instant::now();
    let mut stable: Option<(Vec<(String, u64)>, Instant)> = None;
    loop {
        let now = last_snapshot_end(&index_info(node).await?);
        let advanced = now != before && now.1 + threshold.saturating_sub(1) >= applied;
        let l = listing(dir);
        match &stable {
            Some((prev, since)) if *prev == l => {
                if advanced && since.elapsed() >= Duration::from_millis(30) {
                    return Ok(Some(true));
                }
            }
            _ => stable = Some((l, Instant::now())),
        }
        if t0.elapsed() >= Duration::from_secs(5) {
            return Ok(Some(false));
        }
        tokio::time::sleep(Duration::from_millis(5)).await;
    }
}

async fn child_run(dir: &str, phase: &Value) -> anyhow::Result<Value> {
    let t0 = Instant::now();
    let threshold = phase["threshold"].as_u64().unwrap_or(20);
    let scratch = PathBuf::from(phase["scratch"].as_str().unwrap_or("/tmp"));
    let reqs: Vec<ClientRequest> = phase["reqs"]
        .as_array()
        .map(|a| {
            a.iter()
                .map(smutil::parse_req)
                .collect::<anyhow::Result<Vec<_>>>()
        })
        .unwrap_or_else(|| Ok(vec![]))?;
    let all_reqs: Vec<ClientRequest> = phase["all_reqs"]
        .as_array()
        .map(|a| {
            a.iter()
                .map(smutil::parse_req)
                .collect::<anyhow::Result<Vec<_>>>()
        })
        .unwrap_or_else(|| Ok(vec![]))?;
    let occur = Occur::collect(&all_reqs);
    // rollover limit of FRESH raft log files (hook; 0 / absent = the product's 4096): with 43 a log file is full after
    // 128 records, so that a short history spreads over several log files
    if let Some(l) = phase["log_limit"].as_u64() {
        rnacos::verif_hooks::LOG_DATA_AREA_INDEX.store(l as u16, std::sync::atomic::Ordering::SeqCst);
    }
    let dir_path = PathBuf::from(dir);
    let first_run = !dir_path.join("index").exists();

    let mut cfg = AppSysConfig::init_from_env();
    cfg.local_db_dir = dir.to_string();
    cfg.raft_node_id = 1;
    cfg.raft_node_addr = NODE_ADDR.to_string();
    cfg.raft_auto_init = true;
    cfg.raft_join_addr = String::new();
    cfg.raft_snapshot_log_size = threshold;
    cfg.metrics_enable = false;
    cfg.metrics_log_enable = false;
    cfg.ldap_enable = false;
    cfg.oauth2_enable = false;
    cfg.naming_perpetual_instance_probe_interval = 0;
    cfg.naming_instance_metadata_persistence_enable = false;
    let fd = rnacos::starter::config_factory(Arc::new(cfg)).await?;
    let secs_factory = t0.elapsed().as_secs_f64();
    let raft: Arc<NacosRaft> = fd
        .get_bean()
        .ok_or_else(|| anyhow::anyhow!("raft bean missing"))?;
    let node = MiniNode::from_factory(&fd, scratch)?;

    // leadership (first run: auto_init_raft -> initialize; later runs: single configured member => Leader)
    loop {
        let m = raft.metrics().borrow().clone();
        if m.state.is_leader() && m.current_leader == Some(1) {
            break;
        }
        if t0.elapsed() > Duration::from_secs(30) {
            return Err(anyhow::anyhow!(
                "no leadership after 30 s: {}",
                metrics_json(&raft)
            ));
        }
        tokio::time::sleep(Duration::from_millis(5)).await;
    }
    let secs_leader = t0.elapsed().as_secs_f64();
    // StateApplyManager start-up load (ctx.wait chain) is over when it answers
    node.settle().await?;
    let secs_loaded = t0.elapsed().as_secs_f64();
    if first_run {
        // auto_init_raft writes NodeAddr + Members; UserManager creates the admin user 500 ms after inject
        // when T_USER is empty (bcrypt).  Wait for both so that no background write falls into the phase.
        loop {
            let members_ok = match node.index.send(RaftIndexRequest::LoadMember).await?? {
                RaftIndexResponse::MemberShip {
                    member, node_addrs, ..
                } => member.contains(&1) && node_addrs.contains_key(&1),
                _ => false,
            };
            if members_ok && user_rows(&node).await? > 0 {
                break;
            }
            if t0.elapsed() > Duration::from_secs(40) {
                return Err(anyhow::anyhow!(
                    "first-run initialisation did not finish in 40 s"
                ));
            }
            tokio::time::sleep(Duration::from_millis(10)).await;
        }
    }
    let pace = phase["pace"].as_bool().unwrap_or(false);
    let mut start_paced = Value::Null;
    if pace {
        // the start-up writes (auto-init NodeAddr/Members, admin user, the new leader's blank entry) may
        // themselves have crossed the threshold: let that compaction finish before the first request
        start_paced = json!(pace_wait(&raft, &node, &dir_path, threshold).await?);
    }
    let start_quiet = quiesce(&raft, &node, &dir_path, 60, 10_000).await?;
    node.settle().await?;
    let secs_ready = t0.elapsed().as_secs_f64();
    let start_metrics = metrics_json(&raft);
    let (start_dump, start_applied) = smutil::dump(&node, &occur).await?;
    let secs_start_dump = t0.elapsed().as_secs_f64();

    let mut results = vec![];
    let mut paced_waits = 0u64;
    let mut paced_timeouts = 0u64;
    let mut paced_ms = 0f64;
    for req in reqs {
        let r = raft.client_write(ClientWriteRequest::new(req)).await;
        results.push(match r {
            Ok(_) => json!("ok"),
            Err(e) => json!(format!("err:{}", e)),
        });
        if pace {
            let t = Instant::now();
            match pace_wait(&raft, &node, &dir_path, threshold).await? {
                Some(true) => paced_waits += 1,
                Some(false) => {
                    paced_waits += 1;
                    paced_timeouts += 1
                }
                None => {}
            }
            paced_ms += t.elapsed().as_secs_f64() * 1000.0;
        }
    }
    let secs_writes = t0.elapsed().as_secs_f64();
    let end_quiet = quiesce(&raft, &node, &dir_path, 300, 20_000).await?;
    node.settle().await?;
    node.settle().await?;
    let secs_quiet = t0.elapsed().as_secs_f64();
    let (end_dump, end_applied) = smutil::dump(&node, &occur).await?;
    let metrics = metrics_json(&raft);
    let index = index_info(&node).await?;
    let files: Vec<Value> = listing(&dir_path)
        .into_iter()
        .map(|(n, l)| json!([n, l]))
        .collect();
    let secs_total = t0.elapsed().as_secs_f64();
    Ok(json!({
        "r": "ok", "first_run": first_run,
        "start_dump": start_dump, "start_applied": start_applied, "start_metrics": start_metrics,
        "results": results,
        "end_dump": end_dump, "end_applied": end_applied, "metrics": metrics, "index": index,
        "files": files, "start_quiet": start_quiet, "end_quiet": end_quiet,
        "pace": pace, "paced_waits": paced_waits, "paced_timeouts": paced_timeouts,
        "paced_ms": paced_ms, "start_paced": start_paced, "compactions": index["snapshots"].clone(),
        "secs": {"factory": secs_factory, "leader": secs_leader, "loaded": secs_loaded,
                 "ready": secs_ready, "start_dump": secs_start_dump, "writes": secs_writes,
                 "quiet": secs_quiet, "total": secs_total},
    }))
}

/// entry of the hidden `restart-child` mode of the binary; never returns
pub fn child_main(args: &[String]) -> ! {
    let out_path = args.get(2).cloned().unwrap_or_default();
    let res = catch_unwind(AssertUnwindSafe(|| -> anyhow::Result<Value> {
        let dir = args
            .first()
            .ok_or_else(|| anyhow::anyhow!("dir missing"))?
            .clone();
        let phase: Value = serde_json::from_str(&std::fs::read_to_string(
            args.get(1)
                .ok_or_else(|| anyhow::anyhow!("phase file missing"))?,
        )?)?;
        let sys = actix_rt::System::new();
        sys.block_on(async move { child_run(&dir, &phase).await })
    }));
    let v = match res {
        Ok(Ok(v)) => v,
        Ok(Err(e)) => json!({"r": "error", "msg": e.to_string()}),
        Err(_) => json!({"r": "panic"}),
    };
    let _ = std::fs::write(&out_path, serde_json::to_vec(&v).unwrap_or_default());
    // a real process end: no actor is stopped, nothing is flushed on our behalf
    std::process::exit(0)
}

// ------------------------------------------------------------------------------------------------
// parent
// ------------------------------------------------------------------------------------------------

fn unhex(s: &str) -> Vec<u8> {
    (0..s.len() / 2)
        .filter_map(|i| u8::from_str_radix(&s[2 * i..2 * i + 2], 16).ok())
        .collect()
}

fn strip_order(dump: &Value) -> Value {
    let mut d = dump.clone();
    if let Some(ns) = d.get_mut("namespace").and_then(|n| n.as_object_mut()) {
        ns.remove("order");
    }
    d
}

impl Restart {
    fn plant(
        &self,
        dir: &Path,
        plant: &Value,
        prev_index: Option<&Value>,
    ) -> anyhow::Result<Value> {
        let snaps: Vec<(u64, u64)> = prev_index
            .and_then(|i| i["snapshots"].as_array())
            .map(|a| {
                a.iter()
                    .map(|s| (s[0].as_u64().unwrap_or(0), s[1].as_u64().unwrap_or(0)))
                    .collect()
            })
            .unwrap_or_default();
        let next_id = snaps.last().map(|s| s.0 + 1).unwrap_or(1);
        let path = dir.join(format!("snapshot_{}", next_id));
        let bytes: Vec<u8> = match plant["kind"].as_str() {
            Some("raw") => super::bytes_of(&plant["raw"]),
            _ => {
                // bytes of the last catalogued snapshot (or a lone real header frame when there is none yet)
                // followed by extra record frames built with the real encoder
                let mut b = match snaps.last() {
                    Some((id, _)) => std::fs::read(dir.join(format!("snapshot_{}", id)))?,
                    None => smutil::header_frame(&SnapshotHeaderDto {
                        last_index: 1,
                        last_term: 1,
                        member: vec![1],
                        member_after_consensus: vec![],
                        node_addrs: Default::default(),
                    }),
                };
                // optional "pad_to": n -> one filler record frame (tree "T_PAD") so that the extra frames start
                // exactly at byte n (= the length of the snapshot the next successful compaction will write,
                // learnt from a run without plant): the overwritten prefix is irrelevant, the tail is aligned
                if let Some(pad_to) = plant["pad_to"].as_u64() {
                    let need = (pad_to as usize).saturating_sub(b.len());
                    if need > 0 {
                        let mut done = false;
                        for n in need.saturating_sub(24)..=need {
                            let f = smutil::record_frame("T_PAD", b"", &vec![0x41u8; n]);
                            if f.len() == need {
                                b.extend_from_slice(&f);
                                done = true;
                                break;
                            }
                        }
                        if !done {
                            return Err(anyhow::anyhow!("cannot pad by {} bytes", need));
                        }
                    }
                }
                for e in plant["extra"].as_array().cloned().unwrap_or_default() {
                    let tree = e[0].as_str().unwrap_or("");
                    let key = unhex(e[1].as_str().unwrap_or(""));
                    let value = unhex(e[2].as_str().unwrap_or(""));
                    b.extend_from_slice(&smutil::record_frame(tree, &key, &value));
                }
                b
            }
        };
        std::fs::write(&path, &bytes)?;
        Ok(
            json!({"before_phase": plant["before_phase"], "path": path.to_string_lossy(),
                  "file": format!("snapshot_{}", next_id), "len": bytes.len(),
                  "base_snapshot": snaps.last().map(|s| s.0)}),
        )
    }

    fn run_case(&self, case: &Value) -> anyhow::Result<Value> {
        let phases = case["phases"]
            .as_array()
            .ok_or_else(|| anyhow::anyhow!("phases missing"))?;
        let threshold = case["threshold"].as_u64().unwrap_or(20);
        let timeout = Duration::from_secs(case["timeout_s"].as_u64().unwrap_or(60));
        let keep = case["keep"].as_bool().unwrap_or(false);
        let all_reqs: Vec<Value> = phases
            .iter()
            .flat_map(|p| p["reqs"].as_array().cloned().unwrap_or_default())
            .collect();
        let work = tempfile::Builder::new()
            .prefix("rnv-restart-")
            .tempdir_in(&self.tmp_base)?;
        let data = work.path().join("data");
        let scratch = work.path().join("scratch");
        std::fs::create_dir_all(&data)?;
        std::fs::create_dir_all(&scratch)?;
        let exe = std::env::current_exe()?;
        let mut outs: Vec<Value> = vec![];
        let mut plants_done = vec![];
        for (i, ph) in phases.iter().enumerate() {
            for pl in case["plants"].as_array().cloned().unwrap_or_default() {
                if pl["before_phase"].as_u64() == Some(i as u64) {
                    let prev_index = outs.last().map(|o| &o["index"]);
                    plants_done.push(self.plant(&data, &pl, prev_index)?);
                }
            }
            let phase_file = work.path().join(format!("phase_{}.json", i));
            let out_file = work.path().join(format!("out_{}.json", i));
            std::fs::write(
                &phase_file,
                serde_json::to_vec(&json!({
                    "threshold": threshold, "reqs": ph["reqs"], "all_reqs": all_reqs,
                    "pace": case["pace"].as_bool().unwrap_or(false),
                    "log_limit": case["log_limit"],
                    "scratch": scratch.to_string_lossy(),
                }))?,
            )?;
            let t0 = Instant::now();
            let quiet = std::env::var_os("RNVERIF_PANIC").is_none();
            let mut cmd = std::process::Command::new(&exe);
            cmd.arg("restart-child")
                .arg(&data)
                .arg(&phase_file)
                .arg(&out_file)
                .stdin(std::process::Stdio::null());
            if quiet {
                cmd.stdout(std::process::Stdio::null())
                    .stderr(std::process::Stdio::null());
            }
            let mut child = cmd.spawn()?;
            let mut timed_out = false;
            loop {
                match child.try_wait()? {
                    Some(_) => break,
                    None => {
                        if t0.elapsed() > timeout {
                            let _ = child.kill();
                            let _ = child.wait();
                            timed_out = true;
                            break;
                        }
                        std::thread::sleep(Duration::from_millis(5));
                    }
                }
            }
            let mut o: Value = if timed_out {
                json!({"r": "timeout"})
            } else {
                std::fs::read(&out_file)
                    .ok()
                    .and_then(|b| serde_json::from_slice(&b).ok())
                    .unwrap_or_else(|| json!({"r": "no_output"}))
            };
            if let Some(m) = o.as_object_mut() {
                m.insert("wall_secs".into(), json!(t0.elapsed().as_secs_f64()));
                if let Some(prev) = outs.last() {
                    let d = if prev["end_dump"].is_null() || m.get("start_dump").is_none() {
                        json!("n/a")
                    } else {
                        smutil::first_diff(
                            &strip_order(&prev["end_dump"]),
                            &strip_order(&m["start_dump"]),
                            "",
                        )
                        .unwrap_or(Value::Null)
                    };
                    m.insert("restart_diff".into(), d);
                    // writes that reached the log after the previous end_dump was taken (background actors)
                    let a = prev["metrics"]["last_log_index"].as_i64();
                    let b = m
                        .get("start_metrics")
                        .and_then(|s| s["last_log_index"].as_i64());
                    m.insert(
                        "log_growth_since_prev_end".into(),
                        match (a, b) {
                            (Some(a), Some(b)) => json!(b - a),
                            _ => Value::Null,
                        },
                    );
                }
            }
            let stop = o["r"] != "ok";
            outs.push(o);
            if stop {
                break;
            }
        }
        let kept = if keep {
            let p = work.into_path();
            json!(p.to_string_lossy())
        } else {
            Value::Null
        };
        Ok(json!({"r": "ok", "phases": outs, "plants_done": plants_done, "kept": kept}))
    }
}

impl Suite for Restart {
    fn run(&mut self, case: &Value) -> Value {
        match catch_unwind(AssertUnwindSafe(|| self.run_case(case))) {
            Ok(Ok(v)) => v,
            Ok(Err(e)) => json!({"r": "error", "msg": e.to_string()}),
            Err(_) => json!({"r": "panic"}),
        }
    }
}
