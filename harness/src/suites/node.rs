//! An in-process r-nacos node (the real `starter::config_factory` + `build_share_data`), used by the
//! `console` and `auth` suites.  No listening sockets are opened; HTTP goes through `actix_web::test`.
use rnacos::common::appdata::AppShareData;
use rnacos::common::AppSysConfig;
use rnacos::starter::{build_share_data, config_factory};
use std::sync::Arc;
use std::time::Duration;

pub struct Node {
    pub runner: actix_rt::SystemRunner,
    pub app: Arc<AppShareData>,
    _dir: tempfile::TempDir,
}

impl Node {
    /// `env`: extra environment variables (RNACOS_*) set before the configuration is read.
    pub fn start(env: &[(String, String)]) -> Node {
        let dir = tempfile::tempdir().expect("tempdir");
        std::env::set_var("RNACOS_DATA_DIR", dir.path().join("db").to_str().unwrap());
        std::env::set_var("RNACOS_RAFT_NODE_ID", "1");
        std::env::set_var("RNACOS_RAFT_AUTO_INIT", "true");
        std::env::set_var("RNACOS_CONSOLE_ENABLE_CAPTCHA", "false");
        std::env::set_var("RUST_LOG", "error");
        for (k, v) in env {
            std::env::set_var(k, v);
        }
        let runner = actix_rt::System::new();
        let app = runner.block_on(async {
            let sys_config = Arc::new(AppSysConfig::init_from_env());
            let factory_data = config_factory(sys_config).await.expect("config_factory");
            let app = build_share_data(factory_data).expect("build_share_data");
            // wait until this single node leads its raft group
            for _ in 0..400 {
                if app.raft.current_leader().await == Some(1) {
                    break;
                }
                tokio::time::sleep(Duration::from_millis(50)).await;
            }
            assert_eq!(app.raft.current_leader().await, Some(1), "raft leader");
            // give the start-up writes (node address, init admin user) time to be applied
            tokio::time::sleep(Duration::from_millis(600)).await;
            app
        });
        Node { runner, app, _dir: dir }
    }
}
