//! An in-process r-nacos node (the real `starter::config_factory` + `build_share_data`), used by the
//! `console` and `auth` suites.  No listening sockets are opened; HTTP goes through `actix_web::test`.
use rnacos::common::appdata::AppShareData;
use rnacos::common::AppSysConfig;
use rnacos::starter::{build_share_data, config_factory};
use std::sync::Arc;
use std::time::Duration;

pub struct Node {
    pub runner: actix_rt::SystemRunner,
    pub app: Arc<AppShareData>,
    _dir: tempfile::TempDir,
}

impl Node {
    /// `env`: extra environment variables (RNACOS_*) set before the configuration is read.
    pub fn start(env: &[(String, String)]) -> Node {
        let dir = tempfile::tempdir().expect("tempdir");
        std::env::set_var("RNACOS_DATA_DIR", dir.path().join("db").to_str().unwrap());
        std::env::set_var("RNACOS_RAFT_NODE_ID", "1");
        std::env::set_var("RNACOS_RAFT_AUTO_INIT", "true");
        std::env::set_var("RNACOS_CONSOLE_ENABLE_CAPTCHA", "false");
        std::env::set_var("RUST_LOG", "error");
        for (k, v) in env {
            std::env::set_var(k, v);
        }
        // a node that never initialises its raft group (no leader): what a node sees during a leader switch
        let leaderless = env.iter().any(|(k, v)| k == "RNACOS_RAFT_AUTO_INIT" && v == "false");
        let runner = actix_rt::System::new();
        let app = runner.block_on(async {
            let sys_config = Arc::new(AppSysConfig::init_from_env());
            let factory_data = config_factory(sys_config).await.expect("config_factory");
            let app = build_share_data(factory_data).expect("build_share_data");
            if leaderless {
                tokio::time::sleep(Duration::from_millis(400)).await;
                return app;
            }
            // wait until this single node leads its raft group
            for _ in 0..400 {
                if app.raft.current_leader().await == Some(1) {
                    break;
                }
                tokio::time::sleep(Duration::from_millis(50)).await;
            }
            assert_eq!(app.raft.current_leader().await, Some(1), "raft leader");
            // give the start-up writes (node address, init admin user) time to be applied
            tokio::time::sleep(Duration::from_millis(600)).await;
            // start-up may still (re)load the cache: wait until a probe entry written through raft stays readable
            let key = rnacos::cache::model::CacheKey::new(
                rnacos::cache::model::CacheType::String,
                Arc::new("verif-probe".to_owned()),
            );
            let mut stable = 0;
            for _ in 0..60 {
                if cache_has(&app, &key).await {
                    stable += 1;
                    if stable >= 3 {
                        break;
                    }
                } else {
                    stable = 0;
                    let req = rnacos::cache::actor_model::CacheManagerRaftReq::Set(
                        rnacos::cache::actor_model::CacheSetParam::new_with_ttl(
                            key.clone(),
                            rnacos::cache::model::CacheValue::String(Arc::new("1".to_owned())),
                            3600,
                        ),
                    );
                    app.raft_request_route
                        .request(rnacos::raft::store::ClientRequest::CacheReq { req })
                        .await
                        .ok();
                }
                tokio::time::sleep(Duration::from_millis(200)).await;
            }
            app
        });
        Node { runner, app, _dir: dir }
    }
}

/// is the key present in the node-local cache (the lookup the middlewares use first)
pub async fn cache_has(app: &Arc<AppShareData>, key: &rnacos::cache::model::CacheKey) -> bool {
    let req = rnacos::cache::actor_model::CacheManagerLocalReq::Get(key.clone());
    matches!(
        app.direct_cache_manager.send(req).await,
        Ok(Ok(rnacos::cache::actor_model::CacheManagerRaftResult::Value(_)))
    )
}
