use serde_json::Value;

pub trait Suite {
    fn run(&mut self, case: &Value) -> Value;
}

pub mod codec;
pub mod indexfile;
pub mod distro;
pub mod sync;
pub mod naming;
pub mod dispatch;
pub mod restart;
pub mod snapfile;
pub mod smutil;
pub mod auth;
pub mod console;
pub mod node;
pub mod ackchain;
pub mod config;
pub mod seq;
pub mod ns;
pub mod filestore;
pub mod logfile;

pub fn make(name: &str) -> Option<Box<dyn Suite>> {
    match name {
        "codec" => Some(Box::new(codec::Codec::new())),
        "indexfile" => Some(Box::new(indexfile::IndexFile::new())),
        "distro" => Some(Box::new(distro::Distro::new())),
        "sync" => Some(Box::new(sync::Sync::new())),
        "naming" => Some(Box::new(naming::Naming::new())),
        "dispatch" => Some(Box::new(dispatch::Dispatch::new())),
        "restart" => Some(Box::new(restart::Restart::new())),
        "snapfile" => Some(Box::new(snapfile::SnapFile::new())),
        "auth" => Some(Box::new(auth::Auth::new())),
        "console" => Some(Box::new(console::Console::new())),
        "config" => Some(Box::new(config::Config::new())),
        "seq" => Some(Box::new(seq::Seq::new())),
        "ns" => Some(Box::new(ns::Ns::new())),
        "logfile" => Some(Box::new(logfile::LogFile::new())),
        "filestore" => Some(Box::new(filestore::FileStoreSuite::new())),
        "ackchain" => Some(Box::new(ackchain::AckChain::new())),
        _ => None,
    }
}

/// helpers shared by suites
pub fn bytes_of(v: &Value) -> Vec<u8> {
    v.as_array()
        .map(|a| a.iter().map(|x| x.as_u64().unwrap() as u8).collect())
        .unwrap_or_default()
}

pub fn json_bytes(b: &[u8]) -> Value {
    Value::Array(b.iter().map(|x| Value::from(*x as u64)).collect())
}

pub fn block_on<F: std::future::Future>(f: F) -> F::Output {
    tokio::runtime::Builder::new_current_thread()
        .enable_all()
        .build()
        .unwrap()
        .block_on(f)
}
