use serde_json::Value;

pub trait Suite {
    fn run(&mut self, case: &Value) -> Value;
}

pub mod codec;
pub mod filestore;
pub mod logfile;

pub fn make(name: &str) -> Option<Box<dyn Suite>> {
    match name {
        "codec" => Some(Box::new(codec::Codec::new())),
        "logfile" => Some(Box::new(logfile::LogFile::new())),
        "filestore" => Some(Box::new(filestore::FileStoreSuite::new())),
        _ => None,
    }
}

/// helpers shared by suites
pub fn bytes_of(v: &Value) -> Vec<u8> {
    v.as_array()
        .map(|a| a.iter().map(|x| x.as_u64().unwrap() as u8).collect())
        .unwrap_or_default()
}

pub fn json_bytes(b: &[u8]) -> Value {
    Value::Array(b.iter().map(|x| Value::from(*x as u64)).collect())
}

pub fn block_on<F: std::future::Future>(f: F) -> F::Output {
    tokio::runtime::Builder::new_current_thread()
        .enable_all()
        .build()
        .unwrap()
        .block_on(f)
}
