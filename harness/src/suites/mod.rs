use serde_json::Value;

pub trait Suite {
    fn run(&mut self, case: &Value) -> Value;
}

pub mod codec;
pub mod config;
pub mod seq;

pub fn make(name: &str) -> Option<Box<dyn Suite>> {
    match name {
        "codec" => Some(Box::new(codec::Codec::new())),
        "config" => Some(Box::new(config::Config::new())),
        "seq" => Some(Box::new(seq::Seq::new())),
        _ => None,
    }
}

/// helpers shared by suites
pub fn bytes_of(v: &Value) -> Vec<u8> {
    v.as_array()
        .map(|a| a.iter().map(|x| x.as_u64().unwrap() as u8).collect())
        .unwrap_or_default()
}

pub fn json_bytes(b: &[u8]) -> Value {
    Value::Array(b.iter().map(|x| Value::from(*x as u64)).collect())
}

pub fn block_on<F: std::future::Future>(f: F) -> F::Output {
    tokio::runtime::Builder::new_current_thread()
        .enable_all()
        .build()
        .unwrap()
        .block_on(f)
}
