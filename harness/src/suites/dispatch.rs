//! C07: the same committed sequence of ClientRequests applied through
//!   * the leader path    (StateApplyAsyncRequest::ApplyRequest -> RaftDataHandler::apply_log_to_state_machine),
//!   * the follower path  (StateApplyRequest::ApplyBatchRequest -> RaftDataHandler::do_send_log),
//!   * the start-up replay (RaftDataHandler::load_log, as LogRecordLoaderInstance does)
//! on three independent mini nodes made of the real actors; output = per-entry/batch results + canonical
//! dump (see smutil.rs) of every node.
//!
//! case: {"reqs":[R..], "batches":[n..], "via":"manager"|"direct", "between":"settle"|"none"}
//!       {"k":"samples"}   -> representative requests (templates for the generator)
//!       {"k":"stats"}     -> open fds / threads of the harness process (leak check)
//! `between` (default "settle"): after every follower batch wait for quiescence (awaited round trips
//! through every actor), i.e. requests of ONE batch race with each other, batches do not.  "none": only the
//! await on the ApplyBatchRequest answer ("manager") / nothing at all ("direct") separates batches.
use super::smutil::{self, MiniNode, Occur};
use super::Suite;
use rnacos::raft::filestore::model::ApplyRequestDto;
use rnacos::raft::filestore::raftapply::{StateApplyAsyncRequest, StateApplyRequest};
use rnacos::raft::store::ClientRequest;
use serde_json::{json, Value};
use std::panic::{catch_unwind, AssertUnwindSafe};
use std::path::PathBuf;

pub struct Dispatch {
    tmp_base: PathBuf,
}

impl Dispatch {
    pub fn new() -> Self {
        // scratch for the per-node raft dirs (index file, lock file, dump snapshot); removed per case
        let tmp_base = std::env::var("RNVERIF_TMP")
            .map(PathBuf::from)
            .unwrap_or_else(|_| std::env::temp_dir());
        Dispatch { tmp_base }
    }
}

fn split_batches(n: usize, sizes: &[usize]) -> Vec<(usize, usize)> {
    // [start, end) ranges; the remainder (if any) is one last batch; size 0 = empty batch
    let mut out = vec![];
    let mut pos = 0;
    for s in sizes {
        let end = (pos + s).min(n);
        out.push((pos, end));
        pos = end;
    }
    if pos < n {
        out.push((pos, n));
    }
    out
}

fn ok_err<T, E>(r: &Result<T, E>) -> &'static str {
    if r.is_ok() {
        "ok"
    } else {
        "err"
    }
}

async fn run_leader(
    node: &MiniNode,
    reqs: &[ClientRequest],
    direct: bool,
) -> (Vec<Value>, Vec<Value>) {
    let mut res = vec![];
    let mut errs = vec![];
    for (i, req) in reqs.iter().enumerate() {
        let index = i as u64 + 1;
        let r: anyhow::Result<()> = if direct {
            node.handler
                .apply_log_to_state_machine(req.clone(), &node.index)
                .await
                .map(|_| ())
        } else {
            match node
                .apply
                .send(StateApplyAsyncRequest::ApplyRequest(ApplyRequestDto::new(
                    index,
                    req.clone(),
                )))
                .await
            {
                Ok(Ok(_)) => Ok(()),
                Ok(Err(e)) => Err(e),
                Err(e) => Err(anyhow::anyhow!("mailbox: {}", e)),
            }
        };
        // on Err async-raft (non-shutdown error) goes on with the next entry
        if let Err(e) = &r {
            errs.push(json!([i, e.to_string()]));
        }
        res.push(json!(ok_err(&r)));
    }
    (res, errs)
}

async fn run_follower(
    node: &MiniNode,
    reqs: &[ClientRequest],
    batches: &[(usize, usize)],
    direct: bool,
    settle_between: bool,
) -> anyhow::Result<(Vec<Value>, Vec<Value>)> {
    let mut res = vec![];
    let mut errs = vec![];
    for (bi, (a, b)) in batches.iter().enumerate() {
        let r: anyhow::Result<()> = if direct {
            let mut r = Ok(());
            for req in reqs[*a..*b].iter() {
                // back-to-back, nothing awaited: exactly what the ApplyBatchRequest handler does
                if let Err(e) = node.handler.do_send_log(req.clone(), &node.index) {
                    r = Err(e);
                    break;
                }
            }
            r
        } else {
            let dtos: Vec<ApplyRequestDto> = (*a..*b)
                .map(|i| ApplyRequestDto::new(i as u64 + 1, reqs[i].clone()))
                .collect();
            match node
                .apply
                .send(StateApplyRequest::ApplyBatchRequest(dtos))
                .await
            {
                Ok(Ok(_)) => Ok(()),
                Ok(Err(e)) => Err(e),
                Err(e) => Err(anyhow::anyhow!("mailbox: {}", e)),
            }
        };
        res.push(json!(ok_err(&r)));
        if let Err(e) = &r {
            // async-raft shuts the node down on a replicate_to_state_machine error: nothing further is applied
            errs.push(json!([bi, e.to_string()]));
            break;
        }
        if settle_between {
            node.settle().await?;
        }
    }
    Ok((res, errs))
}

async fn run_replay(node: &MiniNode, reqs: &[ClientRequest]) -> (Vec<Value>, Vec<Value>) {
    let mut res = vec![];
    let mut errs = vec![];
    for (i, req) in reqs.iter().enumerate() {
        // RaftLogInner::load_record logs a loader error and continues with the next record
        let r = node.handler.load_log(req.clone(), &node.index).await;
        if let Err(e) = &r {
            errs.push(json!([i, e.to_string()]));
        }
        res.push(json!(ok_err(&r)));
    }
    (res, errs)
}

async fn finish(
    node: &MiniNode,
    occur: &Occur,
    res: (Vec<Value>, Vec<Value>),
) -> anyhow::Result<Value> {
    node.settle().await?;
    node.settle().await?;
    let (dump, applied) = smutil::dump(node, occur).await?;
    Ok(json!({"results": res.0, "errors": res.1, "applied": applied, "dump": dump}))
}

impl Dispatch {
    fn run_case(&self, case: &Value) -> anyhow::Result<Value> {
        let reqs: Vec<ClientRequest> = case["reqs"]
            .as_array()
            .ok_or_else(|| anyhow::anyhow!("reqs missing"))?
            .iter()
            .map(smutil::parse_req)
            .collect::<anyhow::Result<Vec<_>>>()?;
        let sizes: Vec<usize> = case["batches"]
            .as_array()
            .map(|a| a.iter().map(|x| x.as_u64().unwrap_or(0) as usize).collect())
            .unwrap_or_default();
        let batches = split_batches(reqs.len(), &sizes);
        let direct = case["via"].as_str() == Some("direct");
        let settle_between = case["between"].as_str() != Some("none");
        let occur = Occur::collect(&reqs);
        let tmp_base = self.tmp_base.clone();

        // a fresh actix System (current-thread runtime + LocalSet) per case: dropping it drops every actor
        let sys = actix_rt::System::new();
        let out = sys.block_on(async move {
            let leader = MiniNode::build(&tmp_base).await?;
            let follower = MiniNode::build(&tmp_base).await?;
            let replay = MiniNode::build(&tmp_base).await?;

            let lr = run_leader(&leader, &reqs, direct).await;
            let fr = run_follower(&follower, &reqs, &batches, direct, settle_between).await?;
            let rr = run_replay(&replay, &reqs).await;

            let l = finish(&leader, &occur, lr).await?;
            let f = finish(&follower, &occur, fr).await?;
            let r = finish(&replay, &occur, rr).await?;
            let dirs = (leader.dir, follower.dir, replay.dir);
            anyhow::Ok((
                json!({"r": "ok", "leader": l, "follower": f, "replay": r}),
                dirs,
            ))
        });
        drop(sys);
        let (v, dirs) = out?;
        drop(dirs); // removes the temp dirs after every actor (and its open files / lock) is gone
        Ok(v)
    }
}

fn proc_stats() -> Value {
    let fds = std::fs::read_dir("/proc/self/fd")
        .map(|d| d.count())
        .unwrap_or(0);
    let threads = std::fs::read_dir("/proc/self/task")
        .map(|d| d.count())
        .unwrap_or(0);
    let rss_kb = std::fs::read_to_string("/proc/self/status")
        .ok()
        .and_then(|s| {
            s.lines().find(|l| l.starts_with("VmRSS:")).and_then(|l| {
                l.split_whitespace()
                    .nth(1)
                    .and_then(|x| x.parse::<u64>().ok())
            })
        })
        .unwrap_or(0);
    json!({"r": "ok", "fds": fds, "threads": threads, "rss_kb": rss_kb})
}

impl Suite for Dispatch {
    fn run(&mut self, case: &Value) -> Value {
        match case["k"].as_str() {
            Some("samples") => return json!({"r": "ok", "samples": smutil::samples()}),
            Some("stats") => return proc_stats(),
            _ => {}
        }
        match catch_unwind(AssertUnwindSafe(|| self.run_case(case))) {
            Ok(Ok(v)) => v,
            Ok(Err(e)) => json!({"r": "error", "msg": e.to_string()}),
            Err(p) => {
                let msg = p
                    .downcast_ref::<String>()
                    .cloned()
                    .or_else(|| p.downcast_ref::<&str>().map(|s| s.to_string()))
                    .unwrap_or_else(|| "?".to_string());
                json!({"r": "panic", "msg": msg})
            }
        }
    }
}
