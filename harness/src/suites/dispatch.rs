//! C07: the same committed sequence of ClientRequests applied through
//!   * the leader path    (StateApplyAsyncRequest::ApplyRequest -> RaftDataHandler::apply_log_to_state_machine),
//!   * the follower path  (StateApplyRequest::ApplyBatchRequest -> RaftDataHandler::do_send_log),
//!   * the start-up replay (RaftDataHandler::load_log, as LogRecordLoaderInstance does)
//! on three independent mini nodes made of the real actors; output = per-entry/batch results + canonical
//! dump (see smutil.rs) of every node.
//!
//! case: {"reqs":[R..], "batches":[n..], "via":"manager"|"direct", "between":"settle"|"none"}
//!       {"k":"samples"}   -> representative requests (templates for the generator)
//!       {"k":"stats"}     -> open fds / threads of the harness process (leak check)
//!       {"k":"route","tree":T,"key":[bytes],"value":[bytes]} -> RaftDataHandler::load_snapshot of one record on a
//!                            fresh mini node: {"result":"ok"|"err:..","changed":[component..],"detail":{..}}
//!       {"k":"route_samples"} -> one valid [tree,key,value] per tree name
//!       {"k":"tmp_snapshot","key":K,"content":C,"commit":R} -> a_tmp / b_loaded / a_committed / b_committed dumps
//! `between` (default "settle"): after every follower batch wait for quiescence (awaited round trips
//! through every actor), i.e. requests of ONE batch race with each other, batches do not.  "none": only the
//! await on the ApplyBatchRequest answer ("manager") / nothing at all ("direct") separates batches.
use super::smutil::{self, MiniNode, Occur, Part, PARTS};
use super::{bytes_of, json_bytes, Suite};
use rnacos::raft::filestore::model::ApplyRequestDto;
use rnacos::raft::filestore::raftapply::{StateApplyAsyncRequest, StateApplyRequest};
use rnacos::raft::store::ClientRequest;
use serde_json::{json, Value};
use std::panic::{catch_unwind, AssertUnwindSafe};
use std::path::PathBuf;

pub struct Dispatch {
    tmp_base: PathBuf,
}

impl Dispatch {
    pub fn new() -> Self {
        // scratch for the per-node raft dirs (index file, lock file, dump snapshot); removed per case
        let tmp_base = std::env::var("RNVERIF_TMP")
            .map(PathBuf::from)
            .unwrap_or_else(|_| std::env::temp_dir());
        Dispatch { tmp_base }
    }
}

fn split_batches(n: usize, sizes: &[usize]) -> Vec<(usize, usize)> {
    // [start, end) ranges; the remainder (if any) is one last batch; size 0 = empty batch
    let mut out = vec![];
    let mut pos = 0;
    for s in sizes {
        let end = (pos + s).min(n);
        out.push((pos, end));
        pos = end;
    }
    if pos < n {
        out.push((pos, n));
    }
    out
}

fn ok_err<T, E>(r: &Result<T, E>) -> &'static str {
    if r.is_ok() {
        "ok"
    } else {
        "err"
    }
}

async fn run_leader(
    node: &MiniNode,
    reqs: &[ClientRequest],
    direct: bool,
) -> (Vec<Value>, Vec<Value>) {
    let mut res = vec![];
    let mut errs = vec![];
    for (i, req) in reqs.iter().enumerate() {
        let index = i as u64 + 1;
        let r: anyhow::Result<()> = if direct {
            node.handler
                .apply_log_to_state_machine(req.clone(), &node.index)
                .await
                .map(|_| ())
        } else {
            match node
                .apply
                .send(StateApplyAsyncRequest::ApplyRequest(ApplyRequestDto::new(
                    index,
                    req.clone(),
                )))
                .await
            {
                Ok(Ok(_)) => Ok(()),
                Ok(Err(e)) => Err(e),
                Err(e) => Err(anyhow::anyhow!("mailbox: {}", e)),
            }
        };
        // on Err async-raft (non-shutdown error) goes on with the next entry
        if let Err(e) = &r {
            errs.push(json!([i, e.to_string()]));
        }
        res.push(json!(ok_err(&r)));
    }
    (res, errs)
}

async fn run_follower(
    node: &MiniNode,
    reqs: &[ClientRequest],
    batches: &[(usize, usize)],
    direct: bool,
    settle_between: bool,
) -> anyhow::Result<(Vec<Value>, Vec<Value>)> {
    let mut res = vec![];
    let mut errs = vec![];
    for (bi, (a, b)) in batches.iter().enumerate() {
        let r: anyhow::Result<()> = if direct {
            let mut r = Ok(());
            for req in reqs[*a..*b].iter() {
                // back-to-back, nothing awaited: exactly what the ApplyBatchRequest handler does
                if let Err(e) = node.handler.do_send_log(req.clone(), &node.index) {
                    r = Err(e);
                    break;
                }
            }
            r
        } else {
            let dtos: Vec<ApplyRequestDto> = (*a..*b)
                .map(|i| ApplyRequestDto::new(i as u64 + 1, reqs[i].clone()))
                .collect();
            // through the storage glue async-raft calls: FileStore::replicate_to_state_machine (it builds the
            // ApplyBatchRequest and awaits the apply actor)
            use async_raft_ext::RaftStorage;
            let store = rnacos::raft::filestore::core::FileStore::new(
                1,
                node.index.clone(),
                node.snapshot.clone(),
                node.log.clone(),
                node.apply.clone(),
            );
            let idx: Vec<u64> = dtos.iter().map(|d| d.index).collect();
            let entries: Vec<(&u64, &ClientRequest)> = idx.iter().zip(dtos.iter().map(|d| &d.request)).collect();
            store.replicate_to_state_machine(&entries).await
        };
        res.push(json!(ok_err(&r)));
        if let Err(e) = &r {
            // async-raft shuts the node down on a replicate_to_state_machine error: nothing further is applied
            errs.push(json!([bi, e.to_string()]));
            break;
        }
        if settle_between {
            node.settle().await?;
        }
    }
    Ok((res, errs))
}

async fn run_replay(node: &MiniNode, reqs: &[ClientRequest]) -> (Vec<Value>, Vec<Value>) {
    let mut res = vec![];
    let mut errs = vec![];
    for (i, req) in reqs.iter().enumerate() {
        // RaftLogInner::load_record logs a loader error and continues with the next record
        let r = node.handler.load_log(req.clone(), &node.index).await;
        if let Err(e) = &r {
            errs.push(json!([i, e.to_string()]));
        }
        res.push(json!(ok_err(&r)));
    }
    (res, errs)
}

async fn finish(
    node: &MiniNode,
    occur: &Occur,
    res: (Vec<Value>, Vec<Value>),
) -> anyhow::Result<Value> {
    node.settle().await?;
    node.settle().await?;
    let (dump, applied) = smutil::dump(node, occur).await?;
    Ok(json!({"results": res.0, "errors": res.1, "applied": applied, "dump": dump}))
}

impl Dispatch {
    fn run_case(&self, case: &Value) -> anyhow::Result<Value> {
        let reqs: Vec<ClientRequest> = case["reqs"]
            .as_array()
            .ok_or_else(|| anyhow::anyhow!("reqs missing"))?
            .iter()
            .map(smutil::parse_req)
            .collect::<anyhow::Result<Vec<_>>>()?;
        let sizes: Vec<usize> = case["batches"]
            .as_array()
            .map(|a| a.iter().map(|x| x.as_u64().unwrap_or(0) as usize).collect())
            .unwrap_or_default();
        let batches = split_batches(reqs.len(), &sizes);
        let direct = case["via"].as_str() == Some("direct");
        let settle_between = case["between"].as_str() != Some("none");
        let occur = Occur::collect(&reqs);
        let tmp_base = self.tmp_base.clone();

        // a fresh actix System (current-thread runtime + LocalSet) per case: dropping it drops every actor
        let sys = actix_rt::System::new();
        let out = sys.block_on(async move {
            let leader = MiniNode::build(&tmp_base).await?;
            let follower = MiniNode::build(&tmp_base).await?;
            let replay = MiniNode::build(&tmp_base).await?;

            let lr = run_leader(&leader, &reqs, direct).await;
            let fr = run_follower(&follower, &reqs, &batches, direct, settle_between).await?;
            let rr = run_replay(&replay, &reqs).await;

            let l = finish(&leader, &occur, lr).await?;
            let f = finish(&follower, &occur, fr).await?;
            let r = finish(&replay, &occur, rr).await?;
            let dirs = (leader.dir, follower.dir, replay.dir);
            anyhow::Ok((
                json!({"r": "ok", "leader": l, "follower": f, "replay": r}),
                dirs,
            ))
        });
        drop(sys);
        let (v, dirs) = out?;
        drop(dirs); // removes the temp dirs after every actor (and its open files / lock) is gone
        Ok(v)
    }
}

/// everything observable of one node, per component (used by `route`): the component's own BuildSnapshot
/// output plus the state that is not in its snapshot (weak namespaces, expired cache entries via the
/// VerifRawEntries hook, the legacy CacheManager which has no snapshot at all)
async fn component_view(node: &MiniNode, occur: &Occur) -> anyhow::Result<Vec<(String, Value)>> {
    use rnacos::cache::core::VerifRawEntries;
    use rnacos::cache::model::{CacheKey, CacheType};
    use rnacos::namespace::model::{NamespaceQueryReq, NamespaceQueryResult};
    use rnacos::raft::cache::CacheManagerReq;
    let mut out = vec![];
    for (part, name) in PARTS.iter() {
        let (recs, _) = smutil::snapshot_part(node, occur, *part).await?;
        let mut v = json!({ "snapshot": recs });
        match part {
            Part::Namespace => {
                if let NamespaceQueryResult::List(l) =
                    node.namespace.send(NamespaceQueryReq::List).await??
                {
                    let mut ids: Vec<Value> = l
                        .iter()
                        .map(|n| json!([n.namespace_id.as_ref(), n.namespace_name, n.flag]))
                        .collect();
                    ids.sort_by_key(|x| x.to_string());
                    v["list"] = Value::Array(ids);
                }
            }
            Part::Cache => {
                let raw = node.direct_cache.send(VerifRawEntries).await?;
                v["raw_entries"] = Value::Array(
                    raw.iter()
                        .map(|(k, e, d)| json!([smutil::hex(k.as_bytes()), e, smutil::hex(d)]))
                        .collect(),
                );
            }
            _ => {}
        }
        out.push((name.to_string(), v));
    }
    let mut legacy = vec![];
    for (t, k) in &occur.cache_keys {
        if let Ok(ct) = CacheType::from_data(*t) {
            let key = CacheKey::new(ct, std::sync::Arc::new(k.clone()));
            legacy.push(json!([
                t,
                k,
                smutil::to_canon(&node.cache.send(CacheManagerReq::Get(key)).await??)
            ]));
        }
    }
    out.push(("legacy_cache".to_string(), Value::Array(legacy)));
    Ok(out)
}

impl Dispatch {
    /// {"k":"route","tree":..,"key":[bytes],"value":[bytes]}: the REAL `RaftDataHandler::load_snapshot` of one
    /// record on a fresh mini node; which component's observable state changed?
    fn run_route(&self, case: &Value) -> anyhow::Result<Value> {
        use rnacos::raft::filestore::model::SnapshotRecordDto;
        let tree = case["tree"].as_str().unwrap_or("").to_string();
        let key = bytes_of(&case["key"]);
        let value = bytes_of(&case["value"]);
        let mut occur = Occur::default();
        // cache keys named by the record (T_CACHE / T_DIRECT_CACHE use "<type>\0<key>")
        if let Ok(k) = rnacos::cache::model::CacheKey::from_db_key_ref(&key) {
            occur
                .cache_keys
                .insert((k.cache_type.get_type_data(), k.key.as_ref().clone()));
        }
        let tmp_base = self.tmp_base.clone();
        let sys = actix_rt::System::new();
        let out = sys.block_on(async move {
            let node = MiniNode::build(&tmp_base).await?;
            let before = component_view(&node, &occur).await?;
            let rec = SnapshotRecordDto {
                tree: std::sync::Arc::new(tree),
                key,
                value,
                op_type: 0,
            };
            let result = match node.handler.load_snapshot(rec).await {
                Ok(_) => "ok".to_string(),
                Err(e) => format!("err:{}", e),
            };
            node.settle().await?;
            node.settle().await?;
            let after = component_view(&node, &occur).await?;
            let mut changed = vec![];
            let mut detail = serde_json::Map::new();
            for ((n, a), (_, b)) in before.iter().zip(after.iter()) {
                if a != b {
                    changed.push(json!(n));
                    detail.insert(n.clone(), json!({"before": a, "after": b}));
                }
            }
            anyhow::Ok((
                json!({"r": "ok", "result": result, "changed": changed, "detail": detail}),
                node.dir,
            ))
        });
        drop(sys);
        let (v, dir) = out?;
        drop(dir);
        Ok(v)
    }

    /// {"k":"tmp_snapshot","key":K,"content":C,"commit":<ConfigSet for the same key/content>}:
    /// A: ConfigCmd::SetTmpValue (what a follower does after a routed write) -> dump a_tmp;
    /// B: fresh node loading ALL of A's real snapshot records through handler.load_snapshot -> b_loaded;
    /// then the commit request on both through apply_log_to_state_machine -> a_committed / b_committed.
    fn run_tmp_snapshot(&self, case: &Value) -> anyhow::Result<Value> {
        use rnacos::config::core::{ConfigCmd, ConfigKey};
        use rnacos::raft::filestore::model::SnapshotRecordDto;
        let key = case["key"].as_str().unwrap_or("").to_string();
        let content = case["content"].as_str().unwrap_or("").to_string();
        let commit = smutil::parse_req(&case["commit"])?;
        let mut all = vec![commit.clone()];
        all.push(ClientRequest::ConfigRemove { key: key.clone() }); // only to name the key for the dump
        let occur = Occur::collect(&all);
        let tmp_base = self.tmp_base.clone();
        let sys = actix_rt::System::new();
        let out = sys.block_on(async move {
            let a = MiniNode::build(&tmp_base).await?;
            let b = MiniNode::build(&tmp_base).await?;
            a.config
                .send(ConfigCmd::SetTmpValue(
                    ConfigKey::from(key.as_str()),
                    std::sync::Arc::new(content),
                ))
                .await??;
            a.settle().await?;
            let (a_tmp, _) = smutil::dump(&a, &occur).await?;
            let recs = smutil::snapshot_part_raw(&a, Part::All).await?;
            let mut load_errors = vec![];
            let n_records = recs.len();
            for (tree, k, v) in recs {
                let rec = SnapshotRecordDto {
                    tree: std::sync::Arc::new(tree.clone()),
                    key: k,
                    value: v,
                    op_type: 0,
                };
                // StateApplyManager::do_load_snapshot logs the error and goes on
                if let Err(e) = b.handler.load_snapshot(rec).await {
                    load_errors.push(json!([tree, e.to_string()]));
                }
            }
            b.settle().await?;
            b.settle().await?;
            let (b_loaded, _) = smutil::dump(&b, &occur).await?;
            let ra = a
                .handler
                .apply_log_to_state_machine(commit.clone(), &a.index)
                .await;
            let rb = b
                .handler
                .apply_log_to_state_machine(commit.clone(), &b.index)
                .await;
            a.settle().await?;
            b.settle().await?;
            let (a_committed, _) = smutil::dump(&a, &occur).await?;
            let (b_committed, _) = smutil::dump(&b, &occur).await?;
            anyhow::Ok((
                json!({"r": "ok", "a_tmp": a_tmp, "b_loaded": b_loaded,
                       "a_committed": a_committed, "b_committed": b_committed,
                       "snapshot_records": n_records, "load_errors": load_errors,
                       "commit_results": [ok_err(&ra), ok_err(&rb)]}),
                (a.dir, b.dir),
            ))
        });
        drop(sys);
        let (v, dirs) = out?;
        drop(dirs);
        Ok(v)
    }

    /// {"k":"install","reqs":[..],"prefix":n}: node A (the leader) applies all requests, node B (a lagging follower)
    /// only the first n; then B is caught up the way InstallSnapshot does it on a RUNNING node: every record of A's
    /// real snapshot through `RaftDataHandler::load_snapshot` over B's LIVE state, then `load_complete`.
    /// Returns the dumps a_final / b_before / b_installed.
    fn run_install(&self, case: &Value) -> anyhow::Result<Value> {
        use rnacos::raft::filestore::model::SnapshotRecordDto;
        let reqs: Vec<ClientRequest> = case["reqs"]
            .as_array()
            .ok_or_else(|| anyhow::anyhow!("reqs missing"))?
            .iter()
            .map(smutil::parse_req)
            .collect::<anyhow::Result<Vec<_>>>()?;
        let prefix = (case["prefix"].as_u64().unwrap_or(0) as usize).min(reqs.len());
        let again = case["again"].as_bool().unwrap_or(false);
        let suffix: Vec<ClientRequest> = match case["suffix"].as_array() {
            Some(a) => a.iter().map(smutil::parse_req).collect::<anyhow::Result<Vec<_>>>()?,
            None => vec![],
        };
        let mut all_reqs = reqs.clone();
        all_reqs.extend(suffix.iter().cloned());
        let occur = Occur::collect(&all_reqs);
        let tmp_base = self.tmp_base.clone();
        let sys = actix_rt::System::new();
        let out = sys.block_on(async move {
            let a = MiniNode::build(&tmp_base).await?;
            let b = MiniNode::build(&tmp_base).await?;
            let (_ra, ea) = run_leader(&a, &reqs, true).await;
            let (_rb, _eb) = run_leader(&b, &reqs[..prefix], true).await;
            a.settle().await?;
            b.settle().await?;
            let (a_final, _) = smutil::dump(&a, &occur).await?;
            let (b_before, _) = smutil::dump(&b, &occur).await?;
            let recs = smutil::snapshot_part_raw(&a, Part::All).await?;
            let n_records = recs.len();
            let recs_again = recs.clone();
            let mut load_errors = vec![];
            for (tree, k, v) in recs {
                let rec = SnapshotRecordDto {
                    tree: std::sync::Arc::new(tree.clone()),
                    key: k,
                    value: v,
                    op_type: 0,
                };
                if let Err(e) = b.handler.load_snapshot(rec).await {
                    load_errors.push(json!([tree, e.to_string()]));
                }
            }
            b.handler.load_complete().ok();
            b.settle().await?;
            b.settle().await?;
            let (b_installed, _) = smutil::dump(&b, &occur).await?;
            // round 7: the same snapshot delivered a second time (retried InstallSnapshot) ...
            let mut b_again = Value::Null;
            if again {
                for (tree, k, v) in recs_again {
                    let rec = SnapshotRecordDto {
                        tree: std::sync::Arc::new(tree.clone()),
                        key: k,
                        value: v,
                        op_type: 0,
                    };
                    if let Err(e) = b.handler.load_snapshot(rec).await {
                        load_errors.push(json!([tree, e.to_string()]));
                    }
                }
                b.handler.load_complete().ok();
                b.settle().await?;
                b.settle().await?;
                b_again = smutil::dump(&b, &occur).await?.0;
            }
            // ... and the committed log suffix after the snapshot applied on both nodes
            let (mut a_after, mut b_after) = (Value::Null, Value::Null);
            if !suffix.is_empty() {
                let (_r, _e) = run_leader(&a, &suffix, true).await;
                let (_r, _e) = run_leader(&b, &suffix, true).await;
                a.settle().await?;
                b.settle().await?;
                a_after = smutil::dump(&a, &occur).await?.0;
                b_after = smutil::dump(&b, &occur).await?.0;
            }
            anyhow::Ok((
                json!({"r": "ok", "a_final": a_final, "b_before": b_before, "b_installed": b_installed,
                       "b_again": b_again, "a_after": a_after, "b_after": b_after,
                       "snapshot_records": n_records, "load_errors": load_errors, "leader_errors": ea}),
                (a.dir, b.dir),
            ))
        });
        drop(sys);
        let (v, dirs) = out?;
        drop(dirs);
        Ok(v)
    }

    /// {"k":"route_samples"}: one valid [tree,key,value] per tree name, taken from the real snapshot of a mini
    /// node that applied the (non-destructive) sample requests, plus a few hand-built ones
    fn run_route_samples(&self) -> anyhow::Result<Value> {
        let tmp_base = self.tmp_base.clone();
        let sys = actix_rt::System::new();
        let out = sys.block_on(async move {
            let node = MiniNode::build(&tmp_base).await?;
            let samples = smutil::samples();
            for (name, v) in samples.as_object().unwrap() {
                let op = name.split('/').nth(1).unwrap_or("");
                let destructive = ["Remove", "Drop", "Delete", "ConfigRemove"]
                    .iter()
                    .any(|d| op.starts_with(d) || name.starts_with(d));
                if destructive {
                    continue;
                }
                let req = smutil::parse_req(v)?;
                let _ = node
                    .handler
                    .apply_log_to_state_machine(req, &node.index)
                    .await;
            }
            node.settle().await?;
            node.settle().await?;
            let recs = smutil::snapshot_part_raw(&node, Part::All).await?;
            let mut m = serde_json::Map::new();
            for (tree, k, v) in recs {
                let name = if tree == "T_SEQUENCE" && k != b"SEQ_CONFIG" {
                    "T_SEQUENCE@other".to_string()
                } else {
                    tree.clone()
                };
                m.entry(name)
                    .or_insert_with(|| json!([tree, json_bytes(&k), json_bytes(&v)]));
            }
            // hand-built: T_USER (TableManager takes any bytes), and a T_DIRECT_CACHE record with a far-future
            // timeout (real snapshots always carry timeout 0, see CacheValue::to_do)
            m.insert(
                "T_USER".into(),
                json!([
                    "T_USER",
                    json_bytes(b"someone"),
                    json_bytes(b"arbitrary-user-bytes")
                ]),
            );
            {
                use quick_protobuf::Writer;
                use rnacos::common::pb::data_object::DirectCacheItemDo;
                let d = DirectCacheItemDo {
                    cache_type: 1,
                    key: "dk1".into(),
                    data: std::borrow::Cow::Borrowed(b"dv1"),
                    timeout: 2000000000,
                };
                let mut buf = Vec::new();
                Writer::new(&mut buf).write_message(&d)?;
                // SnapshotReader hands `write_message` output (with its length prefix) to BytesReader::read_message
                m.insert(
                    "T_DIRECT_CACHE@timeout".into(),
                    json!(["T_DIRECT_CACHE", json_bytes(b"1\0dk1"), json_bytes(&buf)]),
                );
            }
            m.insert(
                "T_UNKNOWN".into(),
                json!(["T_UNKNOWN", json_bytes(b"k"), json_bytes(b"v")]),
            );
            anyhow::Ok((json!({"r": "ok", "samples": m}), node.dir))
        });
        drop(sys);
        let (v, dir) = out?;
        drop(dir);
        Ok(v)
    }
}

fn proc_stats() -> Value {
    let fds = std::fs::read_dir("/proc/self/fd")
        .map(|d| d.count())
        .unwrap_or(0);
    let threads = std::fs::read_dir("/proc/self/task")
        .map(|d| d.count())
        .unwrap_or(0);
    let rss_kb = std::fs::read_to_string("/proc/self/status")
        .ok()
        .and_then(|s| {
            s.lines().find(|l| l.starts_with("VmRSS:")).and_then(|l| {
                l.split_whitespace()
                    .nth(1)
                    .and_then(|x| x.parse::<u64>().ok())
            })
        })
        .unwrap_or(0);
    json!({"r": "ok", "fds": fds, "threads": threads, "rss_kb": rss_kb})
}

impl Suite for Dispatch {
    fn run(&mut self, case: &Value) -> Value {
        match case["k"].as_str() {
            Some("samples") => return json!({"r": "ok", "samples": smutil::samples()}),
            Some("stats") => return proc_stats(),
            _ => {}
        }
        let kind = case["k"].as_str().unwrap_or("").to_string();
        match catch_unwind(AssertUnwindSafe(|| match kind.as_str() {
            "route" => self.run_route(case),
            "route_samples" => self.run_route_samples(),
            "tmp_snapshot" => self.run_tmp_snapshot(case),
            "install" => self.run_install(case),
            _ => self.run_case(case),
        })) {
            Ok(Ok(v)) => v,
            Ok(Err(e)) => json!({"r": "error", "msg": e.to_string()}),
            Err(p) => {
                let msg = p
                    .downcast_ref::<String>()
                    .cloned()
                    .or_else(|| p.downcast_ref::<&str>().map(|s| s.to_string()))
                    .unwrap_or_else(|| "?".to_string());
                json!({"r": "panic", "msg": msg})
            }
        }
    }
}
