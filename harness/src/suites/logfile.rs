//! Raft log file: drives the REAL `LogInnerManager` on one temp file.
//! case: {"start":S,"pre_term":T,"split":P?,"limit":L?,"ops":[...]}  (see `run_op` for the ops)
use super::{block_on, json_bytes, Suite};
use rnacos::raft::filestore::model::LogRecordDto;
use rnacos::raft::filestore::raftlog::{LogInnerManager, LogWriteMark};
use serde_json::{json, Value};
use std::panic::{catch_unwind, AssertUnwindSafe};
use std::sync::atomic::Ordering;
use std::sync::Mutex;

pub struct LogFile {}

impl LogFile {
    pub fn new() -> Self {
        LogFile {}
    }
}

/// identical to runner/checks/c20.py lcg_bytes(n, x)
pub fn lcg_bytes(n: u64, mut x: u64) -> Vec<u8> {
    let mut out = Vec::with_capacity(n as usize);
    for _ in 0..n {
        x = (x.wrapping_mul(1103515245).wrapping_add(12345)) % 2147483648;
        out.push(((x / 65536) % 256) as u8);
    }
    out
}

pub fn msum(m: &[u8]) -> u64 {
    let mut a: u64 = 7;
    for b in m {
        a = (a * 31 + *b as u64) % 4294967296;
    }
    a
}

pub fn digest(m: &[u8]) -> Value {
    json!([m.len() as u64, msum(m)])
}

fn u(v: &Value) -> u64 {
    v.as_u64().unwrap_or(0)
}

fn dto_of(op: &Value) -> LogRecordDto {
    LogRecordDto {
        index: u(&op[1]),
        term: u(&op[2]),
        value: lcg_bytes(u(&op[3]), u(&op[4])),
    }
}

pub fn set_limit(case: &Value) {
    let l = case.get("limit").and_then(|v| v.as_u64()).unwrap_or(0) as u16;
    rnacos::verif_hooks::LOG_DATA_AREA_INDEX.store(l, Ordering::SeqCst);
}

struct St {
    path: String,
    start: u64,
    pre_term: u64,
    split: u64,
    mgr: Option<LogInnerManager>,
}

async fn run_op(st: &mut St, op: &Value) -> Value {
    let k = op[0].as_str().unwrap_or("");
    // ops that do not need an open manager
    if k == "enc" {
        let dto = dto_of(op);
        let mut buf = Vec::new();
        let mut w = quick_protobuf::Writer::new(&mut buf);
        return match w.write_message(&dto.to_record_do()) {
            Ok(_) => json!({"enc": json_bytes(&buf)}),
            Err(_) => json!({"enc":"err"}),
        };
    }
    if st.mgr.is_none() {
        return json!({"x":"closed"});
    }
    match k {
        "w" => {
            let dto = dto_of(op);
            let r = st.mgr.as_mut().unwrap().write(&dto).await;
            let s = match r {
                Ok(LogWriteMark::Success) => "ok",
                Ok(LogWriteMark::SuccessToEnd) => "end",
                Ok(LogWriteMark::Failure) => "full",
                Ok(LogWriteMark::IndexEqualError) => "idx",
                Ok(LogWriteMark::Error) => "error",
                Err(_) => "err",
            };
            json!({"w": s})
        }
        "s" => match st.mgr.as_mut().unwrap().strip_log_to(u(&op[1])).await {
            Ok(_) => json!({"s":"ok"}),
            Err(_) => json!({"s":"err"}),
        },
        "r" => match st
            .mgr
            .as_mut()
            .unwrap()
            .read_records(u(&op[1]), u(&op[2]))
            .await
        {
            Ok(l) => {
                let v: Vec<Value> = l
                    .iter()
                    .map(|d| json!([d.index, d.term, d.value.len() as u64, msum(&d.value)]))
                    .collect();
                json!({"r": v})
            }
            Err(_) => json!({"r":"err"}),
        },
        "o" => {
            if op.as_array().map(|a| a.len()).unwrap_or(0) >= 4 {
                st.start = u(&op[1]);
                st.pre_term = u(&op[2]);
                st.split = u(&op[3]);
            }
            let mut m = st.mgr.take().unwrap();
            let _ = m.verif_sync().await;
            drop(m);
            match LogInnerManager::init(st.path.clone(), st.start, st.pre_term, st.split).await {
                Ok(m) => {
                    st.mgr = Some(m);
                    json!({"o":"ok"})
                }
                Err(_) => json!({"o":"err"}),
            }
        }
        "i" => {
            let m = st.mgr.as_ref().unwrap();
            let li = m.get_last_index_info();
            json!({"i":[m.get_end_index(), li.index, li.term, m.get_last_term()]})
        }
        "diag" => {
            let d = st.mgr.as_ref().unwrap().verif_diag();
            let idx: Vec<Value> = d.indexs.iter().map(|(a, b)| json!([a, b])).collect();
            json!({"diag":{"indexs":idx,"index_cursor":d.index_cursor,"data_cursor":d.data_cursor,
                "msg_count":d.msg_count,"file_len":d.file_len,"cur_cnt":d.cur_cnt,"split_off":d.split_off,
                "data_area_index":d.data_area_index}})
        }
        "raw" => {
            let _ = st.mgr.as_mut().unwrap().verif_sync().await;
            let off = u(&op[1]) as usize;
            let n = u(&op[2]) as usize;
            match std::fs::read(&st.path) {
                Ok(all) => {
                    let a = std::cmp::min(off, all.len());
                    let b = std::cmp::min(off + n, all.len());
                    json!({"raw": json_bytes(&all[a..b])})
                }
                Err(_) => json!({"raw":"err"}),
            }
        }
        _ => json!("?"),
    }
}

impl Suite for LogFile {
    fn run(&mut self, case: &Value) -> Value {
        set_limit(case);
        let dir = match tempfile::tempdir() {
            Ok(d) => d,
            Err(_) => return json!({"r":"tmperr"}),
        };
        // "path": run on an existing / caller-owned file (crash images of C04); it is left in place
        let path = match case.get("path").and_then(|p| p.as_str()) {
            Some(p) => p.to_owned(),
            None => dir.path().join("log_x").to_string_lossy().into_owned(),
        };
        let out: Mutex<Vec<Value>> = Mutex::new(vec![]);
        let ops: Vec<Value> = case["ops"].as_array().cloned().unwrap_or_default();
        let r = catch_unwind(AssertUnwindSafe(|| {
            block_on(async {
                let mut st = St {
                    path,
                    start: u(&case["start"]),
                    pre_term: u(&case["pre_term"]),
                    split: u(&case["split"]),
                    mgr: None,
                };
                match LogInnerManager::init(st.path.clone(), st.start, st.pre_term, st.split).await
                {
                    Ok(m) => st.mgr = Some(m),
                    Err(_) => {}
                }
                for op in &ops {
                    let v = run_op(&mut st, op).await;
                    out.lock().unwrap().push(v);
                }
                if let Some(mut m) = st.mgr.take() {
                    let _ = m.verif_sync().await;
                }
            })
        }));
        let outv = match out.into_inner() {
            Ok(v) => v,
            Err(p) => p.into_inner(),
        };
        rnacos::verif_hooks::LOG_DATA_AREA_INDEX.store(0, Ordering::SeqCst);
        drop(dir);
        match r {
            Ok(_) => json!({"r":"ok","out":outv}),
            Err(_) => json!({"r":"panic","out":outv}),
        }
    }
}
