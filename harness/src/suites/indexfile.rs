//! C05 / C04: the raft index file — the REAL `RaftIndexManager` actor (mode "actor") or the REAL
//! full `FileStore` chain (mode "store": index + log + snapshot managers) in a temp directory.
//!
//! case: {"mode":"actor"|"store"|"open", "ops":[op...], "dir": optional existing directory (open mode)}
//! ops:  ["hs",term,vote]                         SaveHardState / FileStore::save_hard_state
//!       ["member",[ids], null|[ids], null|[[id,"addr"],..]]   SaveMember
//!       ["addr",id,"addr"]                       AddNodeAddr
//!       ["logs",[[id,pre_term,start,count,split,close,remove],..]]   SaveLogs      (actor mode)
//!       ["snaps",[[id,end],..]]                  SaveSnapshots                     (actor mode)
//!       ["applied",n]                            SaveLastAppliedLog
//!       ["append",n,term]                        n blank log entries               (store mode)
//!       ["pointer",snapshot_id]                  InstallSnapshotPointerLog at the last index (store mode)
//!       ["snap",end_index]                       CompleteSnapshot(next id,end)     (store mode)
//!       ["read"]                                 observation
//!       ["reopen"]                               quiesce, drop the whole actor system, start again, observation
//! result: {"r":"ok","obs":[observation...]}  (one per read/reopen, plus a final one)
//! observation: {term,vote,member,mac,addrs:[[id,addr]..] sorted,logs,snaps,applied,file:[bytes]}
//! A mark is written (one `write` call to <dir>/ack_mark) after every acknowledged op when
//! "marks":true, so that a syscall journal shows where acknowledgements fall between file mutations.
use super::Suite;
use actix::prelude::*;
use async_raft_ext::raft::{Entry, EntryPayload, MembershipConfig};
use async_raft_ext::storage::HardState;
use async_raft_ext::RaftStorage;
use rnacos::raft::filestore::core::FileStore;
use rnacos::raft::filestore::log::{LogRange, SnapshotRange};
use rnacos::raft::filestore::raftapply::StateApplyManager;
use rnacos::raft::filestore::raftindex::{RaftIndexManager, RaftIndexRequest, RaftIndexResponse};
use rnacos::raft::filestore::raftlog::{RaftLogManager, RaftLogManagerRequest};
use rnacos::raft::filestore::raftsnapshot::{RaftSnapshotManager, RaftSnapshotRequest};
use rnacos::raft::filestore::StoreUtils;
use rnacos::raft::store::ClientRequest;
use serde_json::{json, Value};
use std::collections::HashMap;
use std::io::Write;
use std::panic::{catch_unwind, AssertUnwindSafe};
use std::sync::Arc;

pub struct IndexFile {}

impl IndexFile {
    pub fn new() -> Self {
        IndexFile {}
    }
}

fn u64s(v: &Value) -> Vec<u64> {
    v.as_array()
        .map(|a| a.iter().map(|x| x.as_u64().unwrap()).collect())
        .unwrap_or_default()
}

fn log_ranges(v: &Value) -> Vec<LogRange> {
    v.as_array()
        .unwrap()
        .iter()
        .map(|l| LogRange {
            id: l[0].as_u64().unwrap(),
            pre_term: l[1].as_u64().unwrap(),
            start_index: l[2].as_u64().unwrap(),
            record_count: l[3].as_u64().unwrap(),
            split_off_index: l[4].as_u64().unwrap(),
            is_close: l[5].as_bool().unwrap(),
            mark_remove: l[6].as_bool().unwrap(),
        })
        .collect()
}

fn snap_ranges(v: &Value) -> Vec<SnapshotRange> {
    v.as_array()
        .unwrap()
        .iter()
        .map(|l| SnapshotRange {
            id: l[0].as_u64().unwrap(),
            end_index: l[1].as_u64().unwrap(),
        })
        .collect()
}

fn addr_map(v: &Value) -> HashMap<u64, Arc<String>> {
    let mut m = HashMap::new();
    for it in v.as_array().unwrap() {
        m.insert(
            it[0].as_u64().unwrap(),
            Arc::new(it[1].as_str().unwrap().to_owned()),
        );
    }
    m
}

struct Session {
    index: Addr<RaftIndexManager>,
    store: Option<FileStore>,
    log: Option<Addr<RaftLogManager>>,
    snap: Option<Addr<RaftSnapshotManager>>,
    next_snapshot_id: u64,
}

fn start_session(dir: &str, store_mode: bool) -> Session {
    let base = Arc::new(dir.to_owned());
    let index = RaftIndexManager::new(base.clone()).start();
    if store_mode {
        let log = RaftLogManager::new(base.clone(), Some(index.clone())).start();
        let snap = RaftSnapshotManager::new(base.clone(), Some(index.clone())).start();
        let apply = StateApplyManager::new().start();
        let store = FileStore::new(1, index.clone(), snap.clone(), log.clone(), apply);
        Session {
            index,
            store: Some(store),
            log: Some(log),
            snap: Some(snap),
            next_snapshot_id: 0,
        }
    } else {
        Session {
            index,
            store: None,
            log: None,
            snap: None,
            next_snapshot_id: 0,
        }
    }
}

fn read_file(dir: &str) -> Value {
    let p = std::path::Path::new(dir).join("index");
    match std::fs::read(p) {
        Ok(b) => Value::Array(b.iter().map(|x| Value::from(*x as u64)).collect()),
        Err(_) => Value::Null,
    }
}

async fn observe(s: &Session, dir: &str, ids: &[u64]) -> Value {
    // the actor-level reads (what every FileStore read is built from)
    let info = s.index.send(RaftIndexRequest::LoadIndexInfo).await;
    let (mut term, mut vote, mut applied) = (Value::Null, Value::Null, Value::Null);
    let (mut member, mut mac, mut addrs, mut logs, mut snaps) =
        (Value::Null, Value::Null, Value::Null, Value::Null, Value::Null);
    let mut err = Value::Null;
    match info {
        Ok(Ok(RaftIndexResponse::RaftIndexInfo {
            raft_index,
            last_applied_log,
        })) => {
            term = json!(raft_index.current_term);
            vote = json!(raft_index.voted_for);
            applied = json!(last_applied_log);
            member = json!(raft_index.member);
            mac = json!(raft_index.member_after_consensus);
            let mut a: Vec<(u64, String)> = raft_index
                .node_addrs
                .iter()
                .map(|(k, v)| (*k, v.as_ref().clone()))
                .collect();
            a.sort();
            addrs = json!(a);
            logs = Value::Array(
                raft_index
                    .logs
                    .iter()
                    .map(|l| {
                        json!([
                            l.id,
                            l.pre_term,
                            l.start_index,
                            l.record_count,
                            l.split_off_index,
                            l.is_close,
                            l.mark_remove
                        ])
                    })
                    .collect(),
            );
            snaps = Value::Array(
                raft_index
                    .snapshots
                    .iter()
                    .map(|l| json!([l.id, l.end_index]))
                    .collect(),
            );
        }
        Ok(Ok(_)) => err = json!("unexpected response"),
        Ok(Err(e)) => err = json!(format!("err:{}", e)),
        Err(e) => err = json!(format!("mailbox:{}", e)),
    }
    let mut o = json!({"term":term,"vote":vote,"applied":applied,"member":member,"mac":mac,
        "addrs":addrs,"logs":logs,"snaps":snaps,"err":err,"file":read_file(dir)});
    // LoadMember / GetTargetAddr (actor) — the other two read paths
    if let Ok(Ok(RaftIndexResponse::MemberShip {
        member,
        member_after_consensus,
        node_addrs,
    })) = s.index.send(RaftIndexRequest::LoadMember).await
    {
        let mut a: Vec<(u64, String)> = node_addrs
            .iter()
            .map(|(k, v)| (*k, v.as_ref().clone()))
            .collect();
        a.sort();
        o["lm"] = json!({"member":member,"mac":member_after_consensus,"addrs":a});
    }
    let mut ta = vec![];
    for id in ids {
        match s.index.send(RaftIndexRequest::GetTargetAddr(*id)).await {
            Ok(Ok(RaftIndexResponse::TargetAddr(Some(a)))) => ta.push(json!([id, a.as_ref()])),
            Ok(Ok(RaftIndexResponse::TargetAddr(None))) => ta.push(json!([id, Value::Null])),
            _ => ta.push(json!([id, "?"])),
        }
    }
    o["target"] = Value::Array(ta);
    // FileStore-level reads
    if let Some(store) = &s.store {
        match store.get_initial_state().await {
            Ok(st) => {
                let mut m: Vec<u64> = st.membership.members.iter().cloned().collect();
                m.sort();
                let mut m2: Vec<u64> = st
                    .membership
                    .members_after_consensus
                    .clone()
                    .unwrap_or_default()
                    .into_iter()
                    .collect();
                m2.sort();
                o["is"] = json!({"term":st.hard_state.current_term,"vote":st.hard_state.voted_for,
                    "applied":st.last_applied_log,"last_log_index":st.last_log_index,
                    "last_log_term":st.last_log_term,"members":m,"mac":m2});
            }
            Err(e) => o["is"] = json!({"err":format!("{}",e)}),
        }
        // the log as the store exposes it: (index, term) of every readable entry
        let last = store.get_last_log_index().await.map(|l| l.index).unwrap_or(0);
        match store.get_log_entries(0, last + 1).await {
            Ok(es) => {
                o["log"] = Value::Array(es.iter().map(|e| json!([e.index, e.term])).collect())
            }
            Err(e) => o["log"] = json!({"err":format!("{}",e)}),
        }
        match store.get_membership_config().await {
            Ok(mc) => {
                let mut m: Vec<u64> = mc.members.iter().cloned().collect();
                m.sort();
                let mut m2: Vec<u64> = mc
                    .members_after_consensus
                    .clone()
                    .unwrap_or_default()
                    .into_iter()
                    .collect();
                m2.sort();
                o["mc"] = json!({"members":m,"mac":m2});
            }
            Err(e) => o["mc"] = json!({"err":format!("{}",e)}),
        }
        let mut sta = vec![];
        for id in ids {
            match store.get_target_addr(*id).await {
                Ok(a) => sta.push(json!([id, a.as_ref()])),
                Err(_) => sta.push(json!([id, Value::Null])),
            }
        }
        o["store_target"] = Value::Array(sta);
    }
    o
}

fn mark(dir: &str, marks: bool, n: usize) {
    if marks {
        if let Ok(mut f) = std::fs::OpenOptions::new()
            .create(true)
            .append(true)
            .open(std::path::Path::new(dir).join("ack_mark"))
        {
            let _ = f.write_all(format!("{}\n", n).as_bytes());
        }
    }
}

/// run ops[from..] until the next reopen (or the end); returns the index after the consumed ops
fn run_session(
    dir: &str,
    store_mode: bool,
    marks: bool,
    ops: &[Value],
    from: usize,
    ids: &mut Vec<u64>,
    obs: &mut Vec<Value>,
    first: bool,
) -> usize {
    let sys = actix_rt::System::new();
    let mut next = from;
    sys.block_on(async {
        let mut s = start_session(dir, store_mode);
        if !first {
            obs.push(observe(&s, dir, ids).await);
        }
        while next < ops.len() {
            let op = &ops[next];
            next += 1;
            let k = op[0].as_str().unwrap_or("");
            match k {
                "hs" => {
                    let (t, v) = (op[1].as_u64().unwrap(), op[2].as_u64().unwrap());
                    if let Some(store) = &s.store {
                        let hs = HardState {
                            current_term: t,
                            voted_for: if v > 0 { Some(v) } else { None },
                        };
                        let _ = store.save_hard_state(&hs).await;
                    } else {
                        let _ = s
                            .index
                            .send(RaftIndexRequest::SaveHardState {
                                current_term: t,
                                voted_for: v,
                            })
                            .await;
                    }
                    mark(dir, marks, next);
                }
                "member" => {
                    let member = u64s(&op[1]);
                    let mac = if op[2].is_null() { None } else { Some(u64s(&op[2])) };
                    let na = if op[3].is_null() { None } else { Some(addr_map(&op[3])) };
                    if let Some(m) = &na {
                        for id in m.keys() {
                            if !ids.contains(id) {
                                ids.push(*id);
                            }
                        }
                    }
                    let _ = s
                        .index
                        .send(RaftIndexRequest::SaveMember {
                            member,
                            member_after_consensus: mac,
                            node_addr: na,
                        })
                        .await;
                    mark(dir, marks, next);
                }
                "addr" => {
                    let id = op[1].as_u64().unwrap();
                    if !ids.contains(&id) {
                        ids.push(id);
                    }
                    let _ = s
                        .index
                        .send(RaftIndexRequest::AddNodeAddr(
                            id,
                            Arc::new(op[2].as_str().unwrap().to_owned()),
                        ))
                        .await;
                    mark(dir, marks, next);
                }
                "logs" => {
                    let _ = s.index.send(RaftIndexRequest::SaveLogs(log_ranges(&op[1]))).await;
                    mark(dir, marks, next);
                }
                "snaps" => {
                    let _ = s
                        .index
                        .send(RaftIndexRequest::SaveSnapshots(snap_ranges(&op[1])))
                        .await;
                    mark(dir, marks, next);
                }
                "applied" => {
                    let _ = s
                        .index
                        .send(RaftIndexRequest::SaveLastAppliedLog(op[1].as_u64().unwrap()))
                        .await;
                    mark(dir, marks, next);
                }
                "append" => {
                    if let Some(store) = &s.store {
                        let n = op[1].as_u64().unwrap();
                        let term = op[2].as_u64().unwrap();
                        let last = store.get_last_log_index().await.unwrap_or_default();
                        let start = last.index + 1;
                        for i in 0..n {
                            let e: Entry<ClientRequest> = Entry {
                                term,
                                index: start + i,
                                payload: EntryPayload::Blank,
                            };
                            let _ = store.append_entry_to_log(&e).await;
                        }
                    }
                    mark(dir, marks, next);
                }
                "pointer" => {
                    if let (Some(store), Some(log)) = (&s.store, &s.log) {
                        let last = store.get_last_log_index().await.unwrap_or_default();
                        let mc = store
                            .get_membership_config()
                            .await
                            .unwrap_or_else(|_| MembershipConfig::new_initial(1));
                        let e: Entry<ClientRequest> = Entry::new_snapshot_pointer(
                            last.index,
                            last.term,
                            op[1].as_u64().unwrap().to_string(),
                            mc,
                        );
                        if let Ok(record) = StoreUtils::entry_to_record(&e) {
                            let _ = log
                                .send(RaftLogManagerRequest::InstallSnapshotPointerLog(record))
                                .await;
                        }
                    }
                    mark(dir, marks, next);
                }
                "snap" => {
                    if let Some(snap) = &s.snap {
                        s.next_snapshot_id += 1;
                        let _ = snap
                            .send(RaftSnapshotRequest::CompleteSnapshot(SnapshotRange {
                                id: op[2].as_u64().unwrap_or(s.next_snapshot_id),
                                end_index: op[1].as_u64().unwrap(),
                            }))
                            .await;
                    }
                    mark(dir, marks, next);
                }
                "read" => obs.push(observe(&s, dir, ids).await),
                "reopen" => {
                    // quiesce: a read round-trip through every mailbox, so that every acknowledged
                    // save has been carried out before the system is dropped
                    let _ = observe(&s, dir, ids).await;
                    if let Some(log) = &s.log {
                        let _ = log
                            .send(rnacos::raft::filestore::raftlog::RaftLogManagerAsyncRequest::GetLastLogIndex)
                            .await;
                    }
                    let _ = observe(&s, dir, ids).await;
                    return;
                }
                _ => {}
            }
        }
        obs.push(observe(&s, dir, ids).await);
    });
    drop(sys);
    next
}

/// mode "snapmgr": the real RaftSnapshotManager (+ index manager) in a temp directory.
/// ops: ["own", last_index, [members]]      NewSnapshot(header) -> writer actor -> Flush -> CompleteSnapshot (a compaction)
///      ["install", last_index, [members]]  NewSnapshotForLoad -> a real snapshot file with that header -> InstallSnapshot
///      ["reopen"]                          a new manager over the same directory
/// after every op: what GetLastSnapshot answers - the header that `get_current_snapshot` would stream to a lagging node
fn run_snapmgr(dir: &str, ops: &[Value]) -> Vec<Value> {
    use rnacos::raft::filestore::log::SnapshotRange;
    use rnacos::raft::filestore::model::SnapshotHeaderDto;
    use rnacos::raft::filestore::raftsnapshot::{
        RaftSnapshotManager, RaftSnapshotRequest, RaftSnapshotResponse, SnapshotWriter, SnapshotWriterRequest,
    };
    let dir = dir.to_owned();
    let ops = ops.to_vec();
    let sys = actix_rt::System::new();
    sys.block_on(async move {
        let base = Arc::new(dir.clone());
        let index = RaftIndexManager::new(base.clone()).start();
        let snap = RaftSnapshotManager::new(base.clone(), Some(index.clone())).start();
        tokio::time::sleep(std::time::Duration::from_millis(50)).await;
        let mut out = vec![];
        let hdr = |op: &Value| SnapshotHeaderDto {
            last_index: op[1].as_u64().unwrap_or(0),
            last_term: 1 + op[1].as_u64().unwrap_or(0) % 3,
            member: u64s(&op[2]),
            member_after_consensus: vec![],
            node_addrs: Default::default(),
        };
        for op in &ops {
            match op[0].as_str().unwrap_or("") {
                "own" => {
                    let h = hdr(op);
                    if let Ok(Ok(RaftSnapshotResponse::NewSnapshot(w, id, _path))) = snap.send(RaftSnapshotRequest::NewSnapshot(h.clone())).await {
                        w.send(SnapshotWriterRequest::Flush).await.ok();
                        snap.send(RaftSnapshotRequest::CompleteSnapshot(SnapshotRange { id, end_index: h.last_index })).await.ok();
                    }
                }
                "install" => {
                    let h = hdr(op);
                    if let Ok(Ok(RaftSnapshotResponse::NewSnapshotForLoad(path, id))) = snap.send(RaftSnapshotRequest::NewSnapshotForLoad).await {
                        if let Ok(mut w) = SnapshotWriter::init(&path, h.clone()).await {
                            w.flush().await.ok();
                        }
                        snap.send(RaftSnapshotRequest::InstallSnapshot { end_index: h.last_index, snapshot_id: id }).await.ok();
                    }
                }
                // "reopen" starts a new segment (handled by the caller: the actors of a segment die with its System)
                _ => {}
            }
            tokio::time::sleep(std::time::Duration::from_millis(30)).await;
            let cur = match snap.send(RaftSnapshotRequest::GetLastSnapshot).await {
                Ok(Ok(RaftSnapshotResponse::LastSnapshot(p, h))) => json!({
                    "file": p.map(|x| x.rsplit('/').next().unwrap_or("").to_owned()),
                    "header": h.map(|h| json!({"last_index": h.last_index, "last_term": h.last_term, "member": h.member})),
                }),
                _ => json!("err"),
            };
            out.push(cur);
        }
        out
    })
}

impl Suite for IndexFile {
    fn run(&mut self, case: &Value) -> Value {
        let mode = case["mode"].as_str().unwrap_or("actor").to_owned();
        if mode == "snapmgr" {
            let base = std::env::var("RNVERIF_TMP").unwrap_or_else(|_| ".".to_owned());
            let tmp = tempfile::Builder::new().prefix("sm").tempdir_in(base).unwrap();
            let d = tmp.path().to_string_lossy().into_owned();
            let ops: Vec<Value> = case["ops"].as_array().cloned().unwrap_or_default();
            return match catch_unwind(AssertUnwindSafe(|| {
                // one actix System per segment between "reopen"s: dropping it releases the directory lock
                let mut obs = vec![];
                let mut seg: Vec<Value> = vec![];
                for op in ops.iter().chain(std::iter::once(&json!(["reopen"]))) {
                    seg.push(op.clone());
                    if op[0].as_str() == Some("reopen") {
                        obs.extend(run_snapmgr(&d, &seg));
                        seg.clear();
                    }
                }
                obs.pop();      // the sentinel
                obs
            })) {
                Ok(o) => json!({"r":"ok","obs":o}),
                Err(_) => json!({"r":"panic"}),
            };
        }
        let store_mode = mode == "store" || case["store"].as_bool().unwrap_or(false);
        let marks = case["marks"].as_bool().unwrap_or(false);
        let ops: Vec<Value> = case["ops"].as_array().cloned().unwrap_or_default();
        let tmp;
        let dir: String = match case.get("dir").and_then(|d| d.as_str()) {
            Some(d) => d.to_owned(),
            None => {
                let base = std::env::var("RNVERIF_TMP").unwrap_or_else(|_| ".".to_owned());
                tmp = tempfile::Builder::new().prefix("ix").tempdir_in(base).unwrap();
                tmp.path().to_string_lossy().into_owned()
            }
        };
        let mut ids: Vec<u64> = u64s(&case["ids"]);
        let r = catch_unwind(AssertUnwindSafe(|| {
            let mut obs = vec![];
            let mut at = 0usize;
            let mut first = !case["observe_first"].as_bool().unwrap_or(false);
            loop {
                let before = at;
                at = run_session(&dir, store_mode, marks, &ops, at, &mut ids, &mut obs, first);
                first = false;
                let reopened = at > before && ops[at - 1][0].as_str() == Some("reopen");
                if !reopened {
                    break;
                }
            }
            obs
        }));
        match r {
            Ok(obs) => json!({"r":"ok","obs":obs}),
            Err(_) => json!({"r":"panic"}),
        }
    }
}
