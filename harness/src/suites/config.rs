//! C09 / C10 / C19(history ids): one or several REAL started `ConfigActor`s driven by the real
//! messages (ConfigRaftCmd, ConfigCmd incl. LISTENER with oneshot receivers, Subscribe, ...),
//! read-only hook dumps (`rnacos::config::core::verif`), snapshot build through a real
//! SnapshotWriterActor / SnapshotReader.
//!
//! case: {"ops":[op,...]}    result: {"r":"ok","out":[{"r":..,"ans":[[lid,null|[keys]],..]},..]}
//! Every case runs in a fresh actix System (the actors and their 500 ms `hb` timers die with it).
//! The `hb` timer first fires 500 ms after an actor starts: a case that took longer than 350 ms
//! is re-run (at most 3 times) so that no un-scripted timeout tick can interfere.
use super::Suite;
use actix::prelude::*;
use rnacos::common::constant::{CONFIG_TREE_NAME, SEQUENCE_TREE_NAME, SEQ_KEY_CONFIG};
use rnacos::config::config_index::ConfigQueryParam;
use rnacos::config::core::verif::{VerifConfigCmd, VerifConfigResult};
use rnacos::config::core::{
    ConfigActor, ConfigAsyncCmd, ConfigCmd, ConfigKey, ConfigResult, ListenerItem, ListenerResult,
};
use rnacos::config::dal::ConfigHistoryParam;
use rnacos::config::model::{ConfigHistoryItemDO, ConfigRaftCmd, ConfigValueDO};
use rnacos::config::utils::param_utils;
use rnacos::grpc::bistream_conn::BiStreamConn;
use rnacos::grpc::bistream_manage::{BiStreamManage, BiStreamManageCmd};
use rnacos::grpc::nacos_proto::Payload;
use rnacos::raft::filestore::model::SnapshotHeaderDto;
use rnacos::raft::filestore::raftsnapshot::{
    SnapshotReader, SnapshotWriterActor, SnapshotWriterRequest,
};
use serde_json::{json, Value};
use std::collections::HashMap;
use std::panic::{catch_unwind, AssertUnwindSafe};
use std::sync::Arc;
use std::time::Instant;

pub struct Config {}

impl Config {
    pub fn new() -> Self {
        Config {}
    }
}

fn s(v: &Value) -> String {
    v.as_str().unwrap_or("").to_owned()
}

fn opt_arc(v: &Value) -> Option<Arc<String>> {
    v.as_str().map(|x| Arc::new(x.to_owned()))
}

fn opt_string(v: &Value) -> Option<String> {
    v.as_str().map(|x| x.to_owned())
}

fn key_of(v: &Value) -> ConfigKey {
    ConfigKey::new(
        v[0].as_str().unwrap_or(""),
        v[1].as_str().unwrap_or(""),
        v[2].as_str().unwrap_or(""),
    )
}

pub fn key_json(k: &ConfigKey) -> Value {
    let (d, g, t) = k.verif_parts();
    json!([d.as_str(), g.as_str(), t.as_str()])
}

fn now_ms() -> i64 {
    std::time::SystemTime::now()
        .duration_since(std::time::UNIX_EPOCH)
        .unwrap()
        .as_millis() as i64
}

fn fnv64(b: &[u8]) -> u64 {
    let mut h: u64 = 0xcbf29ce484222325;
    for x in b {
        h ^= *x as u64;
        h = h.wrapping_mul(0x100000001b3);
    }
    h
}

/// contents above 200 bytes are returned as (length, fnv-1a 64) so that outputs stay small
pub fn content_json(c: &str) -> Value {
    if c.len() <= 200 {
        json!({ "c": c })
    } else {
        json!({"n": c.len(), "h": fnv64(c.as_bytes()).to_string()})
    }
}

fn items_of(v: &Value) -> Vec<ListenerItem> {
    v.as_array()
        .map(|a| {
            a.iter()
                .map(|it| ListenerItem::new(key_of(&it[0]), Arc::new(s(&it[1]))))
                .collect()
        })
        .unwrap_or_default()
}

fn sorted_keys(keys: &[ConfigKey]) -> Vec<Value> {
    let mut l: Vec<(String, String, String)> = keys
        .iter()
        .map(|k| {
            let (d, g, t) = k.verif_parts();
            (t.to_string(), g.to_string(), d.to_string())
        })
        .collect();
    l.sort();
    l.into_iter().map(|(t, g, d)| json!([d, g, t])).collect()
}

struct Node {
    addr: Addr<ConfigActor>,
}

/// a gRPC client connection whose outgoing stream ends in a channel the harness reads
struct Conn {
    client: String,
    rx: tokio::sync::mpsc::Receiver<Result<Payload, tonic::Status>>,
    _body_tx: hyper::body::Sender,
}

struct Run {
    nodes: Vec<Node>,
    cur: usize,
    receivers: Vec<(u64, tokio::sync::oneshot::Receiver<ListenerResult>)>,
    dirs: Vec<tempfile::TempDir>,
    snapshots: HashMap<u64, Vec<(String, Vec<u8>, Vec<u8>)>>,
    // the Raft premise for multi-node history-id cases: allocations of the leader, the committed
    // log, the applied index of every node and of every snapshot
    manage: Option<Addr<BiStreamManage>>,
    conns: Vec<Conn>,
    last_alloc: Option<(u64, Option<u64>)>,
    log: Vec<(u64, Option<u64>)>,
    applied: Vec<usize>,
    snap_applied: HashMap<u64, usize>,
}

impl Run {
    fn new() -> Self {
        Run {
            nodes: vec![Node {
                addr: ConfigActor::new().start(),
            }],
            cur: 0,
            receivers: vec![],
            dirs: vec![],
            snapshots: HashMap::new(),
            manage: None,
            conns: vec![],
            last_alloc: None,
            log: vec![],
            applied: vec![0],
            snap_applied: HashMap::new(),
        }
    }

    fn addr(&self) -> Addr<ConfigActor> {
        self.nodes[self.cur].addr.clone()
    }

    /// ConfigChangeNotifyRequest payloads that reached the clients' streams: [[client, [d,g,t]],..]
    async fn poll_notifications(&mut self) -> Vec<Value> {
        if self.conns.is_empty() {
            return vec![];
        }
        // ConfigActor -> BiStreamManage -> BiStreamConn -> spawned send: a few scheduler turns
        for _ in 0..24 {
            tokio::task::yield_now().await;
        }
        let mut out = vec![];
        for c in self.conns.iter_mut() {
            while let Ok(Ok(p)) = c.rx.try_recv() {
                let ty = p.metadata.as_ref().map(|m| m.r#type.clone()).unwrap_or_default();
                if ty == "ConfigChangeNotifyRequest" {
                    let body: Value = serde_json::from_slice(&p.body.map(|b| b.value).unwrap_or_default())
                        .unwrap_or(Value::Null);
                    out.push(json!([c.client, [body["dataId"], body["group"], body["tenant"]]]));
                }
            }
        }
        out
    }

    fn poll_answers(&mut self) -> Vec<Value> {
        let mut ans = vec![];
        let mut keep = vec![];
        for (lid, mut rx) in self.receivers.drain(..) {
            match rx.try_recv() {
                Ok(ListenerResult::NULL) => ans.push(json!([lid, null])),
                Ok(ListenerResult::DATA(keys)) => {
                    // order of a DATA answer is the order of the request items: kept
                    let l: Vec<Value> = keys.iter().map(key_json).collect();
                    ans.push(json!([lid, l]))
                }
                Err(tokio::sync::oneshot::error::TryRecvError::Empty) => keep.push((lid, rx)),
                Err(tokio::sync::oneshot::error::TryRecvError::Closed) => {
                    ans.push(json!([lid, "dropped"]))
                }
            }
        }
        self.receivers = keep;
        ans
    }

    async fn op(&mut self, op: &Value) -> Value {
        let name = op[0].as_str().unwrap_or("");
        let addr = self.addr();
        match name {
            "node" => {
                let i = op[1].as_u64().unwrap_or(0) as usize;
                while self.nodes.len() <= i {
                    self.nodes.push(Node {
                        addr: ConfigActor::new().start(),
                    });
                    self.applied.push(0);
                }
                self.cur = i;
                json!("ok")
            }
            // a restarted node: a fresh actor in the place of node i
            "restart" => {
                let i = op[1].as_u64().unwrap_or(0) as usize;
                while self.nodes.len() <= i {
                    self.nodes.push(Node {
                        addr: ConfigActor::new().start(),
                    });
                }
                while self.applied.len() < self.nodes.len() {
                    self.applied.push(0);
                }
                self.nodes[i] = Node {
                    addr: ConfigActor::new().start(),
                };
                self.applied[i] = 0;
                json!("ok")
            }
            "add" => {
                let cmd = ConfigRaftCmd::ConfigAdd {
                    key: s(&op[1]),
                    value: Arc::new(s(&op[2])),
                    config_type: opt_arc(&op[3]),
                    desc: opt_arc(&op[4]),
                    history_id: op[5].as_u64().unwrap_or(0),
                    history_table_id: op[6].as_u64(),
                    op_time: op[7].as_i64().unwrap_or(0),
                    op_user: opt_arc(&op[8]),
                };
                match addr.send(cmd).await {
                    Ok(Ok(_)) => json!("ok"),
                    _ => json!("err"),
                }
            }
            "del" => match addr.send(ConfigRaftCmd::ConfigRemove { key: s(&op[1]) }).await {
                Ok(Ok(_)) => json!("ok"),
                _ => json!("err"),
            },
            // full-value import, as apply_log does for ClientRequest::ConfigFullValue:
            // ConfigValueDO bytes -> from_bytes -> into ConfigValue
            "full" => {
                let hist: Vec<ConfigHistoryItemDO> = op[3]
                    .as_array()
                    .map(|a| {
                        a.iter()
                            .map(|h| ConfigHistoryItemDO {
                                id: h[0].as_u64(),
                                content: opt_string(&h[1]),
                                last_time: h[2].as_i64(),
                                op_user: opt_string(&h[3]),
                            })
                            .collect()
                    })
                    .unwrap_or_default();
                let vdo = ConfigValueDO {
                    content: Some(s(&op[2])),
                    histories: hist,
                    config_type: opt_string(&op[4]),
                    desc: opt_string(&op[5]),
                };
                let bytes = vdo.to_bytes().unwrap();
                let back = ConfigValueDO::from_bytes(&bytes).unwrap();
                let cmd = ConfigRaftCmd::SetFullValue {
                    key: key_of(&op[1]),
                    value: back.into(),
                    last_id: op[6].as_u64(),
                };
                match addr.send(cmd).await {
                    Ok(Ok(_)) => json!("ok"),
                    _ => json!("err"),
                }
            }
            "tmp" => {
                match addr
                    .send(ConfigCmd::SetTmpValue(key_of(&op[1]), Arc::new(s(&op[2]))))
                    .await
                {
                    Ok(Ok(_)) => json!("ok"),
                    _ => json!("err"),
                }
            }
            "get" => match addr.send(ConfigCmd::GET(key_of(&op[1]))).await {
                Ok(Ok(ConfigResult::Data {
                    value,
                    md5,
                    config_type,
                    desc,
                    last_modified,
                })) => json!({
                    "content": content_json(value.as_str()),
                    "md5": md5.as_str(),
                    "type": config_type.as_ref().map(|x| x.as_str().to_owned()),
                    "desc": desc.as_ref().map(|x| x.as_str().to_owned()),
                    "lastmod": last_modified,
                }),
                Ok(Ok(_)) => Value::Null,
                _ => json!("err"),
            },
            "page" => {
                let p = &op[1];
                let param = ConfigQueryParam {
                    tenant: opt_arc(&p["tenant"]),
                    group: opt_arc(&p["group"]),
                    data_id: opt_arc(&p["data_id"]),
                    like_group: opt_string(&p["like_group"]),
                    like_data_id: opt_string(&p["like_data_id"]),
                    query_context: p["ctx"].as_bool().unwrap_or(false),
                    offset: p["offset"].as_u64().unwrap_or(0) as usize,
                    limit: p["limit"].as_u64().unwrap_or(0) as usize,
                    ..Default::default()
                };
                match addr.send(ConfigCmd::QueryPageInfo(Box::new(param))).await {
                    Ok(Ok(ConfigResult::ConfigInfoPage(size, list))) => {
                        let l: Vec<Value> = list
                            .iter()
                            .map(|i| {
                                json!({
                                    "key": [i.data_id.as_str(), i.group.as_str(), i.tenant.as_str()],
                                    "desc": i.desc.as_ref().map(|x| x.as_str().to_owned()),
                                    "content": i.content.as_ref().map(|x| content_json(x.as_str())),
                                    "md5": i.md5.as_ref().map(|x| x.as_str().to_owned()),
                                })
                            })
                            .collect();
                        json!({"size": size, "list": l})
                    }
                    _ => json!("err"),
                }
            }
            "hist" => {
                let k = &op[1];
                let param = ConfigHistoryParam {
                    data_id: opt_string(&k[0]),
                    group: opt_string(&k[1]),
                    tenant: opt_string(&k[2]),
                    offset: op[2].as_i64(),
                    limit: op[3].as_i64(),
                    ..Default::default()
                };
                match addr
                    .send(ConfigCmd::QueryHistoryPageInfo(Box::new(param)))
                    .await
                {
                    Ok(Ok(ConfigResult::ConfigHistoryInfoPage(size, list))) => {
                        let l: Vec<Value> = list
                            .iter()
                            .map(|h| {
                                json!({
                                    "id": h.id,
                                    "content": content_json(h.content.as_deref().unwrap_or("")),
                                    "time": h.modified_time,
                                    "user": h.op_user,
                                    "key": [h.data_id, h.group, h.tenant],
                                })
                            })
                            .collect();
                        json!({"size": size, "list": l})
                    }
                    _ => json!("err"),
                }
            }
            // ["listen", lid, items, {"abs":ms}|{"rel":ms}]
            "listen" => {
                let lid = op[1].as_u64().unwrap_or(0);
                let items = items_of(&op[2]);
                let time = if let Some(a) = op[3]["abs"].as_i64() {
                    a
                } else {
                    now_ms() + op[3]["rel"].as_i64().unwrap_or(0)
                };
                let (tx, rx) = tokio::sync::oneshot::channel();
                self.receivers.push((lid, rx));
                match addr.send(ConfigCmd::LISTENER(items, tx, time)).await {
                    Ok(Ok(_)) => json!("ok"),
                    _ => json!("err"),
                }
            }
            "tick" => match addr.send(VerifConfigCmd::ListenerTimeout).await {
                Ok(Ok(_)) => json!("ok"),
                _ => json!("err"),
            },
            "sub" => {
                let items = items_of(&op[2]);
                match addr
                    .send(ConfigCmd::Subscribe(items, Arc::new(s(&op[1]))))
                    .await
                {
                    Ok(Ok(ConfigResult::ChangeKey(keys))) => {
                        let l: Vec<Value> = keys.iter().map(key_json).collect();
                        json!({ "changed": l })
                    }
                    Ok(Ok(_)) => json!({"changed": []}),
                    _ => json!("err"),
                }
            }
            "unsub" => {
                let items: Vec<ListenerItem> = op[2]
                    .as_array()
                    .map(|a| {
                        a.iter()
                            .map(|k| ListenerItem::new(key_of(k), Arc::new(String::new())))
                            .collect()
                    })
                    .unwrap_or_default();
                match addr
                    .send(ConfigCmd::RemoveSubscribe(items, Arc::new(s(&op[1]))))
                    .await
                {
                    Ok(Ok(_)) => json!("ok"),
                    _ => json!("err"),
                }
            }
            "unsub_client" => {
                match addr
                    .send(ConfigCmd::RemoveSubscribeClient(Arc::new(s(&op[1]))))
                    .await
                {
                    Ok(Ok(_)) => json!("ok"),
                    _ => json!("err"),
                }
            }
            "dump_listener" => match addr.send(VerifConfigCmd::DumpListener).await {
                Ok(Ok(VerifConfigResult::Listener(d))) => {
                    let mut l: Vec<(Value, Vec<u64>)> = vec![];
                    let mut ks: Vec<(ConfigKey, Vec<u64>)> = d.listener;
                    ks.sort_by_key(|(k, _)| {
                        let (d, g, t) = k.verif_parts();
                        (t.to_string(), g.to_string(), d.to_string())
                    });
                    for (k, v) in ks {
                        l.push((key_json(&k), v));
                    }
                    let mut sv = d.sender_versions;
                    sv.sort();
                    json!({"version": d.version, "listener": l, "time": d.time_listener, "senders": sv})
                }
                _ => json!("err"),
            },
            "dump_sub" => match addr.send(VerifConfigCmd::DumpSubscriber).await {
                Ok(Ok(VerifConfigResult::Subscriber(a, b))) => {
                    let mut la: Vec<(Vec<Value>, Vec<String>)> = a
                        .iter()
                        .map(|(k, cs)| {
                            let mut c: Vec<String> = cs.iter().map(|x| x.to_string()).collect();
                            c.sort();
                            (sorted_keys(&[k.clone()]), c)
                        })
                        .collect();
                    la.sort_by_key(|(k, _)| {
                        let x = &k[0];
                        (s(&x[2]), s(&x[1]), s(&x[0]))
                    });
                    let la: Vec<Value> = la.into_iter().map(|(k, c)| json!([k[0], c])).collect();
                    let mut lb: Vec<(String, Vec<Value>)> = b
                        .iter()
                        .map(|(c, ks)| (c.to_string(), sorted_keys(ks)))
                        .collect();
                    lb.sort_by(|x, y| x.0.cmp(&y.0));
                    json!({"listener": la, "client_keys": lb})
                }
                _ => json!("err"),
            },
            "dump_seq" => match addr.send(VerifConfigCmd::DumpSequence).await {
                Ok(Ok(VerifConfigResult::Sequence(last, cache, batch, end))) => {
                    json!({"last": last, "cache": cache, "batch": batch, "end": end})
                }
                _ => json!("err"),
            },
            "dump_cache" => match addr.send(VerifConfigCmd::DumpCache).await {
                Ok(Ok(VerifConfigResult::Cache(items))) => {
                    let mut l: Vec<((String, String, String), Value)> = items
                        .iter()
                        .map(|i| {
                            let (d, g, t) = i.key.verif_parts();
                            (
                                (t.to_string(), g.to_string(), d.to_string()),
                                json!({"key": key_json(&i.key), "md5": i.md5.as_str(), "tmp": i.tmp, "hids": i.history_ids}),
                            )
                        })
                        .collect();
                    l.sort_by(|a, b| a.0.cmp(&b.0));
                    Value::Array(l.into_iter().map(|x| x.1).collect())
                }
                _ => json!("err"),
            },
            "dump_index" => match addr.send(VerifConfigCmd::DumpIndex).await {
                Ok(Ok(VerifConfigResult::Index(size, keys))) => {
                    let l: Vec<Value> = keys.iter().map(key_json).collect();
                    json!({"size": size, "keys": l})
                }
                _ => json!("err"),
            },
            // the leader-side id allocation of ConfigAsyncCmd::Add
            "next_state" => match addr.send(VerifConfigCmd::NextState).await {
                Ok(Ok(VerifConfigResult::NextState(Some((id, mark))))) => json!([id, mark]),
                Ok(Ok(VerifConfigResult::NextState(None))) => Value::Null,
                _ => json!("err"),
            },
            // the real ConfigAsyncCmd::Add handler without a raft instance (allocates an id, writes nothing)
            "async_add" => {
                let cmd = ConfigAsyncCmd::Add {
                    key: key_of(&op[1]),
                    value: Arc::new(s(&op[2])),
                    op_user: None,
                    config_type: None,
                    desc: None,
                };
                match addr.send(cmd).await {
                    Ok(Ok(_)) => json!("ok"),
                    _ => json!("err"),
                }
            }
            "set_last_id" => {
                match addr
                    .send(ConfigCmd::InnerSetLastId(op[1].as_u64().unwrap_or(0)))
                    .await
                {
                    Ok(Ok(_)) => json!("ok"),
                    _ => json!("err"),
                }
            }
            "section" => {
                match addr
                    .send(ConfigCmd::GetSequenceSection(op[1].as_u64().unwrap_or(0)))
                    .await
                {
                    Ok(Ok(ConfigResult::SequenceSection { start, end })) => json!([start, end]),
                    _ => json!("err"),
                }
            }
            // ["snapshot", sid]: BuildSnapshot through a real SnapshotWriterActor into a temp file,
            // read back with the real SnapshotReader; kept under sid for "load"
            "snapshot" => {
                let sid = op[1].as_u64().unwrap_or(0);
                let dir = tempfile::tempdir().unwrap();
                let path = Arc::new(dir.path().join("snap").to_string_lossy().to_string());
                let header = SnapshotHeaderDto {
                    last_index: 1,
                    last_term: 1,
                    member: vec![1],
                    member_after_consensus: vec![],
                    node_addrs: HashMap::new(),
                };
                let writer = SnapshotWriterActor::new(path.clone(), header).start();
                if addr.send(ConfigCmd::BuildSnapshot(writer.clone())).await.is_err() {
                    return json!("err");
                }
                if writer.send(SnapshotWriterRequest::Flush).await.is_err() {
                    return json!("err");
                }
                // the writer performs its file writes in actor-spawned futures: wait until a
                // further message has been handled after the flush
                writer.send(SnapshotWriterRequest::Flush).await.ok();
                let mut recs = vec![];
                match SnapshotReader::init(path.as_str()).await {
                    Ok(mut reader) => {
                        while let Ok(Some(r)) = reader.read_record().await {
                            recs.push((r.tree.to_string(), r.key, r.value));
                        }
                    }
                    Err(_) => return json!("err-read"),
                }
                self.dirs.push(dir);
                let mut cfg: Vec<String> = vec![];
                let mut seq: Vec<Value> = vec![];
                for (tree, key, value) in &recs {
                    if tree.as_str() == CONFIG_TREE_NAME.as_str() {
                        cfg.push(String::from_utf8_lossy(key).to_string());
                    } else if tree.as_str() == SEQUENCE_TREE_NAME.as_str() {
                        seq.push(json!([
                            String::from_utf8_lossy(key).to_string(),
                            rnacos::common::byte_utils::bin_to_id(value)
                        ]));
                    }
                }
                cfg.sort();
                self.snap_applied.insert(sid, self.applied[self.cur]);
                self.snapshots.insert(sid, recs);
                json!({"config_keys": cfg, "seq": seq})
            }
            // ["load", sid]: feed the records to the current node as RaftDataHandler::load_snapshot does
            "load" => {
                let sid = op[1].as_u64().unwrap_or(0);
                let recs = self.snapshots.get(&sid).cloned().unwrap_or_default();
                for (tree, key, value) in recs {
                    if tree.as_str() == CONFIG_TREE_NAME.as_str() {
                        let config_key = ConfigKey::from(&String::from_utf8(key).unwrap() as &str);
                        let value_do = ConfigValueDO::from_bytes(&value).unwrap();
                        addr.send(ConfigCmd::SetFullValue(config_key, value_do.into()))
                            .await
                            .ok();
                    } else if tree.as_str() == SEQUENCE_TREE_NAME.as_str() {
                        let k = String::from_utf8_lossy(&key);
                        let last_id = rnacos::common::byte_utils::bin_to_id(&value);
                        if &k as &str == SEQ_KEY_CONFIG {
                            addr.send(ConfigCmd::InnerSetLastId(last_id)).await.ok();
                        }
                    }
                }
                if let Some(a) = self.snap_applied.get(&sid) {
                    self.applied[self.cur] = *a;
                }
                json!("ok")
            }
            // ["conn", client]: a real BiStreamManage (injected into the ConfigActor's subscriber as
            // `inject` does) with a real BiStreamConn whose sender side is read by the harness
            "conn" => {
                if self.manage.is_none() {
                    let m = BiStreamManage::new().start();
                    addr.send(VerifConfigCmd::SetConnManage(m.clone())).await.ok();
                    self.manage = Some(m);
                }
                let manage = self.manage.clone().unwrap();
                let client = s(&op[1]);
                let (tx, rx) = tokio::sync::mpsc::channel(64);
                let (body_tx, body) = hyper::Body::channel();
                use tonic::codec::Codec;
                let decoder = tonic::codec::ProstCodec::<Payload, Payload>::default().decoder();
                let streaming = tonic::Streaming::new_request(decoder, body);
                let cid = Arc::new(client.clone());
                let conn = BiStreamConn::new(tx, cid.clone(), streaming, manage.clone());
                manage.send(BiStreamManageCmd::AddConn(cid, conn)).await.ok();
                self.conns.push(Conn {
                    client,
                    rx,
                    _body_tx: body_tx,
                });
                json!("ok")
            }
            // leader side of a publish: the real next_state of the current node
            "alloc" => match addr.send(VerifConfigCmd::NextState).await {
                Ok(Ok(VerifConfigResult::NextState(Some((id, mark))))) => {
                    self.last_alloc = Some((id, mark));
                    json!([id, mark])
                }
                _ => json!("err"),
            },
            // the fate of the raft write carrying the last allocation
            "settle" => {
                if let Some((id, mark)) = self.last_alloc.take() {
                    let lose = match op[1].as_str().unwrap_or("commit") {
                        "lose" => true,
                        "lose_inside" => mark.is_none(),
                        "lose_boundary" => mark.is_some(),
                        _ => false,
                    };
                    if lose {
                        json!("lost")
                    } else {
                        self.log.push((id, mark));
                        json!("committed")
                    }
                } else {
                    json!("none")
                }
            }
            // the current node applies the next committed entry it has not applied yet
            "apply_next" | "catch_up" => {
                let mut n = 0;
                while self.applied[self.cur] < self.log.len() {
                    let pos = self.applied[self.cur];
                    let (hid, mark) = self.log[pos];
                    let cmd = ConfigRaftCmd::ConfigAdd {
                        key: s(&op[1]),
                        // every third committed publish repeats the previous content (a no-op publish
                        // that may still carry a history_table_id mark); same formula in coq/SM/Script.v
                        value: Arc::new(format!("c{}", if pos % 3 == 2 { pos - 1 } else { pos })),
                        config_type: None,
                        desc: None,
                        history_id: hid,
                        history_table_id: mark,
                        op_time: 1000 + pos as i64,
                        op_user: None,
                    };
                    addr.send(cmd).await.ok();
                    self.applied[self.cur] += 1;
                    n += 1;
                    if name == "apply_next" {
                        break;
                    }
                }
                json!(n)
            }
            "log" => json!(self.log),
            // key / validator functions (no actor involved)
            "keyrt" => {
                let k = key_of(&op[1]);
                let built = k.build_key();
                let back = ConfigKey::from(built.as_str());
                json!({"built": built, "back": key_json(&back), "same": back == k})
            }
            "keyparse" => {
                let back = ConfigKey::from(op[1].as_str().unwrap_or(""));
                key_json(&back)
            }
            "valid" => {
                let x = s(&op[1]);
                let k = ConfigKey::new(&x, "g", "");
                let k2 = ConfigKey::new("d", &x, "");
                json!({
                    "is_valid": param_utils::is_valid(&x),
                    "key_data": k.is_valid().is_ok(),
                    "key_group": k2.is_valid().is_ok(),
                    "tenant": param_utils::check_tenant(&Some(x.clone())).is_ok(),
                    "param": param_utils::check_param(&Some(x.clone()), &Some("g".to_owned()), &Some("x".to_owned()), &Some("c".to_owned())).is_ok(),
                })
            }
            _ => json!("?"),
        }
    }
}

fn run_once(case: &Value) -> (Value, u128) {
    let sys = actix_rt::System::new();
    let t0 = Instant::now();
    let ops = case["ops"].as_array().cloned().unwrap_or_default();
    let out = sys.block_on(async move {
        let mut run = Run::new();
        let mut out = vec![];
        for op in &ops {
            let r = run.op(op).await;
            let ans = run.poll_answers();
            let ntf = run.poll_notifications().await;
            out.push(json!({"r": r, "ans": ans, "ntf": ntf}));
        }
        out
    });
    let el = t0.elapsed().as_millis();
    (json!({"r":"ok","out":out}), el)
}

impl Suite for Config {
    fn run(&mut self, case: &Value) -> Value {
        let mut last = json!({"r":"panic"});
        for _ in 0..3 {
            match catch_unwind(AssertUnwindSafe(|| run_once(case))) {
                Ok((v, el)) => {
                    last = v;
                    if el <= 350 || case["slow_ok"].as_bool().unwrap_or(false) {
                        return last;
                    }
                    last["slow"] = json!(true);
                }
                Err(_) => return json!({"r":"panic"}),
            }
        }
        last
    }
}
