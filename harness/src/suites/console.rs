//! C17 / C18: the real console authorisation code.
//!   k = "match"  : UserRole::match_url_by_roles on a cross product (bit strings)
//!   k = "regex"  : the real Regex statics of login_middle.rs on strings given as code points
//!   k = "http"   : the real CheckLogin middleware + the real console route configuration in an
//!                  in-process actix test service; sessions are installed through the same raft cache
//!                  request the login handler uses.
use super::node::Node;
use super::Suite;
use actix_web::dev::Service as _;
use actix_web::http::header::{HeaderName, HeaderValue};
use actix_web::web::Data;
use actix_web::{test, App};
use rnacos::cache::actor_model::{CacheManagerRaftReq, CacheSetParam};
use rnacos::cache::model::{CacheKey, CacheType, CacheValue};
use rnacos::common::model::UserSession;
use rnacos::console::middle::login_middle::{CheckLogin, API_PATH, IGNORE_CHECK_LOGIN, STATIC_FILE_PATH};
use rnacos::raft::store::ClientRequest;
use rnacos::user::permission::UserRole;
use rnacos::web_config::console_config;
use serde_json::{json, Value};
use std::collections::HashMap;
use std::panic::{catch_unwind, AssertUnwindSafe};
use std::sync::Arc;

pub struct Console {
    node: Option<Node>,
}

impl Console {
    pub fn new() -> Self {
        Console { node: None }
    }
}

pub fn cps_to_string(v: &Value) -> Option<String> {
    let mut s = String::new();
    for x in v.as_array()? {
        s.push(char::from_u32(x.as_u64()? as u32)?);
    }
    Some(s)
}

fn strs(v: &Value) -> Vec<String> {
    v.as_array()
        .map(|a| a.iter().map(|x| x.as_str().unwrap_or("").to_owned()).collect())
        .unwrap_or_default()
}

pub async fn install_session(app: &Arc<rnacos::common::appdata::AppShareData>, s: &Value) -> Result<(), String> {
    let token = Arc::new(s["token"].as_str().unwrap_or("").to_owned());
    let ttl = s["ttl"].as_i64().unwrap_or(3600) as i32;
    let session: UserSession = serde_json::from_value(s["session"].clone()).map_err(|e| e.to_string())?;
    let req = CacheManagerRaftReq::Set(CacheSetParam::new_with_ttl(
        CacheKey::new(CacheType::UserSession, token),
        CacheValue::UserSession(Arc::new(session)),
        ttl,
    ));
    let key = CacheKey::new(CacheType::UserSession, Arc::new(s["token"].as_str().unwrap_or("").to_owned()));
    for _ in 0..10 {
        app.raft_request_route
            .request(ClientRequest::CacheReq { req: req.clone() })
            .await
            .map_err(|e| e.to_string())?;
        if ttl <= 2 || super::node::cache_has(app, &key).await {
            return Ok(());
        }
        tokio::time::sleep(std::time::Duration::from_millis(200)).await;
    }
    Err("session not readable after installation".to_owned())
}

/// one request description -> actix test request; None when the URI is not acceptable to the HTTP layer
pub fn build_request(r: &Value, tokens: &HashMap<String, String>) -> Option<test::TestRequest> {
    let uri = r["uri"].as_str().unwrap_or("/");
    let parsed: Result<actix_web::http::Uri, _> = uri.parse();
    if parsed.is_err() {
        return None;
    }
    let method = actix_web::http::Method::from_bytes(r["method"].as_str().unwrap_or("GET").as_bytes()).ok()?;
    let mut t = test::TestRequest::default().method(method).uri(uri);
    if let Some(hs) = r["headers"].as_array() {
        for h in hs {
            let name = HeaderName::from_bytes(h[0].as_str().unwrap_or("").as_bytes()).ok()?;
            let val = match &h[1] {
                Value::String(s) => s.clone(),
                Value::Object(o) => tokens.get(o.get("ref").and_then(|x| x.as_str()).unwrap_or("")).cloned().unwrap_or_default(),
                _ => String::new(),
            };
            // "{}" inside a header value template is replaced by the referenced token
            let val = match h.get(2).and_then(|x| x.as_str()) {
                Some(tpl) => tpl.replace("{}", &val),
                None => val,
            };
            t = t.insert_header((name, HeaderValue::from_str(&val).ok()?));
        }
    }
    if let Some(b) = r["body"].as_str() {
        t = t.set_payload(b.to_owned());
    }
    Some(t)
}

/// runs the request descriptions against an initialised actix test service
pub async fn run_requests<S, B>(srv: &S, reqs: &[Value]) -> Vec<Value>
where
    S: actix_web::dev::Service<actix_http::Request, Response = actix_web::dev::ServiceResponse<B>, Error = actix_web::Error>,
    B: actix_web::body::MessageBody,
{
    let mut tokens: HashMap<String, String> = HashMap::new();
    let mut out = vec![];
    for r in reqs.iter().cloned() {
        if let Some(ms) = r["sleep_ms"].as_u64() {
            tokio::time::sleep(std::time::Duration::from_millis(ms)).await;
        }
        let req = match build_request(&r, &tokens) {
            Some(q) => q.to_request(),
            None => {
                out.push(json!({"rejected_by_http_layer": true}));
                continue;
            }
        };
        match srv.call(req).await {
            Ok(resp) => {
                let want_body = r["want_body"].as_bool().unwrap_or(false);
                let status = resp.status().as_u16();
                let hv = |n: &str| resp.headers().get(n).and_then(|v| v.to_str().ok()).map(|s| s.to_owned());
                let mut o = json!({
                    "status": status,
                    "forwarded": hv("x-verif-forwarded").is_some(),
                    "no_login": hv("No-Login").is_some(),
                    "no_permission": hv("No-Permission").is_some(),
                    "content_type": hv("Content-Type"),
                    "location": hv("Location"),
                });
                // a streaming handler (SSE) never ends its body: give up after 2 s
                let body = match tokio::time::timeout(
                    std::time::Duration::from_secs(2),
                    actix_web::body::to_bytes(resp.into_body()),
                )
                .await
                {
                    Ok(Ok(b)) => String::from_utf8_lossy(&b).into_owned(),
                    Ok(Err(_)) => String::new(),
                    Err(_) => {
                        o["body_timeout"] = Value::Bool(true);
                        String::from("<stream>")
                    }
                };
                o["body_len"] = Value::from(body.len() as u64);
                if let Some(name) = r.get("save_token").and_then(|x| x.as_str()) {
                    if let Ok(v) = serde_json::from_str::<Value>(&body) {
                        if let Some(t) = v["data"]["token"].as_str() {
                            tokens.insert(name.to_owned(), t.to_owned());
                            o["token_saved"] = Value::Bool(true);
                        }
                    }
                }
                if want_body {
                    let mut b = body;
                    if b.len() > 20000 {
                        let mut cut = 20000;
                        while !b.is_char_boundary(cut) {
                            cut -= 1;
                        }
                        b.truncate(cut);
                    }
                    o["body"] = Value::String(b);
                }
                out.push(o);
            }
            Err(e) => out.push(json!({"error": e.to_string()})),
        }
    }
    out
}

impl Suite for Console {
    fn run(&mut self, case: &Value) -> Value {
        match case["k"].as_str().unwrap_or("") {
            "match" => {
                // roles: list of role lists; paths; methods -> rows[role_set][path] = bit string over methods
                let role_sets: Vec<Vec<Arc<String>>> = case["roles"]
                    .as_array()
                    .unwrap()
                    .iter()
                    .map(|rs| strs(rs).into_iter().map(Arc::new).collect())
                    .collect();
                let paths = strs(&case["paths"]);
                let methods = strs(&case["methods"]);
                let mut rows = vec![];
                for rs in &role_sets {
                    let mut row = vec![];
                    for p in &paths {
                        let mut bits = String::new();
                        for m in &methods {
                            bits.push(if UserRole::match_url_by_roles(rs, p, m) { '1' } else { '0' });
                        }
                        row.push(Value::String(bits));
                    }
                    rows.push(Value::Array(row));
                }
                json!({"r":"ok","rows":rows})
            }
            "regex" => {
                let mut out = vec![];
                for s in case["s"].as_array().unwrap() {
                    match cps_to_string(s) {
                        Some(s) => out.push(json!({
                            "static": STATIC_FILE_PATH.is_match(&s),
                            "api": API_PATH.is_match(&s),
                            "ignore": IGNORE_CHECK_LOGIN.contains(&s.as_str()),
                        })),
                        None => out.push(json!("bad")),
                    }
                }
                json!({"r":"ok","out":out})
            }
            "priv" => {
                // real PrivilegeGroup / NamespacePrivilegeGroup on (group, keys)
                use rnacos::common::model::privilege::{NamespacePrivilegeGroup, PrivilegeGroup};
                let mut out = vec![];
                for c in case["cases"].as_array().unwrap() {
                    let g: PrivilegeGroup<Arc<String>> = match serde_json::from_value(c["group"].clone()) {
                        Ok(g) => g,
                        Err(e) => {
                            out.push(json!({"bad": e.to_string()}));
                            continue;
                        }
                    };
                    let ng = NamespacePrivilegeGroup::new(g.clone());
                    let flags = g.get_flags();
                    let rebuilt = NamespacePrivilegeGroup::new(PrivilegeGroup::new(flags, g.whitelist.clone(), g.blacklist.clone()));
                    let mut rows = vec![];
                    for k in strs(&c["keys"]) {
                        let k = Arc::new(k);
                        rows.push(json!([
                            g.check_permission(&k),
                            ng.check_permission(&k),
                            ng.check_option_value_permission(&None, true),
                            g.is_all(),
                            flags,
                            rebuilt.check_permission(&k)
                        ]));
                    }
                    out.push(Value::Array(rows));
                }
                json!({"r":"ok","out":out})
            }
            "record" => {
                // UserDo::build_namespace_privilege (the stored record -> session copy)
                use rnacos::common::model::privilege::NamespacePrivilegeGroup;
                let mut out = vec![];
                for c in case["cases"].as_array().unwrap() {
                    let u = rnacos::user::model::UserDo {
                        namespace_privilege_flags: c["flags"].as_u64().map(|v| v as u32),
                        namespace_white_list: strs(&c["wl"]),
                        namespace_black_list: strs(&c["bl"]),
                        ..Default::default()
                    };
                    let g = u.build_namespace_privilege();
                    let ng = NamespacePrivilegeGroup::new(g.clone());
                    let mut rows = vec![];
                    for k in strs(&c["keys"]) {
                        rows.push(json!([ng.check_permission(&Arc::new(k)), g.is_all(), g.get_flags()]));
                    }
                    out.push(Value::Array(rows));
                }
                json!({"r":"ok","out":out})
            }
            "http" => {
                if self.node.is_none() {
                    let env: Vec<(String, String)> = case["env"]
                        .as_object()
                        .map(|o| o.iter().map(|(k, v)| (k.clone(), v.as_str().unwrap_or("").to_owned())).collect())
                        .unwrap_or_default();
                    self.node = Some(Node::start(&env));
                }
                let node = self.node.as_ref().unwrap();
                let app = node.app.clone();
                let case = case.clone();
                let r = catch_unwind(AssertUnwindSafe(|| {
                    node.runner.block_on(async move {
                        for s in case["sessions"].as_array().cloned().unwrap_or_default() {
                            let mut tries = 0;
                            loop {
                                match install_session(&app, &s).await {
                                    Ok(()) => break,
                                    Err(e) => {
                                        tries += 1;
                                        if tries > 20 {
                                            return json!({"r":"error","what":format!("install session: {}", e)});
                                        }
                                        tokio::time::sleep(std::time::Duration::from_millis(300)).await;
                                    }
                                }
                            }
                        }
                        if let Some(ms) = case["sleep_ms"].as_u64() {
                            tokio::time::sleep(std::time::Duration::from_millis(ms)).await;
                        }
                        let srv = test::init_service(
                            App::new()
                                .app_data(Data::new(app.clone()))
                                .app_data(Data::new(app.config_addr.clone()))
                                .app_data(Data::new(app.naming_addr.clone()))
                                .app_data(Data::new(app.bi_stream_manage.clone()))
                                // innermost marker: a response carrying this header went through CheckLogin
                                .wrap_fn(|req, srv| {
                                    let fut = srv.call(req);
                                    async move {
                                        let mut res = fut.await?;
                                        res.headers_mut().insert(
                                            HeaderName::from_static("x-verif-forwarded"),
                                            HeaderValue::from_static("1"),
                                        );
                                        Ok(res)
                                    }
                                })
                                .wrap(CheckLogin::new(app.clone()))
                                .configure(console_config),
                        )
                        .await;
                        let out = run_requests(&srv, &case["reqs"].as_array().cloned().unwrap_or_default()).await;
                        json!({"r":"ok","out":out})
                    })
                }));
                match r {
                    Ok(v) => v,
                    Err(_) => json!({"r":"panic"}),
                }
            }
            "userpriv" => {
                // the privilege WRITE path: UserManagerReq::{AddUser, UpdateUser} on the real actor,
                // then Query (the UserDto a login would turn into the session's group)
                use rnacos::common::model::privilege::{NamespacePrivilegeGroup, PrivilegeGroupOptionParam};
                use rnacos::user::model::UserDto;
                use rnacos::user::{UserManagerReq, UserManagerResult};
                if self.node.is_none() {
                    let env: Vec<(String, String)> = case["env"]
                        .as_object()
                        .map(|o| o.iter().map(|(k, v)| (k.clone(), v.as_str().unwrap_or("").to_owned())).collect())
                        .unwrap_or_default();
                    self.node = Some(Node::start(&env));
                }
                let node = self.node.as_ref().unwrap();
                let app = node.app.clone();
                let case = case.clone();
                fn param(v: &Value) -> Option<PrivilegeGroupOptionParam<Arc<String>>> {
                    if v.is_null() {
                        return None;
                    }
                    let set = |x: &Value| {
                        x.as_array().map(|a| {
                            Arc::new(a.iter().map(|e| Arc::new(e.as_str().unwrap_or("").to_owned())).collect::<std::collections::HashSet<_>>())
                        })
                    };
                    Some(PrivilegeGroupOptionParam {
                        whitelist_is_all: v["wl_all"].as_bool(),
                        whitelist: set(&v["wl"]),
                        blacklist_is_all: v["bl_all"].as_bool(),
                        blacklist: set(&v["bl"]),
                    })
                }
                let r = catch_unwind(AssertUnwindSafe(|| {
                    node.runner.block_on(async move {
                        let keys = strs(&case["keys"]);
                        let mut out = vec![];
                        for u in case["users"].as_array().cloned().unwrap_or_default() {
                            let name = Arc::new(u["name"].as_str().unwrap_or("").to_owned());
                            let mut rows = vec![];
                            for op in u["ops"].as_array().cloned().unwrap_or_default() {
                                let user = UserDto {
                                    username: name.clone(),
                                    nickname: Some("n".to_owned()),
                                    password: Some("pw-123456".to_owned()),
                                    roles: Some(vec![Arc::new("1".to_owned())]),
                                    ..Default::default()
                                };
                                let p = param(&op[1]);
                                let req = if op[0].as_str() == Some("add") {
                                    UserManagerReq::AddUser { user, namespace_privilege_param: p }
                                } else {
                                    UserManagerReq::UpdateUser { user: UserDto { password: None, ..user }, namespace_privilege_param: p }
                                };
                                let answered = matches!(app.user_manager.send(req).await, Ok(Ok(_)));
                                if !answered {
                                    rows.push(Value::Null);
                                    continue;
                                }
                                match app.user_manager.send(UserManagerReq::Query { name: name.clone() }).await {
                                    Ok(Ok(UserManagerResult::QueryUser(Some(dto)))) => {
                                        let g = dto.namespace_privilege.unwrap_or_default();
                                        let ng = NamespacePrivilegeGroup::new(g.clone());
                                        let has = |s: &Option<Arc<std::collections::HashSet<Arc<String>>>>, k: &String| {
                                            s.as_ref().map(|s| s.contains(&Arc::new(k.clone()))).unwrap_or(false)
                                        };
                                        let obs: Vec<Value> = keys
                                            .iter()
                                            .map(|k| json!([has(&g.whitelist, k), has(&g.blacklist, k), ng.check_permission(&Arc::new(k.clone()))]))
                                            .collect();
                                        rows.push(json!([g.get_flags(), obs]));
                                    }
                                    _ => rows.push(json!("query-failed")),
                                }
                            }
                            out.push(Value::Array(rows));
                        }
                        json!({"r":"ok","out":out})
                    })
                }));
                match r {
                    Ok(v) => v,
                    Err(_) => json!({"r":"panic"}),
                }
            }
            _ => json!({"r":"badcase"}),
        }
    }
}
