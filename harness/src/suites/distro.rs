//! C14: distro ownership — the real `InnerNodeManage` (range computation, liveness marking,
//! `QueryOwnerRange`), the real `NodeManage::route_addr`, the real `ProcessRange::is_range`
//! and the real `get_hash_value` (DefaultHasher of the service key).
use super::Suite;
use actix::prelude::*;
use rnacos::common::hash_utils::get_hash_value;
use rnacos::naming::cluster::model::{NamingRouteAddr, ProcessRange};
use rnacos::naming::cluster::node_manage::{
    VerifNodeManageCmd,
    InnerNodeManage, NodeManage, NodeManageRequest, NodeManageResponse, NodeStatus,
};
use rnacos::naming::core::NamingActor;
use rnacos::naming::model::ServiceKey;
use rnacos::verif_hooks::distro::VerifQueryNamingRange;
use serde_json::{json, Value};
use std::panic::{catch_unwind, AssertUnwindSafe};
use std::sync::Arc;

pub struct Distro {}

impl Distro {
    pub fn new() -> Self {
        Distro {}
    }
}

fn service_key(v: &Value) -> ServiceKey {
    ServiceKey::new(
        v[0].as_str().unwrap_or(""),
        v[1].as_str().unwrap_or(""),
        v[2].as_str().unwrap_or(""),
    )
}

fn range_json(r: &ProcessRange) -> Value {
    json!([r.index, r.len])
}

fn addr_of(id: u64) -> Arc<String> {
    Arc::new(format!("node-{}", id))
}

fn id_of_addr(addr: &str) -> Value {
    match addr.strip_prefix("node-").and_then(|s| s.parse::<u64>().ok()) {
        Some(id) => json!(id),
        None => Value::Null,
    }
}

struct ViewUnderTest {
    local: u64,
    naming: Option<Addr<NamingActor>>,
    addr: Addr<InnerNodeManage>,
    direct: ProcessRange,
    stored: ProcessRange,
    keys: Vec<Value>,
}

/// builds the real actors of one simulated node
fn setup_view(case: &Value, by_timer: bool) -> ViewUnderTest {
    let local = case["local"].as_u64().unwrap();
    let nodes: Vec<(u64, Arc<String>, bool)> = case["nodes"]
        .as_array()
        .unwrap()
        .iter()
        .map(|n| {
            let id = n[0].as_u64().unwrap();
            (id, addr_of(id), n[1].as_bool().unwrap())
        })
        .collect();
    let with_naming = case["naming"].as_bool().unwrap_or(false);
    let naming = if with_naming {
        Some(NamingActor::new().start())
    } else {
        None
    };
    let inner = InnerNodeManage::verif_new_with_nodes(local, nodes, naming.clone(), by_timer, false);
    let direct = inner.verif_get_current_process_range();
    let stored = inner.verif_current_range();
    let addr = inner.start();
    ViewUnderTest {
        local,
        naming,
        addr,
        direct,
        stored,
        keys: case["keys"].as_array().cloned().unwrap_or_default(),
    }
}

/// observes the node through the genuine messages / public functions
async fn observe_view(v: &ViewUnderTest) -> Value {
    let local = v.local;
    let owner_ranges = match v
        .addr
        .send(NodeManageRequest::QueryOwnerRange(ProcessRange::new(0, 0)))
        .await
    {
        Ok(Ok(NodeManageResponse::OwnerRange(v))) => v,
        _ => vec![],
    };
    let all_nodes = match v.addr.send(NodeManageRequest::GetAllNodes).await {
        Ok(Ok(NodeManageResponse::AllNodes(v))) => v,
        _ => vec![],
    };
    let nm = NodeManage::new(v.addr.clone());
    let mut keys = vec![];
    for k in &v.keys {
        let key = service_key(k);
        let h = get_hash_value(&key);
        // what NamingActor::update_instance evaluates (it hashes `&&ServiceKey`)
        let h2 = get_hash_value(&&key);
        let route = match nm.route_addr(&key).await {
            NamingRouteAddr::Local(i) => json!({"t":"local","i":i,"id":local}),
            NamingRouteAddr::Remote(i, a) => json!({"t":"remote","i":i,"id":id_of_addr(&a)}),
        };
        let owner = owner_ranges
            .first()
            .map(|r| r.is_range(h as usize))
            .unwrap_or(false);
        keys.push(json!({"h": h, "h2": h2, "route": route, "owner": owner}));
    }
    let naming_range = match &v.naming {
        Some(n) => match n.send(VerifQueryNamingRange).await {
            Ok(Some(r)) => range_json(&r),
            _ => Value::Null,
        },
        None => Value::Null,
    };
    json!({
        "r": "ok",
        "range": range_json(&v.direct),
        "stored": range_json(&v.stored),
        "owner_ranges": owner_ranges.iter().map(range_json).collect::<Vec<_>>(),
        "nodes": all_nodes.iter().map(|n| json!([n.id, n.index, n.is_local, n.status == NodeStatus::Valid])).collect::<Vec<_>>(),
        "keys": keys,
        "naming_range": naming_range,
    })
}

async fn run_view(case: Value) -> Value {
    let v = setup_view(&case, false);
    // status flips: the node is silent for more than 15 s (genuine check_node_status marks it),
    // then it pings again (the genuine ActiveNode message), then the 3 s heartbeat passes again
    if let Some(flips) = case["flips"].as_array() {
        for f in flips {
            let id = f.as_u64().unwrap();
            let _ = v.addr.send(VerifNodeManageCmd::Starve(id)).await;
            let _ = v.addr.send(NodeManageRequest::ActiveNode(id)).await;
            let _ = v.addr.send(VerifNodeManageCmd::Tick).await;
        }
    }
    observe_view(&v).await
}

/// all views wait together for the genuine liveness timer (15 s silence, 3 s heartbeat)
async fn run_views_timer(case: Value) -> Value {
    let views: Vec<ViewUnderTest> = case["views"]
        .as_array()
        .unwrap()
        .iter()
        .map(|c| setup_view(c, true))
        .collect();
    let mut before = vec![];
    for v in &views {
        before.push(observe_view(v).await);
    }
    let wait = case["wait_ms"].as_u64().unwrap_or(19_000);
    tokio::time::sleep(std::time::Duration::from_millis(wait)).await;
    let mut after = vec![];
    for v in &views {
        after.push(observe_view(v).await);
    }
    json!({"r":"ok","before":before,"after":after})
}

impl Suite for Distro {
    fn run(&mut self, case: &Value) -> Value {
        match case["k"].as_str().unwrap_or("") {
            // ProcessRange::is_range on raw (index, len, hash) triples
            "is_range" => {
                let index = case["index"].as_u64().unwrap() as usize;
                let len = case["len"].as_u64().unwrap() as usize;
                let out: Vec<Value> = case["hs"]
                    .as_array()
                    .unwrap()
                    .iter()
                    .map(|h| {
                        let h = h.as_u64().unwrap() as usize;
                        match catch_unwind(AssertUnwindSafe(|| {
                            ProcessRange::new(index, len).is_range(h)
                        })) {
                            Ok(b) => json!(b),
                            Err(_) => json!("panic"),
                        }
                    })
                    .collect();
                json!({"r":"ok","out":out})
            }
            // the hash the implementation computes for service keys
            "hash" => {
                let out: Vec<Value> = case["keys"]
                    .as_array()
                    .unwrap()
                    .iter()
                    .map(|k| json!(get_hash_value(&service_key(k))))
                    .collect();
                json!({"r":"ok","out":out})
            }
            "view" => {
                let c = case.clone();
                match catch_unwind(AssertUnwindSafe(|| {
                    let sys = actix::System::new();
                    sys.block_on(run_view(c))
                })) {
                    Ok(v) => v,
                    Err(_) => json!({"r":"panic"}),
                }
            }
            "views_timer" => {
                let c = case.clone();
                match catch_unwind(AssertUnwindSafe(|| {
                    let sys = actix::System::new();
                    sys.block_on(run_views_timer(c))
                })) {
                    Ok(v) => v,
                    Err(_) => json!({"r":"panic"}),
                }
            }
            _ => json!({"r":"badcase"}),
        }
    }
}
