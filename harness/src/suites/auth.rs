//! C16: the real ApiCheckAuth middleware + the real 8848 route configuration (auth enabled) in an
//! in-process actix test service, and the real gRPC `fill_token_session` + `InvokerHandler::handle`.
//!   k = "http" : {sessions:[{token, ttl, session}], reqs:[..]}    (ApiTokenSession installed through raft cache)
//!   k = "regex": the real Regex statics / ignore list of auth_middle.rs on strings given as code points
//!   k = "grpc" : {sessions, reqs:[{type, headers:{..}}]} -> outcome of the real handle
use super::console::{cps_to_string, run_requests};
use super::node::Node;
use super::Suite;
use actix_web::dev::Service as _;
use actix_web::http::header::{HeaderName, HeaderValue};
use actix_web::web::Data;
use actix_web::{test, App};
use rnacos::cache::actor_model::{CacheManagerRaftReq, CacheSetParam};
use rnacos::cache::model::{CacheKey, CacheType, CacheValue};
use rnacos::common::model::TokenSession;
use rnacos::grpc::handler::InvokerHandler;
use rnacos::grpc::server::RequestServerImpl;
use rnacos::grpc::PayloadUtils;
use rnacos::openapi::middle::auth_middle::{ApiCheckAuth, API_PATH, IGNORE_PATH, R_NACOS_API_PATH};
use rnacos::raft::store::ClientRequest;
use rnacos::web_config::app_config;
use serde_json::{json, Value};
use std::collections::HashMap;
use std::ops::Deref;
use std::panic::{catch_unwind, AssertUnwindSafe};
use std::sync::Arc;

pub struct Auth {
    node: Option<Node>,
}

impl Auth {
    pub fn new() -> Self {
        Auth { node: None }
    }
    fn ensure_node(&mut self, case: &Value) {
        if self.node.is_none() {
            let mut env: Vec<(String, String)> = vec![("RNACOS_ENABLE_OPEN_API_AUTH".to_owned(), "true".to_owned())];
            if let Some(o) = case["env"].as_object() {
                for (k, v) in o {
                    env.push((k.clone(), v.as_str().unwrap_or("").to_owned()));
                }
            }
            self.node = Some(Node::start(&env));
        }
    }
}

async fn install_api_session(app: &Arc<rnacos::common::appdata::AppShareData>, s: &Value) -> Result<(), String> {
    let token = Arc::new(s["token"].as_str().unwrap_or("").to_owned());
    let ttl = s["ttl"].as_i64().unwrap_or(3600) as i32;
    let session: TokenSession = serde_json::from_value(s["session"].clone()).map_err(|e| e.to_string())?;
    let req = CacheManagerRaftReq::Set(CacheSetParam::new_with_ttl(
        CacheKey::new(CacheType::ApiTokenSession, token),
        CacheValue::ApiTokenSession(Arc::new(session)),
        ttl,
    ));
    let key = CacheKey::new(CacheType::ApiTokenSession, Arc::new(s["token"].as_str().unwrap_or("").to_owned()));
    let mut tries = 0;
    loop {
        match app.raft_request_route.request(ClientRequest::CacheReq { req: req.clone() }).await {
            Ok(_) => {
                if ttl <= 2 || super::node::cache_has(app, &key).await {
                    return Ok(());
                }
                tries += 1;
                if tries > 20 {
                    return Err("session not readable after installation".to_owned());
                }
                tokio::time::sleep(std::time::Duration::from_millis(200)).await;
            }
            Err(e) => {
                tries += 1;
                if tries > 20 {
                    return Err(e.to_string());
                }
                tokio::time::sleep(std::time::Duration::from_millis(300)).await;
            }
        }
    }
}

impl Suite for Auth {
    fn run(&mut self, case: &Value) -> Value {
        match case["k"].as_str().unwrap_or("") {
            "regex" => {
                let mut out = vec![];
                for s in case["s"].as_array().unwrap() {
                    match cps_to_string(s) {
                        Some(s) => out.push(json!({
                            "api": API_PATH.is_match(&s),
                            "rnacos_api": R_NACOS_API_PATH.is_match(&s),
                            "ignore": IGNORE_PATH.contains(&s.as_str()),
                        })),
                        None => out.push(json!("bad")),
                    }
                }
                json!({"r":"ok","out":out})
            }
            "http" => {
                self.ensure_node(case);
                let node = self.node.as_ref().unwrap();
                let app = node.app.clone();
                let case = case.clone();
                let r = catch_unwind(AssertUnwindSafe(|| {
                    node.runner.block_on(async move {
                        for s in case["sessions"].as_array().cloned().unwrap_or_default() {
                            if let Err(e) = install_api_session(&app, &s).await {
                                return json!({"r":"error","what":format!("install session: {}", e)});
                            }
                        }
                        if let Some(ms) = case["sleep_ms"].as_u64() {
                            tokio::time::sleep(std::time::Duration::from_millis(ms)).await;
                        }
                        let conf = app.sys_config.deref().clone();
                        let enable_auth = conf.openapi_enable_auth;
                        let srv = test::init_service(
                            App::new()
                                .app_data(Data::new(app.clone()))
                                .app_data(Data::new(app.config_addr.clone()))
                                .app_data(Data::new(app.naming_addr.clone()))
                                .app_data(Data::new(app.bi_stream_manage.clone()))
                                // innermost marker: a response carrying this header went through ApiCheckAuth
                                .wrap_fn(|req, srv| {
                                    let fut = srv.call(req);
                                    async move {
                                        let mut res = fut.await?;
                                        res.headers_mut().insert(
                                            HeaderName::from_static("x-verif-forwarded"),
                                            HeaderValue::from_static("1"),
                                        );
                                        Ok(res)
                                    }
                                })
                                .wrap(ApiCheckAuth::new(app.clone()))
                                .configure(app_config(conf)),
                        )
                        .await;
                        let out = run_requests(&srv, &case["reqs"].as_array().cloned().unwrap_or_default()).await;
                        json!({"r":"ok","out":out,"enable_auth":enable_auth})
                    })
                }));
                match r {
                    Ok(v) => v,
                    Err(_) => json!({"r":"panic"}),
                }
            }
            "grpc" => {
                self.ensure_node(case);
                let node = self.node.as_ref().unwrap();
                let app = node.app.clone();
                let case = case.clone();
                let r = catch_unwind(AssertUnwindSafe(|| {
                    node.runner.block_on(async move {
                        for s in case["sessions"].as_array().cloned().unwrap_or_default() {
                            if let Err(e) = install_api_session(&app, &s).await {
                                return json!({"r":"error","what":format!("install session: {}", e)});
                            }
                        }
                        let mut invoker = InvokerHandler::new(app.clone());
                        invoker.add_config_handler(&app);
                        invoker.add_naming_handler(&app);
                        invoker.add_raft_handler(&app);
                        let server = RequestServerImpl::new(app.clone(), invoker);
                        let mut out = vec![];
                        for r in case["reqs"].as_array().cloned().unwrap_or_default() {
                            let t = r["type"].as_str().unwrap_or("");
                            let mut headers: HashMap<String, String> = HashMap::new();
                            if let Some(o) = r["headers"].as_object() {
                                for (k, v) in o {
                                    headers.insert(k.clone(), v.as_str().unwrap_or("").to_owned());
                                }
                            }
                            let body = r["body"].as_str().unwrap_or("{}").to_owned();
                            let payload = PayloadUtils::build_full_payload(t, body, "127.0.0.1", headers);
                            let (has_session, cluster_ok, res) = server.verif_fill_and_handle(payload).await;
                            match res {
                                Ok(hr) => {
                                    let rtype = PayloadUtils::get_payload_type(&hr.payload).cloned().unwrap_or_default();
                                    let body = hr
                                        .payload
                                        .body
                                        .as_ref()
                                        .map(|b| String::from_utf8_lossy(&b.value).into_owned())
                                        .unwrap_or_default();
                                    let bj: Value = serde_json::from_str(&body).unwrap_or(Value::Null);
                                    out.push(json!({
                                        "has_session": has_session, "cluster_ok": cluster_ok, "success": hr.success,
                                        "resp_type": rtype, "error_code": bj["errorCode"], "message": bj["message"],
                                        "handler_message": hr.message,
                                    }));
                                }
                                Err(e) => out.push(json!({"has_session": has_session, "cluster_ok": cluster_ok, "handler_error": e.to_string()})),
                            }
                        }
                        json!({"r":"ok","out":out,
                               "enable_auth": app.sys_config.openapi_enable_auth,
                               "cluster_token_configured": !app.sys_config.cluster_token.is_empty()})
                    })
                }));
                match r {
                    Ok(v) => v,
                    Err(_) => json!({"r":"panic"}),
                }
            }
            _ => json!({"r":"badcase"}),
        }
    }
}
