//! Snapshot file writer/reader on one path: optional previous content, then the REAL
//! `SnapshotWriter::init` + `write_record`* + `flush`, then the REAL `SnapshotReader::init` + `read_record`*.
//!
//! case {"old":[[tree,key bytes,value bytes]..]|null, "old_raw":[bytes]|null,
//!       "hdr":{"last_index":n,"last_term":n,"member":[..],"member_after_consensus":[..]?,"node_addrs":[[id,addr]..]?},
//!       "recs":[[tree,key bytes,value bytes],..]}
//! out  {"r":"ok","file_len":n,"file":[bytes] (<= 6000),"header":{..},"records":[[tree,key,value]..],
//!       "end":"none"|"err","frames":{"header":[bytes],"records":[[bytes]..],"old_header":..,"old_records":..}}
//!      | {"r":"head_err","file_len","file","frames"}
//! `old` is written by a real SnapshotWriter with the same header and then closed; `old_raw` is written as is.
use super::{block_on, bytes_of, json_bytes, smutil, Suite};
use rnacos::raft::filestore::model::{SnapshotHeaderDto, SnapshotRecordDto};
use rnacos::raft::filestore::raftsnapshot::{SnapshotReader, SnapshotWriter};
use serde_json::{json, Value};
use std::panic::{catch_unwind, AssertUnwindSafe};
use std::sync::Arc;

pub struct SnapFile {}

impl SnapFile {
    pub fn new() -> Self {
        SnapFile {}
    }
}

fn header_of(v: &Value) -> SnapshotHeaderDto {
    let list = |x: &Value| -> Vec<u64> {
        x.as_array()
            .map(|a| a.iter().filter_map(|e| e.as_u64()).collect())
            .unwrap_or_default()
    };
    let mut node_addrs = std::collections::HashMap::new();
    if let Some(a) = v["node_addrs"].as_array() {
        for e in a {
            if let (Some(id), Some(addr)) = (e[0].as_u64(), e[1].as_str()) {
                node_addrs.insert(id, Arc::new(addr.to_string()));
            }
        }
    }
    SnapshotHeaderDto {
        last_index: v["last_index"].as_u64().unwrap_or(0),
        last_term: v["last_term"].as_u64().unwrap_or(0),
        member: list(&v["member"]),
        member_after_consensus: list(&v["member_after_consensus"]),
        node_addrs,
    }
}

fn recs_of(v: &Value) -> Vec<SnapshotRecordDto> {
    v.as_array()
        .map(|a| {
            a.iter()
                .map(|r| SnapshotRecordDto {
                    tree: Arc::new(r[0].as_str().unwrap_or("").to_string()),
                    key: bytes_of(&r[1]),
                    value: bytes_of(&r[2]),
                    op_type: 0,
                })
                .collect()
        })
        .unwrap_or_default()
}

async fn write_real(
    path: &str,
    header: SnapshotHeaderDto,
    recs: &[SnapshotRecordDto],
) -> anyhow::Result<()> {
    let mut w = SnapshotWriter::init(path, header).await?;
    for r in recs {
        w.write_record(r).await?;
    }
    w.flush().await?;
    drop(w); // closes the tokio file; flush() above has waited for the pending write
    Ok(())
}

/// {"k":"flush_ack","n":records,"size":bytes of each value}: the real SnapshotWriterACTOR, the way
/// do_build_snapshot uses it: records, ONE Flush; at the moment the answer to Flush arrives, how many bytes of the file
/// are on disk?  (the catalogue is saved right after that answer: it must never name an incomplete file)
fn run_flush_ack(case: &Value) -> anyhow::Result<Value> {
    use actix::Actor;
    use rnacos::raft::filestore::raftsnapshot::{SnapshotWriterActor, SnapshotWriterRequest};
    let n = case["n"].as_u64().unwrap_or(3) as usize;
    let size = case["size"].as_u64().unwrap_or(100) as usize;
    let dir = tempfile::tempdir()?;
    let path = Arc::new(dir.path().join("snapshot_1").to_string_lossy().into_owned());
    let header = header_of(&json!({"last_index": 1, "last_term": 1, "member": [1]}));
    let mut want = smutil::header_frame(&header).len();
    let recs: Vec<SnapshotRecordDto> = (0..n)
        .map(|i| SnapshotRecordDto {
            tree: Arc::new("T_X".to_string()),
            key: format!("k{}", i).into_bytes(),
            value: vec![(i % 251) as u8; size],
            op_type: 0,
        })
        .collect();
    for r in &recs {
        want += smutil::record_frame(&r.tree, &r.key, &r.value).len();
    }
    let p2 = path.clone();
    let sys = actix_rt::System::new();
    let (at_ack, later) = sys.block_on(async move {
        let w = SnapshotWriterActor::new(p2.clone(), header).start();
        for r in recs {
            w.send(SnapshotWriterRequest::Record(r)).await.ok();
        }
        w.send(SnapshotWriterRequest::Flush).await.ok();
        let at_ack = std::fs::metadata(p2.as_str()).map(|m| m.len()).unwrap_or(0);
        tokio::time::sleep(std::time::Duration::from_millis(300)).await;
        let later = std::fs::metadata(p2.as_str()).map(|m| m.len()).unwrap_or(0);
        (at_ack, later)
    });
    Ok(json!({"r": "ok", "want": want, "at_ack": at_ack, "later": later}))
}

fn run_case(case: &Value) -> anyhow::Result<Value> {
    if case["k"].as_str() == Some("flush_ack") {
        return run_flush_ack(case);
    }
    let dir = tempfile::tempdir()?;
    let path = dir.path().join("snapshot_1").to_string_lossy().into_owned();
    let header = header_of(&case["hdr"]);
    let recs = recs_of(&case["recs"]);
    let old = if case["old"].is_null() {
        None
    } else {
        Some(recs_of(&case["old"]))
    };
    let mut frames = json!({
        "header": json_bytes(&smutil::header_frame(&header)),
        "records": recs.iter().map(|r| json_bytes(&smutil::record_frame(&r.tree, &r.key, &r.value))).collect::<Vec<_>>(),
    });
    if let Some(o) = &old {
        frames["old_header"] = json_bytes(&smutil::header_frame(&header));
        frames["old_records"] = Value::Array(
            o.iter()
                .map(|r| json_bytes(&smutil::record_frame(&r.tree, &r.key, &r.value)))
                .collect(),
        );
    }
    let out = block_on(async {
        if let Some(o) = &old {
            write_real(&path, header.clone(), o).await?;
        } else if !case["old_raw"].is_null() {
            tokio::fs::write(&path, bytes_of(&case["old_raw"])).await?;
        }
        let old_len = std::fs::metadata(&path).map(|m| m.len()).ok();
        write_real(&path, header.clone(), &recs).await?;
        let file = std::fs::read(&path)?;
        let mut base = json!({"file_len": file.len(), "old_len": old_len, "frames": frames});
        if file.len() <= 6000 {
            base["file"] = json_bytes(&file);
        }
        let mut reader = match SnapshotReader::init(&path).await {
            Ok(r) => r,
            Err(_) => {
                base["r"] = json!("head_err");
                return anyhow::Ok(base);
            }
        };
        let h = reader.get_header().clone();
        let mut addrs: Vec<(u64, String)> = h
            .node_addrs
            .iter()
            .map(|(k, v)| (*k, v.as_ref().clone()))
            .collect();
        addrs.sort();
        let mut records = vec![];
        let end;
        loop {
            match reader.read_record().await {
                Ok(Some(r)) => {
                    let mut e = vec![
                        json!(r.tree.as_ref()),
                        json_bytes(&r.key),
                        json_bytes(&r.value),
                    ];
                    if r.op_type != 0 {
                        e.push(json!(r.op_type));
                    }
                    records.push(Value::Array(e));
                }
                Ok(None) => {
                    end = "none";
                    break;
                }
                Err(_) => {
                    end = "err";
                    break;
                }
            }
            if records.len() > 100_000 {
                end = "runaway";
                break;
            }
        }
        base["r"] = json!("ok");
        base["header"] = json!({"last_index": h.last_index, "last_term": h.last_term, "member": h.member,
            "member_after_consensus": h.member_after_consensus, "node_addrs": addrs});
        base["records"] = Value::Array(records);
        base["end"] = json!(end);
        Ok(base)
    })?;
    Ok(out)
}

impl Suite for SnapFile {
    fn run(&mut self, case: &Value) -> Value {
        match catch_unwind(AssertUnwindSafe(|| run_case(case))) {
            Ok(Ok(v)) => v,
            Ok(Err(e)) => json!({"r": "error", "msg": e.to_string()}),
            Err(_) => json!({"r": "panic"}),
        }
    }
}
